import PyrefactModel.Offsets
import PyrefactModel.Charnos
/-!
# C13 — match objects are geometrically coherent (offset algebra)

That CPython's `(lineno, col_offset)` delimit the complete text of a node is trusted (it is the definition
the oracle uses); what is proved is the arithmetic between those positions, character offsets and the
reported line / column.
-/
namespace C13

/-- every reported offset lies inside the source, for any text, any line, any byte column -/
theorem span_inside (brk : Char → Bool) (src : List Char) (lineno col : Nat) (h1 : 1 ≤ lineno)
    (h2 : lineno ≤ (splitLines brk src).length) : charPos (splitLines brk src) lineno col ≤ src.length := by
  have := charPos_le (splitLines brk src) lineno col h1 h2
  rwa [splitLines_flatten] at this

/-- byte columns are converted exactly at character boundaries (where CPython reports them), for text in
any script -/
theorem column_exact (line : List Char) (k : Nat) (hk : k ≤ line.length) :
    byteColToChar line (utf8Bytes (line.take k)) = k := byteColToChar_boundary line k hk

/-- on ASCII lines the byte column is the character column -/
theorem column_ascii (line : List Char) (h : ∀ c ∈ line, c.utf8Size = 1) (col : Nat) (hc : col ≤ line.length) :
    byteColToChar line col = col := byteColToChar_ascii line h col hc

/-- **line / column of a match**: for ascending line starts, the reported pair addresses the span start
again (`start_of_line + column = start`), on the line that contains it -/
theorem lineno_col_roundtrip (s0 : Nat) (rest : List Nat) (p : Nat) (hp : s0 ≤ p)
    (hs : (s0 :: rest).Pairwise (· ≤ ·)) :
    let r := linenoCol (s0 :: rest) p
    1 ≤ r.1 ∧ r.1 ≤ (s0 :: rest).length ∧ (s0 :: rest).getD (r.1 - 1) 0 + r.2 = p ∧
      (∀ st, (s0 :: rest)[r.1]? = some st → p < st) := by
  have := linenoColFrom_spec rest 1 s0 p hp hs
  simp only [linenoCol] at this ⊢
  obtain ⟨h1, h2, h3, h4⟩ := this
  refine ⟨h1, by simp; omega, h3, ?_⟩
  intro st hst
  apply h4 st
  have : (linenoColFrom 1 s0 rest p).1 - 1 + 1 = (linenoColFrom 1 s0 rest p).1 := by omega
  rw [this]; exact hst

/-- the physical lines partition the text: nothing lost, nothing invented, for both line-break sets -/
theorem lines_partition (brk : Char → Bool) (src : List Char) : (splitLines brk src).flatten = src :=
  splitLines_flatten brk src

/-- **`get_charnos` in full** (line table, byte columns, blank trimming, decorator look-behind, `keep_first_indent`): the
reported range lies inside the text for every source, all positions on existing lines and every flag combination -/
theorem charnos_inside (src : List Char) (first : Charnos.Pos) (endp : Option Charnos.Pos) (isDef keepIndent : Bool)
    (h1 : 1 ≤ first.lineno)
    (he : ∀ e, endp = some e → 1 ≤ e.lineno ∧ e.lineno ≤ (splitLines astBreak src).length) :
    (Charnos.getCharnos src first endp isDef keepIndent).1 ≤ src.length ∧
      (Charnos.getCharnos src first endp isDef keepIndent).2 ≤ src.length :=
  Charnos.getCharnos_inside src first endp isDef keepIndent h1 he

/-- **Trimming never cuts a non-blank character**: of a node text with a non-blank character a non-empty span survives, what
is cut off in front and behind consists of blanks only, and the span begins and ends with a non-blank character -/
theorem trim_preserves_nonblank (code : List Char) (h : ∃ c ∈ code, Charnos.isSp c = false) :
    (Charnos.trimSpan code).1 < (Charnos.trimSpan code).2 ∧ (Charnos.trimSpan code).2 ≤ code.length ∧
    (∀ c ∈ code.take (Charnos.trimSpan code).1, c = ' ') ∧ (∀ c ∈ code.drop (Charnos.trimSpan code).2, c = ' ') ∧
    (∀ c, code[(Charnos.trimSpan code).1]? = some c → c ≠ ' ') ∧
    (∀ c, code[(Charnos.trimSpan code).2 - 1]? = some c → c ≠ ' ') := Charnos.trim_spec code h

/-- the decorator look-behind moves the start by at most one character and only onto an `@` of a definition;
`keep_first_indent` extends it over blanks only -/
theorem lookbehind_and_indent (src : List Char) (s : Nat) (isDef : Bool) :
    ((if 0 < s && (src.getD (s - 1) ' ' == '@') && isDef then s - 1 else s) = s ∨
      ((if 0 < s && (src.getD (s - 1) ' ' == '@') && isDef then s - 1 else s) + 1 = s ∧
        src.getD (if 0 < s && (src.getD (s - 1) ' ' == '@') && isDef then s - 1 else s) ' ' = '@' ∧ isDef = true)) ∧
    (∀ c ∈ Charnos.slice src (s - Charnos.countLeading Charnos.isSp (src.take s).reverse) s, c = ' ') :=
  ⟨Charnos.lookbehind_spec src s isDef, Charnos.keepIndent_only_blanks src s⟩

/-- non-vacuity: `x = foo( 1 )  ` - the argument list text `( 1 )` trimmed... the node text " 1 " keeps "1" -/
example : Charnos.trimSpan "  1 ".toList = (2, 3) := by decide
example : Charnos.getCharnos "@dec\ndef g():\n    return foo(1)\n".toList ⟨1, 1⟩ (some ⟨3, 17⟩) true false = (0, 31) := by decide

/-- non-vacuity: "é = 1; y = foo(1)" — byte column 11 on a line with one 2-byte character is character 10 -/
example : byteColToChar "é = 1; y = foo(1)".toList 11 = 10 := by decide

end C13
