import PyrefactModel.Offsets
/-!
# C13 — match objects are geometrically coherent (offset algebra)

That CPython's `(lineno, col_offset)` delimit the complete text of a node is trusted (it is the definition
the oracle uses); what is proved is the arithmetic between those positions, character offsets and the
reported line / column.
-/
namespace C13

/-- every reported offset lies inside the source, for any text, any line, any byte column -/
theorem span_inside (brk : Char → Bool) (src : List Char) (lineno col : Nat) (h1 : 1 ≤ lineno)
    (h2 : lineno ≤ (splitLines brk src).length) : charPos (splitLines brk src) lineno col ≤ src.length := by
  have := charPos_le (splitLines brk src) lineno col h1 h2
  rwa [splitLines_flatten] at this

/-- byte columns are converted exactly at character boundaries (where CPython reports them), for text in
any script -/
theorem column_exact (line : List Char) (k : Nat) (hk : k ≤ line.length) :
    byteColToChar line (utf8Bytes (line.take k)) = k := byteColToChar_boundary line k hk

/-- on ASCII lines the byte column is the character column -/
theorem column_ascii (line : List Char) (h : ∀ c ∈ line, c.utf8Size = 1) (col : Nat) (hc : col ≤ line.length) :
    byteColToChar line col = col := byteColToChar_ascii line h col hc

/-- **line / column of a match**: for ascending line starts, the reported pair addresses the span start
again (`start_of_line + column = start`), on the line that contains it -/
theorem lineno_col_roundtrip (s0 : Nat) (rest : List Nat) (p : Nat) (hp : s0 ≤ p)
    (hs : (s0 :: rest).Pairwise (· ≤ ·)) :
    let r := linenoCol (s0 :: rest) p
    1 ≤ r.1 ∧ r.1 ≤ (s0 :: rest).length ∧ (s0 :: rest).getD (r.1 - 1) 0 + r.2 = p ∧
      (∀ st, (s0 :: rest)[r.1]? = some st → p < st) := by
  have := linenoColFrom_spec rest 1 s0 p hp hs
  simp only [linenoCol] at this ⊢
  obtain ⟨h1, h2, h3, h4⟩ := this
  refine ⟨h1, by simp; omega, h3, ?_⟩
  intro st hst
  apply h4 st
  have : (linenoColFrom 1 s0 rest p).1 - 1 + 1 = (linenoColFrom 1 s0 rest p).1 := by omega
  rw [this]; exact hst

/-- the physical lines partition the text: nothing lost, nothing invented, for both line-break sets -/
theorem lines_partition (brk : Char → Bool) (src : List Char) : (splitLines brk src).flatten = src :=
  splitLines_flatten brk src

/-- non-vacuity: "é = 1; y = foo(1)" — byte column 11 on a line with one 2-byte character is character 10 -/
example : byteColToChar "é = 1; y = foo(1)".toList 11 = 10 := by decide

end C13
