import Props.C15
import Props.C16
import Props.C17
/-!
# C02 — every individual rewrite rule preserves behaviour: the rules whose decision cores are modelled

Each entry is the behaviour-preservation statement of one rule (or of the decision core the rule consists of) on
the modelled fragment; the remaining rules have no Lean model and are examined by the rule sweep only (the
evidence lists which rules fired there).
-/
namespace C02

/-- `delete_unreachable_code` (statement lists): same outcome, same consumed oracle stream -/
theorem delete_unreachable_preserves (ω : C16.Oracle) (fuel : Nat) (l : List C16.Stmt) (s : C16.St) :
    C16.execList ω fuel (C16.deleteUnreachable l) s = C16.execList ω fuel l s := C16.unreachable_sound ω fuel l s

/-- `remove_dead_ifs` / constant folding of conditions: the folded value is the value Python computes -/
theorem constant_condition_sound (e : C15.Expr) (v : C15.Val) (h : C15.litValue e = .known v) (env : C15.Env) :
    C15.ev false env e = .ok v := C15.lit_sound e v h env

/-- `swap_if_else` / `early_return` / `early_continue` negate the condition: the negation is the complement -/
theorem negated_condition_sound (I : C17.Interp) (c : C17.Cond) :
    (C17.negate Generated.reverseOps c).eval I = !c.eval I := C17.negate_sound' I c

/-- `replace_negated_numeric_comparison` -/
theorem flip_negated_sound (I : C17.Interp) (c : C17.Cond) :
    (C17.flipNegated Generated.reverseOps c).eval I = c.eval I := C17.flipNegated_sound' I c

/-- `simplify_boolean_expressions` (bound analysis of one and/or node) -/
theorem boolean_bounds_sound (isAnd : Bool) (cs : List C17.Cst) (hs : cs.Pairwise (fun a b => a.idx < b.idx))
    (ρ : Nat → Int) (others : List Bool) :
    match C17.analyse Generated.boundTable isAnd cs with
    | .const b => C17.nary isAnd (cs.map (·.holds ρ) ++ others) = b
    | .drop idxs =>
      C17.nary isAnd ((cs.filter (fun c => !idxs.contains c.idx)).map (·.holds ρ) ++ others) =
        C17.nary isAnd (cs.map (·.holds ρ) ++ others) := C17.bounds_sound isAnd cs hs ρ others

/-- `simplify_constrained_range` -/
theorem constrained_range_sound (β : Nat → Int → Bool) (start stop : Int) (cs : List C17.RCond) :
    match C17.rangeFold start stop cs with
    | .none => True
    | .empty => (C17.intRange start stop).filter (fun x => cs.all (fun c => c.holds β x)) = []
    | .range s e marked =>
      (C17.intRange s e).filter (fun x => marked.all (fun p => p.2 || p.1.holds β x)) =
        (C17.intRange start stop).filter (fun x => cs.all (fun c => c.holds β x)) :=
  C17.rangeFold_sound β start stop cs

/-- rules with a theorem above (names as in the pipeline table); everything else: sweep only -/
def modelledRules : List String :=
  ["fixes.delete_unreachable_code", "fixes.remove_dead_ifs", "fixes.swap_if_else", "fixes.early_return", "fixes.early_continue",
   "fixes.replace_negated_numeric_comparison", "symbolic_math.simplify_boolean_expressions", "symbolic_math.simplify_constrained_range"]

end C02
