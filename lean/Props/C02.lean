import Props.C15
import Props.C16
import Props.C17
import PyrefactModel.C16.Norm
import PyrefactModel.C15.DupKeys
/-!
# C02 — every individual rewrite rule preserves behaviour: the rules whose decision cores are modelled

Each entry is the behaviour-preservation statement of one rule (or of the decision core the rule consists of) on
the modelled fragment; the remaining rules have no Lean model and are examined by the rule sweep only (the
evidence lists which rules fired there).
-/
namespace C02

/-- `delete_unreachable_code` (statement lists): same outcome, same consumed oracle stream -/
theorem delete_unreachable_preserves (ω : C16.Oracle) (fuel : Nat) (l : List C16.Stmt) (s : C16.St) :
    C16.execList ω fuel (C16.deleteUnreachable l) s = C16.execList ω fuel l s := C16.unreachable_sound ω fuel l s

/-- `remove_dead_ifs` / constant folding of conditions: the folded value is the value Python computes -/
theorem constant_condition_sound (e : C15.Expr) (v : C15.Val) (h : C15.litValue e = .known v) (env : C15.Env) :
    C15.ev false env e = .ok v := C15.lit_sound e v h env

/-- `swap_if_else` / `early_return` / `early_continue` negate the condition: the negation is the complement -/
theorem negated_condition_sound (I : C17.Interp) (c : C17.Cond) :
    (C17.negate Generated.reverseOps c).eval I = !c.eval I := C17.negate_sound' I c

/-- `replace_negated_numeric_comparison` -/
theorem flip_negated_sound (I : C17.Interp) (c : C17.Cond) :
    (C17.flipNegated Generated.reverseOps c).eval I = c.eval I := C17.flipNegated_sound' I c

/-- `simplify_boolean_expressions` (bound analysis of one and/or node) -/
theorem boolean_bounds_sound (isAnd : Bool) (cs : List C17.Cst) (hs : cs.Pairwise (fun a b => a.idx < b.idx))
    (ρ : Nat → Int) (others : List Bool) :
    match C17.analyse Generated.boundTable isAnd cs with
    | .const b => C17.nary isAnd (cs.map (·.holds ρ) ++ others) = b
    | .drop idxs =>
      C17.nary isAnd ((cs.filter (fun c => !idxs.contains c.idx)).map (·.holds ρ) ++ others) =
        C17.nary isAnd (cs.map (·.holds ρ) ++ others) := C17.bounds_sound isAnd cs hs ρ others

/-- `simplify_constrained_range` -/
theorem constrained_range_sound (β : Nat → Int → Bool) (start stop : Int) (cs : List C17.RCond) :
    match C17.rangeFold start stop cs with
    | .none => True
    | .empty => (C17.intRange start stop).filter (fun x => cs.all (fun c => c.holds β x)) = []
    | .range s e marked =>
      (C17.intRange s e).filter (fun x => marked.all (fun p => p.2 || p.1.holds β x)) =
        (C17.intRange start stop).filter (fun x => cs.all (fun c => c.holds β x)) :=
  C17.rangeFold_sound β start stop cs

/-- `remove_redundant_boolop_values`, as it runs (repeated by `processing.fix`): the kept operands have the value of the chain -/
theorem boolop_values_preserves {α : Type} (truthy : α → Bool) (n : Nat) (l : List (Option Bool × α)) (h : C15.Consistent truthy l) :
    C15.evalAnd truthy ((C15.iterPass C15.passAnd n l).map (·.2)) = C15.evalAnd truthy (l.map (·.2)) ∧
    C15.evalOr truthy ((C15.iterPass C15.passOr n l).map (·.2)) = C15.evalOr truthy (l.map (·.2)) :=
  C15.boolop_values_iterated_sound truthy n l h

/-- `remove_duplicate_dict_keys`, the part that holds: every key is looked up to the same value -/
theorem duplicate_dict_keys_lookup {κ ν : Type} [DecidableEq κ] (l : List (κ × ν)) (k : κ) :
    (C15.build (C15.keepLast l)).lookup k = (C15.build l).lookup k := C15.keepLast_lookup l k

/-- … and the part that does not (recorded finding `dict-duplicate-key-order`, replayed on the real rule): the order of
the items changes, because Python keeps the position of the FIRST occurrence of a key and the rule keeps the last pair -/
theorem duplicate_dict_keys_order_changes :
    (C15.build (C15.keepLast [(0, 1), (1, 2), (0, 3)])).map (·.1) ≠ (C15.build [(0, 1), (1, 2), (0, 3)]).map (·.1) :=
  C15.order_counterexample

/-- `fixes.unused_zip_args` (`for a, _ in zip(x, y)` → `for a in x`): what the loop sees is unchanged **when the dropped
argument is at least as long** … -/
theorem unused_zip_arg_sound {α β : Type} (a : List α) (b : List β) (h : a.length ≤ b.length) :
    (a.zip b).map (·.1) = a := List.map_fst_zip h

/-- … and not otherwise: `zip('abc', 'x')` stops after one element (recorded finding `zip-truncation`; the rule has no
way of knowing the lengths, the repository's own unit test expects the rewrite) -/
theorem unused_zip_arg_truncates : (['a', 'b', 'c'].zip ['x']).map (·.1) ≠ ['a', 'b', 'c'] := by decide

/-- `remove_duplicate_set_elts` keeps the first occurrence of every constant, which is the set Python builds, in its order -/
theorem duplicate_set_elts_sound {κ : Type} [DecidableEq κ] (l : List κ) : C15.buildS l = C15.keepFirst [] l :=
  C15.keepFirst_build l

/-! ## control-flow rules: a proved validator

`C16.Equiv l l'`: under every oracle (= every valuation of the unknown tests and every iteration count) and from every
state, `l` terminates with outcome `o`, having consumed `p` oracle bits and produced the trace `t` of executed
statements and evaluated tests, iff `l'` does.  The real rules are run on labelled skeleton programs and every rewrite
they make is checked by `C16.validate` (suite `flow-validate`). -/

/-- **validated rewrites preserve behaviour** -/
theorem flow_rewrite_sound (l l' : List C16.Stmt) (h : C16.validate l l' = true) : C16.Equiv l l' :=
  C16.validate_sound l l' h

/-- `remove_redundant_else`, and moving common trailing code out of an if/else (`breakout_common_code_in_ifs`), in one
statement: the continuation of an `if` may be moved into both branches or out of them -/
theorem if_continuation_sound (c : C16.Cond) (a b k : List C16.Stmt) :
    C16.Equiv (.ite c a b :: k) [.ite c (a ++ k) (b ++ k)] := C16.sink c a b k

/-- `swap_if_else` -/
theorem swap_if_else_sound (id : Nat) (a b : List C16.Stmt) :
    C16.EquivS (.ite (.unk id true) a b) (.ite (.unk id false) b a) := C16.swapNeg id a b

/-- `remove_dead_ifs` -/
theorem dead_if_sound (a b k : List C16.Stmt) :
    C16.Equiv (.ite .tt a b :: k) (a ++ k) ∧ C16.Equiv (.ite .ff a b :: k) (b ++ k) ∧ C16.Equiv (.whileS .ff a b :: k) (b ++ k) :=
  ⟨C16.ite_tt a b k, C16.ite_ff a b k, C16.while_ff_drop a b k⟩

/-- `delete_unreachable_code`, now including the trace: whatever follows a statement that `is_blocking` reports may go -/
theorem unreachable_drop_sound (st : C16.Stmt) (hb : C16.blocks .none st = true) (k : List C16.Stmt) :
    C16.Equiv (st :: k) [st] := C16.blocking_drop st hb k

/-- `early_continue` (and its inverse): a `continue` that ends a loop body is the same as falling off the end, for
every kind of loop -/
theorem trailing_continue_sound (b e : List C16.Stmt) (c : C16.Cond) (it : C16.Iter) :
    C16.EquivS (.whileS c b e) (.whileS c (C16.stripL b) e) ∧ C16.EquivS (.forS it b e) (.forS it (C16.stripL b) e) :=
  ⟨C16.EquivS.whileS c (C16.stripL_loopEquiv b) (C16.Equiv.refl e), C16.EquivS.forS it (C16.stripL_loopEquiv b) (C16.Equiv.refl e)⟩

/-- equivalence is not trivial: swapping two statements is not validated, and is not an equivalence -/
theorem reorder_not_equiv : ¬ C16.Equiv [.simple 1, .simple 2] [.simple 2, .simple 1] := by
  intro h
  have h1 : C16.Res (fun _ => false) [.simple 1, .simple 2] ⟨0, []⟩ (.normal, ⟨0, [.stmt 2, .stmt 1]⟩) :=
    ⟨3, by simp [C16.execList, C16.exec], by simp⟩
  obtain ⟨n, hn, _⟩ := (h _ _ _).1 h1
  match n with
  | 0 => simp [C16.execList] at hn
  | 1 => simp [C16.execList, C16.exec] at hn
  | 2 => simp [C16.execList, C16.exec] at hn
  | n + 3 => simp [C16.execList, C16.exec] at hn

/-- early-continue in a loop, as the real rule writes it, is validated -/
example : C16.validate
    [.forS .unk [.simple 1, .ite (.unk 1 false) [.simple 2, .simple 3] []] []]
    [.forS .unk [.simple 1, .ite (.unk 1 true) [.cont] [], .simple 2, .simple 3] []] = true := by
  simp [C16.validate, C16.normL, C16.normS, C16.stripL, C16.stripLast, C16.beqL, C16.beqS, C16.blocksL, C16.blocks, C16.hasJmp, C16.hasJmpL, C16.firstIter]

/-- rules with a theorem above (names as in the pipeline table); everything else: sweep only -/
def modelledRules : List String :=
  ["fixes.delete_unreachable_code", "fixes.remove_dead_ifs", "fixes.swap_if_else", "fixes.early_return", "fixes.early_continue",
   "fixes.remove_redundant_else", "fixes.breakout_common_code_in_ifs (trailing code)", "fixes.remove_redundant_boolop_values", "fixes.remove_duplicate_set_elts", "fixes.remove_duplicate_dict_keys (lookup only)",
   "fixes.replace_negated_numeric_comparison", "symbolic_math.simplify_boolean_expressions", "symbolic_math.simplify_constrained_range"]

end C02
