import PyrefactModel.Preserve
/-! # C08 — preserved names survive, within a file and across files (guard logic and preserve-set plumbing) -/
namespace C08
open Preserve

/-- a guarded rule neither deletes nor renames a preserved name, whatever its candidates -/
theorem preserved_not_touched (preserve candidates : List String) (n : String) (h : n ∈ preserve) :
    n ∉ guarded preserve candidates := guarded_spares preserve candidates n h

/-- **Across files**: if a preserved file (with another namespace) uses `x` — as a referenced imported name or as
any attribute name — then `x` is in the preserve set handed to the formatting of the library file -/
theorem client_names_preserved (used : List (String × List String)) (lib client x : String) (names : List String)
    (h1 : (client, names) ∈ used) (h2 : client ≠ lib) (h3 : x ∈ names) : x ∈ filePreserve used lib :=
  (mem_filePreserve used lib x).mpr ⟨(client, names), h1, h2, h3⟩

/-- only the file's own namespace is excluded -/
theorem own_namespace_excluded_only (used : List (String × List String)) (ns x : String) :
    x ∈ filePreserve used ns ↔ ∃ p ∈ used, p.1 ≠ ns ∧ x ∈ p.2 := mem_filePreserve used ns x

/-- what a client contributes: every attribute name it mentions and every imported name it references -/
theorem client_uses_collected (c : ClientSummary) :
    (∀ b a, (b, a) ∈ c.attrs → a ∈ usedNames c) ∧ (∀ n, n ∈ c.nameLoads → n ∈ c.imported → n ∈ usedNames c) :=
  ⟨fun b a h => usedNames_attr c b a h, fun n h1 h2 => usedNames_import c n h1 h2⟩

/-- … the name behind an alias (`from lib import helper as h` needs `helper`), a name imported only to be re-exported, and —
behind a star import — every name the file mentions -/
theorem client_imports_collected (c : ClientSummary) :
    (∀ n, n ∈ c.fromNames → n ∈ usedNames c) ∧ (c.star = true → ∀ n, n ∈ c.allNames → n ∈ usedNames c) :=
  ⟨fun n h => usedNames_from c n h, fun hs n h => usedNames_star c n hs h⟩

end C08
