import PyrefactModel.SchedLemmas
import PyrefactModel.DriverLemmas
import Props.C10
/-! # C20 — opt-out comments are honoured (scheduler and orchestration paths) -/
namespace C20
open Sched

/-- **Skip-file**: a text containing the skip-file comment is returned unchanged, before any normalisation,
for every option combination (and `format_file` then writes nothing: `C03.formatFile_unchanged'`). -/
theorem skipfile_identity {T K : Type} [DecidableEq K] (st : Stages T K) (o : Opts) (src : T)
    (h : st.skip src = true) : formatCode st o src = src := formatCode_skip st o src h

/-- no scheduled rewrite has a range carrying an ignore comment -/
theorem ignored_never_scheduled (ign : Rng → Bool) (groups : List (List Yield)) :
    ∀ x ∈ schedule ign groups, ign x.2.r = false := schedule_ign ign groups

/-- the model of the line scan: a range is "ignored" exactly when some physical line that overlaps it
matches the pattern -/
theorem ignoredFrom_iff (rng : Rng) : ∀ (ls : List (List Char)) (pos : Nat),
    ignoredFrom rng pos ls = true ↔
      ∃ pre l post, ls = pre ++ l :: post ∧
        rng.overlaps ⟨pos + pre.flatten.length, pos + pre.flatten.length + l.length⟩ = true ∧
        ignoreSearch l = true := by
  intro ls
  induction ls with
  | nil => intro pos; simp [ignoredFrom]
  | cons l ls ih =>
    intro pos
    simp only [ignoredFrom, Bool.or_eq_true, Bool.and_eq_true]
    constructor
    · rintro (⟨h1, h2⟩ | h)
      · exact ⟨[], l, ls, rfl, by simpa using h1, h2⟩
      · obtain ⟨pre, l', post, rfl, h1, h2⟩ := (ih _).mp h
        refine ⟨l :: pre, l', post, rfl, ?_, h2⟩
        simp only [List.flatten_cons, List.length_append]
        rw [show pos + (l.length + pre.flatten.length) = pos + l.length + pre.flatten.length by omega]
        exact h1
    · rintro ⟨pre, l', post, heq, h1, h2⟩
      cases pre with
      | nil =>
        simp only [List.nil_append, List.cons.injEq] at heq
        obtain ⟨rfl, rfl⟩ := heq
        left; exact ⟨by simpa using h1, h2⟩
      | cons p pre =>
        simp only [List.cons_append, List.cons.injEq] at heq
        obtain ⟨rfl, rfl⟩ := heq
        right
        apply (ih _).mpr
        refine ⟨pre, l', post, rfl, ?_, h2⟩
        simp only [List.flatten_cons, List.length_append] at h1
        rw [show pos + l.length + pre.flatten.length = pos + (l.length + pre.flatten.length) by omega]
        exact h1

/-- **An ignored line is carried over verbatim by a pass.**  Let `[a, b)` be a stretch of the source (a
physical line) such that every range overlapping it counts as ignored.  Then, for every set of yields
inside the text, it occurs unchanged in the text the pass produces from the schedule. -/
theorem ignored_line_verbatim (ign : Rng → Bool) (groups : List (List Yield)) (src : List Char)
    (a b : Nat) (hab : a ≤ b) (hb : b ≤ src.length)
    (hline : ∀ r : Rng, r.overlaps ⟨a, b⟩ = true → ign r = true)
    (hwf : ∀ x ∈ yielded groups, x.2.r.s ≤ x.2.r.e ∧ x.2.r.e ≤ src.length) :
    Occurs ((src.drop a).take (b - a)) ((schedule ign groups).foldl spliceRw src) := by
  rw [C10.pass_eq_parallel ign groups src hwf]
  apply parallel_untouched src _ 0 a b
    (schedule_chain ign groups src.length hwf (C10.sched_sound ign groups)) (Nat.zero_le _) hab hb
  intro p hp
  rw [List.mem_reverse, List.mem_map] at hp
  obtain ⟨x, hx, rfl⟩ := hp
  have hi := schedule_ign ign groups x hx
  have hno : x.2.r.overlaps ⟨a, b⟩ = false := by
    cases h : x.2.r.overlaps ⟨a, b⟩
    · rfl
    · rw [hline _ h] at hi; cases hi
  rw [Rng.not_overlaps_iff] at hno
  simp only [toSplice]
  rcases hno with h | h
  · right; exact h
  · left; exact h

/-- the same through the rollback: the pass result is the source or contains the line -/
theorem ignored_line_verbatim_pass (valid : List Char → Bool) (ign : Rng → Bool)
    (groups : List (List Yield)) (src : List Char) (a b : Nat) (hab : a ≤ b) (hb : b ≤ src.length)
    (hline : ∀ r : Rng, r.overlaps ⟨a, b⟩ = true → ign r = true)
    (hwf : ∀ x ∈ yielded groups, x.2.r.s ≤ x.2.r.e ∧ x.2.r.e ≤ src.length) :
    Occurs ((src.drop a).take (b - a))
      (applyRewrites valid spliceRw (fun _ s => s) src (schedule ign groups)) := by
  have hsrc : Occurs ((src.drop a).take (b - a)) src :=
    ⟨src.take a, src.drop b, by
      have h1 : src = src.take a ++ src.drop a := (List.take_append_drop a src).symm
      have h2 : src.drop a = (src.drop a).take (b - a) ++ (src.drop a).drop (b - a) :=
        (List.take_append_drop _ _).symm
      rw [List.drop_drop, show a + (b - a) = b by omega] at h2
      calc src = src.take a ++ src.drop a := h1
        _ = src.take a ++ ((src.drop a).take (b - a) ++ src.drop b) := by rw [← h2]
        _ = _ := by simp [List.append_assoc]⟩
  unfold applyRewrites
  simp only []
  split
  · exact hsrc
  · exact ignored_line_verbatim ign groups src a b hab hb hline hwf

end C20
