import PyrefactModel.DriverLemmas
import PyrefactModel.SchedLemmas
import PyrefactModel.Orient
/-! # C09 — repeated formatting converges and never oscillates (orchestration theorems) -/
namespace C09
variable {T K : Type} [DecidableEq K]

/-- why a convergence loop stops: the text equals an *earlier* text of this run, or the budget is spent -/
theorem loop_exit_reason (key : T → K) (multi : T → T) (n : Nat) (hist : List K) (s : T) (c : Nat) :
    key (fixpointLoop key multi n hist s c).1 ∈ (fixpointLoop key multi n hist s c).2.1 ∨
      (fixpointLoop key multi n hist s c).2.2 = c + n :=
  fixpointLoop_exit key multi n hist s c

/-- **No oscillation from a stable text**: a text on which every stage is the identity is returned
unchanged, so repeated formatting stays there. -/
theorem stable_output (st : Stages T K) (o : Opts) (y : T) (hp : 0 < o.maxPasses)
    (hpre : st.pre y = y) (hblank : st.blank y = false) (hvalid : st.valid y = true)
    (hadd : st.addImports y = y) (hsingle : st.singleRun y = y) (hmulti : st.multi y = y)
    (hover : ∀ b, st.overused b y = y) (hsimp : st.simplifyAssign y = y) (halign : st.alignNames y = y)
    (hrem : st.removeUnusedImports y = y) (hsort : st.sortImports y = y) (hline : st.lineLengths y = y)
    (hrm : st.rmspace y = y) (hmin : st.minimize y y = y) : formatCode st o y = y :=
  formatCode_stable st o y hp hpre hblank hvalid hadd hsingle hmulti hover hsimp halign hrem hsort hline hrm hmin

def iter (f : T → T) : Nat → T → T
  | 0, x => x
  | n + 1, x => iter f n (f x)

theorem stable_iterate (st : Stages T K) (o : Opts) (y : T) (h : formatCode st o y = y) :
    ∀ n : Nat, iter (formatCode st o) n y = y := by
  intro n
  induction n with
  | zero => rfl
  | succ n ih => simp only [iter, h, ih]

/-- the negative fact that makes C09 a property of the rule set: on a 2-cycle of `multi` the loop stops *on
the cycle*, at a text that is not a fixed point (stub witness: texts 0 ↔ 1) -/
theorem cycle_cut_returns_member :
    (fixpointLoop (T := Nat) (K := Nat) id (fun s => 1 - s) 25 [0] 0 0).1 = 0 ∧ (fun s : Nat => 1 - s) 0 ≠ 0 := by
  decide

/-- `processing.fix` remembers only the *initial* text: it stops early only when a pass returns exactly the
text it started from (see also `C10.fix_history_initial_only`) -/
theorem fix_history_asymmetry {T : Type} [DecidableEq T] (pass : T → T) (n : Nat) (init cur : T)
    (h : pass cur ≠ init) : fixLoop pass (n + 1) init cur = fixLoop pass n init (pass cur) := by
  simp [fixLoop, h]

/-- **`swap_if_else` cannot exchange the branches of one `if` back and forth**: the orientation heuristic
(`_orelse_preferred_as_body`) never prefers both orders, for all branch summaries that are not both `pass`-only and hold no dead code
behind a leading jump -/
theorem orientation_antisymmetric (b o : Orient.Branch) (hb : Orient.Sane b) (ho : Orient.Sane o)
    (hpass : ¬ (b.allPass = true ∧ o.allPass = true)) (h : Orient.preferOrelse b o = true) :
    Orient.preferOrelse o b = false := Orient.prefer_antisymmetric b o hb ho hpass h

/-- neither hypothesis can be dropped (witnesses evaluated on the model): two `pass`-only branches, and two branches with dead
code behind a leading jump, are preferred in both orders -/
theorem orientation_hypotheses_needed :
    (Orient.preferOrelse ⟨true, false, 1, false, 1⟩ ⟨true, false, 1, false, 1⟩ = true) ∧
    (Orient.preferOrelse ⟨false, true, 1, true, 4⟩ ⟨false, true, 1, true, 4⟩ = true) := Orient.prefer_both_counterexamples

/-- non-vacuity: a long body against `else: return` is swapped, and not swapped back -/
example : Orient.preferOrelse ⟨false, false, 1, false, 4⟩ ⟨false, true, 1, true, 1⟩ = true ∧
    Orient.preferOrelse ⟨false, true, 1, true, 1⟩ ⟨false, false, 1, false, 4⟩ = false := by decide

end C09
