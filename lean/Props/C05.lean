import PyrefactModel.Cache
/-!
# C05 — formatting is a pure function of its input (property theorems)

The cache protocol is proved history-independent **under the hypothesis that no rule hands back a changed
tree** (`RulePure`).  That hypothesis is exactly what the `purity` suite checks on the real rules, and
`mutation_breaks` shows it cannot be dropped.
-/
namespace C05

variable {K V O : Type} [DecidableEq K]

/-- after every history of pure rule calls the cache holds at most `cap` entries, one per key, each equal
to the parse of its key -/
theorem cache_wf_faithful (parse : K → V) (rules : Nat → Rule K V O) (hr : ∀ i, RulePure (rules i))
    (cap : Nat) (h : List (Nat × K)) :
    WF (runHistory parse rules ⟨cap, []⟩ h) ∧ Faithful parse (runHistory parse rules ⟨cap, []⟩ h) :=
  runHistory_inv parse rules hr h ⟨cap, []⟩ ⟨by simp, by simp⟩ (by intro p hp; cases hp)

/-- **History independence**: the output of a call after any history of earlier calls (any rules, any
sources, any capacity — evictions included) equals its output in a fresh process. -/
theorem history_independent (parse : K → V) (rules : Nat → Rule K V O) (hr : ∀ i, RulePure (rules i))
    (cap : Nat) (h : List (Nat × K)) (i : Nat) (k : K) :
    (callRule parse (rules i) (runHistory parse rules ⟨cap, []⟩ h) k).1 =
      (callRule parse (rules i) ⟨cap, []⟩ k).1 := by
  obtain ⟨hw, hf⟩ := cache_wf_faithful parse rules hr cap h
  rw [(callRule_pure parse (rules i) (hr i) _ k hw hf).1]
  rw [(callRule_pure parse (rules i) (hr i) ⟨cap, []⟩ k ⟨by simp, by simp⟩ (by intro p hp; cases hp)).1]

/-- calling twice gives the same result -/
theorem twice_same (parse : K → V) (rules : Nat → Rule K V O) (hr : ∀ i, RulePure (rules i))
    (cap : Nat) (h : List (Nat × K)) (i : Nat) (k : K) :
    (callRule parse (rules i) (callRule parse (rules i) (runHistory parse rules ⟨cap, []⟩ h) k).2 k).1 =
      (callRule parse (rules i) (runHistory parse rules ⟨cap, []⟩ h) k).1 := by
  have hrun : ∀ (h : List (Nat × K)) (c : LRU K V), runHistory parse rules c (h ++ [(i, k)]) =
      (callRule parse (rules i) (runHistory parse rules c h) k).2 := by
    intro h
    induction h with
    | nil => intro c; simp [runHistory]
    | cons p rest ih => intro c; obtain ⟨j, k'⟩ := p; simp only [List.cons_append, runHistory]; exact ih _
  have h1 := history_independent parse rules hr cap (h ++ [(i, k)]) i k
  have h2 := history_independent parse rules hr cap h i k
  rw [← hrun h, h1, h2]

/-- the purity hypothesis cannot be dropped: a rule that edits the cached tree answers differently the
second time (the shape of `remove_redundant_chained_calls` before its repair) -/
theorem mutation_breaks :
    ∃ (r : Rule Nat Nat Nat), ¬ RulePure r ∧
      (callRule id r (callRule id r ⟨4, []⟩ 7).2 7).1 ≠ (callRule id r ⟨4, []⟩ 7).1 := by
  refine ⟨fun _ v => (v, v + 1), ?_, ?_⟩
  · intro h; have := h 0 0; simp at this
  · decide

end C05
