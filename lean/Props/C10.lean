import PyrefactModel.SchedLemmas
/-!
# C10 — rewrites are scheduled transactionally and never overlap (property theorems)

Model: `PyrefactModel/Sched.lean` (`schedule`, `applyRewrites`, `fixLoop`), tied to
`processing._schedule_rewrites / _apply_rewrites / fix / chain` by the `sched-*` and `fixloop`
correspondence suites.  All statements hold for every ignore predicate, every list of rule groups, every
list of yields (any ranges, any texts, explicit or default transaction numbers) — no size bound.
-/
namespace C10
open Sched

/-- No two scheduled rewrites touch overlapping text. -/
theorem sched_nonoverlap (ign : Rng → Bool) (groups : List (List Yield)) :
    (schedule ign groups).Pairwise (fun a b => a.2.r.overlaps b.2.r = false) :=
  schedule_noOv ign groups

/-- Only yielded rewrites are scheduled, under the transaction that yielded them. -/
theorem sched_sound (ign : Rng → Bool) (groups : List (List Yield)) :
    ∀ x ∈ schedule ign groups, x ∈ yielded groups := by
  intro x hx
  obtain ⟨sel, hsub, hmem⟩ := schedule_sel ign groups
  obtain ⟨p, hp, hk, hrw⟩ := mem_flatMap_contrib.mp ((hmem x).mp hx)
  have hprops := (visitedAll_props ign groups initState 0 doneLt_init).2.1 p (hsub.subset hp)
  obtain ⟨k, rw⟩ := x
  simp only at hk hrw
  rw [hprops.2.1, mem_rwsOf] at hrw
  rw [hk]; exact hrw

/-- **Atomicity.** For every transaction key: all rewrites yielded under it are scheduled, or none is. -/
theorem sched_atomic (ign : Rng → Bool) (groups : List (List Yield)) (k : Key) :
    (∀ rw, (k, rw) ∈ yielded groups → (k, rw) ∈ schedule ign groups) ∨
    (∀ rw, (k, rw) ∉ schedule ign groups) := by
  obtain ⟨sel, hsub, hmem⟩ := schedule_sel ign groups
  obtain ⟨hnd, hprops, _⟩ := visitedAll_props ign groups initState 0 doneLt_init
  by_cases hk : ∃ p ∈ visitedAll ign initState 0 groups, p.1 = k
  · obtain ⟨p, hp, rfl⟩ := hk
    rcases sel_atomic hnd hsub hp with h | h
    · left; intro rw hrw
      rw [hmem]; apply h
      rw [(hprops p hp).2.1, mem_rwsOf]; exact hrw
    · right; intro rw hrw; exact h rw ((hmem _).mp hrw)
  · right; intro rw hrw
    obtain ⟨p, hp, hpk, _⟩ := mem_flatMap_contrib.mp ((hmem _).mp hrw)
    exact hk ⟨p, hsub.subset hp, hpk.symm⟩

/-- **Drop reasons.** A transaction that survived duplicate elimination (is visited by the accept loop)
and is not scheduled has an ignored range, or two distinct rewrites of its own that overlap, or overlaps a
*scheduled* rewrite of a transaction with precedence (strictly smaller `(group, number)` key). -/
theorem sched_drop_reason (ign : Rng → Bool) (groups : List (List Yield)) (p : Key × List Rw)
    (hp : p ∈ visitedAll ign initState 0 groups)
    (hrej : ∃ rw ∈ p.2, (p.1, rw) ∉ schedule ign groups) :
    (∃ rw ∈ p.2, ign rw.r = true) ∨
    (∃ a ∈ p.2, ∃ b ∈ p.2, a ≠ b ∧ a.r.overlaps b.r = true) ∨
    (∃ x ∈ schedule ign groups, x.1.lt p.1 = true ∧ ∃ rw ∈ p.2, rw.r.overlaps x.2.r = true) := by
  have hs := visitedAll_sorted ign groups initState 0 doneLt_init
  have key := foldl_accept_rejected ign (visitedAll ign initState 0 groups) [] p hp hs
    (by intro x hx; cases hx)
  have hsched : ∀ x, x ∈ schedule ign groups ↔
      x ∈ (visitedAll ign initState 0 groups).foldl (accept ign) [] := by
    intro x; unfold schedule; rw [List.mem_mergeSort, runGroups_sched]; rfl
  obtain ⟨rw, hrw, hnot⟩ := hrej
  rcases key ⟨rw, hrw, fun h => hnot ((hsched _).mpr h)⟩ with h | h | ⟨x, hx, h⟩
  · exact Or.inl h
  · exact Or.inr (Or.inl h)
  · exact Or.inr (Or.inr ⟨x, (hsched x).mpr hx, h⟩)

/-- **Duplicates.** A yielded transaction that the accept loop never visits was eliminated because a transaction
with precedence (strictly smaller key) carries exactly the same tuple of rewrites. -/
theorem sched_dup_reason (ign : Rng → Bool) (groups : List (List Yield)) (k : Key)
    (hk : k ∈ (yielded groups).map (·.1))
    (hnv : k ∉ (visitedAll ign initState 0 groups).map (·.1)) :
    ∃ k', k'.lt k = true ∧ k' ∈ (yielded groups).map (·.1) ∧ rwsOf (yielded groups) k' = rwsOf (yielded groups) k := by
  have := dup_reason_from ign groups initState 0 [] stInv_init k hk hnv
  simpa [yielded, initState] using this

/-- **Drop reasons, complete.** A yielded transaction none of whose rewrites is scheduled (i) has an ignored
range, or (ii) contains two distinct overlapping rewrites, or (iii) has the same rewrite tuple as a transaction
with precedence, or (iv) overlaps a *scheduled* rewrite of a transaction with precedence — and nothing else can
make the scheduler drop it. -/
theorem sched_drop_reason_full (ign : Rng → Bool) (groups : List (List Yield)) (k : Key)
    (hk : k ∈ (yielded groups).map (·.1))
    (hnone : ∀ rw, (k, rw) ∉ schedule ign groups) :
    (∃ rw ∈ rwsOf (yielded groups) k, ign rw.r = true) ∨
    (∃ a ∈ rwsOf (yielded groups) k, ∃ b ∈ rwsOf (yielded groups) k, a ≠ b ∧ a.r.overlaps b.r = true) ∨
    (∃ k', k'.lt k = true ∧ k' ∈ (yielded groups).map (·.1) ∧ rwsOf (yielded groups) k' = rwsOf (yielded groups) k) ∨
    (∃ x ∈ schedule ign groups, x.1.lt k = true ∧ ∃ rw ∈ rwsOf (yielded groups) k, rw.r.overlaps x.2.r = true) := by
  by_cases hv : k ∈ (visitedAll ign initState 0 groups).map (·.1)
  · obtain ⟨p, hp, rfl⟩ := List.mem_map.mp hv
    have hprops := (visitedAll_props ign groups initState 0 doneLt_init).2.1 p hp
    have htup : p.2 = rwsOf (yielded groups) p.1 := hprops.2.1
    -- the transaction yields at least one rewrite
    obtain ⟨x, hx, hxk⟩ := List.mem_map.mp hk
    have hne : ∃ rw ∈ p.2, (p.1, rw) ∉ schedule ign groups := by
      refine ⟨x.2, ?_, hnone x.2⟩
      rw [htup, mem_rwsOf, ← hxk]
      exact hx
    rcases sched_drop_reason ign groups p hp hne with h | h | h
    · left; rw [← htup]; exact h
    · right; left; rw [← htup]; exact h
    · right; right; right
      obtain ⟨y, hy, hlt, rw, hrw, hov⟩ := h
      exact ⟨y, hy, hlt, rw, by rw [← htup]; exact hrw, hov⟩
  · right; right; left
    exact sched_dup_reason ign groups k hk hv

/-- The final order is descending by `(range, new text, transaction)`. -/
theorem sched_sorted (ign : Rng → Bool) (groups : List (List Yield)) :
    (schedule ign groups).Pairwise (fun a b => finalGe a b = true) :=
  schedule_sorted ign groups

/-- **Reverse-position application keeps earlier offsets valid**: applying the scheduled rewrites one after
the other, in scheduled order, as pure splices equals the *simultaneous* substitution read off the original
text, provided every yielded range lies inside the text. -/
theorem pass_eq_parallel (ign : Rng → Bool) (groups : List (List Yield)) (src : List Char)
    (hwf : ∀ x ∈ yielded groups, x.2.r.s ≤ x.2.r.e ∧ x.2.r.e ≤ src.length) :
    (schedule ign groups).foldl spliceRw src =
      parallelFrom src 0 ((schedule ign groups).map toSplice).reverse := by
  have hchain := schedule_chain ign groups src.length hwf (sched_sound ign groups)
  have := seq_eq_parallel ((schedule ign groups).map toSplice) src hchain
  rw [← this]
  unfold seqApplyDesc
  rw [List.foldl_map]
  rfl

/-- every source segment outside the scheduled ranges survives verbatim, in order -/
theorem pass_untouched_preserved (ign : Rng → Bool) (groups : List (List Yield)) (src : List Char)
    (hwf : ∀ x ∈ yielded groups, x.2.r.s ≤ x.2.r.e ∧ x.2.r.e ≤ src.length) :
    (schedule ign groups).foldl spliceRw src =
      interleave (untouchedSegments src 0 ((schedule ign groups).map toSplice).reverse)
        (((schedule ign groups).map toSplice).reverse.map (·.2)) := by
  rw [pass_eq_parallel ign groups src hwf, parallel_eq_interleave]

/-- **Rollback.** If the combined result of the pass is not valid, the pass returns its input exactly;
the result of a pass is always valid when the input is. -/
theorem apply_rollback {T : Type} (valid : T → Bool) (doRw : T → Key × Rw → T) (post : T → T → T)
    (src : T) (rws : List (Key × Rw)) (h : valid (rws.foldl doRw src) = false) :
    applyRewrites valid doRw post src rws = src := by
  simp [applyRewrites, h]

theorem apply_valid {T : Type} (valid : T → Bool) (doRw : T → Key × Rw → T) (post : T → T → T)
    (src : T) (rws : List (Key × Rw)) (h : valid src = true) :
    valid (applyRewrites valid doRw post src rws) = true := by
  unfold applyRewrites
  simp only []
  split
  · exact h
  · split
    · exact h
    · rename_i h2; simpa using h2

/-- **All or nothing for the pass**: its result is the input, or the (post-processed) simultaneous splice
of exactly the scheduled set. -/
theorem pass_all_or_nothing (valid : List Char → Bool) (post : List Char → List Char → List Char)
    (ign : Rng → Bool) (groups : List (List Yield)) (src : List Char)
    (hwf : ∀ x ∈ yielded groups, x.2.r.s ≤ x.2.r.e ∧ x.2.r.e ≤ src.length) :
    applyRewrites valid spliceRw post src (schedule ign groups) = src ∨
    applyRewrites valid spliceRw post src (schedule ign groups) =
      post src (parallelFrom src 0 ((schedule ign groups).map toSplice).reverse) := by
  unfold applyRewrites
  simp only []
  split
  · left; rfl
  · split
    · left; rfl
    · right; rw [pass_eq_parallel ign groups src hwf]

/-- `processing.fix` stops as soon as a pass returns the *initial* text (its history set is never extended) -/
theorem fix_history_initial_only {T : Type} [DecidableEq T] (pass : T → T) (n : Nat) (init cur : T)
    (h : pass cur = init) : fixLoop pass (n + 1) init cur = init := by
  simp [fixLoop, h]

theorem fix_budget_zero {T : Type} [DecidableEq T] (pass : T → T) (init cur : T) :
    fixLoop pass 0 init cur = cur := rfl

/-! ### non-vacuity: a concrete run in which a transaction is dropped for overlap, one is ignored, and
two are applied -/

def exYields : List (List Yield) :=
  [[⟨⟨6, 9⟩, "M0", some 1⟩, ⟨⟨11, 14⟩, "M1", some 1⟩, ⟨⟨8, 12⟩, "M2", none⟩],
   [⟨⟨16, 16⟩, "M3", none⟩, ⟨⟨30, 33⟩, "M4", none⟩]]

-- evaluated by the compiler (a test, not a kernel proof): the default-numbered M2 has precedence (default
-- numbers start at -10^8) and is applied; transaction (0,1) = {M0, M1} overlaps it and is dropped as a
-- whole; M4 lies on an "ignored" range; M3 is an insertion
#guard (schedule (fun r => decide (26 ≤ r.s)) exYields).map (fun x => (x.1.g, x.2.r.s, x.2.new)) ==
    [(1, 16, "M3"), (0, 8, "M2")]
-- with explicit numbers only, the two-rewrite transaction 1 wins and is applied completely
#guard (schedule (fun _ => false) [[⟨⟨6, 9⟩, "M0", some 1⟩, ⟨⟨11, 14⟩, "M1", some 1⟩, ⟨⟨8, 12⟩, "M2", some 2⟩]]).map
    (fun x => (x.1.t, x.2.r.s, x.2.new)) == [(1, 11, "M1"), (1, 6, "M0")]

end C10
