import PyrefactModel.DriverLemmas
import PyrefactModel.Sched
import PyrefactModel.Generated.Consts
/-! # C04 — the formatter is total (termination budgets; exceptions are outside the model) -/
namespace C04
variable {T K : Type} [DecidableEq K]

/-- `_multi_run_fixes` runs at most `2 · MAX_FILE_PASSES` times per `format_code` call -/
theorem formatCode_pass_bound (st : Stages T K) (keep : Bool) (src : T) :
    (formatCodeCount st ⟨keep, Generated.maxFilePasses⟩ src).2 ≤ 2 * Generated.maxFilePasses :=
  formatCode_multi_bound st ⟨keep, Generated.maxFilePasses⟩ src

/-- number of scheduler passes of `processing.fix` / `chain`, counted -/
def fixLoopCount {T : Type} [DecidableEq T] (pass : T → T) : Nat → T → T → Nat
  | 0, _, _ => 0
  | n + 1, init, cur => if pass cur = init then 1 else 1 + fixLoopCount pass n init (pass cur)

theorem fix_pass_bound {T : Type} [DecidableEq T] (pass : T → T) (n : Nat) (init cur : T) :
    fixLoopCount pass n init cur ≤ n := by
  induction n generalizing cur with
  | zero => simp [fixLoopCount]
  | succ n ih =>
    simp only [fixLoopCount]
    split
    · omega
    · have := ih (pass cur); omega

/-- skip-file / blank / invalid input is returned after the whitespace normalisation only -/
theorem early_returns (st : Stages T K) (o : Opts) (src : T) :
    (st.skip src = true → formatCode st o src = src) ∧
    (st.skip src = false → st.blank (st.pre src) = true → formatCode st o src = st.pre src) ∧
    (st.skip src = false → st.blank (st.pre src) = false → st.valid (st.pre src) = false →
      st.valid (st.dedent (st.pre src)) = false → formatCode st o src = st.dedent (st.pre src)) :=
  ⟨formatCode_skip st o src, fun hs => (formatCode_early st o src hs).1, fun hs => (formatCode_early st o src hs).2⟩

example : Generated.maxFilePasses = 25 ∧ Generated.fixMaxIter = 5 := by decide

end C04
