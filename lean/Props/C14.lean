import Props.C10
import Props.C20
/-!
# C14 — pattern substitution rewrites exactly the matches and nothing else (composition of C10 / C20)

`sub` / `subn` is `processing.fix(max_iter = 1)` over the rewrites `find_replace` yields (one default-numbered
transaction per match), cut off after `count` yields.
-/
namespace C14
open Sched

/-- the yields of `subn`: the first `count` items of the match stream (`count = 0` means all) -/
def takeCount (count : Nat) (ys : List Yield) : List Yield := if count = 0 then ys else ys.take count

/-- reported number of replacements = number of yielded items, bounded by `count` -/
theorem subn_count_bound (count : Nat) (ys : List Yield) (h : 0 < count) :
    (takeCount count ys).length ≤ count ∧ (takeCount count ys).length ≤ ys.length := by
  unfold takeCount
  rw [if_neg (by omega)]
  simp [List.length_take]; omega

/-- applied rewrites ≤ yielded rewrites: only yielded rewrites are scheduled -/
theorem applied_le_yielded (ign : Rng → Bool) (ys : List Yield) :
    ∀ x ∈ schedule ign [ys], x ∈ yielded [ys] := C10.sched_sound ign [ys]

/-- **No occurrence → the source, unchanged**: without yields the pass is the identity (and the string
restoration stage returns its input when it equals the original) -/
theorem sub_nomatch_id (valid : List Char → Bool) (ign : Rng → Bool) (src : List Char) (hv : valid src = true) :
    applyRewrites valid spliceRw (fun _ s => s) src (schedule ign [[]]) = src := by
  have : schedule ign [[]] = [] := by
    have h := C10.sched_sound ign [[]]
    cases hs : schedule ign [[]] with
    | nil => rfl
    | cons x xs =>
      have := h x (by rw [hs]; simp)
      simp [yielded, yieldedFrom, fill] at this
  simp [applyRewrites, this, hv]

/-- **Exactly the matches**: the result is the source, or the simultaneous replacement of the scheduled
(non-overlapping, non-ignored) matches by their instantiated templates; every stretch of source outside
those ranges occurs verbatim, in order -/
theorem sub_is_parallel_splice (valid : List Char → Bool) (ign : Rng → Bool) (ys : List Yield) (src : List Char)
    (hwf : ∀ x ∈ yielded [ys], x.2.r.s ≤ x.2.r.e ∧ x.2.r.e ≤ src.length) :
    applyRewrites valid spliceRw (fun _ s => s) src (schedule ign [ys]) = src ∨
    applyRewrites valid spliceRw (fun _ s => s) src (schedule ign [ys]) =
      interleave (untouchedSegments src 0 ((schedule ign [ys]).map toSplice).reverse)
        (((schedule ign [ys]).map toSplice).reverse.map (·.2)) := by
  rcases C10.pass_all_or_nothing valid (fun _ s => s) ign [ys] src hwf with h | h
  · exact Or.inl h
  · right; rw [h, parallel_eq_interleave]

/-- **Lines carrying an ignore comment are never rewritten** -/
theorem sub_ignore_respected (valid : List Char → Bool) (ign : Rng → Bool) (ys : List Yield) (src : List Char)
    (a b : Nat) (hab : a ≤ b) (hb : b ≤ src.length)
    (hline : ∀ r : Rng, r.overlaps ⟨a, b⟩ = true → ign r = true)
    (hwf : ∀ x ∈ yielded [ys], x.2.r.s ≤ x.2.r.e ∧ x.2.r.e ≤ src.length) :
    Occurs ((src.drop a).take (b - a)) (applyRewrites valid spliceRw (fun _ s => s) src (schedule ign [ys])) :=
  C20.ignored_line_verbatim_pass valid ign [ys] src a b hab hb hline hwf

/-- the result of `sub` is valid Python for valid input (the pass is guarded) -/
theorem sub_valid (valid : List Char → Bool) (ign : Rng → Bool) (ys : List Yield) (src : List Char)
    (h : valid src = true) : valid (applyRewrites valid spliceRw (fun _ s => s) src (schedule ign [ys])) = true :=
  C10.apply_valid valid spliceRw (fun _ s => s) src _ h

end C14
