import PyrefactModel.C15.LitLemmas
import PyrefactModel.C15.BoolOpValues
/-!
# C15 — compile-time constant evaluation agrees with Python (fragment)

`ev env` is the reference semantics (suite `pyeval`: against CPython `eval`), `litValue` the model of
`core.literal_value` (suite `lit`).  Fragment: int / bool / None / str constants, tuples and lists, names,
`not`, unary minus, `+ - * // %`, chained comparisons, `and` / `or` with value semantics, the builtins
`len abs bool int min max`; any other call is a side effect.
-/
namespace C15

/-- **Soundness**: a value reported by constant evaluation is the value of the expression in every
environment. -/
theorem lit_sound (e : Expr) (v : Val) (h : litValue e = .known v) : ∀ env : Env, ev false env e = .ok v := by
  intro env
  unfold litValue at h
  split at h
  · cases h
  · split at h
    · rename_i w hw
      cases h
      exact ev_mono env e v hw
    all_goals cases h

/-- an expression whose evaluation raises is reported unknown, never a value -/
theorem lit_unknown_on_raise (e : Expr) (h : ev true noEnv e = .err) : ∀ v, litValue e ≠ .known v := by
  intro v hk
  unfold litValue at hk
  split at hk
  · cases hk
  · rw [h] at hk; cases hk

/-- a known value involves no call outside the pure builtins — not even in an operand that short-circuit
evaluation would skip -/
theorem lit_no_effects (e : Expr) (v : Val) (h : litValue e = .known v) : impure e = false := by
  unfold litValue at h
  split at h
  · cases h
  · rename_i hi; simpa using hi

/-- a name is never a known value -/
theorem lit_name_unknown (id : Nat) : litValue (.name id) = .unknown := by
  simp [litValue, impure, ev]

/-- `and` / `or` return an operand (value semantics), e.g. `0 and x` is `0` whatever `x` is -/
theorem and_short_circuit (env : Env) (e : Expr) (rest : List Expr) (v : Val) (hrest : rest ≠ [])
    (h : ev false env e = .ok v) (hf : v.truthy = false) : ev false env (.and (e :: rest)) = .ok v := by
  cases rest with
  | nil => exact absurd rfl hrest
  | cons e2 es => simp [ev, evAnd, h, hf]

theorem or_short_circuit (env : Env) (e : Expr) (rest : List Expr) (v : Val) (hrest : rest ≠ [])
    (h : ev false env e = .ok v) (ht : v.truthy = true) : ev false env (.or (e :: rest)) = .ok v := by
  cases rest with
  | nil => exact absurd rfl hrest
  | cons e2 es => simp [ev, evOr, h, ht]

/-- division by zero is "unknown", not a value and not a crash -/
example : litValue (.bin .floordiv (.int 1) (.int 0)) = .unknown := by
  simp [litValue, impure, ev, binop, Val.asInt?]
/-- `0 and f()` is unknown because of the call, although evaluation would skip it -/
example : litValue (.and [.int 0, .othercall 0 []]) = .unknown := by simp [litValue, impure, impureL]

/-- **`remove_redundant_boolop_values` keeps the value of the chain** (not only its truth value): for `and` and for
`or`, for every operand list, every assignment of values to the operands whose known truth values are right, the kept
operands evaluate (Python's value-returning short-circuit semantics) to what the whole chain evaluates to; and a
non-empty chain never becomes empty. -/
theorem boolop_values_sound {α : Type} (truthy : α → Bool) (l : List (Option Bool × α)) (h : Consistent truthy l) :
    evalAnd truthy (keepAnd l) = evalAnd truthy (l.map (·.2)) ∧
    evalOr truthy (keepOr false l) = evalOr truthy (l.map (·.2)) ∧
    (l ≠ [] → keepAnd l ≠ [] ∧ keepOr false l ≠ []) :=
  ⟨keepAnd_sound truthy l h, keepOr_sound truthy l false h rfl, fun hne => ⟨keepAnd_ne_nil l hne, keepOr_ne_nil l hne⟩⟩

/-- the same for the rule as it runs, i.e. repeated by `processing.fix` on its own output any number of times -/
theorem boolop_values_iterated_sound {α : Type} (truthy : α → Bool) (n : Nat) (l : List (Option Bool × α)) (h : Consistent truthy l) :
    evalAnd truthy ((iterPass passAnd n l).map (·.2)) = evalAnd truthy (l.map (·.2)) ∧
    evalOr truthy ((iterPass passOr n l).map (·.2)) = evalOr truthy (l.map (·.2)) :=
  ⟨iterAnd_sound truthy n l h, iterOr_sound truthy n l h⟩

/-- `1 and x and 0 and y` keeps `x and 0`; `0 or 5 or 6 or y` keeps `5 or y` -/
example : keepAnd [(some true, 1), (none, 2), (some false, 3), (none, 4)] = [2, 3] := by simp [keepAnd]
example : keepOr false [(some false, 1), (some true, 2), (some true, 3), (none, 4)] = [2, 4] := by simp [keepOr]

end C15
