import PyrefactModel.C17.BoolSimpLemmas
import PyrefactModel.Generated.BoundTable
import PyrefactModel.Generated.ReverseOps
import PyrefactModel.C17.SumRange
/-! # C17 — boolean, comparison and range rewrites are logically equivalent (property theorems) -/
namespace C17
open Generated

/-- every entry of the regenerated pair table passes the nine-point check … -/
theorem boundTable_ok : boundTable.all entryOk = true := by decide

/-- … hence every pairwise decision of the running code is sound for **all** integers -/
theorem boundTable_sound : ∀ e ∈ boundTable, e.Sound := fun e he =>
  sound_of_entryOk e (List.all_eq_true.mp boundTable_ok e he)

theorem boundTable_rank_ok : boundTable.all entryRankOk = true := by decide

theorem boundTable_rankSound : ∀ e ∈ boundTable, e.RankSound := fun e he =>
  rankSound_of_entryRankOk e (List.all_eq_true.mp boundTable_rank_ok e he)


theorem boundTable_tableOk : TableOk boundTable := ⟨boundTable_sound, boundTable_rankSound⟩

/-- **n-ary bound analysis.**  For the pair table the running code exhibits, for `and` and `or`, for every
list of single-expression constraints in source order (direct operands and operands of nested
same-operator children), every integer valuation `ρ` and whatever the remaining operands evaluate to
(`others`): a constant verdict is the value of the node, and dropping the reported operands does not change
the value of the node. -/
theorem bounds_sound (isAnd : Bool) (cs : List Cst) (hs : cs.Pairwise (fun a b => a.idx < b.idx))
    (ρ : Nat → Int) (others : List Bool) :
    match analyse boundTable isAnd cs with
    | .const b => nary isAnd (cs.map (·.holds ρ) ++ others) = b
    | .drop idxs =>
      nary isAnd ((cs.filter (fun c => !idxs.contains c.idx)).map (·.holds ρ) ++ others) =
        nary isAnd (cs.map (·.holds ρ) ++ others) :=
  analyse_sound boundTable_tableOk isAnd cs hs ρ others

/-- the constraints extracted from the operand list are in source order (hypothesis of `bounds_sound`) -/
theorem cstsFrom_sorted (items : List Item) (i : Nat) :
    (cstsFrom i items).Pairwise (fun a b => a.idx < b.idx) ∧ ∀ c ∈ cstsFrom i items, i ≤ c.idx := by
  induction items generalizing i with
  | nil => simp [cstsFrom]
  | cons it rest ih =>
    obtain ⟨h1, h2⟩ := ih (i + 1)
    cases it with
    | atom id n d => simp only [cstsFrom]; exact ⟨h1, fun c hc => Nat.le_of_succ_le (h2 c hc)⟩
    | cmp v o c f n d =>
      cases n
      · simp only [cstsFrom, List.pairwise_cons, List.mem_cons]
        refine ⟨⟨fun b hb => Nat.lt_of_succ_le (h2 b hb), h1⟩, ?_⟩
        rintro b (rfl | hb)
        · exact Nat.le_refl _
        · exact Nat.le_of_succ_le (h2 b hb)
      · simp only [cstsFrom]; exact ⟨h1, fun c hc => Nat.le_of_succ_le (h2 c hc)⟩

theorem item_eval_text (ρ : Nat → Int) (β : Nat → Bool) (x : Item) :
    x.eval ρ β = (x.text.eval ρ β != x.neg) := by
  cases x <;> simp [Item.eval, Item.text, Item.neg]

/-- **Opposite operands** (`p and not p`, `x > 1 or not x > 1`): the node is constant. -/
theorem opposite_sound (isAnd : Bool) (items : List Item) (ρ : Nat → Int) (β : Nat → Bool)
    (h : hasOpposite items = true) : nary isAnd (items.map (·.eval ρ β)) = !isAnd := by
  rw [nary_ne_iff]
  simp only [hasOpposite, List.any_eq_true, Bool.and_eq_true, Bool.not_eq_true', beq_iff_eq] at h
  obtain ⟨a, ha, ⟨_, han⟩, b, hb, ⟨_, hbn⟩, htext⟩ := h
  intro hall
  have h1 := hall _ (List.mem_map.mpr ⟨a, ha, rfl⟩)
  have h2 := hall _ (List.mem_map.mpr ⟨b, hb, rfl⟩)
  rw [item_eval_text] at h1 h2
  rw [han] at h1; rw [hbn, ← htext] at h2
  cases isAnd <;> cases hx : a.text.eval ρ β <;> simp_all

/-- **Identical operands** (`p and p`): the node has the value of its first operand. -/
theorem allSame_sound (isAnd : Bool) (a : Item) (rest : List Item) (ρ : Nat → Int) (β : Nat → Bool)
    (h : allSame (a :: rest) = true) :
    nary isAnd ((a :: rest).map (·.eval ρ β)) = a.eval ρ β := by
  simp only [allSame, Bool.and_eq_true, List.all_eq_true, beq_iff_eq] at h
  obtain ⟨⟨_, _⟩, hrest⟩ := h
  have hev : ∀ b ∈ rest, b.eval ρ β = a.eval ρ β := by
    intro b hb
    rw [item_eval_text ρ β b, item_eval_text ρ β a, (hrest b hb).1, (hrest b hb).2]
  cases isAnd <;> cases hx : a.eval ρ β <;> simp [nary, hx] <;> intro b hb <;> rw [hev b hb, hx]


/-! ## negation -/

/-- every entry of the imported `REVERSE_OPERATOR_MAPPING` maps an operator to its complement -/
theorem reverseOps_ok : reverseOps.all revEntryOk = true := by decide

theorem reverseOps_sound : ∀ p ∈ reverseOps, RevOk p := fun p hp =>
  revOk_of_entryOk p (List.all_eq_true.mp reverseOps_ok p hp)

/-- **Negation / De Morgan** (`_negate_condition`, used when branches are swapped): the negated condition
has the opposite truth value under every interpretation. -/
theorem negate_sound' (I : Interp) (c : Cond) : (negate reverseOps c).eval I = !c.eval I :=
  negate_sound reverseOps reverseOps_sound I c

/-- **Negated-comparison flipping** (`replace_negated_numeric_comparison`) preserves the value. -/
theorem flipNegated_sound' (I : Interp) (c : Cond) : (flipNegated reverseOps c).eval I = c.eval I :=
  flipNegated_sound reverseOps reverseOps_sound I c

/-! ## range filters -/

/-- **Folding range filters into range arguments**: for integer-literal bounds and unit step (the rule's
guard), for every order in which the conditions are visited and whatever the other conditions are, the
rewritten comprehension iterates over exactly the same integers in the same order. -/
theorem rangeFold_sound (β : Nat → Int → Bool) (start stop : Int) (cs : List RCond) :
    match rangeFold start stop cs with
    | .none => True
    | .empty => (intRange start stop).filter (fun x => cs.all (fun c => c.holds β x)) = []
    | .range s e marked =>
      (intRange s e).filter (fun x => marked.all (fun p => p.2 || p.1.holds β x)) =
        (intRange start stop).filter (fun x => cs.all (fun c => c.holds β x)) := by
  have hinv := foldR_inv β cs ⟨start, stop⟩
  unfold rangeFold
  simp only []
  by_cases hge : (foldR ⟨start, stop⟩ cs).1.start ≥ (foldR ⟨start, stop⟩ cs).1.stop
  · rw [if_pos hge]
    simp only []
    rw [List.filter_eq_nil_iff]
    intro x hx hall
    have := (hinv x).mp ⟨(mem_intRange.mp hx).1, (mem_intRange.mp hx).2,
      fun c hc => List.all_eq_true.mp hall c hc⟩
    omega
  · rw [if_neg hge]
    by_cases hnone : ((foldR ⟨start, stop⟩ cs).2.all fun p => !p.2) = true
    · rw [if_pos hnone]; trivial
    · rw [if_neg hnone]
      simp only []
      apply sorted_ext
      · exact (intRange_sorted _ _).sublist List.filter_sublist
      · exact (intRange_sorted _ _).sublist List.filter_sublist
      · intro x
        simp only [List.mem_filter, mem_intRange, List.all_eq_true, Bool.or_eq_true]
        constructor
        · rintro ⟨⟨h1, h2⟩, h3⟩
          have := (hinv x).mpr ⟨h1, h2, fun p hp hf => by
            rcases h3 p hp with h | h
            · rw [hf] at h; cases h
            · exact h⟩
          exact ⟨⟨this.1, this.2.1⟩, this.2.2⟩
        · rintro ⟨⟨h1, h2⟩, h3⟩
          have := (hinv x).mp ⟨h1, h2, h3⟩
          refine ⟨⟨this.1, this.2.1⟩, fun p hp => ?_⟩
          cases hp2 : p.2
          · exact Or.inr (this.2.2 p hp hp2)
          · exact Or.inl rfl

/-! ## sums over ranges -/

/-- the closed form emitted for `sum(range(a, b))` is the sum **when the range is not reversed** -/
theorem sumRange_sound_partial (a b : Int) (h : a ≤ b) : sumClosed a b = listSum (intRange a b) := by
  have hb : b = a + ((b - a).toNat : Nat) := by omega
  have h2 := two_sum_intRange a (b - a).toNat
  rw [← hb] at h2
  unfold sumClosed
  have hn : (((b - a).toNat : Nat) : Int) = b - a := by omega
  rw [hn] at h2
  have : (b - a) * (a + b - 1) = 2 * listSum (intRange a b) := by
    rw [h2]; congr 1; omega
  rw [this, Int.mul_ediv_cancel_left _ (by decide)]

/-- **what the rule emits for `sum(range(a, b))` is the sum, for all integers `a`, `b`** (empty and reversed ranges included) -/
theorem sumRange_sound (a b : Int) : sumEmitted a b = listSum (intRange a b) := by
  unfold sumEmitted
  by_cases h : a ≥ b
  · rw [if_pos h, intRange_empty a b h]; rfl
  · rw [if_neg h]; exact sumRange_sound_partial a b (by omega)

/-- the closed form alone is not the sum: `sum(range(5, 2))` would be `-9` — what the rule emitted until the repair 41b17e5;
the guard in `sumEmitted` is necessary -/
def SumRangeFull : Prop := ∀ a b : Int, sumClosed a b = listSum (intRange a b)

theorem sumRange_counterexample : ¬ SumRangeFull := by
  intro h
  have := h 5 2
  revert this
  decide

end C17
