import PyrefactModel.DriverLemmas
import Props.C10
/-! # C03 — valid Python in, valid Python out; never write a broken file (guards) -/
namespace C03
variable {T K : Type} [DecidableEq K]

/-- a scheduler pass returns valid text for valid input, whatever the rewrites -/
theorem pass_valid {T : Type} (valid : T → Bool) (doRw : T → Key × Rw → T) (post : T → T → T)
    (src : T) (rws : List (Key × Rw)) (h : valid src = true) :
    valid (applyRewrites valid doRw post src rws) = true :=
  C10.apply_valid valid doRw post src rws h

/-- every iteration of `processing.fix` / `chain` (hence every `@fix` rule and `sub`/`subn`) keeps validity -/
theorem fix_valid {T : Type} [DecidableEq T] (valid : T → Bool) (pass : T → T)
    (hp : ∀ s, valid s = true → valid (pass s) = true) (n : Nat) (init cur : T)
    (h : valid cur = true) : valid (fixLoop pass n init cur) = true := by
  induction n generalizing cur with
  | zero => simpa [fixLoop]
  | succ n ih =>
    simp only [fixLoop]
    split
    · exact hp cur h
    · exact ih _ (hp cur h)

/-- `format_code` returns valid text for valid input **if the stages not wrapped by a validity guard preserve
validity** (they are all named in the hypothesis) -/
theorem formatCode_valid_if (st : Stages T K) (o : Opts) (src : T)
    (hsrc : st.valid src = true)
    (hprev : ∀ s, st.valid s = true → st.valid (st.pre s) = true)
    (hadd : ∀ s, st.valid s = true → st.valid (st.addImports s) = true)
    (hsingle : ∀ s, st.valid s = true → st.valid (st.singleRun s) = true)
    (hmulti : ∀ s, st.valid s = true → st.valid (st.multi s) = true)
    (hover : ∀ b s, st.valid s = true → st.valid (st.overused b s) = true)
    (hsimp : ∀ s, st.valid s = true → st.valid (st.simplifyAssign s) = true)
    (halign : ∀ s, st.valid s = true → st.valid (st.alignNames s) = true)
    (hrem : ∀ s, st.valid s = true → st.valid (st.removeUnusedImports s) = true)
    (hsort : ∀ s, st.valid s = true → st.valid (st.sortImports s) = true)
    (hline : ∀ s, st.valid s = true → st.valid (st.lineLengths s) = true)
    (hrm : ∀ s, st.valid s = true → st.valid (st.rmspace s) = true)
    (hmin : ∀ a b, st.valid b = true → st.valid (st.minimize a b) = true) :
    st.valid (formatCode st o src) = true :=
  formatCode_valid st o src (hprev src hsrc) hadd hsingle hmulti hover hsimp halign hrem hsort hline hrm hmin
    hsrc hprev

/-- a valid file is never replaced by an invalid one, and an unchanged text is not written -/
theorem formatFile_never_breaks' {T : Type} [DecidableEq T] (valid : T → Bool) (format : T → T) (initial out : T)
    (h : formatFile valid format initial = some out) (hv : valid initial = true) :
    valid out = true ∧ out ≠ initial := formatFile_never_breaks valid format initial out h hv

theorem formatFile_unchanged' {T : Type} [DecidableEq T] (valid : T → Bool) (format : T → T) (initial : T)
    (h : format initial = initial) : formatFile valid format initial = none :=
  formatFile_unchanged valid format initial h

end C03
