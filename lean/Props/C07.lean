import PyrefactModel.Preserve
/-!
# C07 — safe mode never removes or renames a module's public surface (guard logic)

Every deleting / renaming rule is handed the safe-mode set as `preserve` and (by its guard) touches only names
outside it; so a name survives if it is in the set.  Which surface names the set contains is proved here; the
parts of the surface it misses are counterexamples (known findings).
-/
namespace C07
open Preserve

/-- top-level functions / classes, top-level assignment targets (as collected), `Class.method` pairs and the
caller's preserve names are all in the safe-mode set -/
theorem safe_set_covers (m : ModSummary) (p : List String) :
    (∀ d ∈ m.defs, d ∈ safeSet m p) ∧ (∀ a ∈ m.assigns, a ∈ safeSet m p) ∧ (∀ x ∈ p, x ∈ safeSet m p) ∧
    (∀ c f, (c, f) ∈ m.classMethods → (c ++ "." ++ f) ∈ safeSet m p) :=
  ⟨safeSet_defs m p, safeSet_assigns m p, safeSet_preserve m p, safeSet_method m p⟩

/-- a guarded rule neither deletes nor renames a name of the safe-mode set -/
theorem safe_surface_ok_partial (m : ModSummary) (p candidates : List String) (n : String)
    (h : n ∈ m.defs ∨ n ∈ m.assigns) : n ∉ guarded (safeSet m p) candidates := by
  apply guarded_spares
  rcases h with h | h
  · exact safeSet_defs m p n h
  · exact safeSet_assigns m p n h

/-- the full surface statement is false for class members: the set contains `Class.method`, a renamer that
looks up the bare name `method` does not find it (model-level witness; replayed on the code) -/
theorem class_member_bare_name_missing :
    let m : ModSummary := ⟨["C"], [("C", "Meth")], []⟩
    "Meth" ∉ safeSet m [] ∧ "C.Meth" ∈ safeSet m [] := by decide

end C07
