import PyrefactModel.Preserve
/-!
# C07 — safe mode never removes or renames a module's public surface (guard logic)

Every deleting / renaming rule is handed the safe-mode set as `preserve` and (by its guard) touches only names
outside it; so a name survives if it is in the set.  Which surface names the set contains is proved here (since the
repairs 00fac0d / 6b0879f: all of the surface the property names).
-/
namespace C07
open Preserve

/-- top-level functions / classes, top-level assignment targets (as collected), `Class.method` pairs and the
caller's preserve names are all in the safe-mode set -/
theorem safe_set_covers (m : ModSummary) (p : List String) :
    (∀ d ∈ m.defs, d ∈ safeSet m p) ∧ (∀ a ∈ m.assigns, a ∈ safeSet m p) ∧ (∀ x ∈ p, x ∈ safeSet m p) ∧
    (∀ c f, (c, f) ∈ m.classMethods → (c ++ "." ++ f) ∈ safeSet m p) ∧
    (∀ c f, (c, f) ∈ m.classAssigns → (c ++ "." ++ f) ∈ safeSet m p) :=
  ⟨safeSet_defs m p, safeSet_assigns m p, safeSet_preserve m p, safeSet_method m p, safeSet_classAssign m p⟩

/-- a guarded rule neither deletes nor renames a name of the safe-mode set -/
theorem safe_surface_ok_partial (m : ModSummary) (p candidates : List String) (n : String)
    (h : n ∈ m.defs ∨ n ∈ m.assigns) : n ∉ guarded (safeSet m p) candidates := by
  apply guarded_spares
  rcases h with h | h
  · exact safeSet_defs m p n h
  · exact safeSet_assigns m p n h

/-- **class members**: every method and every attribute assigned in the body of a top-level class is in the set under its
qualified name, and a rule that renames or moves members looks up the bare name and `Class.member`: it touches none -/
theorem safe_class_member_ok (m : ModSummary) (p candidates : List String) (c n : String)
    (h : (c, n) ∈ m.classMethods ∨ (c, n) ∈ m.classAssigns) : n ∉ memberGuarded (safeSet m p) c candidates := by
  apply memberGuarded_spares
  rcases h with h | h
  · exact Or.inr (safeSet_method m p c n h)
  · exact Or.inr (safeSet_classAssign m p c n h)

/-- the set holds class members only under their qualified name: a renamer that looks up the bare name alone does not
find them — what `align_variable_names_with_convention` did until the repair recorded in KNOWN_FINDINGS.txt (00fac0d);
`memberGuarded` is the guard it has now -/
theorem class_member_bare_name_missing :
    let m : ModSummary := ⟨["C"], [("C", "Meth")], [], []⟩
    "Meth" ∉ safeSet m [] ∧ "C.Meth" ∈ safeSet m [] ∧ "Meth" ∉ memberGuarded (safeSet m []) "C" ["Meth"] := by decide

/-- **members named `_`**: an attribute or method `_` of a top-level class is in the safe-mode set as `Class._`, and the
`_` guard of `delete_pointless_statements` keeps its binding in that class body, whether or not the module reads `_` -/
theorem safe_underscore_member_kept (m : ModSummary) (p : List String) (c : String) (r : Bool)
    (h : (c, "_") ∈ m.classMethods ∨ (c, "_") ∈ m.classAssigns) : keepsUnderscore (safeSet m p) r (some c) = true := by
  have hm : (c ++ "." ++ "_") ∈ safeSet m p := by
    rcases h with h | h
    · exact safeSet_method m p c "_" h
    · exact safeSet_classAssign m p c "_" h
  simp only [keepsUnderscore, Bool.or_eq_true, List.contains_iff_mem]
  exact Or.inr hm

/-- a top-level variable, function or class named `_` is kept in every body -/
theorem safe_underscore_toplevel_kept (m : ModSummary) (p : List String) (r : Bool) (cls : Option String)
    (h : "_" ∈ m.defs ∨ "_" ∈ m.assigns) : keepsUnderscore (safeSet m p) r cls = true := by
  have hm : "_" ∈ safeSet m p := by
    rcases h with h | h
    · exact safeSet_defs m p "_" h
    · exact safeSet_assigns m p "_" h
  simp only [keepsUnderscore, Bool.or_eq_true, List.contains_iff_mem]
  exact Or.inl (Or.inl hm)

/-- what the guard was until 995e49d (it never asked for `Class._`: the same function with `cls = none`) loses the member
`C._` of `class C: _ = 3` in a module that does not read `_`; the guard the code has now keeps it -/
theorem underscore_member_needs_class_lookup :
    let m : ModSummary := ⟨["C"], [], [], [("C", "_")]⟩
    keepsUnderscore (safeSet m []) false none = false ∧ keepsUnderscore (safeSet m []) false (some "C") = true := by decide

end C07
