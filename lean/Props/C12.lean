import PyrefactModel.C12.Match
import PyrefactModel.C12.SelfMatch
import PyrefactModel.C12.Windows
import PyrefactModel.C12.WalkW
/-!
# C12 — pattern matching agrees with its declarative semantics (property theorems)

Soundness and self-match are proved in full; completeness holds on the fragment without backtracking across nested choice
points and is false in general (counterexample replayed on the real code, known finding).
-/
namespace C12

/-- **List quantifiers = the regular-expression reading.**  The repetition vectors tried for a quantified list
of length `n` are exactly the vectors that are admissible position by position (`one` ↦ 1, `?` ↦ 0..1,
`*` ↦ any, `+` ↦ ≥ 1) and sum to `n` — for every quantifier list and every `n`. -/
theorem perms_exact' (qs : List Q) (n : Nat) (c : List Nat) : c ∈ perms qs n ↔ Adm c qs ∧ c.sum = n :=
  perms_exact qs n c

/-- **Soundness of the matcher**: whenever `match_template` succeeds with bindings `b`, the tree is the
template with every named wildcard replaced by a tree of the bound canonical text — the same text for every
occurrence of a name — and every quantified list read as a regular expression. For all trees, templates,
class hierarchies and fuels. -/
theorem match_sound' (key : Key) (isinst : String → List String → Bool) (fuel : Nat) (v : Val) (t : Tm) (b : Bnd)
    (h : matchT key isinst fuel v t = some b) :
    Matches key isinst (fun n => (b.lookup n).getD "") v t :=
  match_sound key isinst fuel v t b h

/-- the bindings returned are functional: one text per name -/
theorem match_functional (key : Key) (isinst : String → List String → Bool) (fuel : Nat) (v : Val) (t : Tm)
    (b : Bnd) (h : matchT key isinst fuel v t = some b) : Func b :=
  (functional key isinst fuel).1 v t b h

/-- **Every piece of code matches itself**: a tree read as a template (atoms as literals, lists as lists of single
items, nodes as node templates over all their fields) is accepted by the matcher, with no bindings, for every tree
whose nodes have distinct field names, every class hierarchy in which a class is an instance of itself, and every
fuel from `need v` on. -/
theorem match_self (key : Key) (isinst : String → List String → Bool) (hrefl : ∀ ty, isinst ty [ty] = true)
    (v : Val) (hw : WF v) (fuel : Nat) (hf : need v ≤ fuel) : matchT key isinst fuel v (asTm v) = some [] :=
  self_match key isinst hrefl v hw fuel hf

/-- the hypotheses are satisfiable: a call node with a list argument -/
example : WF (.node "Call" [("func", .atom "Name:f"), ("args", .list [.atom "int:1", .atom "int:2"])]) := by
  simp [WF, WFF, WFL]

/-- a wildcard without constraints matches everything; a tree never matches a literal of another text -/
example (key : Key) (isinst : String → List String → Bool) (v : Val) :
    matchT key isinst 1 v .anything = some [] := by simp [matchT]

/-- **Statement-sequence search tries every position of a body, each once, in source order, and nothing else**: the tuples
that `walk_sequence` builds with `zip(*(body[i : len(body) - k + i + 1] for i in range(k)))` are exactly the contiguous
windows of `k` statements — for every body and every pattern length `k ≥ 1` (a body shorter than the pattern has none,
also under Python's rule for the negative slice bound that arises then) -/
theorem sequence_windows_exact (body : List Nat) (k : Nat) (hk : 1 ≤ k) (w : List Nat) :
    w ∈ windowsPy body k ↔ ∃ j, j + k ≤ body.length ∧ w = (body.drop j).take k := by
  rw [windowsPy_eq body k hk]
  unfold windows
  split
  · simp only [List.mem_map, List.mem_range]
    constructor
    · rintro ⟨j, hj, rfl⟩; exact ⟨j, by omega, rfl⟩
    · rintro ⟨j, hj, rfl⟩; exact ⟨j, by omega, rfl⟩
  · simp only [List.not_mem_nil, false_iff, not_exists, not_and]
    intro j hj; omega

/-- … and their number is `len - k + 1`: no position is tried twice -/
theorem sequence_windows_count (body : List Nat) (k : Nat) (hk : 1 ≤ k) (hlen : k ≤ body.length) :
    (windowsPy body k).length = body.length + 1 - k := by
  rw [windowsPy_eq body k hk]; simp [windows, hlen]

example : windowsPy [10, 11, 12, 13] 2 = [[10, 11], [11, 12], [12, 13]] := by decide
example : windowsPy [10, 11, 12, 13, 14] 8 = [] := by decide

/-- **The search reports exactly the matching nodes, each once**: for every scope (list of typed nodes), every tuple of
alternative templates, every subclass relation and every matcher — a node is reported iff its type fits one of the templates and
that template matches it; no node is reported twice, however the alternatives overlap -/
theorem search_reports_exactly {ν τ β : Type} [DecidableEq ν] [DecidableEq τ]
    (nodes : List (τ × ν)) (sub : τ → β → Bool) (m : β → ν → Bool) (tms : List β) :
    (WalkW.walk nodes sub m tms).Nodup ∧
    (∀ x, x ∈ WalkW.walk nodes sub m tms ↔ ∃ tm ∈ tms, ∃ t, (t, x) ∈ nodes ∧ sub t tm = true ∧ m tm x = true) :=
  ⟨WalkW.walk_nodup nodes sub m tms,
   fun x => ⟨WalkW.walk_sound nodes sub m tms x,
             fun ⟨tm, htm, t, hx, hs, hm⟩ => WalkW.walk_complete nodes sub m tms tm t x htm hx hs hm⟩⟩

example : WalkW.walk [("Module", 0), ("Expr", 1), ("Name", 2), ("Call", 3), ("Name", 4)]
    (fun t tm => t == tm || (tm == "expr" && (t == "Name" || t == "Call"))) (fun _ _ => true) ["Name", "expr"] = [2, 4, 3] := by decide

/-- **Completeness is false in general** (no backtracking across nested lists): the list
`[1, 2, 3]` against `[*, x, *]` followed by a second occurrence `x := 2` — the first admissible split binds
`x := 1` and the later conflict is not repaired.  Evaluated by the compiler on the model; the same pattern /
source pair is replayed on the real matcher (known finding `nested-list-backtracking`). -/
def cexTm : Tm := .node "Call" [("args", .seq [(.one, .seq [(.star, .anything), (.one, .wild "x" .anything), (.star, .anything)]),
                                              (.one, .wild "x" .anything)])]
def cexVal : Val := .node "Call" [("args", .list [.list [.atom "1", .atom "2", .atom "3"], .atom "2"])]
def cexKey : Key := fun v => match v with | .atom s => s | _ => "?"
#guard (matchT cexKey (fun a bs => bs.contains a) 20 cexVal cexTm).isNone

end C12
