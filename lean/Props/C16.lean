import PyrefactModel.C16.Flow
import PyrefactModel.C16.SideEffectLemmas
import PyrefactModel.C16.SafeCalls
/-!
# C16 — code is treated as unreachable only when it really is (control-flow part)

`blocks` mirrors `core.is_blocking` (tie: suite `blocking`, exhaustive statement shapes); the semantics
`exec` is validated against CPython by suite `exec`.  All statements hold for every oracle (= every
valuation of the unknown conditions and every iteration count) and every fuel.
-/
namespace C16

/-- **Blocking is sound**: a statement reported blocking at function level never completes normally; inside
a loop (`parent = loop`) it surely leaves the function (returns, raises, or diverges). -/
theorem blocking_sound_all (ω : Oracle) (fuel : Nat) :
    (∀ p st s, blocks p st = true → Good p (exec ω fuel st s).1) ∧
    (∀ p l s, blocksL p l = true → Good p (execList ω fuel l s).1) := sound ω fuel

theorem blocking_sound' (ω : Oracle) (fuel : Nat) (st : Stmt) (s : St) (h : blocks .none st = true) :
    (exec ω fuel st s).1 ≠ .normal := blocking_sound ω fuel st s h

/-- **Unreachable code**: deleting everything after the first blocking statement of a statement list changes
neither the outcome, nor the consumed oracle stream, nor the trace of executed statements and evaluated tests,
for every oracle and fuel. -/
theorem unreachable_sound (ω : Oracle) (fuel : Nat) (l : List Stmt) (s : St) :
    execList ω fuel (deleteUnreachable l) s = execList ω fuel l s := deleteUnreachable_sound ω fuel l s

/-- a conditional loop is never blocking: it may run zero times -/
theorem conditional_while_not_blocking (p : Par) (id : Nat) (neg : Bool) (b e : List Stmt) : blocks p (.whileS (.unk id neg) b e) = false := by
  cases p <;> simp [blocks]

/-- `while True` with a loop-level `break` is not blocking -/
theorem while_true_break_not_blocking (p : Par) (b e : List Stmt) (h : hasBrkL b = true) :
    blocks p (.whileS .tt b e) = false := by
  cases p <;> simp [blocks, h]

/-- **Pointless means clean**: whatever `has_side_effect` reports free of side effects contains — anywhere: in a
comprehension element, condition or iterable, a slice, a conditional expression, an f-string, a keyword value —
no store except to `_`, no control transfer / definition / import, no call whose callee is not whitelisted
(methods of literals excepted), and no unknown callable handed to a builtin that calls it, for every whitelist. -/
theorem pure_sound (W : List String) (e : E) (h : hse W e = false) : Clean W e := hse_clean W e h

/-- a call of an unknown function in a comprehension element is a side effect (the repaired clause) -/
example : hse ["print"] (.comp [.call (.name "g" .load) [.name "x" .load] []] [(.name "x" .store, .coll [.const], [])]) = true := by
  decide
/-- `sorted([1], key=g)`: a whitelisted builtin that calls the unknown function it is handed IS a side effect (the clause
added by the repair recorded in KNOWN_FINDINGS.txt), `key=len` with `len` whitelisted and `filter(None, …)` are not -/
example : hse ["sorted"] (.call (.name "sorted" .load) [.coll [.const]] [.keyarg (.name "g" .load)]) = true := by decide
example : hse ["sorted", "len"] (.call (.name "sorted" .load) [.coll [.const]] [.keyarg (.name "len" .load)]) = false := by
  decide
example : hse ["map"] (.call (.name "map" .load) [.name "g" .load, .coll [.const]] []) = true := by decide
example : hse ["filter"] (.call (.name "filter" .load) [.const, .coll [.const]] []) = false := by decide

/-- a `break` in the `else` clause of a nested loop, or in any part of a nested `try`, belongs to the enclosing loop:
such a `while True` is not blocking -/
example : blocks .none (.whileS .tt [.forS .unk [.simple 1] [.brk]] []) = false := by
  simp [blocks, hasBrk, hasBrkL]
example : blocks .none (.whileS .tt [.tryS [.ret] .none [] [.brk]] []) = false := by
  simp [blocks, hasBrk, hasBrkL]
/-- a `try` statement is never reported blocking -/
theorem try_not_blocking (p : Par) (b : List Stmt) (hk : HKind) (hb f : List Stmt) : blocks p (.tryS b hk hb f) = false := by
  cases p <;> simp [blocks]

/-! non-vacuity: concrete shapes on both sides -/
example : blocks .none (.whileS .tt [.ite (.unk 0 false) [.cont] [], .simple 0] [.ret]) = true := by
  simp [blocks, blocksL, firstIter, hasBrk, hasBrkL, hasJmp, hasJmpL]
example : blocks .none (.forS .nonempty [.simple 0, .ite (.unk 0 true) [.ret] [.raise]] []) = true := by
  simp [blocks, blocksL, firstIter, hasBrk, hasBrkL, hasJmp, hasJmpL]
example : blocks .none (.whileS .tt [.ite (.unk 0 false) [.brk] [], .ret] []) = false := by
  simp [blocks, blocksL, firstIter, hasBrk, hasBrkL, hasJmp, hasJmpL]

/-- **Calls are pointless only when they cannot reach an effect**: the names `parsing.safe_callable_names` admits are
self-consistent — a name in the result is a side-effect-free builtin the module does not bind itself, or *every* definition of it
has no effect of its own and calls admitted names only — for every module summary (any number of definitions, redefinitions,
mutual recursion) -/
theorem safe_callables_consistent (base : List String) (all : List SafeCalls.Def) (stores otherBound : List String) (n : String)
    (hn : n ∈ SafeCalls.safeNames base all stores otherBound) :
    n ∈ SafeCalls.startNames base all stores otherBound ∨
    (∀ d ∈ all, d.name = n → d.intrinsic = false ∧ ∀ c ∈ d.calls, c ∈ SafeCalls.safeNames base all stores otherBound) :=
  SafeCalls.safeNames_consistent base all stores otherBound n hn

/-- … hence a call of an admitted name never reaches, at any call depth, a definition with an effect of its own; a builtin
name that the module defines itself is not taken for the builtin -/
theorem safe_callables_no_effect (base : List String) (all : List SafeCalls.Def) (stores otherBound : List String)
    (k : Nat) (n : String) (hn : n ∈ SafeCalls.safeNames base all stores otherBound) :
    SafeCalls.reachesEffect all k n = false ∧
    (n ∈ SafeCalls.startNames base all stores otherBound → ∀ d ∈ all, d.name ≠ n) :=
  ⟨SafeCalls.safeNames_no_effect base all stores otherBound k n hn,
   SafeCalls.startNames_not_defined base all stores otherBound n⟩

/-- non-vacuity: `f` is pure and calls the pure `g`; `h` prints; `k` is defined twice, once with an effect; `len` is
redefined by the module; `traced` has a pure body but a decorator -/
example : SafeCalls.safeNames ["len", "abs"]
    [⟨"f", false, ["g", "abs"], false⟩, ⟨"g", false, [], false⟩, ⟨"h", true, [], false⟩, ⟨"k", false, [], false⟩, ⟨"k", true, [], false⟩,
     ⟨"len", true, [], false⟩, ⟨"traced", false, [], true⟩] [] []
    = ["f", "g", "abs"] := by decide

end C16
