import PyrefactModel.Style
import PyrefactModel.C19.ScopeLemmas
/-!
# C19 — renaming (property theorems)

Two parts.  The name that is constructed (`Style`).  And capture-freedom against Python's scoping rules (`C19/Scope`):
a renaming whose new name is fresh and whose set of renamed occurrences is closed under "refers to the same variable"
keeps the binding structure of the whole program (`rename_capture_free`); the hypotheses are decidable
(`rename_check_sound`) and are evaluated by the harness on every pure renaming a rule performs; both hypotheses are
needed (`merge_counterexample`, `split_counterexample`).  Which occurrences the rules select (`_get_uses_of`) is code,
not model: that is what the translation validation and the execution oracle look at.
-/
namespace C19
open Style

/-- a public rename never starts with an underscore, a private one always does -/
theorem rename_private_prefix (v : List Char) (static priv : Bool) (r : List Char)
    (h : renameVariable v static priv = .ok r) (h1 : v ≠ ['_'])
    (h2 : ¬ (v.take 2 = ['_', '_'] ∧ v.reverse.take 2 = ['_', '_'])) :
    (priv = true → r.head? = some '_') ∧ (priv = false → r.head? ≠ some '_') :=
  rename_prefix v static priv r h h1 h2

/-- `_` and dunder names are left alone -/
theorem rename_exempt (static priv : Bool) : renameVariable ['_'] static priv = .ok ['_'] := by
  simp [renameVariable]

/-- the full statement "the new name is a valid identifier" -/
def RenameValidIdentifier : Prop :=
  ∀ (v : List Char) (static priv : Bool) (r : List Char), v.head?.map isDg ≠ some true →
    renameVariable v static priv = .ok r → r.head?.map isDg ≠ some true

/-- … is false of the code that exists: `rename_variable("_99_YbzA", private=False) = "99_ybz_a"`
(the rewrite is then caught only by the parse rollback of C10) -/
theorem rename_valid_identifier_counterexample : ¬ RenameValidIdentifier := by
  intro h
  have := h "_99_YbzA".toList false false "99_ybz_a".toList (by decide) (by decide)
  exact this (by decide)

/-- **capture-free renaming**: new name fresh, neither name declared global / nonlocal, renamed occurrences all carry the
old name and are closed under "same variable" ⟹ two occurrences refer to the same variable afterwards iff they did
before, for every program, scope nesting and set of occurrences -/
theorem rename_capture_free (P : Prog) (R : Occ → Bool) (old new : String) (hne : new ≠ old)
    (hR : ∀ o ∈ P.occs, R o = true → o.name = old) (hfresh : ∀ o ∈ P.occs, o.name ≠ new)
    (hdo : ∀ d ∈ P.decls, d.2.1 ≠ old) (hdn : ∀ d ∈ P.decls, d.2.1 ≠ new)
    (hclosed : ∀ o ∈ P.occs, R o = true → ∀ o' ∈ P.occs, var P o' = var P o → R o' = true) :
    ∀ o ∈ P.occs, ∀ o' ∈ P.occs,
      (var (rename P R new) (ren R new o) = var (rename P R new) (ren R new o') ↔ var P o = var P o') :=
  rename_partition P R old new hne hR hfresh hdo hdn hclosed

/-- … and every occurrence's variable stays in the scope that owned it -/
theorem rename_scope_kept (P : Prog) (R : Occ → Bool) (old new : String) (hne : new ≠ old)
    (hR : ∀ o ∈ P.occs, R o = true → o.name = old) (hfresh : ∀ o ∈ P.occs, o.name ≠ new)
    (hdo : ∀ d ∈ P.decls, d.2.1 ≠ old) (hdn : ∀ d ∈ P.decls, d.2.1 ≠ new)
    (hclosed : ∀ o ∈ P.occs, R o = true → ∀ o' ∈ P.occs, var P o' = var P o → R o' = true) :
    ∀ o ∈ P.occs, (var (rename P R new) (ren R new o)).1 = (var P o).1 := by
  intro o ho
  rw [rename_var P R old new hne hR hfresh hdo hdn hclosed o ho]

/-- the check the harness runs on the renamings that the rules perform establishes exactly those hypotheses -/
theorem rename_check_sound (P : Prog) (R : Occ → Bool) (old new : String) (h : checkHyps P R old new = true) :
    ∀ o ∈ P.occs, ∀ o' ∈ P.occs,
      (var (rename P R new) (ren R new o) = var (rename P R new) (ren R new o') ↔ var P o = var P o') :=
  checkHyps_sound P R old new h

/-- `def f(): fooBar = 1; FooBar = 2; print(fooBar, FooBar)` as occurrences (scope 1 = f, scope 0 = module) -/
def twoNames : Prog :=
  { occs := [⟨"fooBar", 1, [0], true⟩, ⟨"FooBar", 1, [0], true⟩, ⟨"print", 1, [0], false⟩, ⟨"fooBar", 1, [0], false⟩,
             ⟨"FooBar", 1, [0], false⟩], decls := [] }

/-- non-vacuity: renaming `fooBar` (both occurrences) to the unused `foo_bar` meets the hypotheses -/
example : checkHyps twoNames (fun o => o.name == "fooBar") "fooBar" "foo_bar" = true := by decide

/-- freshness is needed: once `fooBar` is `foo_bar`, renaming `FooBar` to `foo_bar` as well merges two variables (what the
convention rule did before the repair recorded in KNOWN_FINDINGS.txt) -/
theorem merge_counterexample :
    let P := rename twoNames (fun o => o.name == "fooBar") "foo_bar"
    let R : Occ → Bool := fun o => o.name == "FooBar"
    checkHyps P R "FooBar" "foo_bar" = false ∧
      var P ⟨"foo_bar", 1, [0], true⟩ ≠ var P ⟨"FooBar", 1, [0], true⟩ ∧
      var (rename P R "foo_bar") (ren R "foo_bar" ⟨"foo_bar", 1, [0], true⟩)
        = var (rename P R "foo_bar") (ren R "foo_bar" ⟨"FooBar", 1, [0], true⟩) := by
  decide

/-- closedness is needed: renaming the assignment but not the read splits a variable (the read now refers to a global) -/
theorem split_counterexample :
    let R : Occ → Bool := fun o => o.name == "fooBar" && o.binding
    checkHyps twoNames R "fooBar" "foo_bar" = false ∧
      var twoNames ⟨"fooBar", 1, [0], true⟩ = var twoNames ⟨"fooBar", 1, [0], false⟩ ∧
      var (rename twoNames R "foo_bar") (ren R "foo_bar" ⟨"fooBar", 1, [0], true⟩)
        ≠ var (rename twoNames R "foo_bar") (ren R "foo_bar" ⟨"fooBar", 1, [0], false⟩) := by
  decide

/-- Python's lookup in the model: a class scope is not searched from a method, `global` sends a free variable of an inner
function to the module — `class A: x = 1; def m(self): return x` and `def h(): x = 1; def f(): global x; def g(): x` -/
example : var { occs := [⟨"x", 1, [0], true⟩, ⟨"x", 2, [0], false⟩], decls := [] } ⟨"x", 2, [0], false⟩ = (0, "x") := by
  decide
example : var { occs := [⟨"x", 1, [0], true⟩, ⟨"x", 3, [2, 1, 0], false⟩], decls := [(2, "x", Decl.glob)] }
    ⟨"x", 3, [2, 1, 0], false⟩ = (0, "x") := by decide

end C19
