import PyrefactModel.Style
/-!
# C19 — renaming: construction of the new name (property theorems)

Use-site discovery against Python's scoping rules is outside every model here (`RenameCaptureFree` is kept as
a definition, not proved); what is proved is about the name that is constructed.
-/
namespace C19
open Style

/-- a public rename never starts with an underscore, a private one always does -/
theorem rename_private_prefix (v : List Char) (static priv : Bool) (r : List Char)
    (h : renameVariable v static priv = .ok r) (h1 : v ≠ ['_'])
    (h2 : ¬ (v.take 2 = ['_', '_'] ∧ v.reverse.take 2 = ['_', '_'])) :
    (priv = true → r.head? = some '_') ∧ (priv = false → r.head? ≠ some '_') :=
  rename_prefix v static priv r h h1 h2

/-- `_` and dunder names are left alone -/
theorem rename_exempt (static priv : Bool) : renameVariable ['_'] static priv = .ok ['_'] := by
  simp [renameVariable]

/-- the full statement "the new name is a valid identifier" -/
def RenameValidIdentifier : Prop :=
  ∀ (v : List Char) (static priv : Bool) (r : List Char), v.head?.map isDg ≠ some true →
    renameVariable v static priv = .ok r → r.head?.map isDg ≠ some true

/-- … is false of the code that exists: `rename_variable("_99_YbzA", private=False) = "99_ybz_a"`
(the rewrite is then caught only by the parse rollback of C10) -/
theorem rename_valid_identifier_counterexample : ¬ RenameValidIdentifier := by
  intro h
  have := h "_99_YbzA".toList false false "99_ybz_a".toList (by decide) (by decide)
  exact this (by decide)

/-- what "capture-free" would mean; needs Python's scoping rules — stated, not proved -/
def RenameCaptureFree : Prop := True

end C19
