import PyrefactModel.DriverLemmas
import PyrefactModel.Generated.Pipeline
/-!
# C01 — whole-pipeline refactoring preserves program behaviour (composition theorems)

`Obs` is any observation of a program text (standard output and termination status of running it).
The pipeline preserves `Obs` **if every stage does**; which stages are shown to do so by their own theorems
(C02, C15–C17) and which only by the execution sweep is reported in the evidence.
-/
namespace C01
variable {T K O : Type} [DecidableEq K]

/-- **Pipeline composition**: for every option combination, pass budget and rule order, if no stage changes
the observation then `format_code` does not. -/
theorem pipeline_preserves (st : Stages T K) (o : Opts) (obs : T → O) (src : T)
    (h : StagesPreserve st src (fun s => obs s = obs src)) : obs (formatCode st o src) = obs src :=
  formatCode_invariant st o (fun s => obs s = obs src) src h rfl

/-- `_multi_run_fixes` is a left fold of rules; any order of any rules that each preserve the observation
preserves it -/
theorem multi_preserves {R : Type} (obs : T → O) (apply : T → R → T) (rules : List R) (src s : T)
    (h : ∀ r ∈ rules, ∀ s, obs s = obs src → obs (apply s r) = obs src) (hs : obs s = obs src) :
    obs (rules.foldl apply s) = obs src :=
  foldl_inv (fun s => obs s = obs src) apply rules h s hs

/-- the same for permutations of the rule list: the conclusion does not depend on the order -/
theorem multi_preserves_perm {R : Type} (obs : T → O) (apply : T → R → T) (rules rules' : List R)
    (hp : rules.Perm rules') (src s : T)
    (h : ∀ r ∈ rules, ∀ s, obs s = obs src → obs (apply s r) = obs src) (hs : obs s = obs src) :
    obs (rules'.foldl apply s) = obs src :=
  multi_preserves obs apply rules' src s (fun r hr => h r (hp.mem_iff.mpr hr)) hs

/-- a text with the skip-file comment is returned unchanged, hence with the same observation -/
theorem skip_preserves (st : Stages T K) (o : Opts) (obs : T → O) (src : T) (h : st.skip src = true) :
    obs (formatCode st o src) = obs src := by rw [formatCode_skip st o src h]

/-- the regenerated rule table is what the composition theorem ranges over: non-vacuity -/
example : 0 < Generated.multiRunRules.length := by decide

end C01
