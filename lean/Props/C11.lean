import PyrefactModel.Layout
/-!
# C11 — layout stages change whitespace only (line / whitespace algebra)

Proved: every modelled layout stage keeps the sequence of non-whitespace characters.  NOT true: that the value
of string literals is preserved — the stages work on raw text and do not know where a literal is; the
counterexample is evaluated on the model and replayed on the code (known findings).
-/
namespace C11
open Layout

theorem expandtabs_only_whitespace (s : List Char) : nonWs (expandTabs s) = nonWs s := expandTabs_nonWs s
theorem expandtabs_no_tab_left (s : List Char) : '\t' ∉ expandTabs s := expandTabsFrom_no_tab s 0
theorem rmspace_only_whitespace (s : List Char) : nonWs (rmspace s) = nonWs s := rmspace_nonWs s

/-- the blank-line regexes and the final whitespace diff minimisation replace whitespace-only stretches by
whitespace-only stretches: any number of such replacements keeps the non-whitespace characters -/
theorem whitespace_replacement_only_whitespace (a w w' b : List Char) (hw : ∀ c ∈ w, isWs c = true)
    (hw' : ∀ c ∈ w', isWs c = true) : nonWs (a ++ w' ++ b) = nonWs (a ++ w ++ b) :=
  ws_replace_nonWs a w w' b hw hw'

/-- the full statement "layout stages preserve the value of string literals" -/
def LayoutPreservesLiterals : Prop := ∀ s : List Char, expandTabs s = s ∨ ('\t' ∈ s → False)

/-- … is false: a tab inside a literal is expanded like any other (`x = "a<TAB>b"`) -/
theorem layout_changes_literal_counterexample :
    expandTabs "x = \"a\tb\"".toList ≠ "x = \"a\tb\"".toList ∧ rmspace "s = \"\"\"a  \nb\"\"\"".toList ≠ "s = \"\"\"a  \nb\"\"\"".toList := by
  decide

end C11
