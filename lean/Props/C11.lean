import PyrefactModel.Layout
import PyrefactModel.BlankLines
import PyrefactModel.Minimize
/-!
# C11 — layout stages change whitespace only (line / whitespace algebra)

Proved: every modelled layout stage keeps the sequence of non-whitespace characters.  NOT true: that the value
of string literals is preserved — the stages work on raw text and do not know where a literal is; the
counterexample is evaluated on the model and replayed on the code (known findings).
-/
namespace C11
open Layout

theorem expandtabs_only_whitespace (s : List Char) : nonWs (expandTabs s) = nonWs s := expandTabs_nonWs s
theorem expandtabs_no_tab_left (s : List Char) : '\t' ∉ expandTabs s := expandTabsFrom_no_tab s 0
theorem rmspace_only_whitespace (s : List Char) : nonWs (rmspace s) = nonWs s := rmspace_nonWs s

/-- the blank-line regexes and the final whitespace diff minimisation replace whitespace-only stretches by
whitespace-only stretches: any number of such replacements keeps the non-whitespace characters -/
theorem whitespace_replacement_only_whitespace (a w w' b : List Char) (hw : ∀ c ∈ w, isWs c = true)
    (hw' : ∀ c ∈ w', isWs c = true) : nonWs (a ++ w' ++ b) = nonWs (a ++ w ++ b) :=
  ws_replace_nonWs a w w' b hw hw'

/-- **`fix_too_many_blank_lines`** (the three `re.sub` calls, modelled character by character and tied byte for byte):
every line that carries a non-whitespace character survives verbatim — indentation included — and in order; what is
added or removed are whitespace-only lines.  For every text. -/
theorem blanklines_nonblank_lines_verbatim (s : List Char) :
    BlankLines.nbl (BlankLines.fixBlankLines s) = BlankLines.nbl s := BlankLines.fixBlankLines_nbl s

/-- each of the three substitutions on its own, behind any prefix (so also when applied in another order) -/
theorem blanklines_each_substitution (s p : List Char) :
    BlankLines.nbl (p ++ BlankLines.sub1 s) = BlankLines.nbl (p ++ s) ∧
    BlankLines.nbl (p ++ BlankLines.sub2 s) = BlankLines.nbl (p ++ s) ∧
    BlankLines.nbl (p ++ BlankLines.sub3 s) = BlankLines.nbl (p ++ s) :=
  ⟨(BlankLines.sub1_sim s p).symm, (BlankLines.sub2_sim s p).symm, (BlankLines.sub3_sim s p).symm⟩

-- non-vacuity (evaluated by the compiler; the substitutions recurse on the text behind the whitespace run, which the kernel
-- does not unfold): five blank lines inside a function body, one of them with blanks, are reduced to one …
#guard BlankLines.fixBlankLines "def f():\n    a = 1\n\n  \n\n\n\n    b = 2\n".toList == "def f():\n    a = 1\n\n    b = 2\n".toList
#guard BlankLines.fixBlankLines "import os\n\n\n\n\n\nx = 1\n\n\n".toList == "import os\n\n\nx = 1\n".toList
/-- … and the statements are the non-blank lines before and after -/
example : BlankLines.nbl "def f():\n    a = 1\n\n  \n\n\n\n    b = 2\n".toList = ["def f():".toList, "    a = 1".toList, "    b = 2".toList] := by
  decide

/-- **the final whitespace diff minimisation** rebuilds a text with exactly the non-whitespace characters of the
formatted text, for every diff script the line differ may produce (hint lines included) -/
theorem minimize_only_whitespace (sc : Minimize.Script) :
    Minimize.nonSp (Minimize.minimize sc) = Minimize.nonSp (Minimize.newText sc) := Minimize.minimize_nonSp sc

/-- … and is the formatted text itself when no whitespace-only group was added or removed -/
theorem minimize_identity_without_blank_groups (sc : Minimize.Script)
    (h : ∀ sg ∈ Minimize.segments sc, (sg.1 = .plus → Minimize.blankSeg sg.2 = false) ∧ (sg.1 = .minus → Minimize.blankSeg sg.2 = false)) :
    Minimize.minimize sc = Minimize.newText sc := Minimize.minimize_eq_new sc h

/-- non-vacuity: a removed blank line is restored, an added blank line is dropped, a changed line is taken over -/
example : Minimize.minimize [(.same, "a\n".toList), (.minus, "\n".toList), (.same, "b\n".toList), (.plus, "  \n".toList), (.minus, "c=1\n".toList), (.plus, "c = 1\n".toList)]
    = "a\n\nb\nc = 1\n".toList := by decide

/-- the full statement "layout stages preserve the value of string literals" -/
def LayoutPreservesLiterals : Prop := ∀ s : List Char, expandTabs s = s ∨ ('\t' ∈ s → False)

/-- … is false: a tab inside a literal is expanded like any other (`x = "a<TAB>b"`) -/
theorem layout_changes_literal_counterexample :
    expandTabs "x = \"a\tb\"".toList ≠ "x = \"a\tb\"".toList ∧ rmspace "s = \"\"\"a  \nb\"\"\"".toList ≠ "s = \"\"\"a  \nb\"\"\"".toList := by
  decide

end C11
