import PyrefactModel.SchedLemmas
import PyrefactModel.FormatFiles
/-! # C06 — results are deterministic across yield orders, file orders and worker schedules (order independence) -/
namespace C06

/-- the scheduled list depends only on the set of accepted rewrites: any two acceptance orders give the same
final list (ties in the sort key are identical rewrites) -/
theorem final_order_canonical (l1 l2 : List (Key × Rw)) (hp : l1.Perm l2) :
    l1.mergeSort finalGe = l2.mergeSort finalGe := Sched.finalSort_perm l1 l2 hp

theorem final_sort_total (a b : Key × Rw) (h1 : finalGe a b = true) (h2 : finalGe b a = true) : a = b :=
  Sched.finalGe_antisymm a b h1 h2

/-- **Worker schedules**: the tasks of a pass may be executed by the pool in any order (any number of workers,
any completion order); every file ends with the same content — each task reads and writes only its own file -/
theorem worker_schedule_independent (fmt : Nat → Nat → Nat × Bool) (c : Contents) (t1 t2 : List Nat)
    (hp : t1.Perm t2) (hnd : t1.Nodup) (g : Nat) : getC (runTasks fmt c t1) g = getC (runTasks fmt c t2) g :=
  runTasks_perm fmt c t1 t2 hp hnd g

/-- **File order**: `format_files` gives the same files, the same change report and the same pass plan for
every order of the file list -/
theorem file_order_independent (fmt : Nat → Nat → Nat × Bool) (folder : Nat → Nat) (f1 f2 : List Nat)
    (hp : f1.Perm f2) (maxPasses : Nat) (contents : Contents) :
    formatFiles fmt folder f1 maxPasses contents = formatFiles fmt folder f2 maxPasses contents :=
  formatFiles_perm fmt folder f1 f2 hp maxPasses contents

-- with overlapping default-numbered yields the result DOES depend on the yield order (the first one wins):
-- the side condition of order independence, evaluated on the model
#guard (schedule (fun _ => false) [[⟨⟨0, 5⟩, "A", none⟩, ⟨⟨3, 8⟩, "B", none⟩]]).map (·.2.new) == ["A"]
#guard (schedule (fun _ => false) [[⟨⟨3, 8⟩, "B", none⟩, ⟨⟨0, 5⟩, "A", none⟩]]).map (·.2.new) == ["B"]

end C06
