import PyrefactModel.Imports
/-!
# C18 — import normalisation keeps names bound to the same objects (binding semantics of import lists)

Resolution of modules on disk (`importlib`, re-export tracing, `__all__`) is outside the model and examined by
the execution oracle on generated package trees.
-/
namespace C18
open Imports

/-- sorting / merging / moving import statements preserves every binding when the bound names are pairwise
distinct — for every permutation -/
theorem reorder_preserves_env (l1 l2 : List Imp) (hp : l1.Perm l2) (hnd : (l1.map Imp.bound).Nodup) (x : String) :
    env l1 x = env l2 x := env_perm l1 l2 hp hnd x

/-- with distinct bound names every statement's name resolves to its own target -/
theorem unique_binding (imps : List Imp) (hnd : (imps.map Imp.bound).Nodup) (i : Imp) (hi : i ∈ imps) :
    env imps i.bound = some i.target := env_eq_of_unique imps hnd i hi

/-- the side condition is necessary: two imports binding the same alias — sorting them re-binds the alias
(`from m import other as x` / `from m import helper as x`; replayed on the code, known finding) -/
theorem alias_collision_counterexample :
    env [.from_ "m" "other" (some "x"), .from_ "m" "helper" (some "x")] "x" ≠
    env [.from_ "m" "helper" (some "x"), .from_ "m" "other" (some "x")] "x" := by decide

-- `import a.b` binds `a` (evaluated by the compiler): removing it as "unused" because only `a.c` is referenced unbinds `a`
#guard (Imp.plain "os.path" none).bound == "os"

end C18
