import PyrefactModel.Imports
import PyrefactModel.StarImport
/-!
# C18 — import normalisation keeps names bound to the same objects (binding semantics of import lists)

Resolution of modules on disk (`importlib`, re-export tracing, `__all__`) is outside the model and examined by
the execution oracle on generated package trees.
-/
namespace C18
open Imports

/-- sorting / merging / moving import statements preserves every binding when the bound names are pairwise
distinct — for every permutation -/
theorem reorder_preserves_env (l1 l2 : List Imp) (hp : l1.Perm l2) (hnd : (l1.map Imp.bound).Nodup) (x : String) :
    env l1 x = env l2 x := env_perm l1 l2 hp hnd x

/-- with distinct bound names every statement's name resolves to its own target -/
theorem unique_binding (imps : List Imp) (hnd : (imps.map Imp.bound).Nodup) (i : Imp) (hi : i ∈ imps) :
    env imps i.bound = some i.target := env_eq_of_unique imps hnd i hi

/-- **Removing unused or duplicate import statements keeps every other binding**: dropping any selection of statements leaves
the object bound to `x` unchanged for every `x` that none of the dropped statements binds -/
theorem removal_preserves_env (imps : List Imp) (keep : Imp → Bool) (x : String)
    (h : ∀ i ∈ imps, keep i = false → i.bound ≠ x) : env (imps.filter keep) x = env imps x := env_filter imps keep x h

/-- a statement whose name is bound again by a later import can be dropped without changing any binding -/
theorem shadowed_import_removable (a b : List Imp) (i : Imp) (h : ∃ j ∈ b, j.bound = i.bound) (x : String) :
    env (a ++ i :: b) x = env (a ++ b) x := env_remove_shadowed a b i h x

/-- **The validator is sound**: when it accepts a rewrite of the import statements, every used name is bound to the same
object before and after (the check that the suite `import-validate` runs on every output of the real import rules) -/
theorem import_rewrite_check_sound (used : List String) (before after : List Imp) (h : agreeOn used before after = true) :
    ∀ x ∈ used, env before x = env after x := agreeOn_sound used before after h

/-- the validator is not trivial: it rejects the alias collision once sorted, and accepts dropping an unused statement -/
example : agreeOn ["x"] [.from_ "m" "other" (some "x"), .from_ "m" "helper" (some "x")]
    [.from_ "m" "helper" (some "x"), .from_ "m" "other" (some "x")] = false := by decide
example : agreeOn ["o"] [.plain "os" (some "o"), .plain "json" (some "j")] [.plain "os" (some "o")] = true := by decide

/-- the side condition is necessary: two imports binding the same alias — sorting them re-binds the alias
(`from m import other as x` / `from m import helper as x`; replayed on the code, known finding) -/
theorem alias_collision_counterexample :
    env [.from_ "m" "other" (some "x"), .from_ "m" "helper" (some "x")] "x" ≠
    env [.from_ "m" "helper" (some "x"), .from_ "m" "other" (some "x")] "x" := by decide

open StarImport in
/-- **star-import expansion**: when `fix_starred_imports` replaces `from m import *` by an explicit list, the list holds
every name the client references that `m` provides (also one that shadows a builtin or that an inner scope binds as
well), nothing `m` does not provide, and no undefined name of the client is left without a provider -/
theorem star_expansion_keeps_bindings (c : StarImport.Client) (l : List String) (h : StarImport.expand c = some l) :
    (∀ n ∈ c.referenced, n ∈ c.provided → n ∈ l) ∧ (∀ n ∈ l, n ∈ c.provided ∧ n ∈ c.referenced) ∧
    (∀ n ∈ c.undefinedNames, StarImport.dunder n = false → n ∈ c.provided) :=
  ⟨fun n hr hp => expand_complete c l h n hr hp, fun n hn => expand_sound c l h n hn,
   fun n hu hd => expand_no_orphan c l h n hu hd⟩

/-- the list of the undefined names alone (the rule until f6f2dbe) drops a provided name that is also a builtin:
`from shadow import *; print(open(), row)` -/
theorem star_expansion_old_drops_shadowing_name :
    let c : StarImport.Client := ⟨["print", "open", "row"], ["row"], ["open", "row"]⟩
    "open" ∉ StarImport.expandOld c ∧ StarImport.expand c = some ["open", "row"] := by decide

-- an undefined name without a provider: the star import stays (evaluated by the compiler; `String.startsWith` does not reduce in the kernel)
#guard StarImport.expand ⟨["parse", "dyn"], ["parse", "dyn"], ["parse"]⟩ == none
#guard StarImport.expand ⟨["parse", "__file__"], ["parse", "__file__"], ["parse"]⟩ == some ["parse"]

-- `import a.b` binds `a` (evaluated by the compiler): removing it as "unused" because only `a.c` is referenced unbinds `a`
#guard (Imp.plain "os.path" none).bound == "os"

end C18
