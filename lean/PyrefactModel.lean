import PyrefactModel.Basic.Rng
import PyrefactModel.Basic.Splice
import PyrefactModel.Basic.Lines
import PyrefactModel.Sched
import PyrefactModel.SchedLemmas
