import PyrefactModel.C17.RangeFold
/-!
# Closed form emitted for `sum(range(a, b))` by `symbolic_math.simplify_math_iterators`

The rule integrates symbolically and, for integer constants, emits the value of
`(b - a) * (a + b - 1) / 2` (`sumClosed`).  That equals the sum only when the range is not reversed; since the repair
recorded in KNOWN_FINDINGS.txt the rule emits `0` for an empty range (`sumEmitted`).
-/
namespace C17

def sumClosed (a b : Int) : Int := (b - a) * (a + b - 1) / 2

/-- what `simplify_math_iterators` writes for `sum(range(a, b))` with integer literals -/
def sumEmitted (a b : Int) : Int := if a ≥ b then 0 else sumClosed a b

def listSum : List Int → Int
  | [] => 0
  | x :: xs => x + listSum xs

theorem listSum_append (l₁ l₂ : List Int) : listSum (l₁ ++ l₂) = listSum l₁ + listSum l₂ := by
  induction l₁ with
  | nil => simp [listSum]
  | cons x xs ih => simp [listSum, ih]; omega

theorem intRange_succ (a : Int) (n : Nat) :
    intRange a (a + (n + 1 : Nat)) = intRange a (a + (n : Nat)) ++ [a + n] := by
  unfold intRange
  have h1 : (a + ((n + 1 : Nat) : Int) - a).toNat = n + 1 := by omega
  have h2 : (a + (n : Int) - a).toNat = n := by omega
  rw [h1, h2, List.range_succ, List.map_append]
  rfl

/-- twice the sum, to stay in the integers -/
theorem two_sum_intRange (a : Int) (n : Nat) :
    2 * listSum (intRange a (a + (n : Nat))) = (n : Int) * (2 * a + n - 1) := by
  induction n with
  | zero => simp [intRange, listSum]
  | succ n ih =>
    rw [intRange_succ, listSum_append]
    simp only [listSum]
    have : (2 : Int) * (listSum (intRange a (a + (n : Nat))) + (a + n + 0)) =
        2 * listSum (intRange a (a + (n : Nat))) + 2 * (a + n) := by omega
    rw [this, ih]
    push_cast
    have hlin : (2 * a + ((n : Int) + 1) - 1) = 2 * a + n := by omega
    rw [hlin, Int.add_mul, Int.one_mul]
    have hsub : (n : Int) * (2 * a + n - 1) = (n : Int) * (2 * a + n) - n := by
      rw [Int.mul_sub, Int.mul_one]
    rw [hsub]
    omega

theorem intRange_empty (a b : Int) (h : b ≤ a) : intRange a b = [] := by
  unfold intRange
  have : (b - a).toNat = 0 := by omega
  rw [this]; rfl

end C17
