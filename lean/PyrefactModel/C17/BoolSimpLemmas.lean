import PyrefactModel.C17.BoolSimp
/-! # Soundness of the n-ary bound analysis for any table that passes the two table checks -/
namespace C17

/-- "operand `c` does not decide the node": true for `and`, false for `or` -/
def Pc (isAnd : Bool) (ρ : Nat → Int) (c : Cst) : Prop := c.holds ρ = isAnd

theorem nary_eq_iff (isAnd : Bool) (bs : List Bool) : nary isAnd bs = isAnd ↔ ∀ b ∈ bs, b = isAnd := by
  cases isAnd <;> simp [nary]

theorem lookup_mem {table : List Entry} {o1 o2 : Op} {rel : Rel} {isAnd : Bool}
    (h : lookup table o1 o2 rel isAnd ≠ .keep) :
    ∃ e ∈ table, e.o1 = o1 ∧ e.o2 = o2 ∧ e.rel = rel ∧ e.isAnd = isAnd ∧
      e.act = lookup table o1 o2 rel isAnd := by
  unfold lookup at h ⊢
  split at h
  · rename_i e he
    have hm := List.mem_of_find?_eq_some he
    have hp := List.find?_some he
    simp only [Bool.and_eq_true, beq_iff_eq] at hp
    exact ⟨e, hm, hp.1.1.1, hp.1.1.2, hp.1.2, hp.2, rfl⟩
  · exact absurd rfl h

structure TableOk (table : List Entry) : Prop where
  sound : ∀ e ∈ table, e.Sound
  rank : ∀ e ∈ table, e.RankSound

/-- `r` is strictly above `a`: stronger (`and`) / weaker (`or`), or the same constraint at an earlier position -/
def Above (isAnd : Bool) (a r : Cst) : Prop :=
  (if isAnd then stronger a.op a.c r.op r.c = true else stronger r.op r.c a.op a.c = true) ∨
    (a.op = r.op ∧ a.c = r.c ∧ r.idx < a.idx)

theorem stronger_iff (o1 : Op) (a : Int) (o2 : Op) (b : Int) : stronger o1 a o2 b = true ↔
    (layer o1 < layer o2 ∨ (layer o1 = layer o2 ∧ family o1 = family o2 ∧ famRank o1 a < famRank o2 b)) := by
  simp [stronger, and_assoc]

theorem stronger_trans {o1 o2 o3 : Op} {a b c : Int} (h1 : stronger o1 a o2 b = true)
    (h2 : stronger o2 b o3 c = true) : stronger o1 a o3 c = true := by
  rw [stronger_iff] at *; omega

theorem stronger_irrefl (o : Op) (a : Int) : stronger o a o a = false := by
  cases h : stronger o a o a
  · rfl
  · rw [stronger_iff] at h; omega

theorem above_trans {isAnd : Bool} {a b c : Cst} (h1 : Above isAnd a b) (h2 : Above isAnd b c) :
    Above isAnd a c := by
  unfold Above at *
  cases isAnd
  · simp only [Bool.false_eq_true, if_false] at *
    rcases h1 with h1 | ⟨ho, hc, hi⟩ <;> rcases h2 with h2 | ⟨ho2, hc2, hi2⟩
    · exact Or.inl (stronger_trans h2 h1)
    · left; rw [← ho2, ← hc2]; exact h1
    · left; rw [ho, hc]; exact h2
    · right; exact ⟨ho.trans ho2, hc.trans hc2, Nat.lt_trans hi2 hi⟩
  · simp only [if_true] at *
    rcases h1 with h1 | ⟨ho, hc, hi⟩ <;> rcases h2 with h2 | ⟨ho2, hc2, hi2⟩
    · exact Or.inl (stronger_trans h1 h2)
    · left; rw [← ho2, ← hc2]; exact h1
    · left; rw [ho, hc]; exact h2
    · right; exact ⟨ho.trans ho2, hc.trans hc2, Nat.lt_trans hi2 hi⟩

theorem above_irrefl (isAnd : Bool) (a : Cst) : ¬ Above isAnd a a := by
  unfold Above
  rintro (h | ⟨_, _, h⟩)
  · cases isAnd <;> simp [stronger_irrefl] at h
  · exact Nat.lt_irrefl _ h

/-! ### a counting measure for "follow the reason" -/

theorem filter_lt_of_not {α : Type} (l : List α) (p : α → Bool) (w : α) (hw : w ∈ l) (hp : p w = false) :
    (l.filter p).length < l.length := by
  induction l with
  | nil => cases hw
  | cons x xs ih =>
    rcases List.mem_cons.mp hw with rfl | hw'
    · simp only [List.filter_cons, hp, Bool.false_eq_true, if_false, List.length_cons]
      have := List.length_filter_le p xs
      omega
    · have := ih hw'
      simp only [List.filter_cons, List.length_cons]
      split
      · simp only [List.length_cons]; omega
      · omega

theorem filter_length_lt {α : Type} (l : List α) (p q : α → Bool) (hpq : ∀ x, p x = true → q x = true)
    (w : α) (hw : w ∈ l) (hq : q w = true) (hp : p w = false) :
    (l.filter p).length < (l.filter q).length := by
  have h1 : l.filter p = (l.filter q).filter p := by
    rw [List.filter_filter]
    apply List.filter_congr
    intro x _
    by_cases hx : p x = true
    · simp [hx, hpq x hx]
    · simp [hx]
  rw [h1]
  exact filter_lt_of_not _ p w (List.mem_filter.mpr ⟨hw, hq⟩) hp

/-- **Closure.** If every dropped element has a reason in the list that implies it and is either kept or
strictly above it (for a transitive, irreflexive "above"), then "all kept hold" gives "all hold". -/
theorem drop_closure {α : Type} (l : List α) (dropped : α → Prop) (P : α → Prop)
    (above : α → α → Bool)
    (htrans : ∀ a b c, above a b = true → above b c = true → above a c = true)
    (hirr : ∀ a, above a a = false)
    (hreason : ∀ a ∈ l, dropped a → ∃ r ∈ l, (P r → P a) ∧ (¬ dropped r ∨ above a r = true))
    (hkept : ∀ a ∈ l, ¬ dropped a → P a) : ∀ a ∈ l, P a := by
  -- strong induction on the number of elements above `a`
  have key : ∀ (n : Nat) (a : α), a ∈ l → (l.filter (above a)).length ≤ n → P a := by
    intro n
    induction n with
    | zero =>
      intro a ha hn
      by_cases hd : dropped a
      · obtain ⟨r, hr, himp, hcase⟩ := hreason a ha hd
        rcases hcase with hk | hab
        · exact himp (hkept r hr hk)
        · exfalso
          have : r ∈ l.filter (above a) := List.mem_filter.mpr ⟨hr, hab⟩
          have := List.length_pos_of_mem this
          omega
      · exact hkept a ha hd
    | succ n ih =>
      intro a ha hn
      by_cases hd : dropped a
      · obtain ⟨r, hr, himp, hcase⟩ := hreason a ha hd
        rcases hcase with hk | hab
        · exact himp (hkept r hr hk)
        · apply himp
          apply ih r hr
          have := filter_length_lt l (above r) (above a) (fun x hx => htrans a r x hab hx) r hr hab (hirr r)
          omega
      · exact hkept a ha hd
  intro a ha
  exact key _ a ha (Nat.le_refl _)


/-! ### the decision for one pair -/

theorem mem_allPairs {cs : List Cst} {p : Cst × Cst} (h : p ∈ allPairs cs) :
    p.1 ∈ cs ∧ p.2 ∈ cs ∧ (cs.Pairwise (fun a b => a.idx < b.idx) → p.1.idx < p.2.idx) := by
  induction cs with
  | nil => simp [allPairs] at h
  | cons a rest ih =>
    simp only [allPairs, List.mem_append, List.mem_map] at h
    rcases h with ⟨b, hb, rfl⟩ | h
    · refine ⟨by simp, by simp [hb], ?_⟩
      intro hs; exact (List.pairwise_cons.mp hs).1 b hb
    · obtain ⟨h1, h2, h3⟩ := ih h
      exact ⟨by simp [h1], by simp [h2], fun hs => h3 (List.pairwise_cons.mp hs).2⟩

theorem pair_table_entry {table : List Entry} {isAnd : Bool} {a b : Cst}
    (hv : a.var = b.var) (hni : ¬ (a.op = b.op ∧ a.c = b.c)) (hk : pairAct table isAnd a b ≠ .keep) :
    ∃ e ∈ table, e.o1 = a.op ∧ e.o2 = b.op ∧ e.rel = Rel.of a.c b.c ∧ e.isAnd = isAnd ∧
      e.act = pairAct table isAnd a b := by
  have hpa : pairAct table isAnd a b = lookup table a.op b.op (Rel.of a.c b.c) isAnd := by
    unfold pairAct; simp [hv, hni]
  rw [hpa] at hk ⊢
  exact lookup_mem hk

theorem pair_reason {table : List Entry} (hok : TableOk table) (isAnd : Bool) (ρ : Nat → Int)
    (a b : Cst) (hidx : a.idx < b.idx) :
    (pairAct table isAnd a b = .dropFirst →
      (Pc isAnd ρ b → Pc isAnd ρ a) ∧ (b.direct = false ∨ Above isAnd a b)) ∧
    (pairAct table isAnd a b = .dropSecond →
      (Pc isAnd ρ a → Pc isAnd ρ b) ∧ Above isAnd b a) := by
  by_cases hv : a.var = b.var
  · by_cases hi : a.op = b.op ∧ a.c = b.c
    · -- identical constraints
      have hh : a.holds ρ = b.holds ρ := by simp [Cst.holds, hv, hi.1, hi.2]
      have hpa : pairAct table isAnd a b = if b.direct then .dropSecond else .dropFirst := by
        unfold pairAct; simp [hv, hi]
      rw [hpa]
      constructor
      · intro h
        refine ⟨by unfold Pc; rw [hh]; exact id, Or.inl ?_⟩
        cases hb : b.direct <;> simp [hb] at h ⊢
      · intro _
        refine ⟨by unfold Pc; rw [hh]; exact id, Or.inr ⟨hi.1.symm, hi.2.symm, hidx⟩⟩
    · constructor
      · intro h
        obtain ⟨e, he, ho1, ho2, hrel, hand, hact⟩ :=
          pair_table_entry (table := table) (isAnd := isAnd) hv hi (by rw [h]; exact Act.noConfusion)
        rw [h] at hact
        have hs := hok.sound e he a.c b.c (ρ a.var) (by rw [hrel]; exact Rel.of_holds _ _)
        have hr := hok.rank e he a.c b.c (by rw [hrel]; exact Rel.of_holds _ _)
        simp only [hact] at hr
        simp only [Entry.after, hact, ho1, ho2, hand] at hs
        refine ⟨?_, Or.inr (Or.inl ?_)⟩
        · unfold Pc Cst.holds; rw [← hv]
          cases isAnd <;> cases h1 : a.op.holds (ρ a.var) a.c <;> cases h2 : b.op.holds (ρ a.var) b.c <;>
            simp_all [conn]
        · rw [ho1, ho2, hand] at hr; cases isAnd <;> simpa using hr
      · intro h
        obtain ⟨e, he, ho1, ho2, hrel, hand, hact⟩ :=
          pair_table_entry (table := table) (isAnd := isAnd) hv hi (by rw [h]; exact Act.noConfusion)
        rw [h] at hact
        have hs := hok.sound e he a.c b.c (ρ a.var) (by rw [hrel]; exact Rel.of_holds _ _)
        have hr := hok.rank e he a.c b.c (by rw [hrel]; exact Rel.of_holds _ _)
        simp only [hact] at hr
        simp only [Entry.after, hact, ho1, ho2, hand] at hs
        refine ⟨?_, ?_⟩
        · unfold Pc Cst.holds; rw [← hv]
          cases isAnd <;> cases h1 : a.op.holds (ρ a.var) a.c <;> cases h2 : b.op.holds (ρ a.var) b.c <;>
            simp_all [conn]
        · rw [ho1, ho2, hand] at hr
          simp only [Bool.or_eq_true] at hr
          rcases hr with hsame | hst
          · exfalso; apply hi
            simp only [sameCstr, Bool.and_eq_true, decide_eq_true_eq, eqB_iff] at hsame
            exact hsame
          · exact Or.inl (by cases isAnd <;> simpa using hst)
  · have hpa : pairAct table isAnd a b = .keep := by unfold pairAct; simp [hv]
    rw [hpa]
    exact ⟨fun h => Act.noConfusion h, fun h => Act.noConfusion h⟩

theorem pair_const {table : List Entry} (hok : TableOk table) (isAnd : Bool) (ρ : Nat → Int) (a b : Cst)
    (h : pairAct table isAnd a b = if isAnd then .constFalse else .constTrue) :
    ¬ (Pc isAnd ρ a ∧ Pc isAnd ρ b) := by
  by_cases hv : a.var = b.var
  · by_cases hi : a.op = b.op ∧ a.c = b.c
    · exfalso
      have hpa : pairAct table isAnd a b = if b.direct then .dropSecond else .dropFirst := by
        unfold pairAct; simp [hv, hi]
      rw [hpa] at h
      cases isAnd <;> cases hb : b.direct <;> simp [hb] at h
    · obtain ⟨e, he, ho1, ho2, hrel, hand, hact⟩ :=
        pair_table_entry (table := table) (isAnd := isAnd) hv hi
          (by rw [h]; cases isAnd <;> exact Act.noConfusion)
      rw [h] at hact
      have hs := hok.sound e he a.c b.c (ρ a.var) (by rw [hrel]; exact Rel.of_holds _ _)
      unfold Pc Cst.holds; rw [← hv]
      cases isAnd <;> simp only [Entry.after, hact, ho1, ho2, hand] at hs <;>
        cases h1 : a.op.holds (ρ a.var) a.c <;> cases h2 : b.op.holds (ρ a.var) b.c <;>
        simp_all [conn]
  · exfalso
    have hpa : pairAct table isAnd a b = .keep := by unfold pairAct; simp [hv]
    rw [hpa] at h
    cases isAnd <;> simp at h


/-! ### the n-ary theorem -/

def aboveB (isAnd : Bool) (a r : Cst) : Bool :=
  (if isAnd then stronger a.op a.c r.op r.c else stronger r.op r.c a.op a.c) ||
    (decide (a.op = r.op) && decide (a.c = r.c) && decide (r.idx < a.idx))

theorem aboveB_iff (isAnd : Bool) (a r : Cst) : aboveB isAnd a r = true ↔ Above isAnd a r := by
  unfold aboveB Above
  cases isAnd <;> simp [and_assoc]

theorem nary_ne_iff (isAnd : Bool) (bs : List Bool) :
    nary isAnd bs = !isAnd ↔ ¬ ∀ b ∈ bs, b = isAnd := by
  rw [← nary_eq_iff]
  cases isAnd <;> cases nary _ bs <;> simp

theorem eq_of_idx_eq {cs : List Cst} (hs : cs.Pairwise (fun a b => a.idx < b.idx)) {a b : Cst}
    (ha : a ∈ cs) (hb : b ∈ cs) (h : a.idx = b.idx) : a = b := by
  induction cs with
  | nil => cases ha
  | cons x xs ih =>
    rw [List.pairwise_cons] at hs
    rcases List.mem_cons.mp ha with rfl | ha' <;> rcases List.mem_cons.mp hb with rfl | hb'
    · rfl
    · have := hs.1 b hb'; omega
    · have := hs.1 a ha'; omega
    · exact ih hs.2 ha' hb'

theorem triple_not_all {cs : List Cst} (isAnd : Bool) (ρ : Nat → Int) (h : triple cs = true) :
    ¬ ∀ c ∈ cs, Pc isAnd ρ c := by
  simp only [triple, List.any_eq_true, Bool.and_eq_true, beq_iff_eq] at h
  obtain ⟨g, hg, hgo, l, hl, ⟨⟨hlo, hlv⟩, hlc⟩, e, he, ⟨heo, hev⟩, hec⟩ := h
  intro hall
  have h1 := hall g hg
  have h2 := hall l hl
  have h3 := hall e he
  unfold Pc Cst.holds at h1 h2 h3
  rw [hgo] at h1; rw [hlo, hlv, hlc] at h2; rw [heo, hev, hec] at h3
  cases isAnd <;> simp [Op.holds] at h1 h2 h3 <;> omega

theorem analyse_eq (table : List Entry) (isAnd : Bool) (cs : List Cst) :
    analyse table isAnd cs =
      if ((allPairs cs).any (fun p => pairAct table isAnd p.1 p.2 ==
          (if isAnd then Act.constFalse else Act.constTrue)) || triple cs) = true
      then .const (!isAnd)
      else .drop ((allPairs cs).filterMap fun p => dropOf p (pairAct table isAnd p.1 p.2)) := by
  cases isAnd <;> simp only [analyse, Bool.not_false, Bool.not_true, Bool.true_and, Bool.false_and, Bool.false_eq_true, if_false, if_true]

/-- the indices the analysis drops -/
def dropIdxs (table : List Entry) (isAnd : Bool) (cs : List Cst) : List Nat :=
  (allPairs cs).filterMap fun p => dropOf p (pairAct table isAnd p.1 p.2)

theorem mem_dropIdxs {table : List Entry} {isAnd : Bool} {cs : List Cst}
    (hs : cs.Pairwise (fun a b => a.idx < b.idx)) {c : Cst} (hc : c ∈ cs)
    (h : c.idx ∈ dropIdxs table isAnd cs) :
    c.direct = true ∧ ∃ r ∈ cs,
      ((pairAct table isAnd c r = .dropFirst ∧ c.idx < r.idx) ∨
       (pairAct table isAnd r c = .dropSecond ∧ r.idx < c.idx)) := by
  simp only [dropIdxs, List.mem_filterMap] at h
  obtain ⟨p, hp, hd⟩ := h
  obtain ⟨h1, h2, h3⟩ := mem_allPairs hp
  have hlt := h3 hs
  unfold dropOf at hd
  split at hd
  · rename_i hact
    split at hd
    · rename_i hdir
      have : p.1 = c := eq_of_idx_eq hs h1 hc (by simpa using hd)
      rw [this] at hdir hact hlt
      exact ⟨hdir, p.2, h2, Or.inl ⟨hact, hlt⟩⟩
    · cases hd
  · rename_i hact
    split at hd
    · rename_i hdir
      have : p.2 = c := eq_of_idx_eq hs h2 hc (by simpa using hd)
      rw [this] at hdir hact hlt
      exact ⟨hdir, p.1, h1, Or.inr ⟨hact, hlt⟩⟩
    · cases hd
  · cases hd

/-- **Soundness of the n-ary bound analysis** for every table that passes the two table checks, every list
of constraints in source order, every valuation and whatever the other operands evaluate to. -/
theorem analyse_sound {table : List Entry} (hok : TableOk table) (isAnd : Bool) (cs : List Cst)
    (hs : cs.Pairwise (fun a b => a.idx < b.idx)) (ρ : Nat → Int) (others : List Bool) :
    match analyse table isAnd cs with
    | .const b => nary isAnd (cs.map (·.holds ρ) ++ others) = b
    | .drop idxs =>
      nary isAnd ((cs.filter (fun c => !idxs.contains c.idx)).map (·.holds ρ) ++ others) =
        nary isAnd (cs.map (·.holds ρ) ++ others) := by
  rw [analyse_eq]
  by_cases hc : ((allPairs cs).any (fun p => pairAct table isAnd p.1 p.2 ==
          (if isAnd then Act.constFalse else Act.constTrue)) || triple cs) = true
  · -- a pair that makes the node constant, or the triple
    rw [if_pos hc]
    simp only []
    rw [nary_ne_iff]
    intro hall
    have hall' : ∀ c ∈ cs, Pc isAnd ρ c := by
      intro c hc'
      exact hall _ (List.mem_append_left _ (List.mem_map.mpr ⟨c, hc', rfl⟩))
    rcases Bool.or_eq_true _ _ |>.mp hc with hp | ht
    · obtain ⟨p, hp, hact⟩ := List.any_eq_true.mp hp
      obtain ⟨h1, h2, _⟩ := mem_allPairs hp
      exact pair_const hok isAnd ρ p.1 p.2 (by simpa using hact) ⟨hall' _ h1, hall' _ h2⟩
    · exact triple_not_all isAnd ρ ht hall'
  · rw [if_neg hc]
    simp only []
    -- two Booleans are equal iff they are `isAnd` together
    have hbool : ∀ x y : Bool, (x = isAnd ↔ y = isAnd) → x = y := by
      intro x y h; cases x <;> cases y <;> cases isAnd <;> simp_all
    apply hbool
    rw [nary_eq_iff, nary_eq_iff]
    change (∀ b ∈ (cs.filter (fun c => !(dropIdxs table isAnd cs).contains c.idx)).map (·.holds ρ) ++ others,
      b = isAnd) ↔ _
    constructor
    · intro hkept b hb
      rcases List.mem_append.mp hb with hb | hb
      · obtain ⟨c, hcm, rfl⟩ := List.mem_map.mp hb
        -- closure: every constraint holds
        have hall := drop_closure cs (fun c => c.idx ∈ dropIdxs table isAnd cs) (Pc isAnd ρ)
          (aboveB isAnd)
          (fun a b c h1 h2 => (aboveB_iff _ _ _).mpr
            (above_trans ((aboveB_iff _ _ _).mp h1) ((aboveB_iff _ _ _).mp h2)))
          (fun a => by
            cases h : aboveB isAnd a a
            · rfl
            · exact absurd ((aboveB_iff _ _ _).mp h) (above_irrefl _ _))
          (by
            intro a ha hda
            obtain ⟨_, r, hr, hcase⟩ := mem_dropIdxs hs ha hda
            rcases hcase with ⟨hact, hlt⟩ | ⟨hact, hlt⟩
            · obtain ⟨himp, hrank⟩ := (pair_reason hok isAnd ρ a r hlt).1 hact
              refine ⟨r, hr, himp, ?_⟩
              rcases hrank with hnd | hab
              · left; intro hdr
                have := (mem_dropIdxs hs hr hdr).1
                rw [hnd] at this; cases this
              · right; exact (aboveB_iff _ _ _).mpr hab
            · obtain ⟨himp, hab⟩ := (pair_reason hok isAnd ρ r a hlt).2 hact
              exact ⟨r, hr, himp, Or.inr ((aboveB_iff _ _ _).mpr hab)⟩)
          (by
            intro a ha hnd
            apply hkept
            apply List.mem_append_left
            refine List.mem_map.mpr ⟨a, List.mem_filter.mpr ⟨ha, ?_⟩, rfl⟩
            simpa using hnd)
        exact hall c hcm
      · exact hkept b (List.mem_append_right _ hb)
    · intro hall b hb
      rcases List.mem_append.mp hb with hb | hb
      · obtain ⟨c, hcm, rfl⟩ := List.mem_map.mp hb
        exact hall _ (List.mem_append_left _ (List.mem_map.mpr ⟨c, (List.mem_filter.mp hcm).1, rfl⟩))
      · exact hall b (List.mem_append_right _ hb)

end C17
