import PyrefactModel.C17.Bounds
/-!
# n-ary bound analysis (`symbolic_math.simplify_boolean_expressions`, the `constant_bounds` block)

`cs` is the list of normalised single-expression constraints found among the operands of one `and`/`or`
node (operands of nested same-operator children included, flagged `direct = false`), in source order.
Every ordered pair on the same expression is looked up in the (regenerated) pair table; identical
constraints are handled as in the code (the later one is dropped if it is a direct operand, else the
earlier one).  Only direct operands can be dropped.
-/
namespace C17

structure Cst where
  idx : Nat
  var : Nat
  op : Op
  c : Int
  direct : Bool
deriving DecidableEq, Repr

def Cst.holds (ρ : Nat → Int) (a : Cst) : Bool := a.op.holds (ρ a.var) a.c

/-- the code's decision for the ordered pair (`a` before `b` in source order) -/
def pairAct (table : List Entry) (isAnd : Bool) (a b : Cst) : Act :=
  if a.var ≠ b.var then .keep
  else if a.op = b.op ∧ a.c = b.c then (if b.direct then .dropSecond else .dropFirst)
  else lookup table a.op b.op (Rel.of a.c b.c) isAnd

def allPairs : List Cst → List (Cst × Cst)
  | [] => []
  | a :: rest => rest.map (fun b => (a, b)) ++ allPairs rest

/-- `x > c`, `x < c` and `x == c` all present -/
def triple (cs : List Cst) : Bool :=
  cs.any fun g => g.op == .gt && cs.any fun l => l.op == .lt && l.var == g.var && l.c == g.c &&
    cs.any fun e => e.op == .eq && e.var == g.var && e.c == g.c

inductive Verdict
  | const (b : Bool)
  | drop (idxs : List Nat)
deriving Repr, DecidableEq

def dropOf (p : Cst × Cst) (act : Act) : Option Nat :=
  match act with
  | .dropFirst => if p.1.direct then some p.1.idx else none
  | .dropSecond => if p.2.direct then some p.2.idx else none
  | _ => none

def analyse (table : List Entry) (isAnd : Bool) (cs : List Cst) : Verdict :=
  let ps := allPairs cs
  if isAnd && (ps.any (fun p => pairAct table isAnd p.1 p.2 == .constFalse) || triple cs) then .const false
  else if !isAnd && (ps.any (fun p => pairAct table isAnd p.1 p.2 == .constTrue) || triple cs) then .const true
  else .drop (ps.filterMap fun p => dropOf p (pairAct table isAnd p.1 p.2))

/-- n-ary `and` / `or` over already evaluated operands -/
def nary (isAnd : Bool) (bs : List Bool) : Bool := if isAnd then bs.all id else bs.any id

end C17

namespace C17

/-! ## one `and`/`or` node as the rule sees it -/

def Op.opposite : Op → Op
  | .eq => .eq | .ne => .ne | .gt => .lt | .lt => .gt | .ge => .le | .le => .ge

/-- operand of the node (`direct`) or operand of a nested same-operator child (`direct = false`) -/
inductive Item
  /-- `x op c` (or `c op x` when `flipped`), possibly under `not` -/
  | cmp (var : Nat) (op : Op) (c : Int) (flipped neg direct : Bool)
  /-- any other expression, identified by its text, possibly under `not` -/
  | atom (id : Nat) (neg direct : Bool)
deriving DecidableEq, Repr

def Item.direct : Item → Bool
  | .cmp _ _ _ _ _ d => d
  | .atom _ _ d => d

def Item.neg : Item → Bool
  | .cmp _ _ _ _ n _ => n
  | .atom _ n _ => n

/-- the item without its `not` and position flag: what `unparse` of the (operand of the) value compares -/
def Item.text : Item → Item
  | .cmp v o c f _ _ => .cmp v o c f false true
  | .atom i _ _ => .atom i false true

def Item.eval (ρ : Nat → Int) (β : Nat → Bool) : Item → Bool
  | .cmp v o c f n _ => (if f then o.opposite.holds (ρ v) c else o.holds (ρ v) c) != n
  | .atom i n _ => β i != n

/-- "opposite expressions": some direct operand occurs both plain and negated -/
def hasOpposite (items : List Item) : Bool :=
  items.any fun a => a.direct && !a.neg && items.any fun b => b.direct && b.neg && a.text == b.text

def cstsFrom : Nat → List Item → List Cst
  | _, [] => []
  | i, .cmp v o c f false d :: rest => ⟨i, v, if f then o.opposite else o, c, d⟩ :: cstsFrom (i + 1) rest
  | i, _ :: rest => cstsFrom (i + 1) rest

inductive NodeResult
  | const (b : Bool)
  | drop (idxs : List Nat)
  | none
deriving Repr, DecidableEq

/-- all direct operands have the same text (and polarity), no nested child: the node collapses to its
first operand (`len({unparse(value) ...}) == 1`) -/
def allSame (items : List Item) : Bool :=
  match items with
  | [] => false
  | a :: rest => !rest.isEmpty && items.all (·.direct) && rest.all (fun b => b.text == a.text && b.neg == a.neg)

def simplifyNode (table : List Entry) (isAnd : Bool) (items : List Item) : NodeResult :=
  if hasOpposite items then .const (!isAnd)
  else
    match analyse table isAnd (cstsFrom 0 items) with
    | .const b => .const b
    | .drop idxs =>
      if !idxs.isEmpty then .drop idxs.eraseDups
      else if allSame items then .drop ((List.range items.length).drop 1)
      else .none

end C17
