/-!
# Folding range filters into range arguments (`symbolic_math.simplify_constrained_range`)

Model of the rule on `[… for x in range(start, stop) if c₁ and … and cₙ]` with integer-literal bounds and
unit step (the guard of the rule).  The conditions are visited in *some* order (the code iterates a set);
every statement below holds for every order.
-/
namespace C17

inductive RCond
  | gt (c : Int) | lt (c : Int) | ge (c : Int) | le (c : Int) | eq (c : Int)
  | other (id : Nat)
deriving DecidableEq, Repr, Inhabited

/-- `β id x`: value of an arbitrary other condition at `x` -/
def RCond.holds (β : Nat → Int → Bool) : RCond → Int → Bool
  | .gt c, x => decide (x > c) | .lt c, x => decide (x < c)
  | .ge c, x => decide (x ≥ c) | .le c, x => decide (x ≤ c)
  | .eq c, x => decide (x = c) | .other id, x => β id x

structure RS where
  start : Int
  stop : Int
deriving Repr, DecidableEq

/-- one condition: new bounds and "the condition became redundant" -/
def stepR (st : RS) : RCond → RS × Bool
  | .gt c => if c > st.start then (⟨c + 1, st.stop⟩, true) else (st, false)
  | .lt c => if c ≤ st.stop then (⟨st.start, c⟩, true) else (st, false)
  | .ge c => if c ≥ st.start then (⟨c, st.stop⟩, true) else (st, false)
  | .le c => if c < st.stop then (⟨st.start, c + 1⟩, true) else (st, false)
  | .eq c =>
    let (s1, ch1) := if c ≥ st.start then ((⟨c, st.stop⟩ : RS), true) else ((⟨0, 0⟩ : RS), false)
    let (s2, ch2) := if c < s1.stop then ((⟨s1.start, c + 1⟩ : RS), true) else ((⟨0, 0⟩ : RS), false)
    (s2, ch1 || ch2)
  | .other _ => (st, false)

def foldR : RS → List RCond → RS × List (RCond × Bool)
  | st, [] => (st, [])
  | st, c :: cs =>
    let (st', red) := stepR st c
    let (fin, rest) := foldR st' cs
    (fin, (c, red) :: rest)

inductive RResult
  | none
  | empty
  | range (start stop : Int) (conds : List (RCond × Bool))
deriving Repr

/-- the rewrite the rule performs (in the order `cs` the conditions are visited) -/
def rangeFold (start stop : Int) (cs : List RCond) : RResult :=
  let (fin, marked) := foldR ⟨start, stop⟩ cs
  if fin.start ≥ fin.stop then .empty
  else if marked.all (fun p => !p.2) then .none
  else .range fin.start fin.stop marked

/-- `list(range(s, e))` -/
def intRange (s e : Int) : List Int := (List.range (e - s).toNat).map (fun (k : Nat) => s + (k : Int))

theorem mem_intRange {s e x : Int} : x ∈ intRange s e ↔ s ≤ x ∧ x < e := by
  simp only [intRange, List.mem_map, List.mem_range]
  constructor
  · rintro ⟨k, hk, rfl⟩; omega
  · intro h; exact ⟨(x - s).toNat, by omega, by omega⟩

theorem intRange_sorted (s e : Int) : (intRange s e).Pairwise (· < ·) := by
  unfold intRange
  rw [List.pairwise_map]
  have : (List.range (e - s).toNat).Pairwise (· < ·) := List.pairwise_lt_range
  exact this.imp (fun h => by omega)

/-- two strictly increasing integer lists with the same members are equal -/
theorem sorted_ext : ∀ (l₁ l₂ : List Int), l₁.Pairwise (· < ·) → l₂.Pairwise (· < ·) →
    (∀ x, x ∈ l₁ ↔ x ∈ l₂) → l₁ = l₂
  | [], [], _, _, _ => rfl
  | [], b :: _, _, _, h => absurd ((h b).mpr (by simp)) (by simp)
  | a :: _, [], _, _, h => absurd ((h a).mp (by simp)) (by simp)
  | a :: as, b :: bs, h1, h2, h => by
    rw [List.pairwise_cons] at h1 h2
    have hab : a = b := by
      have ha : a ∈ b :: bs := (h a).mp (by simp)
      have hb : b ∈ a :: as := (h b).mpr (by simp)
      rcases List.mem_cons.mp ha with rfl | ha'
      · rfl
      · rcases List.mem_cons.mp hb with rfl | hb'
        · rfl
        · have := h2.1 a ha'; have := h1.1 b hb'; omega
    subst hab
    congr 1
    apply sorted_ext as bs h1.2 h2.2
    intro x
    constructor
    · intro hx
      have := (h x).mp (by simp [hx])
      rcases List.mem_cons.mp this with rfl | h'
      · have := h1.1 x hx; omega
      · exact h'
    · intro hx
      have := (h x).mpr (by simp [hx])
      rcases List.mem_cons.mp this with rfl | h'
      · have := h2.1 x hx; omega
      · exact h'

theorem stepR_inv (β : Nat → Int → Bool) (st : RS) (c : RCond) (x : Int) :
    (st.start ≤ x ∧ x < st.stop ∧ c.holds β x = true) ↔
      ((stepR st c).1.start ≤ x ∧ x < (stepR st c).1.stop ∧
        ((stepR st c).2 = false → c.holds β x = true)) := by
  cases c with
  | other id => simp [stepR]
  | gt c => simp only [stepR, RCond.holds]; split <;> simp <;> omega
  | lt c => simp only [stepR, RCond.holds]; split <;> simp <;> omega
  | ge c => simp only [stepR, RCond.holds]; split <;> simp <;> omega
  | le c => simp only [stepR, RCond.holds]; split <;> simp <;> omega
  | eq c =>
    simp only [stepR, RCond.holds]
    by_cases h1 : c ≥ st.start <;> by_cases h2 : c < st.stop <;> by_cases h3 : c < 0 <;>
      simp [h1, h2, h3] <;> omega

theorem foldR_inv (β : Nat → Int → Bool) : ∀ (cs : List RCond) (st : RS) (x : Int),
    (st.start ≤ x ∧ x < st.stop ∧ ∀ c ∈ cs, c.holds β x = true) ↔
      ((foldR st cs).1.start ≤ x ∧ x < (foldR st cs).1.stop ∧
        ∀ p ∈ (foldR st cs).2, p.2 = false → p.1.holds β x = true) := by
  intro cs
  induction cs with
  | nil => intro st x; simp [foldR]
  | cons c cs ih =>
    intro st x
    have hs := stepR_inv β st c x
    have hi := ih (stepR st c).1 x
    simp only [foldR, List.mem_cons, forall_eq_or_imp]
    constructor
    · rintro ⟨h1, h2, h3, h4⟩
      have hA := hs.mp ⟨h1, h2, h3⟩
      have hB := hi.mp ⟨hA.1, hA.2.1, h4⟩
      exact ⟨hB.1, hB.2.1, hA.2.2, hB.2.2⟩
    · rintro ⟨h1, h2, h3, h4⟩
      have := hi.mpr ⟨h1, h2, h4⟩
      have h5 := hs.mpr ⟨this.1, this.2.1, h3⟩
      exact ⟨h5.1, h5.2.1, h5.2.2, this.2.2⟩

end C17
