/-!
# Conditions and their negation (`fixes._negate_condition`, `replace_negated_numeric_comparison`)

`negate` is driven by the regenerated `constants.REVERSE_OPERATOR_MAPPING`.  `in` / `is` are interpreted by
arbitrary relations (`Interp`), their negated forms by the complement — as Python defines `not in`, `is not`.
-/
namespace C17

inductive COp | eq | ne | gt | lt | ge | le | in_ | notIn | is_ | isNot
deriving DecidableEq, Repr, Inhabited

inductive Term | var (n : Nat) | const (c : Int)
deriving DecidableEq, Repr, Inhabited

inductive Cond
  | cmp (l : Term) (op : COp) (r : Term)
  | atom (id : Nat)
  | not (c : Cond)
  | and (cs : List Cond)
  | or (cs : List Cond)
deriving Repr, Inhabited

structure Interp where
  ρ : Nat → Int
  β : Nat → Bool
  isIn : Int → Int → Bool
  isIs : Int → Int → Bool

def Term.eval (I : Interp) : Term → Int
  | .var n => I.ρ n
  | .const c => c

def COp.holds (I : Interp) : COp → Int → Int → Bool
  | .eq, a, b => a == b | .ne, a, b => a != b
  | .gt, a, b => decide (a > b) | .lt, a, b => decide (a < b)
  | .ge, a, b => decide (a ≥ b) | .le, a, b => decide (a ≤ b)
  | .in_, a, b => I.isIn a b | .notIn, a, b => !I.isIn a b
  | .is_, a, b => I.isIs a b | .isNot, a, b => !I.isIs a b

mutual
def Cond.eval (I : Interp) : Cond → Bool
  | .cmp l op r => op.holds I (l.eval I) (r.eval I)
  | .atom id => I.β id
  | .not c => !c.eval I
  | .and cs => evalAll I cs
  | .or cs => evalAny I cs
def evalAll (I : Interp) : List Cond → Bool
  | [] => true
  | c :: cs => c.eval I && evalAll I cs
def evalAny (I : Interp) : List Cond → Bool
  | [] => false
  | c :: cs => c.eval I || evalAny I cs
end

def revLookup (table : List (COp × COp)) (op : COp) : Option COp :=
  (table.find? (fun p => p.1 == op)).map (·.2)

mutual
/-- `fixes._negate_condition` -/
def negate (table : List (COp × COp)) : Cond → Cond
  | .not c => c
  | .cmp l op r =>
    match revLookup table op with
    | some op' => .cmp l op' r
    | none => .not (.cmp l op r)
  | .and cs => .or (negateList table cs)
  | .or cs => .and (negateList table cs)
  | .atom id => .not (.atom id)
def negateList (table : List (COp × COp)) : List Cond → List Cond
  | [] => []
  | c :: cs => negate table c :: negateList table cs
end

/-- an entry `(o, o')` of the reverse table is right when `o'` is the complement of `o` -/
def RevOk (p : COp × COp) : Prop := ∀ (I : Interp) (a b : Int), p.2.holds I a b = !p.1.holds I a b

/-- decidable check of an entry (the complement pairs) -/
def revEntryOk (p : COp × COp) : Bool :=
  match p with
  | (.eq, .ne) | (.ne, .eq) | (.gt, .le) | (.le, .gt) | (.lt, .ge) | (.ge, .lt)
  | (.in_, .notIn) | (.notIn, .in_) | (.is_, .isNot) | (.isNot, .is_) => true
  | _ => false

theorem revOk_of_entryOk (p : COp × COp) (h : revEntryOk p = true) : RevOk p := by
  intro I a b
  obtain ⟨o, o'⟩ := p
  cases o <;> cases o' <;>
    first
    | (exfalso; revert h; decide)
    | (simp only [COp.holds] <;>
       first
       | rfl
       | (rw [Bool.eq_iff_iff] <;> simp <;> omega))

mutual
theorem negate_sound (table : List (COp × COp)) (hok : ∀ p ∈ table, RevOk p) (I : Interp) :
    ∀ c : Cond, (negate table c).eval I = !c.eval I
  | .not c => by simp [negate, Cond.eval]
  | .atom id => by simp [negate, Cond.eval]
  | .cmp l op r => by
    simp only [negate]
    split
    · rename_i op' h
      simp only [revLookup, Option.map_eq_some_iff] at h
      obtain ⟨p, hp, rfl⟩ := h
      have hm := List.mem_of_find?_eq_some hp
      have hk := List.find?_some hp
      simp only [beq_iff_eq] at hk
      have := hok p hm I (l.eval I) (r.eval I)
      simp only [Cond.eval]
      rw [this, hk]
    · simp [Cond.eval]
  | .and cs => by
    simp only [negate, Cond.eval]
    exact negateList_any table hok I cs
  | .or cs => by
    simp only [negate, Cond.eval]
    exact negateList_all table hok I cs
theorem negateList_any (table : List (COp × COp)) (hok : ∀ p ∈ table, RevOk p) (I : Interp) :
    ∀ cs : List Cond, evalAny I (negateList table cs) = !evalAll I cs
  | [] => by simp [negateList, evalAny, evalAll]
  | c :: cs => by
    simp only [negateList, evalAny, evalAll]
    rw [negate_sound table hok I c, negateList_any table hok I cs]
    cases c.eval I <;> simp
theorem negateList_all (table : List (COp × COp)) (hok : ∀ p ∈ table, RevOk p) (I : Interp) :
    ∀ cs : List Cond, evalAll I (negateList table cs) = !evalAny I cs
  | [] => by simp [negateList, evalAny, evalAll]
  | c :: cs => by
    simp only [negateList, evalAny, evalAll]
    rw [negate_sound table hok I c, negateList_all table hok I cs]
    cases c.eval I <;> simp
end

def Term.isConst : Term → Bool
  | .const _ => true
  | .var _ => false

def flipGuard (l : Term) (op : COp) (r : Term) : Bool :=
  (op == .eq || op == .ne || op == .is_ || op == .isNot || op == .in_ || op == .notIn) ||
    (l.isConst || r.isConst)

/-- `replace_negated_numeric_comparison`: `not (l op r)` ↦ `l op' r` when the operator is one of the
"safely reversible" ones or one side is numeric (constant) and the operator is in the reverse table -/
def flipNegated (table : List (COp × COp)) : Cond → Cond
  | .not (.cmp l op r) =>
    if flipGuard l op r then
      match revLookup table op with
      | some op' => .cmp l op' r
      | none => .not (.cmp l op r)
    else .not (.cmp l op r)
  | c => c

theorem flipNegated_sound (table : List (COp × COp)) (hok : ∀ p ∈ table, RevOk p) (I : Interp) (c : Cond) :
    (flipNegated table c).eval I = c.eval I := by
  unfold flipNegated
  split
  · rename_i l op r
    by_cases hg : flipGuard l op r = true
    · rw [if_pos hg]
      split
      · rename_i op' h
        simp only [revLookup, Option.map_eq_some_iff] at h
        obtain ⟨p, hp, rfl⟩ := h
        have hm := List.mem_of_find?_eq_some hp
        have hk := List.find?_some hp
        simp only [beq_iff_eq] at hk
        have := hok p hm I (l.eval I) (r.eval I)
        simp only [Cond.eval]
        rw [this, hk]
      · rfl
    · rw [if_neg hg]
  · rfl

end C17
