/-!
# Pairwise bound analysis of `symbolic_math.simplify_boolean_expressions`

A *constraint* is `x op c` with an integer constant (after the code's normalisation `c op x ↦ x op' c`).
For every pair of constraints on the same expression the code decides, from the two operators, the order
of the two constants and the connective, whether one operand is redundant or the whole `and`/`or` is
constant.  That decision table is **regenerated from the running code** (`Generated/BoundTable.lean`,
216 probes); this file defines what it means for an entry to be sound and proves the lifting lemma
"checked on nine points of one spaced instance ⇒ sound for all integers".
-/
namespace C17

inductive Op | eq | ne | gt | ge | lt | le
deriving DecidableEq, Repr, Inhabited

/-- `x op c` -/
def Op.holds : Op → Int → Int → Bool
  | .eq, x, c => x == c | .ne, x, c => x != c
  | .gt, x, c => decide (x > c) | .lt, x, c => decide (x < c)
  | .ge, x, c => decide (x ≥ c) | .le, x, c => decide (x ≤ c)

/-- order of the two constants -/
inductive Rel | lt | eq | gt
deriving DecidableEq, Repr, Inhabited

def Rel.of (a b : Int) : Rel := if a < b then .lt else if a = b then .eq else .gt

def Rel.holds : Rel → Int → Int → Prop
  | .lt, a, b => a < b | .eq, a, b => a = b | .gt, a, b => a > b

theorem Rel.of_holds (a b : Int) : (Rel.of a b).holds a b := by
  unfold Rel.of; split
  · simpa [Rel.holds]
  · split <;> simp_all [Rel.holds]; omega

/-- what the code does with the pair `(first, second)` (by source position) -/
inductive Act | keep | dropFirst | dropSecond | constTrue | constFalse
deriving DecidableEq, Repr, Inhabited

structure Entry where
  o1 : Op
  o2 : Op
  rel : Rel
  isAnd : Bool
  act : Act
deriving Repr, DecidableEq

def conn (isAnd : Bool) (p q : Bool) : Bool := if isAnd then p && q else p || q

def Entry.after (e : Entry) (x a b : Int) : Bool :=
  match e.act with
  | .keep => conn e.isAnd (e.o1.holds x a) (e.o2.holds x b)
  | .dropFirst => e.o2.holds x b
  | .dropSecond => e.o1.holds x a
  | .constTrue => true
  | .constFalse => false

/-- the rewrite of a two-operand formula described by the entry preserves its value for **all** integers -/
def Entry.Sound (e : Entry) : Prop :=
  ∀ a b x : Int, e.rel.holds a b → e.after x a b = conn e.isAnd (e.o1.holds x a) (e.o2.holds x b)

/-- one spaced instance per order relation and nine sample points around it -/
def inst : Rel → Int × Int | .lt => (0, 4) | .eq => (2, 2) | .gt => (4, 0)
def samplePoints : List Int := [-2, -1, 0, 1, 2, 3, 4, 5, 6]

def entryOk (e : Entry) : Bool :=
  let (a, b) := inst e.rel
  samplePoints.all (fun x => e.after x a b == conn e.isAnd (e.o1.holds x a) (e.o2.holds x b))

/-- **Lifting lemma**: an entry that passes the nine-point check is sound for all integers `a b x`. -/
theorem sound_of_entryOk (e : Entry) (h : entryOk e = true) : e.Sound := by
  intro a b x hr
  rcases e with ⟨o1, o2, rel, isAnd, act⟩
  cases o1 <;> cases o2 <;> cases rel <;> cases isAnd <;> cases act <;>
    first
    | (exfalso; revert h; decide)
    | (simp only [Entry.after, conn, Op.holds, Rel.holds] at hr ⊢ <;> grind)

/-- strength rank used to show that following "dropped because of" terminates: layer (`!=` < bounds < `==`),
then a rank inside the lower-bound / upper-bound family.  In an `and` the *weaker* operand is dropped, in
an `or` the *stronger* one. -/
def layer : Op → Int | .ne => 0 | .eq => 2 | _ => 1
/-- 1 = lower bounds (`>`, `>=`), 2 = upper bounds (`<`, `<=`), 0 = neither -/
def family : Op → Int | .gt => 1 | .ge => 1 | .lt => 2 | .le => 2 | _ => 0
def famRank : Op → Int → Int
  | .gt, c => 2 * c + 1 | .ge, c => 2 * c
  | .lt, c => -(2 * c) + 1 | .le, c => -(2 * c)
  | _, _ => 0

/-- `(o2, b)` is strictly stronger than `(o1, a)` in the syntactic order (a strict partial order:
bounds of different families are incomparable) -/
def ltB (x y : Int) : Bool := decide (x < y)
def eqB (x y : Int) : Bool := decide (x = y)
@[simp] theorem ltB_iff (x y : Int) : ltB x y = true ↔ x < y := by simp [ltB]
@[simp] theorem eqB_iff (x y : Int) : eqB x y = true ↔ x = y := by simp [eqB]

def stronger (o1 : Op) (a : Int) (o2 : Op) (b : Int) : Bool :=
  ltB (layer o1) (layer o2) ||
    (eqB (layer o1) (layer o2) && eqB (family o1) (family o2) && ltB (famRank o1 a) (famRank o2 b))

def sameCstr (o1 : Op) (a : Int) (o2 : Op) (b : Int) : Bool := decide (o1 = o2) && eqB a b

/-- rank side condition of an entry on its spaced instance: when the first operand is dropped, the second
is strictly stronger (and) / weaker (or), or they are the same constraint (then the *later* one must be the
one dropped, i.e. `dropSecond`); symmetrically for `dropSecond`. -/
def entryRankOk (e : Entry) : Bool :=
  let (a, b) := inst e.rel
  match e.act with
  | .dropFirst =>
    if e.isAnd then stronger e.o1 a e.o2 b else stronger e.o2 b e.o1 a
  | .dropSecond =>
    sameCstr e.o1 a e.o2 b ||
    (if e.isAnd then stronger e.o2 b e.o1 a else stronger e.o1 a e.o2 b)
  | _ => true

/-- the rank condition for all integers -/
def Entry.RankSound (e : Entry) : Prop :=
  ∀ a b : Int, e.rel.holds a b →
    match e.act with
    | .dropFirst => (if e.isAnd then stronger e.o1 a e.o2 b else stronger e.o2 b e.o1 a) = true
    | .dropSecond => (sameCstr e.o1 a e.o2 b ||
        (if e.isAnd then stronger e.o2 b e.o1 a else stronger e.o1 a e.o2 b)) = true
    | _ => True

theorem rankSound_of_entryRankOk (e : Entry) (h : entryRankOk e = true) : e.RankSound := by
  intro a b hr
  rcases e with ⟨o1, o2, rel, isAnd, act⟩
  cases o1 <;> cases o2 <;> cases rel <;> cases isAnd <;> cases act <;>
    first
    | trivial
    | (exfalso; revert h; decide)
    | (simp [stronger, sameCstr, layer, family, famRank, Rel.holds] at hr ⊢ <;> omega)

def lookup (table : List Entry) (o1 o2 : Op) (rel : Rel) (isAnd : Bool) : Act :=
  match table.find? (fun e => e.o1 == o1 && e.o2 == o2 && e.rel == rel && e.isAnd == isAnd) with
  | some e => e.act
  | none => .keep

end C17
