/-!
# `fixes.fix_too_many_blank_lines` — the three regular-expression substitutions as functions on characters

```
source = re.sub(r"(\n\s*){3,}\n", "\n" * 3, source)                      -- sub1
source = re.sub(r"(\n\s*){2,}\Z", "\n", source)                          -- sub2
source = re.sub(r"(\n\s*){2,}(\n\s+)(?=[^\n\s])", r"\n\g<2>", source)    -- sub3
```

Reading of the (backtracking, leftmost, greedy) matcher: a match can only start at a `'\n'`; it lies inside the
maximal run `W` of `\s` characters that starts there.
* sub1: needs ≥ 4 newlines in `W`; whatever the decomposition into group iterations, it ends at the *last* newline
  of `W`; the rest of `W` (the indentation of the next line) is kept and contains no newline.
* sub2: the rest of the text must be `\s` only and contain one more newline; the match runs to the end.
* sub3: the look-ahead forces the match to end where `W` ends, in front of a further character; group 2 starts at the
  last newline of `W` that is followed by one more character of `W`, and two more newlines must lie in front of it.

The model is tied to the real function (and to each of the three `re.sub` calls read off its source) by the suite
`blanklines` (byte equality).
-/
namespace BlankLines

/-- `\s` of Python's `re` for `str` patterns (= `str.isspace`) -/
def isSpace (c : Char) : Bool :=
  let n := c.toNat
  (9 ≤ n && n ≤ 13) || (28 ≤ n && n ≤ 32) || n == 0x85 || n == 0xa0 || n == 0x1680 || (0x2000 ≤ n && n ≤ 0x200a) ||
    n == 0x2028 || n == 0x2029 || n == 0x202f || n == 0x205f || n == 0x3000

def countNL (w : List Char) : Nat := w.count '\n'

/-- `w = a ++ '\n' :: b` with no newline in `b` (split at the last newline) -/
def splitLastNL : List Char → Option (List Char × List Char)
  | [] => none
  | c :: cs =>
    match splitLastNL cs with
    | some (a, b) => some (c :: a, b)
    | none => if c = '\n' then some ([], cs) else none

theorem length_dropWhile_le (p : Char → Bool) (l : List Char) : (l.dropWhile p).length ≤ l.length := by
  induction l with
  | nil => simp
  | cons c cs ih => simp only [List.dropWhile]; split <;> simp <;> omega

/-- `re.sub(r"(\n\s*){3,}\n", "\n\n\n", s)` -/
def sub1 : List Char → List Char
  | [] => []
  | c :: cs =>
    if c = '\n' ∧ 3 ≤ countNL (cs.takeWhile isSpace) then
      match splitLastNL (cs.takeWhile isSpace) with
      | some (_, t) => '\n' :: '\n' :: '\n' :: (t ++ sub1 (cs.dropWhile isSpace))
      | none => c :: sub1 cs            -- unreachable: there is a newline in the run
    else c :: sub1 cs
termination_by s => s.length
decreasing_by
  all_goals simp only [List.length_cons]
  all_goals first | omega | (have := length_dropWhile_le isSpace cs; omega)

/-- `re.sub(r"(\n\s*){2,}\Z", "\n", s)` -/
def sub2 : List Char → List Char
  | [] => []
  | c :: cs => if c = '\n' ∧ cs.all isSpace = true ∧ 1 ≤ countNL cs then ['\n'] else c :: sub2 cs

/-- group 2 of sub3 inside the run `w` that follows the first newline of the match -/
def group2 (w : List Char) : Option (List Char) :=
  match splitLastNL w with
  | none => none
  | some (a, t) =>
    if t ≠ [] then (if 1 ≤ countNL a then some ('\n' :: t) else none)
    else match splitLastNL a with
      | none => none
      | some (a2, u) => if 1 ≤ countNL a2 then some ('\n' :: (u ++ ['\n'])) else none

/-- `re.sub(r"(\n\s*){2,}(\n\s+)(?=[^\n\s])", r"\n\g<2>", s)` -/
def sub3 : List Char → List Char
  | [] => []
  | c :: cs =>
    if c = '\n' ∧ cs.dropWhile isSpace ≠ [] then
      match group2 (cs.takeWhile isSpace) with
      | some g => '\n' :: (g ++ sub3 (cs.dropWhile isSpace))
      | none => c :: sub3 cs
    else c :: sub3 cs
termination_by s => s.length
decreasing_by
  all_goals simp only [List.length_cons]
  all_goals first | omega | (have := length_dropWhile_le isSpace cs; omega)

def fixBlankLines (s : List Char) : List Char := sub3 (sub2 (sub1 s))

/-! ## lines -/

/-- the physical lines (split at `'\n'`; the last one may be empty) -/
def splitNL : List Char → List (List Char)
  | [] => [[]]
  | c :: cs =>
    if c = '\n' then [] :: splitNL cs
    else match splitNL cs with
      | l :: ls => (c :: l) :: ls
      | [] => [[c]]

def nonBlank (l : List Char) : Bool := l.any (fun c => !isSpace c)

/-- the lines that carry something other than whitespace, verbatim and in order -/
def nbl (s : List Char) : List (List Char) := (splitNL s).filter nonBlank

theorem splitNL_ne_nil (s : List Char) : splitNL s ≠ [] := by
  induction s with
  | nil => simp [splitNL]
  | cons c cs ih =>
    simp only [splitNL]
    split
    · simp
    · split <;> simp

theorem splitNL_append_nl (a x : List Char) : splitNL (a ++ '\n' :: x) = splitNL a ++ splitNL x := by
  induction a with
  | nil => simp [splitNL]
  | cons c cs ih =>
    simp only [List.cons_append, splitNL]
    split
    · simp [ih]
    · rw [ih]
      cases h : splitNL cs with
      | nil => exact absurd h (splitNL_ne_nil cs)
      | cons l ls => simp

theorem nbl_append_nl (a x : List Char) : nbl (a ++ '\n' :: x) = nbl a ++ nbl x := by
  simp [nbl, splitNL_append_nl]

theorem splitNL_allSpace (m : List Char) (hm : ∀ c ∈ m, isSpace c = true) :
    ∀ l ∈ splitNL m, ∀ c ∈ l, isSpace c = true := by
  induction m with
  | nil => intro l hl c hc; simp [splitNL] at hl; subst hl; simp at hc
  | cons d ds ih =>
    have ih' := ih (fun c hc => hm c (List.mem_cons_of_mem _ hc))
    intro l hl c hc
    simp only [splitNL] at hl
    split at hl
    · simp only [List.mem_cons] at hl
      rcases hl with rfl | hl
      · simp at hc
      · exact ih' l hl c hc
    · split at hl
      · rename_i l0 ls heq
        simp only [List.mem_cons] at hl
        rcases hl with rfl | hl
        · simp only [List.mem_cons] at hc
          rcases hc with rfl | hc
          · exact hm _ (List.mem_cons_self ..)
          · exact ih' l0 (by rw [heq]; simp) c hc
        · exact ih' l (by rw [heq]; simp [hl]) c hc
      · simp only [List.mem_cons, List.not_mem_nil, or_false] at hl
        subst hl
        simp only [List.mem_cons, List.not_mem_nil, or_false] at hc
        subst hc
        exact hm _ (List.mem_cons_self ..)

theorem nbl_allSpace (m : List Char) (hm : ∀ c ∈ m, isSpace c = true) : nbl m = [] := by
  simp only [nbl, List.filter_eq_nil_iff]
  intro l hl
  simp only [nonBlank, List.any_eq_true, not_exists, not_and, Bool.not_eq_true']
  intro c hc
  simp [splitNL_allSpace m hm l hl c hc]

/-- two texts have the same non-blank lines behind every prefix -/
def Sim (a b : List Char) : Prop := ∀ p : List Char, nbl (p ++ a) = nbl (p ++ b)

theorem Sim.refl (a : List Char) : Sim a a := fun _ => rfl
theorem Sim.trans {a b c : List Char} (h1 : Sim a b) (h2 : Sim b c) : Sim a c := fun p => (h1 p).trans (h2 p)
theorem Sim.prepend (x : List Char) {a b : List Char} (h : Sim a b) : Sim (x ++ a) (x ++ b) := by
  intro p
  have := h (p ++ x)
  simpa [List.append_assoc] using this
theorem Sim.cons (c : Char) {a b : List Char} (h : Sim a b) : Sim (c :: a) (c :: b) := Sim.prepend [c] h

/-- whole whitespace-only lines between two newlines can be exchanged for other whitespace-only lines -/
theorem Sim.blank_lines (m m' y : List Char) (hm : ∀ c ∈ m, isSpace c = true) (hm' : ∀ c ∈ m', isSpace c = true) :
    Sim ('\n' :: (m ++ '\n' :: y)) ('\n' :: (m' ++ '\n' :: y)) := by
  intro p
  rw [nbl_append_nl, nbl_append_nl, nbl_append_nl, nbl_append_nl, nbl_allSpace m hm, nbl_allSpace m' hm']

/-- … and whitespace-only lines at the very end can be dropped -/
theorem Sim.blank_tail (m : List Char) (hm : ∀ c ∈ m, isSpace c = true) : Sim ('\n' :: m) ['\n'] := by
  intro p
  rw [nbl_append_nl, nbl_append_nl, nbl_allSpace m hm, nbl_allSpace [] (by simp)]

/-! ## facts about the helpers -/

theorem splitLastNL_spec : ∀ (w a b : List Char), splitLastNL w = some (a, b) → w = a ++ '\n' :: b := by
  intro w
  induction w with
  | nil => intro a b h; simp [splitLastNL] at h
  | cons c cs ih =>
    intro a b h
    simp only [splitLastNL] at h
    split at h
    · rename_i a' b' heq
      simp only [Option.some.injEq, Prod.mk.injEq] at h
      obtain ⟨rfl, rfl⟩ := h
      simp [ih a' b' heq]
    · split at h
      · rename_i hc
        simp only [Option.some.injEq, Prod.mk.injEq] at h
        obtain ⟨rfl, rfl⟩ := h
        simp [hc]
      · simp at h

theorem takeWhile_all (p : Char → Bool) (l : List Char) : ∀ c ∈ l.takeWhile p, p c = true := by
  induction l with
  | nil => intro c hc; simp at hc
  | cons d ds ih =>
    intro c hc
    simp only [List.takeWhile] at hc
    split at hc
    · rename_i hd
      simp only [List.mem_cons] at hc
      rcases hc with rfl | hc
      · exact hd
      · exact ih c hc
    · simp at hc

theorem mem_of_split {w a b : List Char} (h : w = a ++ '\n' :: b) :
    (∀ c ∈ a, c ∈ w) ∧ (∀ c ∈ b, c ∈ w) := by
  subst h
  constructor <;> intro c hc <;> simp [hc]

/-! ## the three substitutions keep the non-blank lines -/

theorem sub1_sim : ∀ s : List Char, Sim s (sub1 s) := by
  intro s
  induction s using sub1.induct with
  | case1 => rw [sub1]; exact Sim.refl _
  | case2 c cs hcond a t hsp ih =>
    rw [sub1, if_pos hcond]
    simp only [hsp]
    obtain ⟨hc, _⟩ := hcond
    subst hc
    have hw := splitLastNL_spec _ _ _ hsp
    have hall := takeWhile_all isSpace cs
    have hmem := mem_of_split hw
    have hcs : cs = (a ++ '\n' :: t) ++ cs.dropWhile isSpace := by
      rw [← hw]; exact (List.takeWhile_append_dropWhile (p := isSpace) (l := cs)).symm
    have e1 : Sim ('\n' :: cs) ('\n' :: '\n' :: '\n' :: (t ++ cs.dropWhile isSpace)) := by
      have := Sim.blank_lines a ['\n'] (t ++ cs.dropWhile isSpace) (fun c hc => hall c (hmem.1 c hc)) (by simp [isSpace])
      rw [show ('\n' :: cs) = '\n' :: (a ++ '\n' :: (t ++ cs.dropWhile isSpace)) from by
        congr 1; simpa [List.append_assoc] using hcs]
      simpa [List.append_assoc] using this
    have e2 : Sim ('\n' :: '\n' :: '\n' :: (t ++ cs.dropWhile isSpace)) ('\n' :: '\n' :: '\n' :: (t ++ sub1 (cs.dropWhile isSpace))) := by
      have := Sim.prepend ('\n' :: '\n' :: '\n' :: t) ih
      simpa using this
    exact e1.trans e2
  | case3 c cs hcond hsp ih =>
    rw [sub1, if_pos hcond]
    simp only [hsp]
    exact Sim.cons c ih
  | case4 c cs hcond ih =>
    rw [sub1, if_neg hcond]
    exact Sim.cons c ih

theorem sub2_sim : ∀ s : List Char, Sim s (sub2 s) := by
  intro s
  induction s with
  | nil => exact Sim.refl _
  | cons c cs ih =>
    simp only [sub2]
    split
    · rename_i h
      obtain ⟨hc, hall, _⟩ := h
      subst hc
      exact Sim.blank_tail cs (by simpa [List.all_eq_true] using hall)
    · exact Sim.cons c ih

theorem group2_sim (w g y : List Char) (hw : ∀ c ∈ w, isSpace c = true) (hg : group2 w = some g) :
    Sim ('\n' :: (w ++ y)) ('\n' :: (g ++ y)) := by
  unfold group2 at hg
  split at hg
  · simp at hg
  · rename_i a t hsp
    have hs := splitLastNL_spec _ _ _ hsp
    have hmem := mem_of_split hs
    split at hg
    · split at hg
      · simp only [Option.some.injEq] at hg
        subst hg
        have := Sim.blank_lines a [] (t ++ y) (fun c hc => hw c (hmem.1 c hc)) (by simp)
        rw [hs]
        simpa [List.append_assoc] using this
      · simp at hg
    · rename_i ht
      have ht : t = [] := by simpa using ht
      subst ht
      split at hg
      · simp at hg
      · rename_i a2 u hsp2
        have hs2 := splitLastNL_spec _ _ _ hsp2
        have hmem2 := mem_of_split hs2
        split at hg
        · simp only [Option.some.injEq] at hg
          subst hg
          have hu : ∀ c ∈ u, isSpace c = true := fun c hc => hw c (hmem.1 c (hmem2.2 c hc))
          have ha2 : ∀ c ∈ a2, isSpace c = true := fun c hc => hw c (hmem.1 c (hmem2.1 c hc))
          have := Sim.blank_lines (a2 ++ '\n' :: u) ('\n' :: u) y
            (by intro c hc; simp only [List.mem_append, List.mem_cons] at hc
                rcases hc with h | rfl | h
                · exact ha2 c h
                · simp [isSpace]
                · exact hu c h)
            (by intro c hc; simp only [List.mem_cons] at hc
                rcases hc with rfl | h
                · simp [isSpace]
                · exact hu c h)
          rw [hs, hs2]
          simpa [List.append_assoc] using this
        · simp at hg

theorem sub3_sim : ∀ s : List Char, Sim s (sub3 s) := by
  intro s
  induction s using sub3.induct with
  | case1 => rw [sub3]; exact Sim.refl _
  | case2 c cs hcond g hg ih =>
    rw [sub3, if_pos hcond]
    simp only [hg]
    obtain ⟨hc, _⟩ := hcond
    subst hc
    have e1 := group2_sim (cs.takeWhile isSpace) g (cs.dropWhile isSpace) (takeWhile_all isSpace cs) hg
    rw [List.takeWhile_append_dropWhile] at e1
    have e2 : Sim ('\n' :: (g ++ cs.dropWhile isSpace)) ('\n' :: (g ++ sub3 (cs.dropWhile isSpace))) := by
      have := Sim.prepend ('\n' :: g) ih
      simpa using this
    exact e1.trans e2
  | case3 c cs hcond hg ih =>
    rw [sub3, if_pos hcond]
    simp only [hg]
    exact Sim.cons c ih
  | case4 c cs hcond ih =>
    rw [sub3, if_neg hcond]
    exact Sim.cons c ih

/-- **`fix_too_many_blank_lines` keeps every non-blank line verbatim (indentation included), in order, and adds
nothing but whitespace-only lines** — for every text -/
theorem fixBlankLines_nbl (s : List Char) : nbl (fixBlankLines s) = nbl s := by
  have h := (sub1_sim s).trans ((sub2_sim (sub1 s)).trans (sub3_sim (sub2 (sub1 s))))
  have := h []
  simpa [fixBlankLines] using this.symm

end BlankLines
