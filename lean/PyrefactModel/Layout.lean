/-!
# Layout stages: `str.expandtabs(4)`, `rmspace` (`( |\t)+(?=$|\n)` ↦ ε), whitespace-only replacements

The common invariant: a layout stage only adds, removes or exchanges *whitespace*; the sequence of
non-whitespace characters of the text is unchanged.  (That says nothing about whitespace *inside* string
literals — which is exactly where these text-level stages violate C11, see `Props/C11.lean`.)
-/
namespace Layout

def isBlank (c : Char) : Bool := c = ' ' || c = '\t'
def isWs (c : Char) : Bool := c = ' ' || c = '\t' || c = '\n' || c = '\r' || c.val = 0x0b || c.val = 0x0c

/-- the non-whitespace characters, in order -/
def nonWs (s : List Char) : List Char := s.filter (fun c => !isWs c)

/-- `str.expandtabs(4)` from column `col` -/
def expandTabsFrom : Nat → List Char → List Char
  | _, [] => []
  | col, c :: cs =>
    if c = '\t' then List.replicate (4 - col % 4) ' ' ++ expandTabsFrom 0 cs  -- the next column is a multiple of 4
    else if c = '\n' || c = '\r' then c :: expandTabsFrom 0 cs
    else c :: expandTabsFrom ((col + 1) % 4) cs

def expandTabs (s : List Char) : List Char := expandTabsFrom 0 s

/-- everything up to the end of the line (or text) is blank -/
def restBlankToEol : List Char → Bool
  | [] => true
  | d :: ds => if d = '\n' then true else isBlank d && restBlankToEol ds

/-- trailing blanks of each line removed: `rmspace.format_str` -/
def rmspace : List Char → List Char
  | [] => []
  | c :: cs => if isBlank c && restBlankToEol cs then rmspace cs else c :: rmspace cs

theorem nonWs_append (a b : List Char) : nonWs (a ++ b) = nonWs a ++ nonWs b := by simp [nonWs]

theorem nonWs_replicate_space (n : Nat) : nonWs (List.replicate n ' ') = [] := by
  induction n with
  | zero => rfl
  | succ n ih => simp only [List.replicate_succ, nonWs, List.filter_cons] at *; simpa [isWs] using ih

theorem expandTabsFrom_nonWs : ∀ (s : List Char) (col : Nat), nonWs (expandTabsFrom col s) = nonWs s := by
  intro s
  induction s with
  | nil => intro col; rfl
  | cons c cs ih =>
    intro col
    simp only [expandTabsFrom]
    split
    · rename_i h
      subst h
      rw [nonWs_append, nonWs_replicate_space, ih]
      simp [nonWs, isWs]
    · split
      · simp only [nonWs, List.filter_cons] at *; rw [ih 0]
      · simp only [nonWs, List.filter_cons] at *; rw [ih]

/-- tab expansion changes whitespace only -/
theorem expandTabs_nonWs (s : List Char) : nonWs (expandTabs s) = nonWs s := expandTabsFrom_nonWs s 0

/-- after tab expansion there is no tab left -/
theorem expandTabsFrom_no_tab : ∀ (s : List Char) (col : Nat), '\t' ∉ expandTabsFrom col s := by
  intro s
  induction s with
  | nil => intro col; simp [expandTabsFrom]
  | cons c cs ih =>
    intro col
    simp only [expandTabsFrom]
    split
    · simp only [List.mem_append, List.mem_replicate, not_or]
      exact ⟨fun h => by simp at h, ih 0⟩
    · rename_i hne
      split
      · simp only [List.mem_cons, not_or]; exact ⟨fun h => hne h.symm, ih 0⟩
      · simp only [List.mem_cons, not_or]; exact ⟨fun h => hne h.symm, ih _⟩

theorem rmspace_nonWs : ∀ (s : List Char), nonWs (rmspace s) = nonWs s := by
  intro s
  induction s with
  | nil => rfl
  | cons c cs ih =>
    simp only [rmspace]
    by_cases h : (isBlank c && restBlankToEol cs) = true
    · rw [if_pos h]
      have hb : isBlank c = true := by simp only [Bool.and_eq_true] at h; exact h.1
      have : isWs c = true := by
        simp only [isBlank, Bool.or_eq_true, decide_eq_true_eq] at hb
        rcases hb with rfl | rfl <;> simp [isWs]
      simp only [nonWs, List.filter_cons, this] at *
      simpa using ih
    · rw [if_neg h]
      simp only [nonWs, List.filter_cons] at *; rw [ih]

/-- any replacement of a whitespace-only stretch by a whitespace-only stretch (the three blank-line regexes of
`fix_too_many_blank_lines`, the final whitespace diff minimisation) keeps the non-whitespace characters -/
theorem ws_replace_nonWs (a w w' b : List Char) (hw : ∀ c ∈ w, isWs c = true) (hw' : ∀ c ∈ w', isWs c = true) :
    nonWs (a ++ w' ++ b) = nonWs (a ++ w ++ b) := by
  have e : ∀ l : List Char, (∀ c ∈ l, isWs c = true) → nonWs l = [] := by
    intro l hl
    simp only [nonWs, List.filter_eq_nil_iff]
    intro c hc; simp [hl c hc]
  simp only [nonWs_append, e w hw, e w' hw']

end Layout
