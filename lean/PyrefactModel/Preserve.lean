/-!
# Preserve sets: safe mode (`main.format_code`), per-file sets (`main.format_files`), used names

Module summaries: the names a module defines at top level, its `Class.method` pairs, the names bound by
top-level assignments (as `parsing.iter_assignments` reports them).
-/
namespace Preserve

structure ModSummary where
  defs : List String
  classMethods : List (String × String)
  assigns : List String
  classAssigns : List (String × String) := []
deriving Repr

/-- the set `format_code(safe=True)` adds to `preserve` -/
def safeSet (m : ModSummary) (preserve : List String) : List String :=
  preserve ++ m.defs ++ m.classMethods.map (fun p => p.1 ++ "." ++ p.2) ++ m.assigns ++
    m.classAssigns.map (fun p => p.1 ++ "." ++ p.2)

/-- the guard of the rules that rename or move a member `n` of class `cls`: both the bare name and `Class.member` are
looked up (`align_variable_names_with_convention`, `move_staticmethod_static_scope`) -/
def memberGuarded (preserve : List String) (cls : String) (candidates : List String) : List String :=
  candidates.filter (fun n => !(preserve.contains n || preserve.contains (cls ++ "." ++ n)))

/-- the guard of `delete_pointless_statements` for an effect-free statement that binds `_` (an assignment to `_`, a function or
class named `_`), met in a body owned by class `cls` (`none`: the module, a function, a compound statement): the statement is
kept iff `_` is preserved, or the module reads or deletes `_` somewhere, or `Class._` is preserved (since 995e49d) -/
def keepsUnderscore (preserve : List String) (underscoreRead : Bool) (cls : Option String) : Bool :=
  preserve.contains "_" || underscoreRead ||
    (match cls with
     | some c => preserve.contains (c ++ "." ++ "_")
     | none => false)

/-- `filename_preserve[f]`: union of the used names of all preserved files except the file's own namespace -/
def filePreserve (used : List (String × List String)) (ns : String) : List String :=
  (used.filter (fun p => p.1 != ns)).flatMap (·.2)

/-- `_used_names_in_file` on a summary: referenced imported names, every attribute name, and the base name of an
attribute access when it is an imported name -/
structure ClientSummary where
  imported : List String
  nameLoads : List String
  attrs : List (Option String × String)   -- (base name if the value is a plain name, attribute)
  fromNames : List String := []            -- `x` of every `from m import x [as y]`
  star : Bool := false                     -- the file has a `from m import *`
  allNames : List String := []             -- every name the file mentions (what a star import may stand for)
deriving Repr

def usedNames (c : ClientSummary) : List String :=
  c.nameLoads.filter (fun n => c.imported.contains n) ++
    c.attrs.flatMap (fun a => a.2 :: (match a.1 with | some b => if c.imported.contains b then [b] else [] | none => [])) ++
    c.fromNames ++ (if c.star then c.allNames else [])

/-- a guarded rule: of its candidates it touches only the names outside `preserve` -/
def guarded (preserve candidates : List String) : List String := candidates.filter (fun n => !preserve.contains n)

theorem safeSet_defs (m : ModSummary) (p : List String) (d : String) (h : d ∈ m.defs) : d ∈ safeSet m p := by
  simp [safeSet, h]
theorem safeSet_assigns (m : ModSummary) (p : List String) (d : String) (h : d ∈ m.assigns) : d ∈ safeSet m p := by
  simp [safeSet, h]
theorem safeSet_preserve (m : ModSummary) (p : List String) (d : String) (h : d ∈ p) : d ∈ safeSet m p := by
  simp [safeSet, h]
theorem safeSet_method (m : ModSummary) (p : List String) (c f : String) (h : (c, f) ∈ m.classMethods) :
    (c ++ "." ++ f) ∈ safeSet m p := by
  simp only [safeSet, List.mem_append, List.mem_map]
  exact Or.inl (Or.inl (Or.inr ⟨(c, f), h, rfl⟩))

theorem safeSet_classAssign (m : ModSummary) (p : List String) (c f : String) (h : (c, f) ∈ m.classAssigns) :
    (c ++ "." ++ f) ∈ safeSet m p := by
  simp only [safeSet, List.mem_append, List.mem_map]
  exact Or.inr ⟨(c, f), h, rfl⟩

theorem memberGuarded_spares (preserve candidates : List String) (cls n : String)
    (h : n ∈ preserve ∨ (cls ++ "." ++ n) ∈ preserve) : n ∉ memberGuarded preserve cls candidates := by
  have hc : (preserve.contains n || preserve.contains (cls ++ "." ++ n)) = true := by
    simp only [Bool.or_eq_true, List.contains_iff_mem]; exact h
  intro hm
  have := (List.mem_filter.mp hm).2
  rw [hc] at this
  cases this

theorem guarded_spares (preserve candidates : List String) (n : String) (h : n ∈ preserve) :
    n ∉ guarded preserve candidates := by
  simp [guarded, h]

theorem mem_filePreserve (used : List (String × List String)) (ns x : String) :
    x ∈ filePreserve used ns ↔ ∃ p ∈ used, p.1 ≠ ns ∧ x ∈ p.2 := by
  simp [filePreserve, List.mem_flatMap, List.mem_filter]
  constructor
  · rintro ⟨a, b, ⟨h1, h2⟩, h3⟩; exact ⟨a, b, h1, h2, h3⟩
  · rintro ⟨a, b, h1, h2, h3⟩; exact ⟨a, b, ⟨h1, h2⟩, h3⟩

theorem usedNames_attr (c : ClientSummary) (b : Option String) (a : String) (h : (b, a) ∈ c.attrs) :
    a ∈ usedNames c := by
  simp only [usedNames, List.mem_append, List.mem_flatMap]
  exact Or.inl (Or.inl (Or.inr ⟨(b, a), h, by simp⟩))

theorem usedNames_import (c : ClientSummary) (n : String) (h1 : n ∈ c.nameLoads) (h2 : n ∈ c.imported) :
    n ∈ usedNames c := by
  simp only [usedNames, List.mem_append, List.mem_filter]
  exact Or.inl (Or.inl (Or.inl ⟨h1, by simpa using h2⟩))

/-- what is imported by name from another module is needed there under its own name, alias or not, used or only re-exported -/
theorem usedNames_from (c : ClientSummary) (n : String) (h : n ∈ c.fromNames) : n ∈ usedNames c := by
  simp only [usedNames, List.mem_append]
  exact Or.inl (Or.inr h)

/-- behind a star import every name the file mentions may come from the other module -/
theorem usedNames_star (c : ClientSummary) (n : String) (hs : c.star = true) (h : n ∈ c.allNames) : n ∈ usedNames c := by
  simp only [usedNames, List.mem_append, hs, if_true]
  exact Or.inr h

end Preserve
