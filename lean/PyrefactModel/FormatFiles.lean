/-!
# `main.format_files`: pass planning, pool execution, change bookkeeping

Files are numbers, `folder f` their folder, contents are numbers.  The per-file formatter `fmt f c` returns
the new content and the change flag.  The pool is modelled by an arbitrary execution order of the tasks of a
pass; results are collected in submission order (`starmap`).
-/

/-- file contents: association list (latest binding first) -/
abbrev Contents := List (Nat × Nat)

def getC (c : Contents) (f : Nat) : Nat := (c.lookup f).getD 0
def setC (c : Contents) (f v : Nat) : Contents := (f, v) :: c

theorem getC_setC (c : Contents) (f v g : Nat) : getC (setC c f v) g = if g = f then v else getC c g := by
  unfold getC setC
  by_cases h : g = f
  · subst h; simp [List.lookup]
  · have : (g == f) = false := by simpa using h
    simp [List.lookup, this, h]

/-- the tasks of one pass executed in the order `tasks` (each reads and writes only its own file) -/
def runTasks (fmt : Nat → Nat → Nat × Bool) (c : Contents) (tasks : List Nat) : Contents :=
  tasks.foldl (fun c f => setC c f (fmt f (getC c f)).1) c

theorem runTasks_apply (fmt : Nat → Nat → Nat × Bool) : ∀ (tasks : List Nat) (c : Contents) (g : Nat),
    tasks.Nodup → getC (runTasks fmt c tasks) g = if g ∈ tasks then (fmt g (getC c g)).1 else getC c g := by
  intro tasks
  induction tasks with
  | nil => intro c g _; simp [runTasks]
  | cons f rest ih =>
    intro c g hnd
    rw [List.nodup_cons] at hnd
    simp only [runTasks, List.foldl_cons]
    have := ih (setC c f (fmt f (getC c f)).1) g hnd.2
    simp only [runTasks] at this
    rw [this, getC_setC]
    by_cases hgf : g = f
    · subst hgf
      simp [hnd.1]
    · by_cases hgr : g ∈ rest
      · simp [hgr, hgf]
      · simp [hgr, hgf]

/-- **Worker schedule independence**: whatever order the pool executes the tasks of a pass in, every file
ends up with the same content -/
theorem runTasks_perm (fmt : Nat → Nat → Nat × Bool) (c : Contents) (t1 t2 : List Nat) (hp : t1.Perm t2)
    (hnd : t1.Nodup) (g : Nat) : getC (runTasks fmt c t1) g = getC (runTasks fmt c t2) g := by
  rw [runTasks_apply fmt t1 c g hnd, runTasks_apply fmt t2 c g (hp.nodup_iff.mp hnd)]
  simp [hp.mem_iff]

structure FFState where
  contents : Contents
  /-- per folder: (changes in the last pass, passes left) -/
  st : List (Nat × Bool × Nat)

/-- one pass over the (sorted) file list -/
def ffPass (fmt : Nat → Nat → Nat × Bool) (folder : Nat → Nat) (files : List Nat) (s : FFState) : FFState × List Nat :=
  let active := s.st.filter (fun p => p.2.1 && decide (p.2.2 > 0)) |>.map (·.1)
  let todo := files.filter (fun f => active.contains (folder f))
  let changed := todo.filter (fun f => (fmt f (getC s.contents f)).2)
  let contents' := runTasks fmt s.contents todo
  let st' := s.st.map (fun p => (p.1, (changed.any (fun f => folder f == p.1), p.2.2 - 1)))
  ({ contents := contents', st := st' }, todo)

def ffLoop (fmt : Nat → Nat → Nat × Bool) (folder : Nat → Nat) (files : List Nat) : Nat → FFState → List (List Nat) → FFState × List (List Nat)
  | 0, s, log => (s, log.reverse)
  | n + 1, s, log =>
    let (s', todo) := ffPass fmt folder files s
    if todo.isEmpty then (s, log.reverse) else ffLoop fmt folder files n s' (todo :: log)

def dedupNat : List Nat → List Nat
  | [] => []
  | a :: as => a :: (dedupNat as).filter (· != a)

/-- `format_files`: files are sorted first; returns final contents, the change flag and the per-pass task lists -/
def formatFiles (fmt : Nat → Nat → Nat × Bool) (folder : Nat → Nat) (files : List Nat) (maxPasses : Nat)
    (contents : Contents) : FFState × List (List Nat) :=
  let sorted := files.mergeSort (fun a b => decide (a ≤ b))
  let folders := dedupNat (sorted.map folder)
  ffLoop fmt folder sorted maxPasses { contents := contents, st := folders.map (fun fo => (fo, true, maxPasses)) } []

def formatFilesChanged (r : FFState × List (List Nat)) : Bool := r.1.st.any (·.2.1)

/-- **File order independence**: the list of files may be given in any order -/
theorem formatFiles_perm (fmt : Nat → Nat → Nat × Bool) (folder : Nat → Nat) (f1 f2 : List Nat) (hp : f1.Perm f2)
    (maxPasses : Nat) (contents : Contents) :
    formatFiles fmt folder f1 maxPasses contents = formatFiles fmt folder f2 maxPasses contents := by
  have hs : f1.mergeSort (fun a b => decide (a ≤ b)) = f2.mergeSort (fun a b => decide (a ≤ b)) := by
    apply List.Perm.eq_of_pairwise (le := fun a b => decide (a ≤ b) = true)
    · intro a b _ _ h1 h2; simp at h1 h2; omega
    · exact List.pairwise_mergeSort (fun a b c h1 h2 => by simp at *; omega) (fun a b => by simp; omega) _
    · exact List.pairwise_mergeSort (fun a b c h1 h2 => by simp at *; omega) (fun a b => by simp; omega) _
    · exact (List.mergeSort_perm _ _).trans (hp.trans (List.mergeSort_perm _ _).symm)
  unfold formatFiles
  simp only [hs]
