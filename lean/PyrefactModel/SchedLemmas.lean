import PyrefactModel.Sched
/-! # Lemmas about the scheduler model (helper lemmas; property theorems are in `Props/C10.lean`) -/

namespace Sched

/-- pairwise non-overlap of a scheduled list -/
def NoOv (l : List (Key × Rw)) : Prop := l.Pairwise (fun a b => a.2.r.overlaps b.2.r = false)

/-- the rewrites a transaction contributes when accepted -/
def contrib (p : Key × List Rw) : List (Key × Rw) := (normRws p.2).map (fun x => (p.1, x))

theorem mem_dedup {α : Type} [DecidableEq α] {a : α} {l : List α} : a ∈ dedup l ↔ a ∈ l := by
  induction l with
  | nil => simp [dedup]
  | cons b bs ih =>
    simp only [dedup, List.mem_cons, List.mem_filter, ih, decide_eq_true_eq]
    constructor
    · rintro (h | ⟨h, _⟩); exact Or.inl h; exact Or.inr h
    · intro h
      by_cases hab : a = b
      · exact Or.inl hab
      · rcases h with h | h
        · exact absurd h hab
        · exact Or.inr ⟨h, hab⟩

theorem nodup_dedup {α : Type} [DecidableEq α] (l : List α) : (dedup l).Nodup := by
  induction l with
  | nil => simp [dedup]
  | cons b bs ih =>
    simp only [dedup, List.nodup_cons, List.mem_filter, decide_eq_true_eq]
    exact ⟨fun h => h.2 rfl, ih.sublist List.filter_sublist⟩

theorem mem_normRws {rw : Rw} {rws : List Rw} : rw ∈ normRws rws ↔ rw ∈ rws := by
  simp [normRws, mem_dedup]

theorem mem_contrib {p : Key × List Rw} {x : Key × Rw} : x ∈ contrib p ↔ x.1 = p.1 ∧ x.2 ∈ p.2 := by
  obtain ⟨k, rw⟩ := x
  simp only [contrib, List.mem_map, mem_normRws]
  constructor
  · rintro ⟨y, hy, h⟩; cases h; exact ⟨rfl, hy⟩
  · rintro ⟨h1, h2⟩; exact ⟨rw, h2, by cases h1; rfl⟩

theorem selfConflict_false_pairwise (l : List Rw) (h : selfConflict l = false) :
    l.Pairwise (fun a b => a.r.overlaps b.r = false) := by
  induction l with
  | nil => exact List.Pairwise.nil
  | cons x xs ih =>
    simp [selfConflict] at h
    refine List.Pairwise.cons ?_ (ih h.2)
    intro y hy
    exact h.1 y hy

theorem selfConflict_true_exists (l : List Rw) (h : selfConflict l = true) :
    ∃ a ∈ l, ∃ b ∈ l, a.r.overlaps b.r = true := by
  induction l with
  | nil => simp [selfConflict] at h
  | cons x xs ih =>
    simp only [selfConflict, Bool.or_eq_true, List.any_eq_true] at h
    rcases h with ⟨y, hy, hxy⟩ | h
    · exact ⟨x, by simp, y, by simp [hy], hxy⟩
    · obtain ⟨a, ha, b, hb, hab⟩ := ih h
      exact ⟨a, by simp [ha], b, by simp [hb], hab⟩

/-- the three outcomes of `accept`, with the exact reason -/
theorem accept_eq (ign : Rng → Bool) (acc : List (Key × Rw)) (p : Key × List Rw) :
    accept ign acc p =
      if (normRws p.2).any (fun x => ign x.r) || selfConflict (normRws p.2) ||
          conflictsWith acc (normRws p.2) then acc else acc ++ contrib p := by
  unfold accept contrib
  by_cases h1 : (normRws p.2).any (fun x => ign x.r) = true
  · simp [h1]
  · by_cases h2 : (selfConflict (normRws p.2) || conflictsWith acc (normRws p.2)) = true
    · simp only [h1, h2]; simp only [Bool.or_eq_true] at h2; rcases h2 with h2 | h2 <;> simp [h2]
    · simp only [h1, h2]
      simp only [Bool.or_eq_true, not_or] at h2
      simp [h2.1, h2.2]

theorem accept_noOv (ign : Rng → Bool) (acc : List (Key × Rw)) (p : Key × List Rw) (h : NoOv acc) :
    NoOv (accept ign acc p) := by
  rw [accept_eq]
  split
  · exact h
  · rename_i hc
    simp only [Bool.or_eq_true, not_or, Bool.not_eq_true] at hc
    obtain ⟨⟨_, hs⟩, hc⟩ := hc
    unfold NoOv contrib
    rw [List.pairwise_append]
    refine ⟨h, ?_, ?_⟩
    · rw [List.pairwise_map]
      exact selfConflict_false_pairwise _ hs
    · intro a ha b hb
      simp only [List.mem_map] at hb
      obtain ⟨x, hx, rfl⟩ := hb
      simp only [conflictsWith, List.any_eq_false, Bool.not_eq_true] at hc
      have := hc x hx a ha
      simpa [Rng.overlaps_comm] using this

theorem foldl_accept_noOv (ign : Rng → Bool) (ps : List (Key × List Rw)) :
    ∀ acc, NoOv acc → NoOv (ps.foldl (accept ign) acc) := by
  induction ps with
  | nil => intro acc h; simpa
  | cons t ts ih => intro acc h; exact ih _ (accept_noOv ign acc t h)

theorem groupStep_noOv (ign : Rng → Bool) (st : SchedState) (g : Nat) (ys : List Yield)
    (h : NoOv st.sched) : NoOv (groupStep ign st g ys).sched := by
  unfold groupStep; exact foldl_accept_noOv ign _ _ h

theorem runGroups_noOv (ign : Rng → Bool) : ∀ (groups : List (List Yield)) (st : SchedState) (g : Nat),
    NoOv st.sched → NoOv (runGroups ign st g groups).sched := by
  intro groups
  induction groups with
  | nil => intro st g h; simpa [runGroups]
  | cons ys rest ih => intro st g h; exact ih _ _ (groupStep_noOv ign st g ys h)

theorem schedule_noOv (ign : Rng → Bool) (groups : List (List Yield)) : NoOv (schedule ign groups) := by
  unfold schedule NoOv
  have h := runGroups_noOv ign groups initState 0 (by simp [initState, NoOv])
  exact (List.Perm.pairwise_iff (fun {x y} hxy => by rw [Rng.overlaps_comm]; exact hxy)
    (List.mergeSort_perm _ _)).mpr h


/-! ## the accept loop adds whole transactions -/

/-- the result of the accept loop is the start list followed by the complete contributions of a
sub-list of the visited transactions -/
theorem foldl_accept_sel (ign : Rng → Bool) (ps : List (Key × List Rw)) :
    ∀ acc, ∃ sel : List (Key × List Rw), sel.Sublist ps ∧ ps.foldl (accept ign) acc = acc ++ sel.flatMap contrib := by
  induction ps with
  | nil => intro acc; exact ⟨[], List.Sublist.refl _, by simp⟩
  | cons p ps ih =>
    intro acc
    obtain ⟨sel, hsub, heq⟩ := ih (accept ign acc p)
    rw [List.foldl_cons, heq, accept_eq]
    split
    · exact ⟨sel, List.Sublist.cons _ hsub, rfl⟩
    · exact ⟨p :: sel, List.Sublist.cons_cons _ hsub, by simp [List.flatMap_cons, List.append_assoc]⟩

def keysNodup (ps : List (Key × List Rw)) : Prop := (ps.map (·.1)).Nodup

theorem eq_of_key_eq {ps : List (Key × List Rw)} (hnd : keysNodup ps) {p q : Key × List Rw}
    (hp : p ∈ ps) (hq : q ∈ ps) (h : p.1 = q.1) : p = q := by
  induction ps with
  | nil => cases hp
  | cons a rest ih =>
    simp only [keysNodup, List.map_cons, List.nodup_cons, List.mem_map, not_exists, not_and] at hnd
    rcases List.mem_cons.mp hp with rfl | hp' <;> rcases List.mem_cons.mp hq with rfl | hq'
    · rfl
    · exact absurd h.symm (hnd.1 q hq')
    · exact absurd h (hnd.1 p hp')
    · exact ih hnd.2 hp' hq'

theorem mem_flatMap_contrib {sel : List (Key × List Rw)} {x : Key × Rw} :
    x ∈ sel.flatMap contrib ↔ ∃ p ∈ sel, x.1 = p.1 ∧ x.2 ∈ p.2 := by
  simp [List.mem_flatMap, mem_contrib]

theorem sel_atomic {ps sel : List (Key × List Rw)} (hnd : keysNodup ps) (hsub : sel.Sublist ps)
    {p : Key × List Rw} (hp : p ∈ ps) :
    (∀ rw ∈ p.2, (p.1, rw) ∈ sel.flatMap contrib) ∨ (∀ rw, (p.1, rw) ∉ sel.flatMap contrib) := by
  by_cases hin : p ∈ sel
  · left; intro rw hrw; exact mem_flatMap_contrib.mpr ⟨p, hin, rfl, hrw⟩
  · right; intro rw hmem
    obtain ⟨q, hq, hk, _⟩ := mem_flatMap_contrib.mp hmem
    have hqps : q ∈ ps := hsub.subset hq
    -- two entries of `ps` with the same key are the same entry
    have : q = p := eq_of_key_eq hnd hqps hp hk.symm
    exact hin (this ▸ hq)


/-! ## from the accept loop to `schedule` -/

/-- all filled yields `(key, rewrite)` of a run, threading the default-transaction counter -/
def yieldedFrom : Int → Nat → List (List Yield) → List (Key × Rw)
  | _, _, [] => []
  | c, g, ys :: rest => (fill g ys c).1 ++ yieldedFrom (fill g ys c).2 (g + 1) rest

def yielded (groups : List (List Yield)) : List (Key × Rw) := yieldedFrom (-100000000) 0 groups

/-- the transactions the accept loop visits in group `g` -/
def visited (st : SchedState) (g : Nat) (ys : List Yield) : List (Key × List Rw) :=
  let f := fill g ys st.ctr
  let all := st.done ++ sortKeys (buildTab f.1)
  let dups := dupScan all []
  (all.filter (fun p => !dups.contains p.1)).filter (fun p => p.1.g == g)

theorem groupStep_sched (ign : Rng → Bool) (st : SchedState) (g : Nat) (ys : List Yield) :
    (groupStep ign st g ys).sched = (visited st g ys).foldl (accept ign) st.sched := rfl

def visitedAll (ign : Rng → Bool) : SchedState → Nat → List (List Yield) → List (Key × List Rw)
  | _, _, [] => []
  | st, g, ys :: rest => visited st g ys ++ visitedAll ign (groupStep ign st g ys) (g + 1) rest

theorem runGroups_sched (ign : Rng → Bool) : ∀ (groups : List (List Yield)) (st : SchedState) (g : Nat),
    (runGroups ign st g groups).sched = (visitedAll ign st g groups).foldl (accept ign) st.sched := by
  intro groups
  induction groups with
  | nil => intro st g; simp [runGroups, visitedAll]
  | cons ys rest ih =>
    intro st g
    simp only [runGroups, visitedAll, List.foldl_append]
    rw [ih, groupStep_sched]

theorem fill_key_g (g : Nat) : ∀ (ys : List Yield) (c : Int) (x : Key × Rw), x ∈ (fill g ys c).1 → x.1.g = g := by
  intro ys
  induction ys with
  | nil => intro c x h; simp [fill] at h
  | cons y ys ih =>
    intro c x h
    simp only [fill, List.mem_cons] at h
    rcases h with rfl | h
    · rfl
    · exact ih _ _ h

theorem mem_buildTab {l : List (Key × Rw)} {p : Key × List Rw} (h : p ∈ buildTab l) :
    p.1 ∈ l.map (·.1) ∧ p.2 = rwsOf l p.1 := by
  simp only [buildTab, List.mem_map, mem_dedup] at h
  obtain ⟨k, ⟨x, hx, rfl⟩, rfl⟩ := h
  exact ⟨List.mem_map.mpr ⟨x, hx, rfl⟩, rfl⟩

theorem buildTab_keysNodup (l : List (Key × Rw)) : keysNodup (buildTab l) := by
  unfold keysNodup buildTab
  rw [List.map_map]
  have : ((fun (p : Key × List Rw) => p.1) ∘ fun k => (k, rwsOf l k)) = id := by funext k; rfl
  rw [this, List.map_id]
  exact nodup_dedup _

theorem mem_rwsOf {l : List (Key × Rw)} {k : Key} {rw : Rw} : rw ∈ rwsOf l k ↔ (k, rw) ∈ l := by
  simp only [rwsOf, List.mem_filterMap]
  constructor
  · rintro ⟨x, hx, h⟩
    split at h
    · rename_i hk; cases h; rw [← hk]; exact hx
    · cases h
  · intro h; exact ⟨(k, rw), h, by simp⟩

/-- the counter state is independent of the ignore predicate and acceptance -/
theorem groupStep_ctr (ign : Rng → Bool) (st : SchedState) (g : Nat) (ys : List Yield) :
    (groupStep ign st g ys).ctr = (fill g ys st.ctr).2 := rfl

/-- invariant: surviving transactions of earlier groups have smaller group numbers -/
def DoneLt (st : SchedState) (g : Nat) : Prop := ∀ p ∈ st.done, p.1.g < g

theorem groupStep_doneLt (ign : Rng → Bool) (st : SchedState) (g : Nat) (ys : List Yield)
    (h : DoneLt st g) : DoneLt (groupStep ign st g ys) (g + 1) := by
  intro p hp
  simp only [groupStep, List.mem_filter, List.mem_append, sortKeys, List.mem_mergeSort] at hp
  rcases hp.1 with hd | hb
  · exact Nat.lt_succ_of_lt (h p hd)
  · obtain ⟨hk, _⟩ := mem_buildTab hb
    obtain ⟨x, hx, hxk⟩ := List.mem_map.mp hk
    have := fill_key_g g ys st.ctr x hx
    rw [← hxk, this]; exact Nat.lt_succ_self g

/-- a visited transaction of group `g` is an entry of this group's table -/
theorem mem_visited {st : SchedState} {g : Nat} {ys : List Yield} (hd : DoneLt st g)
    {p : Key × List Rw} (hp : p ∈ visited st g ys) :
    p.1.g = g ∧ p ∈ buildTab (fill g ys st.ctr).1 := by
  simp only [visited, List.mem_filter, List.mem_append, sortKeys, List.mem_mergeSort, beq_iff_eq] at hp
  obtain ⟨⟨hmem, _⟩, hg⟩ := hp
  refine ⟨hg, ?_⟩
  rcases hmem with h | h
  · have := hd p h; omega
  · exact h

theorem visited_keysNodup {st : SchedState} {g : Nat} {ys : List Yield} (hd : DoneLt st g) :
    keysNodup (visited st g ys) := by
  -- `visited` is a sub-list of `done.filter (g) ++ (sorted table).filter (g)`, and the first part is empty
  have hsub : (visited st g ys).Sublist (sortKeys (buildTab (fill g ys st.ctr).1)) := by
    unfold visited
    simp only []
    rw [List.filter_filter, List.filter_append]
    have hnil : st.done.filter (fun p => (p.1.g == g) && !(dupScan (st.done ++ sortKeys (buildTab (fill g ys st.ctr).1)) []).contains p.1) = [] := by
      rw [List.filter_eq_nil_iff]
      intro p hp
      have := hd p hp
      simp; intro h; omega
    rw [hnil, List.nil_append]
    exact List.filter_sublist
  have hnd : keysNodup (sortKeys (buildTab (fill g ys st.ctr).1)) := by
    unfold keysNodup sortKeys
    exact ((List.mergeSort_perm _ _).map _).nodup_iff.mpr (buildTab_keysNodup _)
  unfold keysNodup at *
  exact hnd.sublist (hsub.map _)

theorem visitedAll_props (ign : Rng → Bool) : ∀ (groups : List (List Yield)) (st : SchedState) (g : Nat),
    DoneLt st g →
    keysNodup (visitedAll ign st g groups) ∧
    (∀ p ∈ visitedAll ign st g groups, g ≤ p.1.g ∧ p.2 = rwsOf (yieldedFrom st.ctr g groups) p.1 ∧
      p.1 ∈ (yieldedFrom st.ctr g groups).map (·.1)) ∧
    (∀ x ∈ yieldedFrom st.ctr g groups, g ≤ x.1.g) := by
  intro groups
  induction groups with
  | nil => intro st g _; simp [visitedAll, keysNodup, yieldedFrom]
  | cons ys rest ih =>
    intro st g hd
    have hd' := groupStep_doneLt ign st g ys hd
    obtain ⟨ihnd, ihmem, ihy⟩ := ih (groupStep ign st g ys) (g + 1) hd'
    rw [groupStep_ctr] at ihmem ihy
    have hy : ∀ x ∈ yieldedFrom st.ctr g (ys :: rest), g ≤ x.1.g := by
      intro x hx
      simp only [yieldedFrom, List.mem_append] at hx
      rcases hx with hx | hx
      · exact Nat.le_of_eq (fill_key_g g ys st.ctr x hx).symm
      · exact Nat.le_of_succ_le (ihy x hx)
    refine ⟨?_, ?_, hy⟩
    · -- keys nodup: both parts are, and the group numbers separate them
      unfold keysNodup
      simp only [visitedAll, List.map_append]
      rw [List.nodup_append]
      refine ⟨visited_keysNodup hd, ihnd, ?_⟩
      intro a ha b hb hab
      obtain ⟨p, hp, rfl⟩ := List.mem_map.mp ha
      obtain ⟨q, hq, rfl⟩ := List.mem_map.mp hb
      have h1 := (mem_visited hd hp).1
      have h2 := (ihmem q hq).1
      rw [hab] at h1; omega
    · intro p hp
      simp only [visitedAll, List.mem_append] at hp
      simp only [yieldedFrom]
      rcases hp with hp | hp
      · obtain ⟨hg, hb⟩ := mem_visited hd hp
        obtain ⟨hk, hrws⟩ := mem_buildTab hb
        refine ⟨Nat.le_of_eq hg.symm, ?_, ?_⟩
        · -- later groups contribute nothing under this key
          rw [hrws]
          simp only [rwsOf, List.filterMap_append]
          have : List.filterMap (fun (x : Key × Rw) => if x.1 = p.1 then some x.2 else none)
              (yieldedFrom (fill g ys st.ctr).2 (g + 1) rest) = [] := by
            rw [List.filterMap_eq_nil_iff]
            intro x hx
            have := ihy x hx
            split
            · rename_i h; rw [h] at this; omega
            · rfl
          rw [this, List.append_nil]
        · rw [List.map_append]; exact List.mem_append_left _ hk
      · obtain ⟨hg, hrws, hk⟩ := ihmem p hp
        refine ⟨Nat.le_of_succ_le hg, ?_, ?_⟩
        · rw [hrws]
          simp only [rwsOf, List.filterMap_append]
          have : List.filterMap (fun (x : Key × Rw) => if x.1 = p.1 then some x.2 else none)
              (fill g ys st.ctr).1 = [] := by
            rw [List.filterMap_eq_nil_iff]
            intro x hx
            have := fill_key_g g ys st.ctr x hx
            split
            · rename_i h; rw [h] at this; omega
            · rfl
          rw [this, List.nil_append]
        · rw [List.map_append]; exact List.mem_append_right _ hk

theorem doneLt_init : DoneLt initState 0 := by intro p hp; simp [initState] at hp

/-- `schedule` = sorted (complete contributions of a sub-list of the visited transactions) -/
theorem schedule_sel (ign : Rng → Bool) (groups : List (List Yield)) :
    ∃ sel : List (Key × List Rw), sel.Sublist (visitedAll ign initState 0 groups) ∧
      ∀ x, x ∈ schedule ign groups ↔ x ∈ sel.flatMap contrib := by
  obtain ⟨sel, hsub, heq⟩ := foldl_accept_sel ign (visitedAll ign initState 0 groups) initState.sched
  refine ⟨sel, hsub, ?_⟩
  intro x
  unfold schedule
  rw [List.mem_mergeSort, runGroups_sched, heq]
  simp [initState]


/-! ## the final order -/

theorem finalGe_iff (a b : Key × Rw) : finalGe a b = true ↔
    (b.2.r.s < a.2.r.s ∨ (b.2.r.s = a.2.r.s ∧ (b.2.r.e < a.2.r.e ∨ (b.2.r.e = a.2.r.e ∧
      (b.2.new < a.2.new ∨ (a.2.new = b.2.new ∧ (b.1.g < a.1.g ∨ (b.1.g = a.1.g ∧ b.1.t ≤ a.1.t)))))))) := by
  obtain ⟨⟨g1, t1⟩, ⟨⟨s1, e1⟩, n1⟩⟩ := a
  obtain ⟨⟨g2, t2⟩, ⟨⟨s2, e2⟩, n2⟩⟩ := b
  simp only [finalGe, Rng.lt, Key.le, Bool.or_eq_true, Bool.and_eq_true, decide_eq_true_eq, Rng.mk.injEq]
  constructor
  · rintro (h | ⟨⟨h1, h2⟩, h3⟩)
    · rcases h with h | ⟨h1, h2⟩
      · exact Or.inl h
      · exact Or.inr ⟨h1, Or.inl h2⟩
    · subst h1 h2
      refine Or.inr ⟨rfl, Or.inr ⟨rfl, ?_⟩⟩
      rcases h3 with h3 | ⟨h3, h4⟩
      · exact Or.inl h3
      · exact Or.inr ⟨h3, h4⟩
  · rintro (h | ⟨h1, h | ⟨h2, h3⟩⟩)
    · exact Or.inl (Or.inl h)
    · exact Or.inl (Or.inr ⟨h1, h⟩)
    · subst h1 h2
      refine Or.inr ⟨⟨rfl, rfl⟩, ?_⟩
      rcases h3 with h3 | ⟨h3, h4⟩
      · exact Or.inl h3
      · exact Or.inr ⟨h3, h4⟩

theorem finalGe_total (a b : Key × Rw) : (finalGe a b || finalGe b a) = true := by
  rw [Bool.or_eq_true, finalGe_iff, finalGe_iff]
  rcases Nat.lt_trichotomy b.2.r.s a.2.r.s with h | h | h
  · exact Or.inl (Or.inl h)
  · rcases Nat.lt_trichotomy b.2.r.e a.2.r.e with h2 | h2 | h2
    · exact Or.inl (Or.inr ⟨h, Or.inl h2⟩)
    · rcases Std.lt_trichotomy b.2.new a.2.new with h3 | h3 | h3
      · exact Or.inl (Or.inr ⟨h, Or.inr ⟨h2, Or.inl h3⟩⟩)
      · rcases Nat.lt_trichotomy b.1.g a.1.g with h4 | h4 | h4
        · exact Or.inl (Or.inr ⟨h, Or.inr ⟨h2, Or.inr ⟨h3.symm, Or.inl h4⟩⟩⟩)
        · rcases Int.le_total b.1.t a.1.t with h5 | h5
          · exact Or.inl (Or.inr ⟨h, Or.inr ⟨h2, Or.inr ⟨h3.symm, Or.inr ⟨h4, h5⟩⟩⟩⟩)
          · exact Or.inr (Or.inr ⟨h.symm, Or.inr ⟨h2.symm, Or.inr ⟨h3, Or.inr ⟨h4.symm, h5⟩⟩⟩⟩)
        · exact Or.inr (Or.inr ⟨h.symm, Or.inr ⟨h2.symm, Or.inr ⟨h3, Or.inl h4⟩⟩⟩)
      · exact Or.inr (Or.inr ⟨h.symm, Or.inr ⟨h2.symm, Or.inl h3⟩⟩)
    · exact Or.inr (Or.inr ⟨h.symm, Or.inl h2⟩)
  · exact Or.inr (Or.inl h)

theorem finalGe_trans (a b c : Key × Rw) (h1 : finalGe a b = true) (h2 : finalGe b c = true) : finalGe a c = true := by
  rw [finalGe_iff] at *
  have := @String.lt_trans
  have := @String.lt_irrefl
  grind

theorem schedule_sorted (ign : Rng → Bool) (groups : List (List Yield)) :
    (schedule ign groups).Pairwise (fun a b => finalGe a b = true) := by
  unfold schedule
  exact List.pairwise_mergeSort finalGe_trans finalGe_total _

/-! ## descending, non-overlapping, well-formed ranges form a chain -/

/-- well-formed rewrite: `s ≤ e ≤ len` -/
def WfRw (len : Nat) (x : Key × Rw) : Prop := x.2.r.s ≤ x.2.r.e ∧ x.2.r.e ≤ len

def toSplice (x : Key × Rw) : Rng × List Char := (x.2.r, x.2.new.toList)

theorem chain_of_pairwise (len : Nat) : ∀ (a : List (Key × Rw)) (pos : Nat),
    (∀ x ∈ a, WfRw len x ∧ pos ≤ x.2.r.s) →
    a.Pairwise (fun x y => x.2.r.e ≤ y.2.r.s) →
    Chain len pos (a.map toSplice) := by
  intro a
  induction a with
  | nil => intro pos _ _; trivial
  | cons x rest ih =>
    intro pos hwf hp
    simp only [List.map_cons, toSplice, Chain]
    obtain ⟨hx, hpos⟩ := hwf x (by simp)
    rw [List.pairwise_cons] at hp
    refine ⟨hpos, hx.1, hx.2, ih _ ?_ hp.2⟩
    intro y hy
    exact ⟨(hwf y (by simp [hy])).1, hp.1 y hy⟩

/-- for a list sorted descending by `finalGe` whose ranges are well-formed and pairwise
non-overlapping, later elements end before earlier ones start -/
theorem desc_noOv_sep {len : Nat} {a b : Key × Rw} (ha : WfRw len a) (hb : WfRw len b)
    (hge : finalGe a b = true) (hno : a.2.r.overlaps b.2.r = false) : b.2.r.e ≤ a.2.r.s := by
  rw [finalGe_iff] at hge
  rw [Rng.not_overlaps_iff] at hno
  unfold WfRw at ha hb
  omega

theorem schedule_chain (ign : Rng → Bool) (groups : List (List Yield)) (len : Nat)
    (hwf : ∀ x ∈ yielded groups, WfRw len x)
    (hsub : ∀ x ∈ schedule ign groups, x ∈ yielded groups) :
    Chain len 0 ((schedule ign groups).map toSplice).reverse := by
  rw [← List.map_reverse]
  apply chain_of_pairwise
  · intro x hx
    exact ⟨hwf x (hsub x (List.mem_reverse.mp hx)), Nat.zero_le _⟩
  · rw [List.pairwise_reverse]
    have hs := schedule_sorted ign groups
    have hn := schedule_noOv ign groups
    unfold NoOv at hn
    have hboth := hs.and hn
    refine List.Pairwise.imp_of_mem ?_ hboth
    intro a b ha hb ⟨hge, hno⟩
    exact desc_noOv_sep (hwf a (hsub a ha)) (hwf b (hsub b hb)) hge hno


/-! ## why a transaction is rejected -/

theorem subset_foldl_accept (ign : Rng → Bool) (ps : List (Key × List Rw)) (acc : List (Key × Rw)) :
    ∀ x ∈ acc, x ∈ ps.foldl (accept ign) acc := by
  obtain ⟨sel, _, heq⟩ := foldl_accept_sel ign ps acc
  intro x hx; rw [heq]; exact List.mem_append_left _ hx

theorem normRws_nodup (rws : List Rw) : (normRws rws).Nodup := by
  unfold normRws
  exact (List.mergeSort_perm _ _).nodup_iff.mpr (nodup_dedup _)

theorem selfConflict_true_ne (l : List Rw) (hnd : l.Nodup) (h : selfConflict l = true) :
    ∃ a ∈ l, ∃ b ∈ l, a ≠ b ∧ a.r.overlaps b.r = true := by
  induction l with
  | nil => simp [selfConflict] at h
  | cons x xs ih =>
    simp only [selfConflict, Bool.or_eq_true, List.any_eq_true] at h
    rw [List.nodup_cons] at hnd
    rcases h with ⟨y, hy, hxy⟩ | h
    · exact ⟨x, by simp, y, by simp [hy], fun hxy' => hnd.1 (hxy' ▸ hy), hxy⟩
    · obtain ⟨a, ha, b, hb, hne, hab⟩ := ih hnd.2 h
      exact ⟨a, by simp [ha], b, by simp [hb], hne, hab⟩

/-- The reasons for which the accept loop can leave a transaction out. `ps` is visited in strictly
ascending key order and everything already accepted has a smaller key. -/
theorem foldl_accept_rejected (ign : Rng → Bool) : ∀ (ps : List (Key × List Rw)) (acc : List (Key × Rw))
    (p : Key × List Rw), p ∈ ps →
    ps.Pairwise (fun a b => a.1.lt b.1 = true) →
    (∀ x ∈ acc, ∀ q ∈ ps, x.1.lt q.1 = true) →
    (∃ rw ∈ p.2, (p.1, rw) ∉ ps.foldl (accept ign) acc) →
    (∃ rw ∈ p.2, ign rw.r = true) ∨
    (∃ a ∈ p.2, ∃ b ∈ p.2, a ≠ b ∧ a.r.overlaps b.r = true) ∨
    (∃ x ∈ ps.foldl (accept ign) acc, x.1.lt p.1 = true ∧ ∃ rw ∈ p.2, rw.r.overlaps x.2.r = true) := by
  intro ps
  induction ps with
  | nil => intro acc p hp; cases hp
  | cons q ps ih =>
    intro acc p hp hsorted hacc hrej
    rw [List.pairwise_cons] at hsorted
    rw [List.foldl_cons] at hrej ⊢
    rcases List.mem_cons.mp hp with rfl | hp'
    · -- `p` is visited now
      rw [accept_eq] at hrej ⊢
      split at hrej
      · rename_i hc
        rw [if_pos hc]
        simp only [Bool.or_eq_true] at hc
        rcases hc with (hc | hc) | hc
        · left
          obtain ⟨rw, hrw, hi⟩ := List.any_eq_true.mp hc
          exact ⟨rw, mem_normRws.mp hrw, hi⟩
        · right; left
          obtain ⟨a, ha, b, hb, hne, hab⟩ := selfConflict_true_ne _ (normRws_nodup _) hc
          exact ⟨a, mem_normRws.mp ha, b, mem_normRws.mp hb, hne, hab⟩
        · right; right
          simp only [conflictsWith, List.any_eq_true] at hc
          obtain ⟨rw, hrw, x, hx, hov⟩ := hc
          exact ⟨x, subset_foldl_accept ign ps acc x hx, hacc x hx p (by simp), rw, mem_normRws.mp hrw, hov⟩
      · -- accepted: every rewrite of `p` is in the result
        exfalso
        obtain ⟨rw, hrw, hnot⟩ := hrej
        apply hnot
        apply subset_foldl_accept
        exact List.mem_append_right _ (mem_contrib.mpr ⟨rfl, hrw⟩)
    · apply ih (accept ign acc q) p hp' hsorted.2 ?_ hrej
      intro x hx q' hq'
      rw [accept_eq] at hx
      split at hx
      · exact hacc x hx q' (by simp [hq'])
      · rcases List.mem_append.mp hx with hx | hx
        · exact hacc x hx q' (by simp [hq'])
        · rw [(mem_contrib.mp hx).1]; exact hsorted.1 q' hq'

theorem Key.le_trans' (a b c : Key) (h1 : a.le b = true) (h2 : b.le c = true) : a.le c = true := by
  simp only [Key.le, Bool.or_eq_true, Bool.and_eq_true, decide_eq_true_eq] at *; omega

theorem Key.le_total' (a b : Key) : (a.le b || b.le a) = true := by
  simp only [Key.le, Bool.or_eq_true, Bool.and_eq_true, decide_eq_true_eq]; omega

theorem Key.lt_of_le_ne {a b : Key} (h : a.le b = true) (hne : a ≠ b) : a.lt b = true := by
  obtain ⟨g1, t1⟩ := a; obtain ⟨g2, t2⟩ := b
  simp only [Key.le, Key.lt, Bool.or_eq_true, Bool.and_eq_true, decide_eq_true_eq] at *
  simp only [ne_eq, Key.mk.injEq, not_and] at hne
  omega

theorem Key.lt_of_g_lt {a b : Key} (h : a.g < b.g) : a.lt b = true := by
  simp [Key.lt, h]

theorem visited_sorted {st : SchedState} {g : Nat} {ys : List Yield} (hd : DoneLt st g) :
    (visited st g ys).Pairwise (fun a b => a.1.lt b.1 = true) := by
  have hsub : (visited st g ys).Sublist (sortKeys (buildTab (fill g ys st.ctr).1)) := by
    unfold visited
    simp only []
    rw [List.filter_filter, List.filter_append]
    have hnil : st.done.filter (fun p => (p.1.g == g) && !(dupScan (st.done ++ sortKeys (buildTab (fill g ys st.ctr).1)) []).contains p.1) = [] := by
      rw [List.filter_eq_nil_iff]
      intro p hp
      have := hd p hp
      simp; intro h; omega
    rw [hnil, List.nil_append]
    exact List.filter_sublist
  have hle : (visited st g ys).Pairwise (fun a b => a.1.le b.1 = true) := by
    refine List.Pairwise.sublist hsub ?_
    unfold sortKeys
    exact List.pairwise_mergeSort (le := fun (a b : Key × List Rw) => a.1.le b.1)
      (fun a b c h1 h2 => Key.le_trans' a.1 b.1 c.1 h1 h2)
      (fun a b => Key.le_total' a.1 b.1) _
  have hnd := visited_keysNodup (ys := ys) hd
  unfold keysNodup at hnd
  rw [List.Nodup, List.pairwise_map] at hnd
  exact (hle.and hnd).imp (fun ⟨h1, h2⟩ => Key.lt_of_le_ne h1 h2)

theorem visitedAll_sorted (ign : Rng → Bool) : ∀ (groups : List (List Yield)) (st : SchedState) (g : Nat),
    DoneLt st g → (visitedAll ign st g groups).Pairwise (fun a b => a.1.lt b.1 = true) := by
  intro groups
  induction groups with
  | nil => intro st g _; simp [visitedAll]
  | cons ys rest ih =>
    intro st g hd
    have hd' := groupStep_doneLt ign st g ys hd
    simp only [visitedAll]
    rw [List.pairwise_append]
    refine ⟨visited_sorted hd, ih _ _ hd', ?_⟩
    intro a ha b hb
    have h1 := (mem_visited hd ha).1
    have h2 := ((visitedAll_props ign rest _ _ hd').2.1 b hb).1
    exact Key.lt_of_g_lt (by omega)

end Sched

namespace Sched

/-- the accept loop never adds a rewrite whose range is ignored -/
theorem foldl_accept_ign (ign : Rng → Bool) : ∀ (ps : List (Key × List Rw)) (acc : List (Key × Rw)),
    (∀ x ∈ acc, ign x.2.r = false) → ∀ x ∈ ps.foldl (accept ign) acc, ign x.2.r = false := by
  intro ps
  induction ps with
  | nil => intro acc h x hx; exact h x (by simpa using hx)
  | cons p ps ih =>
    intro acc h
    rw [List.foldl_cons]
    apply ih
    rw [accept_eq]
    split
    · exact h
    · rename_i hc
      simp only [Bool.or_eq_true, not_or, Bool.not_eq_true] at hc
      intro x hx
      rcases List.mem_append.mp hx with hx | hx
      · exact h x hx
      · simp only [contrib, List.mem_map] at hx
        obtain ⟨rw, hrw, rfl⟩ := hx
        have := hc.1.1
        simp only [List.any_eq_false] at this
        simpa using this rw hrw

theorem schedule_ign (ign : Rng → Bool) (groups : List (List Yield)) :
    ∀ x ∈ schedule ign groups, ign x.2.r = false := by
  intro x hx
  unfold schedule at hx
  rw [List.mem_mergeSort, runGroups_sched] at hx
  exact foldl_accept_ign ign _ _ (by intro y hy; simp [initState] at hy) x hx

end Sched

namespace Sched

theorem finalGe_antisymm (a b : Key × Rw) (h1 : finalGe a b = true) (h2 : finalGe b a = true) : a = b := by
  rw [finalGe_iff] at h1 h2
  obtain ⟨⟨g1, t1⟩, ⟨⟨s1, e1⟩, n1⟩⟩ := a
  obtain ⟨⟨g2, t2⟩, ⟨⟨s2, e2⟩, n2⟩⟩ := b
  simp only at h1 h2
  have hs : s1 = s2 := by omega
  subst hs
  have he : e1 = e2 := by omega
  subst he
  have hn : n1 = n2 := by
    rcases h1 with h | ⟨_, h | ⟨_, h | ⟨h, _⟩⟩⟩
    · omega
    · omega
    · rcases h2 with h' | ⟨_, h' | ⟨_, h' | ⟨h', _⟩⟩⟩
      · omega
      · omega
      · exact absurd (String.lt_trans h h') (String.lt_irrefl _)
      · exact h'.symm
    · exact h
  subst hn
  have hg : g1 = g2 := by
    rcases h1 with h | ⟨_, h | ⟨_, h | ⟨_, h⟩⟩⟩ <;> rcases h2 with h' | ⟨_, h' | ⟨_, h' | ⟨_, h'⟩⟩⟩ <;>
      first | omega | exact absurd h (String.lt_irrefl _) | exact absurd h' (String.lt_irrefl _)
  subst hg
  have ht : t1 = t2 := by
    rcases h1 with h | ⟨_, h | ⟨_, h | ⟨_, h⟩⟩⟩ <;> rcases h2 with h' | ⟨_, h' | ⟨_, h' | ⟨_, h'⟩⟩⟩ <;>
      first | omega | exact absurd h (String.lt_irrefl _) | exact absurd h' (String.lt_irrefl _)
  subst ht
  rfl

/-- the final order is canonical: it depends only on the *set* of accepted rewrites, not on the order in
which they were accepted (hence not on the yield order of non-conflicting rewrites) -/
theorem finalSort_perm (l1 l2 : List (Key × Rw)) (hp : l1.Perm l2) :
    l1.mergeSort finalGe = l2.mergeSort finalGe := by
  apply List.Perm.eq_of_pairwise (le := fun a b => finalGe a b = true)
  · intro a b _ _ h1 h2; exact finalGe_antisymm a b h1 h2
  · exact List.pairwise_mergeSort finalGe_trans finalGe_total _
  · exact List.pairwise_mergeSort finalGe_trans finalGe_total _
  · exact (List.mergeSort_perm _ _).trans (hp.trans (List.mergeSort_perm _ _).symm)

end Sched

namespace Sched

/-! ## duplicate elimination -/

theorem mem_dupScan : ∀ (tab : Tab) (seen : List (List Rw)) (k : Key), k ∈ dupScan tab seen →
    ∃ l1 rws l2, tab = l1 ++ (k, rws) :: l2 ∧ (rws ∈ seen ∨ ∃ q ∈ l1, q.2 = rws) := by
  intro tab
  induction tab with
  | nil => intro seen k h; simp [dupScan] at h
  | cons p rest ih =>
    intro seen k h
    obtain ⟨k0, r0⟩ := p
    simp only [dupScan] at h
    split at h
    · rename_i hin
      rcases List.mem_cons.mp h with rfl | h'
      · exact ⟨[], r0, rest, rfl, Or.inl hin⟩
      · obtain ⟨l1, rws, l2, heq, hor⟩ := ih seen k h'
        refine ⟨(k0, r0) :: l1, rws, l2, by rw [heq]; rfl, ?_⟩
        rcases hor with h1 | ⟨q, hq, hq2⟩
        · exact Or.inl h1
        · exact Or.inr ⟨q, List.mem_cons_of_mem _ hq, hq2⟩
    · obtain ⟨l1, rws, l2, heq, hor⟩ := ih (r0 :: seen) k h
      refine ⟨(k0, r0) :: l1, rws, l2, by rw [heq]; rfl, ?_⟩
      rcases hor with h1 | ⟨q, hq, hq2⟩
      · rcases List.mem_cons.mp h1 with rfl | h1'
        · exact Or.inr ⟨(k0, rws), by simp, rfl⟩
        · exact Or.inl h1'
      · exact Or.inr ⟨q, List.mem_cons_of_mem _ hq, hq2⟩

/-- stronger invariant on the state: surviving earlier transactions are in strictly ascending key order, have
smaller group numbers, and carry exactly the rewrites yielded under their key so far (`pre`) -/
structure StInv (st : SchedState) (g : Nat) (pre : List (Key × Rw)) : Prop where
  lt : DoneLt st g
  sorted : st.done.Pairwise (fun a b => a.1.lt b.1 = true)
  tuples : ∀ p ∈ st.done, p.2 = rwsOf pre p.1 ∧ p.1 ∈ pre.map (·.1)
  preLt : ∀ x ∈ pre, x.1.g < g

theorem rwsOf_append_of_g_ne (l1 l2 : List (Key × Rw)) (k : Key) (h : ∀ x ∈ l2, x.1 ≠ k) :
    rwsOf (l1 ++ l2) k = rwsOf l1 k := by
  simp only [rwsOf, List.filterMap_append]
  have : List.filterMap (fun (x : Key × Rw) => if x.1 = k then some x.2 else none) l2 = [] := by
    rw [List.filterMap_eq_nil_iff]
    intro x hx
    simp [h x hx]
  rw [this, List.append_nil]

theorem rwsOf_append_of_g_ne_left (l1 l2 : List (Key × Rw)) (k : Key) (h : ∀ x ∈ l1, x.1 ≠ k) :
    rwsOf (l1 ++ l2) k = rwsOf l2 k := by
  simp only [rwsOf, List.filterMap_append]
  have : List.filterMap (fun (x : Key × Rw) => if x.1 = k then some x.2 else none) l1 = [] := by
    rw [List.filterMap_eq_nil_iff]
    intro x hx
    simp [h x hx]
  rw [this, List.nil_append]

/-- the table of the current group, sorted: strictly ascending keys of group `g` -/
theorem sortedCur_props (g : Nat) (ys : List Yield) (c : Int) :
    (sortKeys (buildTab (fill g ys c).1)).Pairwise (fun a b => a.1.lt b.1 = true) ∧
    ∀ p ∈ sortKeys (buildTab (fill g ys c).1), p.1.g = g ∧ p.2 = rwsOf (fill g ys c).1 p.1 ∧
      p.1 ∈ (fill g ys c).1.map (·.1) := by
  constructor
  · have hle : (sortKeys (buildTab (fill g ys c).1)).Pairwise (fun a b => a.1.le b.1 = true) := by
      unfold sortKeys
      exact List.pairwise_mergeSort (le := fun (a b : Key × List Rw) => a.1.le b.1)
        (fun a b c h1 h2 => Key.le_trans' a.1 b.1 c.1 h1 h2) (fun a b => Key.le_total' a.1 b.1) _
    have hnd : keysNodup (sortKeys (buildTab (fill g ys c).1)) := by
      unfold keysNodup sortKeys
      exact ((List.mergeSort_perm _ _).map _).nodup_iff.mpr (buildTab_keysNodup _)
    unfold keysNodup at hnd
    rw [List.Nodup, List.pairwise_map] at hnd
    exact (hle.and hnd).imp (fun ⟨h1, h2⟩ => Key.lt_of_le_ne h1 h2)
  · intro p hp
    simp only [sortKeys, List.mem_mergeSort] at hp
    obtain ⟨hk, hr⟩ := mem_buildTab hp
    obtain ⟨x, hx, hxk⟩ := List.mem_map.mp hk
    exact ⟨by rw [← hxk]; exact fill_key_g g ys c x hx, hr, hk⟩

theorem all_sorted {st : SchedState} {g : Nat} {pre : List (Key × Rw)} (hi : StInv st g pre) (ys : List Yield) :
    (st.done ++ sortKeys (buildTab (fill g ys st.ctr).1)).Pairwise (fun a b => a.1.lt b.1 = true) := by
  rw [List.pairwise_append]
  refine ⟨hi.sorted, (sortedCur_props g ys st.ctr).1, ?_⟩
  intro a ha b hb
  have h1 := hi.lt a ha
  have h2 := ((sortedCur_props g ys st.ctr).2 b hb).1
  exact Key.lt_of_g_lt (by omega)

theorem groupStep_stInv (ign : Rng → Bool) {st : SchedState} {g : Nat} {pre : List (Key × Rw)}
    (hi : StInv st g pre) (ys : List Yield) :
    StInv (groupStep ign st g ys) (g + 1) (pre ++ (fill g ys st.ctr).1) := by
  have hcur := sortedCur_props g ys st.ctr
  refine ⟨groupStep_doneLt ign st g ys hi.lt, ?_, ?_, ?_⟩
  · show ((st.done ++ sortKeys (buildTab (fill g ys st.ctr).1)).filter _).Pairwise _
    exact (all_sorted hi ys).sublist List.filter_sublist
  · intro p hp
    have hp' : p ∈ st.done ++ sortKeys (buildTab (fill g ys st.ctr).1) := (List.mem_filter.mp hp).1
    rcases List.mem_append.mp hp' with hd | hc
    · obtain ⟨h1, h2⟩ := hi.tuples p hd
      have hne : ∀ x ∈ (fill g ys st.ctr).1, x.1 ≠ p.1 := by
        intro x hx hxe
        have := fill_key_g g ys st.ctr x hx
        have := hi.lt p hd
        rw [hxe] at *; omega
      refine ⟨by rw [rwsOf_append_of_g_ne _ _ _ hne]; exact h1, ?_⟩
      rw [List.map_append]; exact List.mem_append_left _ h2
    · obtain ⟨hg, hr, hk⟩ := hcur.2 p hc
      have hne : ∀ x ∈ pre, x.1 ≠ p.1 := by
        intro x hx hxe
        have := hi.preLt x hx
        rw [hxe] at this; omega
      refine ⟨by rw [rwsOf_append_of_g_ne_left _ _ _ hne]; exact hr, ?_⟩
      rw [List.map_append]; exact List.mem_append_right _ hk
  · intro x hx
    rcases List.mem_append.mp hx with h | h
    · exact Nat.lt_succ_of_lt (hi.preLt x h)
    · rw [fill_key_g g ys st.ctr x h]; exact Nat.lt_succ_self g

/-- a key of the current group that the accept loop does not visit was eliminated as a duplicate of an entry
with a strictly smaller key -/
theorem not_visited_dup {st : SchedState} {g : Nat} {pre : List (Key × Rw)} (hi : StInv st g pre)
    (ys : List Yield) (k : Key) (hk : k ∈ (fill g ys st.ctr).1.map (·.1))
    (hnv : k ∉ (visited st g ys).map (·.1)) :
    ∃ q ∈ st.done ++ sortKeys (buildTab (fill g ys st.ctr).1), q.1.lt k = true ∧
      q.2 = rwsOf (fill g ys st.ctr).1 k := by
  -- the entry of `k` in the sorted table
  have hkb : (k, rwsOf (fill g ys st.ctr).1 k) ∈ sortKeys (buildTab (fill g ys st.ctr).1) := by
    simp only [sortKeys, List.mem_mergeSort, buildTab]
    exact List.mem_map.mpr ⟨k, mem_dedup.mpr hk, rfl⟩
  have hkg : k.g = g := ((sortedCur_props g ys st.ctr).2 _ hkb).1
  have hall := all_sorted hi ys
  -- not visited ⇒ flagged by the duplicate scan
  have hdup : k ∈ dupScan (st.done ++ sortKeys (buildTab (fill g ys st.ctr).1)) [] := by
    apply Classical.byContradiction
    intro hnot
    apply hnv
    refine List.mem_map.mpr ⟨(k, rwsOf (fill g ys st.ctr).1 k), ?_, rfl⟩
    simp only [visited, List.mem_filter, List.mem_append, beq_iff_eq]
    refine ⟨⟨Or.inr hkb, ?_⟩, hkg⟩
    simpa using hnot
  obtain ⟨l1, rws, l2, heq, hor⟩ := mem_dupScan _ [] k hdup
  rcases hor with h | ⟨q, hq, hq2⟩
  · cases h
  · -- keys are strictly ascending, so the entry of `k` is unique and `q` is strictly smaller
    rw [heq] at hall
    have hsplit := List.pairwise_append.mp hall
    have hqlt : q.1.lt k = true := hsplit.2.2 q hq (k, rws) (by simp)
    have hmem : (k, rws) ∈ st.done ++ sortKeys (buildTab (fill g ys st.ctr).1) := by rw [heq]; simp
    have hrws : rws = rwsOf (fill g ys st.ctr).1 k := by
      rcases List.mem_append.mp hmem with hd | hc
      · have := hi.lt _ hd; simp only at this; omega
      · exact ((sortedCur_props g ys st.ctr).2 _ hc).2.1
    refine ⟨q, ?_, hqlt, by rw [hq2, hrws]⟩
    rw [heq]; exact List.mem_append_left _ hq

end Sched

namespace Sched

theorem dup_reason_from (ign : Rng → Bool) : ∀ (groups : List (List Yield)) (st : SchedState) (g : Nat)
    (pre : List (Key × Rw)), StInv st g pre →
    ∀ k, k ∈ (yieldedFrom st.ctr g groups).map (·.1) → k ∉ (visitedAll ign st g groups).map (·.1) →
    ∃ k', k'.lt k = true ∧ k' ∈ (pre ++ yieldedFrom st.ctr g groups).map (·.1) ∧
      rwsOf (pre ++ yieldedFrom st.ctr g groups) k' = rwsOf (pre ++ yieldedFrom st.ctr g groups) k := by
  intro groups
  induction groups with
  | nil => intro st g pre _ k hk; simp [yieldedFrom] at hk
  | cons ys rest ih =>
    intro st g pre hi k hk hnv
    have hi' := groupStep_stInv ign hi ys
    have hlater : ∀ x ∈ yieldedFrom (fill g ys st.ctr).2 (g + 1) rest, g + 1 ≤ x.1.g := by
      have := (visitedAll_props ign rest (groupStep ign st g ys) (g + 1) hi'.lt).2.2
      rw [groupStep_ctr] at this; exact this
    simp only [yieldedFrom, List.map_append, List.mem_append] at hk
    simp only [visitedAll, List.map_append, List.mem_append, not_or] at hnv
    simp only [yieldedFrom]
    rcases hk with hk | hk
    · -- a key of this group
      obtain ⟨q, hq, hqlt, hq2⟩ := not_visited_dup hi ys k hk hnv.1
      obtain ⟨x, hx, hxk⟩ := List.mem_map.mp hk
      have hkg : k.g = g := by rw [← hxk]; exact fill_key_g g ys st.ctr x hx
      have hk_tuple : rwsOf (pre ++ ((fill g ys st.ctr).1 ++ yieldedFrom (fill g ys st.ctr).2 (g + 1) rest)) k =
          rwsOf (fill g ys st.ctr).1 k := by
        rw [rwsOf_append_of_g_ne_left _ _ _ (fun y hy hye => by have := hi.preLt y hy; rw [hye] at this; omega)]
        rw [rwsOf_append_of_g_ne _ _ _ (fun y hy hye => by have := hlater y hy; rw [hye] at this; omega)]
      refine ⟨q.1, hqlt, ?_, ?_⟩
      · rcases List.mem_append.mp hq with hd | hc
        · rw [List.map_append]; exact List.mem_append_left _ (hi.tuples q hd).2
        · rw [List.map_append, List.map_append]
          exact List.mem_append_right _ (List.mem_append_left _ ((sortedCur_props g ys st.ctr).2 q hc).2.2)
      · rw [hk_tuple, ← hq2]
        rcases List.mem_append.mp hq with hd | hc
        · have hqg := hi.lt q hd
          rw [rwsOf_append_of_g_ne _ _ _ (fun y hy hye => by
            rcases List.mem_append.mp hy with h | h
            · have := fill_key_g g ys st.ctr y h; rw [hye] at this; omega
            · have := hlater y h; rw [hye] at this; omega)]
          exact ((hi.tuples q hd).1).symm
        · obtain ⟨hqg, hqr, _⟩ := (sortedCur_props g ys st.ctr).2 q hc
          rw [rwsOf_append_of_g_ne_left _ _ _ (fun y hy hye => by have := hi.preLt y hy; rw [hye] at this; omega)]
          rw [rwsOf_append_of_g_ne _ _ _ (fun y hy hye => by have := hlater y hy; rw [hye] at this; omega)]
          exact hqr.symm
    · -- a key of a later group
      have := ih (groupStep ign st g ys) (g + 1) (pre ++ (fill g ys st.ctr).1) hi' k
        (by rw [groupStep_ctr]; exact hk) hnv.2
      rw [groupStep_ctr] at this
      simpa [List.append_assoc] using this

theorem stInv_init : StInv initState 0 [] :=
  ⟨doneLt_init, by simp [initState], by intro p hp; simp [initState] at hp, by intro x hx; cases hx⟩

end Sched
