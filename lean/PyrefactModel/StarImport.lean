/-!
# `tracing.fix_starred_imports` on one star import: the decision and the explicit name list

`referenced`: the names the client loads; `undefinedNames`: those of them that the client binds nowhere and that are no
builtins (`get_undefined_variables`); `provided`: the names that trace to the star import (what the module exports).
Since f6f2dbe the rule leaves every star import alone when an undefined name has no origin, and otherwise lists every
*referenced* name the module provides - not only the undefined ones.
-/
namespace StarImport

def dunder (n : String) : Bool := n.startsWith "__" && n.endsWith "__"

structure Client where
  referenced : List String
  undefinedNames : List String
  provided : List String
deriving Repr

/-- `none`: the star import stays; `some l`: it is replaced by `from m import l` (deleted when `l = []`) -/
def expand (c : Client) : Option (List String) :=
  if c.undefinedNames.any (fun n => !c.provided.contains n && !dunder n) then none
  else some (c.referenced.filter c.provided.contains)

/-- what the rule did until f6f2dbe: only the undefined names were listed (and the star import was replaced even when
another name had no origin) -/
def expandOld (c : Client) : List String := c.undefinedNames.filter c.provided.contains

theorem expand_complete (c : Client) (l : List String) (h : expand c = some l) (n : String)
    (hr : n ∈ c.referenced) (hp : n ∈ c.provided) : n ∈ l := by
  unfold expand at h
  split at h
  · cases h
  · cases h
    exact List.mem_filter.mpr ⟨hr, by simpa using hp⟩

theorem expand_sound (c : Client) (l : List String) (h : expand c = some l) (n : String) (hn : n ∈ l) :
    n ∈ c.provided ∧ n ∈ c.referenced := by
  unfold expand at h
  split at h
  · cases h
  · cases h
    have := List.mem_filter.mp hn
    exact ⟨by simpa using this.2, this.1⟩

theorem expand_no_orphan (c : Client) (l : List String) (h : expand c = some l) (n : String)
    (hu : n ∈ c.undefinedNames) (hd : dunder n = false) : n ∈ c.provided := by
  unfold expand at h
  split at h
  · cases h
  · rename_i hany
    have hall := hany
    simp only [List.any_eq_true, not_exists, not_and, Bool.and_eq_true, Bool.not_eq_true'] at hall
    by_cases hc : c.provided.contains n = true
    · simpa using hc
    · exfalso
      have hf : c.provided.contains n = false := by simpa using hc
      exact hall n hu hf hd

end StarImport
