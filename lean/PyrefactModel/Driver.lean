/-!
# Orchestration: `main.format_code`, `main.format_file`

`format_code` as a function of abstract stage functions (`Stages`).  Texts are an arbitrary type `T`; the
history of the fixpoint loops compares `key s` (the text itself in the real code; the driver test
instantiates `T` with text × call trace and `key` with the first projection).
-/

structure Stages (T K : Type) where
  key : T → K
  /-- the source contains the literal `# pyrefact: skip_file` -/
  skip : T → Bool
  /-- `expandtabs(4)`, `rmspace`, `fix_too_many_blank_lines` -/
  pre : T → T
  /-- `not source.strip()` -/
  blank : T → Bool
  valid : T → Bool
  /-- `formatting.indentation_level` -/
  indent : T → Nat
  dedent : T → T
  addImports : T → T
  /-- the single-run chain (depends on `keep_imports`) -/
  singleRun : T → T
  /-- `_multi_run_fixes(·, preserve)` -/
  multi : T → T
  overused : Bool → T → T
  simplifyAssign : T → T
  alignNames : T → T
  removeUnusedImports : T → T
  sortImports : T → T
  lineLengths : T → T
  rmspace : T → T
  reindent : Nat → T → T
  /-- `minimize_whitespace_line_differences(original, ·)` -/
  minimize : T → T → T

variable {T K : Type} [DecidableEq K]

/-- the convergence loop: at most `n` calls of `multi`; stops when the text was seen before.
Returns the text, the history and the number of calls made. -/
def fixpointLoop (key : T → K) (multi : T → T) : Nat → List K → T → Nat → T × List K × Nat
  | 0, hist, s, cnt => (s, hist, cnt)
  | n + 1, hist, s, cnt =>
    let s' := multi s
    if key s' ∈ hist then (s', hist, cnt + 1) else fixpointLoop key multi n (key s' :: hist) s' (cnt + 1)

structure Opts where
  keepImports : Bool
  maxPasses : Nat

/-- `main.format_code` after the `safe` preamble (which only determines the `preserve` set the stage
functions are closed over).  Returns the text and the number of `_multi_run_fixes` invocations. -/
def formatCodeCount (st : Stages T K) (o : Opts) (src : T) : T × Nat :=
  if st.skip src then (src, 0) else
  let s := st.pre src
  if st.blank s then (s, 0) else
  let original := s
  let ind := if st.valid s then 0 else st.indent s
  let s := if st.valid s then s else st.dedent s
  if !st.valid s then (s, 0) else
  let s := if ind = 0 then st.addImports s else s
  let s := st.singleRun s
  let (s, hist, c1) := fixpointLoop st.key st.multi o.maxPasses [st.key s] s 0
  let s := st.overused (ind = 0) s
  let s := st.simplifyAssign s
  let (s, _, c2) :=
    if st.key s ∈ hist then (s, hist, c1) else fixpointLoop st.key st.multi o.maxPasses hist s c1
  let s := if ind = 0 then st.alignNames s else s
  let s := if ind = 0 then
      (let s := st.addImports s; if o.keepImports then s else st.removeUnusedImports s) else s
  let s := st.sortImports s
  let s := st.lineLengths s
  let s := st.rmspace s
  let s := if ind > 0 then st.reindent ind s else s
  (st.minimize original s, c2)

def formatCode (st : Stages T K) (o : Opts) (src : T) : T := (formatCodeCount st o src).1

/-- `main.format_file`: the new content (`none` = the file is not written) -/
def formatFile (valid : T → Bool) [DecidableEq T] (format : T → T) (initial : T) : Option T :=
  let out := format initial
  if out ≠ initial ∧ (valid out ∨ ¬ valid initial) then some out else none
