import PyrefactModel.Driver
/-! # Lemmas about the orchestration model -/

variable {T K : Type} [DecidableEq K]

theorem fixpointLoop_count (key : T → K) (multi : T → T) : ∀ (n : Nat) (hist : List K) (s : T) (c : Nat),
    c ≤ (fixpointLoop key multi n hist s c).2.2 ∧ (fixpointLoop key multi n hist s c).2.2 ≤ c + n := by
  intro n
  induction n with
  | zero => intro hist s c; simp [fixpointLoop]
  | succ n ih =>
    intro hist s c
    simp only [fixpointLoop]
    split
    · simp
    · have := ih (key (multi s) :: hist) (multi s) (c + 1)
      omega

/-- why the convergence loop stops: the text repeats an earlier text, or the budget is spent -/
theorem fixpointLoop_exit (key : T → K) (multi : T → T) : ∀ (n : Nat) (hist : List K) (s : T) (c : Nat),
    key (fixpointLoop key multi n hist s c).1 ∈ (fixpointLoop key multi n hist s c).2.1 ∨
      (fixpointLoop key multi n hist s c).2.2 = c + n := by
  intro n
  induction n with
  | zero => intro hist s c; right; simp [fixpointLoop]
  | succ n ih =>
    intro hist s c
    simp only [fixpointLoop]
    split
    · left; assumption
    · rcases ih (key (multi s) :: hist) (multi s) (c + 1) with h | h
      · left; exact h
      · right; omega

/-- the history only grows, and every text the loop went through is in it -/
theorem fixpointLoop_hist_mono (key : T → K) (multi : T → T) : ∀ (n : Nat) (hist : List K) (s : T) (c : Nat),
    ∀ k ∈ hist, k ∈ (fixpointLoop key multi n hist s c).2.1 := by
  intro n
  induction n with
  | zero => intro hist s c k hk; simpa [fixpointLoop]
  | succ n ih =>
    intro hist s c k hk
    simp only [fixpointLoop]
    split
    · exact hk
    · exact ih _ _ _ k (List.mem_cons_of_mem _ hk)

/-- an invariant of every stage is an invariant of the loop -/
theorem fixpointLoop_inv (key : T → K) (multi : T → T) (P : T → Prop) (hm : ∀ s, P s → P (multi s)) :
    ∀ (n : Nat) (hist : List K) (s : T) (c : Nat), P s → P (fixpointLoop key multi n hist s c).1 := by
  intro n
  induction n with
  | zero => intro hist s c h; simpa [fixpointLoop]
  | succ n ih =>
    intro hist s c h
    simp only [fixpointLoop]
    split
    · exact hm s h
    · exact ih _ _ _ (hm s h)

/-- a fixed point of `multi` that is already in the history leaves the loop unchanged after one call -/
theorem fixpointLoop_fixed (key : T → K) (multi : T → T) (n : Nat) (hist : List K) (s : T) (c : Nat)
    (hfix : multi s = s) (hin : key s ∈ hist) (hn : 0 < n) :
    (fixpointLoop key multi n hist s c).1 = s ∧ (fixpointLoop key multi n hist s c).2.1 = hist := by
  cases n with
  | zero => omega
  | succ n => simp [fixpointLoop, hfix, hin]

theorem foldl_inv {R : Type} (P : T → Prop) (apply : T → R → T) (rules : List R)
    (h : ∀ r ∈ rules, ∀ s, P s → P (apply s r)) : ∀ s, P s → P (rules.foldl apply s) := by
  induction rules with
  | nil => intro s hs; simpa
  | cons r rs ih =>
    intro s hs
    simp only [List.foldl_cons]
    exact ih (fun r' hr' => h r' (List.mem_cons_of_mem _ hr')) _ (h r (by simp) s hs)

/-- hypotheses "every stage preserves `P`" (for the run on `src`: dedenting happens only to invalid text,
re-indenting only when the normalised input was invalid) -/
structure StagesPreserve (st : Stages T K) (src : T) (P : T → Prop) : Prop where
  pre : ∀ s, P s → P (st.pre s)
  dedent : ∀ s, st.valid s = false → P s → P (st.dedent s)
  addImports : ∀ s, P s → P (st.addImports s)
  singleRun : ∀ s, P s → P (st.singleRun s)
  multi : ∀ s, P s → P (st.multi s)
  overused : ∀ b s, P s → P (st.overused b s)
  simplifyAssign : ∀ s, P s → P (st.simplifyAssign s)
  alignNames : ∀ s, P s → P (st.alignNames s)
  removeUnusedImports : ∀ s, P s → P (st.removeUnusedImports s)
  sortImports : ∀ s, P s → P (st.sortImports s)
  lineLengths : ∀ s, P s → P (st.lineLengths s)
  rmspace : ∀ s, P s → P (st.rmspace s)
  reindent : ∀ n s, st.valid (st.pre src) = false → P s → P (st.reindent n s)
  minimize : ∀ a b, P b → P (st.minimize a b)

/-- the tail of `format_code` after the convergence loops -/
theorem tail_inv (st : Stages T K) (o : Opts) (src : T) (P : T → Prop) (h : StagesPreserve st src P)
    (ind : Nat) (hind : 0 < ind → st.valid (st.pre src) = false) (orig s : T) (hs : P s) :
    P (st.minimize orig
      (let s := if ind = 0 then st.alignNames s else s
       let s := if ind = 0 then
          (let s := st.addImports s; if o.keepImports then s else st.removeUnusedImports s) else s
       let s := st.sortImports s
       let s := st.lineLengths s
       let s := st.rmspace s
       if ind > 0 then st.reindent ind s else s)) := by
  apply h.minimize
  simp only []
  have h8 : P (if ind = 0 then st.alignNames s else s) := by
    split
    · exact h.alignNames _ hs
    · exact hs
  generalize (if ind = 0 then st.alignNames s else s) = s8 at h8 ⊢
  have h9 : P (if ind = 0 then
      (if o.keepImports = true then st.addImports s8 else st.removeUnusedImports (st.addImports s8))
      else s8) := by
    split
    · split
      · exact h.addImports _ h8
      · exact h.removeUnusedImports _ (h.addImports _ h8)
    · exact h8
  generalize (if ind = 0 then
      (if o.keepImports = true then st.addImports s8 else st.removeUnusedImports (st.addImports s8))
      else s8) = s9 at h9 ⊢
  have h10 := h.rmspace _ (h.lineLengths _ (h.sortImports _ h9))
  split
  · rename_i hpos; exact h.reindent _ _ (hind hpos) h10
  · exact h10

/-- **Composition.** Whatever every stage preserves, `format_code` preserves — for every option
combination and pass budget, and whatever the order of the rules inside the stages. -/
theorem formatCode_invariant (st : Stages T K) (o : Opts) (P : T → Prop) (src : T)
    (h : StagesPreserve st src P) (hsrc : P src) : P (formatCode st o src) := by
  unfold formatCode formatCodeCount
  by_cases hskip : st.skip src = true
  · simp [hskip, hsrc]
  · simp only [hskip, Bool.false_eq_true, if_false]
    have h1 := h.pre src hsrc
    by_cases hb : st.blank (st.pre src) = true
    · simp [hb, h1]
    · simp only [hb, Bool.false_eq_true, if_false]
      have h2 : P (if st.valid (st.pre src) = true then st.pre src else st.dedent (st.pre src)) := by
        split
        · exact h1
        · rename_i hnv; exact h.dedent _ (by simpa using hnv) h1
      have hind : 0 < (if st.valid (st.pre src) = true then 0 else st.indent (st.pre src)) →
          st.valid (st.pre src) = false := by
        split
        · intro hc; exact absurd hc (Nat.lt_irrefl 0)
        · rename_i hnv; intro _; simpa using hnv
      generalize (if st.valid (st.pre src) = true then st.pre src else st.dedent (st.pre src)) = s2 at h2 ⊢
      generalize (if st.valid (st.pre src) = true then 0 else st.indent (st.pre src)) = ind at hind ⊢
      by_cases hv : st.valid s2 = true
      · simp only [hv, Bool.not_true, Bool.false_eq_true, if_false]
        have h3 : P (if ind = 0 then st.addImports s2 else s2) := by
          split
          · exact h.addImports _ h2
          · exact h2
        generalize (if ind = 0 then st.addImports s2 else s2) = s3 at h3 ⊢
        have h4 := h.singleRun s3 h3
        have h5 := fixpointLoop_inv st.key st.multi P h.multi o.maxPasses [st.key (st.singleRun s3)]
          (st.singleRun s3) 0 h4
        generalize fixpointLoop st.key st.multi o.maxPasses [st.key (st.singleRun s3)] (st.singleRun s3) 0 = L1 at h5 ⊢
        have h6 := h.simplifyAssign _ (h.overused (decide (ind = 0)) _ h5)
        generalize st.simplifyAssign (st.overused (decide (ind = 0)) L1.1) = s6 at h6 ⊢
        have h7 : P (if st.key s6 ∈ L1.2.1 then (s6, L1.2.1, L1.2.2)
            else fixpointLoop st.key st.multi o.maxPasses L1.2.1 s6 L1.2.2).1 := by
          split
          · exact h6
          · exact fixpointLoop_inv st.key st.multi P h.multi _ _ _ _ h6
        generalize (if st.key s6 ∈ L1.2.1 then (s6, L1.2.1, L1.2.2)
            else fixpointLoop st.key st.multi o.maxPasses L1.2.1 s6 L1.2.2) = L2 at h7 ⊢
        exact tail_inv st o src P h ind hind _ _ h7
      · simp [hv, h2]

/-- **Pass budget.** `_multi_run_fixes` is invoked at most `2 · MAX_FILE_PASSES` times per call. -/
theorem formatCode_multi_bound (st : Stages T K) (o : Opts) (src : T) :
    (formatCodeCount st o src).2 ≤ 2 * o.maxPasses := by
  unfold formatCodeCount
  by_cases hskip : st.skip src = true
  · simp [hskip]
  · simp only [hskip, Bool.false_eq_true, if_false]
    by_cases hb : st.blank (st.pre src) = true
    · simp [hb]
    · simp only [hb, Bool.false_eq_true, if_false]
      generalize (if st.valid (st.pre src) = true then st.pre src else st.dedent (st.pre src)) = s2
      by_cases hv : st.valid s2 = true
      · simp only [hv, Bool.not_true, Bool.false_eq_true, if_false]
        generalize (if st.valid (st.pre src) = true then 0 else st.indent (st.pre src)) = ind
        generalize (if ind = 0 then st.addImports s2 else s2) = s3
        have hc1 := fixpointLoop_count st.key st.multi o.maxPasses [st.key (st.singleRun s3)] (st.singleRun s3) 0
        generalize fixpointLoop st.key st.multi o.maxPasses [st.key (st.singleRun s3)] (st.singleRun s3) 0 = L1 at hc1 ⊢
        obtain ⟨l1s, l1h, l1c⟩ := L1
        simp only [] at hc1 ⊢
        generalize st.simplifyAssign (st.overused (decide (ind = 0)) l1s) = s6
        have hc2 := fixpointLoop_count st.key st.multi o.maxPasses l1h s6 l1c
        generalize fixpointLoop st.key st.multi o.maxPasses l1h s6 l1c = L2 at hc2 ⊢
        obtain ⟨l2s, l2h, l2c⟩ := L2
        simp only [] at hc2
        split <;> (try simp only []) <;> omega
      · simp [hv]

/-- **Skip-file.** A text containing the skip-file comment is returned as it is, before any normalisation. -/
theorem formatCode_skip (st : Stages T K) (o : Opts) (src : T) (h : st.skip src = true) :
    formatCode st o src = src := by
  simp [formatCode, formatCodeCount, h]

/-- **Early returns.** Blank input and input that is not valid even after dedenting are handed back after
the whitespace normalisation only; no rule runs. -/
theorem formatCode_early (st : Stages T K) (o : Opts) (src : T) (hs : st.skip src = false) :
    (st.blank (st.pre src) = true → formatCode st o src = st.pre src) ∧
    (st.blank (st.pre src) = false → st.valid (st.pre src) = false → st.valid (st.dedent (st.pre src)) = false →
      formatCode st o src = st.dedent (st.pre src)) := by
  constructor
  · intro hb; simp [formatCode, formatCodeCount, hs, hb]
  · intro hb hv hd; simp [formatCode, formatCodeCount, hs, hb, hv, hd]

/-- **Stable output.** A text on which every stage is the identity is a fixed point of `format_code`. -/
theorem formatCode_stable (st : Stages T K) (o : Opts) (y : T) (hp : 0 < o.maxPasses)
    (hpre : st.pre y = y) (hblank : st.blank y = false) (hvalid : st.valid y = true)
    (hadd : st.addImports y = y) (hsingle : st.singleRun y = y) (hmulti : st.multi y = y)
    (hover : ∀ b, st.overused b y = y) (hsimp : st.simplifyAssign y = y) (halign : st.alignNames y = y)
    (hrem : st.removeUnusedImports y = y) (hsort : st.sortImports y = y) (hline : st.lineLengths y = y)
    (hrm : st.rmspace y = y) (hmin : st.minimize y y = y) : formatCode st o y = y := by
  obtain ⟨m, hm⟩ : ∃ m, o.maxPasses = m + 1 := ⟨o.maxPasses - 1, by omega⟩
  unfold formatCode formatCodeCount
  by_cases hskip : st.skip y = true
  · simp [hskip]
  · cases hk : o.keepImports <;>
      simp [hskip, hpre, hblank, hvalid, hadd, hsingle, hm, fixpointLoop, hmulti, hover, hsimp, halign, hrem,
        hsort, hline, hrm, hmin]

/-- **Valid in, valid out** for the orchestration, *given* that the stages that are not wrapped by a
validity guard preserve validity (the hypothesis lists them all; guarded rules satisfy it by C10). -/
theorem formatCode_valid (st : Stages T K) (o : Opts) (src : T)
    (hpre : st.valid (st.pre src) = true)
    (hadd : ∀ s, st.valid s = true → st.valid (st.addImports s) = true)
    (hsingle : ∀ s, st.valid s = true → st.valid (st.singleRun s) = true)
    (hmulti : ∀ s, st.valid s = true → st.valid (st.multi s) = true)
    (hover : ∀ b s, st.valid s = true → st.valid (st.overused b s) = true)
    (hsimp : ∀ s, st.valid s = true → st.valid (st.simplifyAssign s) = true)
    (halign : ∀ s, st.valid s = true → st.valid (st.alignNames s) = true)
    (hrem : ∀ s, st.valid s = true → st.valid (st.removeUnusedImports s) = true)
    (hsort : ∀ s, st.valid s = true → st.valid (st.sortImports s) = true)
    (hline : ∀ s, st.valid s = true → st.valid (st.lineLengths s) = true)
    (hrm : ∀ s, st.valid s = true → st.valid (st.rmspace s) = true)
    (hmin : ∀ a b, st.valid b = true → st.valid (st.minimize a b) = true)
    (hsrc : st.valid src = true)
    (hprev : ∀ s, st.valid s = true → st.valid (st.pre s) = true) :
    st.valid (formatCode st o src) = true := by
  have hpre' := hpre
  exact formatCode_invariant st o (fun s => st.valid s = true) src
    { pre := hprev
      dedent := fun s hnv hv => by rw [hv] at hnv; cases hnv
      addImports := hadd, singleRun := hsingle, multi := hmulti, overused := hover
      simplifyAssign := hsimp, alignNames := halign, removeUnusedImports := hrem
      sortImports := hsort, lineLengths := hline, rmspace := hrm
      reindent := fun n s hnv _ => by rw [hpre'] at hnv; cases hnv
      minimize := hmin } hsrc

/-- **Never write a broken file**, and do not rewrite an unchanged one. -/
theorem formatFile_never_breaks [DecidableEq T] (valid : T → Bool) (format : T → T) (initial out : T)
    (h : formatFile valid format initial = some out) (hv : valid initial = true) :
    valid out = true ∧ out ≠ initial := by
  unfold formatFile at h
  simp only [] at h
  split at h
  · rename_i hc
    cases h
    rcases hc.2 with h2 | h2
    · exact ⟨h2, hc.1⟩
    · exact absurd hv h2
  · cases h

theorem formatFile_unchanged [DecidableEq T] (valid : T → Bool) (format : T → T) (initial : T)
    (h : format initial = initial) : formatFile valid format initial = none := by
  simp [formatFile, h]
