import PyrefactModel.C16.BigStep
/-!
# Observational equivalence of skeleton programs, its congruences, and a normaliser

`Equiv l₁ l₂`: under every oracle and from every state, `l₁` terminates with outcome `o`, oracle position `p` and
trace `t` iff `l₂` does (so also: one diverges iff the other does).  `normL` puts a statement list into a normal
form (constant tests folded, negated tests un-negated by swapping the branches, the continuation of an `if` sunk
into both branches, code after a jump dropped, loop bodies stripped of a trailing `continue`); `norm_sound` proves
`l ≈ normL l []`, so two lists with equal normal forms are equivalent (`validate_sound`).  The control-flow rules of
pyrefact (remove_dead_ifs, delete_unreachable_code, remove_redundant_else, swap_if_else, early_continue, moving
common trailing code out of an if/else) are all instances.
-/
namespace C16

def Equiv (l₁ l₂ : List Stmt) : Prop := ∀ ω s r, Res ω l₁ s r ↔ Res ω l₂ s r
def EquivS (a b : Stmt) : Prop := ∀ ω s r, ResS ω a s r ↔ ResS ω b s r

theorem Equiv.refl (l : List Stmt) : Equiv l l := fun _ _ _ => Iff.rfl
theorem Equiv.symm {a b : List Stmt} (h : Equiv a b) : Equiv b a := fun ω s r => (h ω s r).symm
theorem Equiv.trans {a b c : List Stmt} (h : Equiv a b) (h' : Equiv b c) : Equiv a c :=
  fun ω s r => (h ω s r).trans (h' ω s r)
theorem EquivS.refl (a : Stmt) : EquivS a a := fun _ _ _ => Iff.rfl

theorem then_congr {r1 : Out × St} {K K' : St → Out × St → Prop} {r : Out × St}
    (h : ∀ s r, K s r ↔ K' s r) : Then r1 K r ↔ Then r1 K' r := by
  unfold Then; split
  · exact h _ _
  · exact Iff.rfl

theorem Equiv.cons {a a' : Stmt} {k k' : List Stmt} (ha : EquivS a a') (hk : Equiv k k') :
    Equiv (a :: k) (a' :: k') := by
  intro ω s r
  rw [res_cons, res_cons]
  constructor
  · rintro ⟨r1, h1, ht⟩; exact ⟨r1, (ha ω s r1).1 h1, (then_congr (hk ω)).1 ht⟩
  · rintro ⟨r1, h1, ht⟩; exact ⟨r1, (ha ω s r1).2 h1, (then_congr (hk ω)).2 ht⟩

theorem Equiv.append {a a' k k' : List Stmt} (ha : Equiv a a') (hk : Equiv k k') :
    Equiv (a ++ k) (a' ++ k') := by
  intro ω s r
  rw [res_append, res_append]
  constructor
  · rintro ⟨r1, h1, ht⟩; exact ⟨r1, (ha ω s r1).1 h1, (then_congr (hk ω)).1 ht⟩
  · rintro ⟨r1, h1, ht⟩; exact ⟨r1, (ha ω s r1).2 h1, (then_congr (hk ω)).2 ht⟩

theorem EquivS.ite {c : Cond} {b b' o o' : List Stmt} (hb : Equiv b b') (ho : Equiv o o') :
    EquivS (.ite c b o) (.ite c b' o') := by
  intro ω s r
  rw [resS_ite, resS_ite]
  split
  · exact hb ω _ r
  · exact ho ω _ r

theorem EquivS.withS {b b' : List Stmt} (hb : Equiv b b') : EquivS (.withS b) (.withS b') := by
  intro ω s r
  rw [resS_with, resS_with]
  exact hb ω s r

/-! ## loop bodies: `continue` at the end is the same as falling off the end -/

/-- identify `continue` with normal completion -/
def sq : Out → Out | .cont => .normal | o => o

/-- simulation of loop bodies up to `sq` -/
def LoopLe (b b' : List Stmt) : Prop :=
  ∀ ω s rb, Res ω b s rb → ∃ rb', Res ω b' s rb' ∧ rb'.2 = rb.2 ∧ sq rb'.1 = sq rb.1
def LoopEquiv (b b' : List Stmt) : Prop := LoopLe b b' ∧ LoopLe b' b

theorem LoopLe.refl (b : List Stmt) : LoopLe b b := fun _ _ rb h => ⟨rb, h, rfl, rfl⟩
theorem LoopLe.trans {a b c : List Stmt} (h : LoopLe a b) (h' : LoopLe b c) : LoopLe a c := by
  intro ω s rb hr
  obtain ⟨rb1, h1, hs1, ho1⟩ := h ω s rb hr
  obtain ⟨rb2, h2, hs2, ho2⟩ := h' ω s rb1 h1
  exact ⟨rb2, h2, hs2.trans hs1, ho2.trans ho1⟩
theorem LoopEquiv.trans {a b c : List Stmt} (h : LoopEquiv a b) (h' : LoopEquiv b c) : LoopEquiv a c :=
  ⟨h.1.trans h'.1, h'.2.trans h.2⟩
theorem Equiv.loopEquiv {a b : List Stmt} (h : Equiv a b) : LoopEquiv a b :=
  ⟨fun ω s rb hr => ⟨rb, (h ω s rb).1 hr, rfl, rfl⟩, fun ω s rb hr => ⟨rb, (h ω s rb).2 hr, rfl, rfl⟩⟩

/-- what the loop does next depends on the body's result only up to `sq` -/
theorem loopK_sq (ω : Oracle) (L L' : Stmt) {rb rb' : Out × St} {r : Out × St}
    (hs : rb'.2 = rb.2) (ho : sq rb'.1 = sq rb.1) (hne : rb.1 ≠ .fuel)
    (hL : ∀ s, ResS ω L s r → ResS ω L' s r) (h : loopK ω L rb r) : loopK ω L' rb' r := by
  obtain ⟨o, s⟩ := rb
  obtain ⟨o', s'⟩ := rb'
  simp at hs ho hne; subst hs
  unfold loopK at h ⊢
  cases o <;> cases o' <;> simp_all [sq]

theorem whileS_le (c : Cond) {b b' e e' : List Stmt} (h : LoopLe b b') (hE : Equiv e e') (ω : Oracle) :
    ∀ n s r, exec ω n (.whileS c b e) s = r → r.1 ≠ .fuel → ResS ω (.whileS c b' e') s r := by
  intro n
  induction n with
  | zero => intro s r he hr; subst he; simp [exec] at hr
  | succ n ih =>
    intro s r he hr
    have hres : ResS ω (.whileS c b e) s r := ⟨n + 1, he, hr⟩
    rw [resS_while] at hres ⊢
    split
    · rename_i hv
      simp only [hv, if_true] at hres
      -- redo the step at the level of exec to get hold of the fuel
      simp only [exec, hv, if_true] at he
      generalize hb : execList ω n b (evalCond ω c s).2 = rb at he
      obtain ⟨o, s''⟩ := rb
      have hbf : o ≠ .fuel := by
        intro ho; subst ho; simp at he; subst he; simp at hr
      obtain ⟨rb', hr', hs', ho'⟩ := h ω _ (o, s'') ⟨n, hb, hbf⟩
      refine ⟨rb', hr', ?_⟩
      obtain ⟨o', s3⟩ := rb'
      simp at hs' ho'; subst hs'
      unfold loopK
      cases o with
      | normal =>
        simp at he
        have := ih _ _ he hr
        cases o' <;> simp_all [sq]
      | cont =>
        simp at he
        have := ih _ _ he hr
        cases o' <;> simp_all [sq]
      | brk => simp at he; cases o' <;> simp_all [sq]
      | ret => simp at he; cases o' <;> simp_all [sq]
      | raise => simp at he; cases o' <;> simp_all [sq]
      | fuel => exact absurd rfl hbf
    · rename_i hv
      simp only [hv] at hres
      exact (hE ω _ r).1 (by simpa using hres)

theorem EquivS.whileS (c : Cond) {b b' e e' : List Stmt} (h : LoopEquiv b b') (hE : Equiv e e') :
    EquivS (.whileS c b e) (.whileS c b' e') := by
  intro ω s r
  constructor
  · rintro ⟨n, hn, hr⟩; exact whileS_le c h.1 hE ω n s r hn hr
  · rintro ⟨n, hn, hr⟩; exact whileS_le c h.2 hE.symm ω n s r hn hr

theorem forUnk_le {b b' e e' : List Stmt} (h : LoopLe b b') (hE : Equiv e e') (ω : Oracle) :
    ∀ n s r, exec ω n (.forS .unk b e) s = r → r.1 ≠ .fuel → ResS ω (.forS .unk b' e') s r := by
  intro n
  induction n with
  | zero => intro s r he hr; subst he; simp [exec] at hr
  | succ n ih =>
    intro s r he hr
    have hres : ResS ω (.forS .unk b e) s r := ⟨n + 1, he, hr⟩
    rw [resS_for_unk] at hres ⊢
    split
    · rename_i hv
      simp only [hv, if_true] at hres
      simp only [exec, hv, if_true] at he
      generalize hb : execList ω n b ⟨s.pos + 1, s.trace⟩ = rb at he
      obtain ⟨o, s''⟩ := rb
      have hbf : o ≠ .fuel := by
        intro ho; subst ho; simp at he; subst he; simp at hr
      obtain ⟨rb', hr', hs', ho'⟩ := h ω _ (o, s'') ⟨n, hb, hbf⟩
      refine ⟨rb', hr', ?_⟩
      obtain ⟨o', s3⟩ := rb'
      simp at hs' ho'; subst hs'
      unfold loopK
      cases o with
      | normal =>
        simp at he
        have := ih _ _ he hr
        cases o' <;> simp_all [sq]
      | cont =>
        simp at he
        have := ih _ _ he hr
        cases o' <;> simp_all [sq]
      | brk => simp at he; cases o' <;> simp_all [sq]
      | ret => simp at he; cases o' <;> simp_all [sq]
      | raise => simp at he; cases o' <;> simp_all [sq]
      | fuel => exact absurd rfl hbf
    · rename_i hv
      simp only [hv] at hres
      exact (hE ω _ r).1 (by simpa using hres)

theorem EquivS.forS (it : Iter) {b b' e e' : List Stmt} (h : LoopEquiv b b') (hE : Equiv e e') :
    EquivS (.forS it b e) (.forS it b' e') := by
  have unk : EquivS (.forS .unk b e) (.forS .unk b' e') := by
    intro ω s r
    constructor
    · rintro ⟨n, hn, hr⟩; exact forUnk_le h.1 hE ω n s r hn hr
    · rintro ⟨n, hn, hr⟩; exact forUnk_le h.2 hE.symm ω n s r hn hr
  cases it with
  | empty => intro ω s r; rw [resS_for_empty, resS_for_empty]; exact hE ω s r
  | unk => exact unk
  | nonempty =>
    intro ω s r
    rw [resS_for_nonempty, resS_for_nonempty]
    constructor
    · rintro ⟨rb, hb, hk⟩
      obtain ⟨rb', hr', hs', ho'⟩ := h.1 ω s rb hb
      exact ⟨rb', hr', loopK_sq ω _ _ hs' ho' hb.choose_spec.2 (fun s => (unk ω s r).1) hk⟩
    · rintro ⟨rb, hb, hk⟩
      obtain ⟨rb', hr', hs', ho'⟩ := h.2 ω s rb hb
      exact ⟨rb', hr', loopK_sq ω _ _ hs' ho' hb.choose_spec.2 (fun s => (unk ω s r).2) hk⟩

theorem handled_congr {ω : Oracle} {hk : HKind} {hb hb' : List Stmt} (h : Equiv hb hb') {r1 r2 : Out × St} :
    Handled ω hk hb r1 r2 ↔ Handled ω hk hb' r1 r2 := by
  unfold Handled
  split
  · cases hk with
    | none => exact Iff.rfl
    | all => exact h ω _ r2
    | some =>
      simp only
      split
      · exact h ω _ r2
      · exact Iff.rfl
  · exact Iff.rfl

theorem finished_congr {ω : Oracle} {f f' : List Stmt} (h : Equiv f f') {r2 r : Out × St} :
    Finished ω f r2 r ↔ Finished ω f' r2 r := by
  unfold Finished
  constructor
  · rintro ⟨r3, h3, e⟩; exact ⟨r3, (h ω _ r3).1 h3, e⟩
  · rintro ⟨r3, h3, e⟩; exact ⟨r3, (h ω _ r3).2 h3, e⟩

theorem EquivS.tryS (hk : HKind) {b b' hb hb' f f' : List Stmt} (h1 : Equiv b b') (h2 : Equiv hb hb') (h3 : Equiv f f') :
    EquivS (.tryS b hk hb f) (.tryS b' hk hb' f') := by
  intro ω s r
  rw [resS_try, resS_try]
  constructor
  · rintro ⟨r1, r2, hb1, hh, hf⟩
    exact ⟨r1, r2, (h1 ω s r1).1 hb1, (handled_congr h2).1 hh, (finished_congr h3).1 hf⟩
  · rintro ⟨r1, r2, hb1, hh, hf⟩
    exact ⟨r1, r2, (h1 ω s r1).2 hb1, (handled_congr h2).2 hh, (finished_congr h3).2 hf⟩

end C16
