/-!
# Control-flow skeleton, its semantics, and `core.is_blocking`

Statements are abstracted to their control skeleton: every test is constant-true, constant-false or
*unknown* (identified by a label, possibly negated), every `for` iterable is empty, known non-empty or
unknown; unknown choices are read from an arbitrary oracle stream, so a statement about all oracles is a
statement about all valuations of the unknown conditions and all iteration counts.  Simple statements carry
a label; the state records, in order, every simple statement executed and every unknown test evaluated
(the observable trace).  `blocks` mirrors `core.is_blocking` (with
`_body_is_blocking` = `blocksL` and `_iter_loop_level_jumps` = `hasBrk` / `hasJmp`).
-/
namespace C16

inductive Cond | tt | ff | unk (id : Nat) (neg : Bool) deriving DecidableEq, Repr
inductive Iter | empty | nonempty | unk deriving DecidableEq, Repr

/-- an observable event: a labelled simple statement executed / a labelled unknown test evaluated -/
inductive Ev | stmt (l : Nat) | test (id : Nat) deriving DecidableEq, Repr

/-- the handler of a `try`: none (`try/finally`), one that catches everything, or one that may or may not match -/
inductive HKind | none | all | some deriving DecidableEq, Repr

inductive Stmt where
  | simple (l : Nat) | ret | raise | brk | cont
  | assertC (c : Cond)
  | ite (c : Cond) (body orelse : List Stmt)
  | whileS (c : Cond) (body orelse : List Stmt)          -- `while c: body else: orelse`
  | forS (it : Iter) (body orelse : List Stmt)          -- `for _ in it: body else: orelse`
  | withS (body : List Stmt)
  | tryS (body : List Stmt) (hk : HKind) (handler : List Stmt) (final : List Stmt)
deriving Repr

inductive Out | normal | ret | raise | brk | cont | fuel deriving DecidableEq, Repr

/-- oracle: infinite stream of booleans, consumed by position -/
abbrev Oracle := Nat → Bool

structure St where
  pos : Nat
  trace : List Ev := []     -- most recent first
deriving Repr, DecidableEq

def evalCond (ω : Oracle) (c : Cond) (s : St) : Bool × St :=
  match c with
  | .tt => (true, s) | .ff => (false, s)
  | .unk id neg => (ω s.pos != neg, ⟨s.pos + 1, .test id :: s.trace⟩)

/-- the handler step of a `try`: `r1` is the result of the body, `runH` runs the handler.  A handler that may or may not
match reads one oracle bit. -/
def handle (ω : Oracle) (r1 : Out × St) (hk : HKind) (runH : St → Out × St) : Out × St :=
  if r1.1 = .raise then
    match hk with
    | .none => r1
    | .all => runH r1.2
    | .some =>
      if ω r1.2.pos then runH ⟨r1.2.pos + 1, r1.2.trace⟩
      else (.raise, ⟨r1.2.pos + 1, r1.2.trace⟩)
  else r1

/-- the `finally` step: a block that completes normally lets the pending outcome through, otherwise its own outcome wins -/
def finish (r2 : Out × St) (runF : St → Out × St) : Out × St :=
  if r2.1 = .fuel then r2
  else if (runF r2.2).1 = .normal then (r2.1, (runF r2.2).2) else runF r2.2

def tryComb (ω : Oracle) (r1 : Out × St) (hk : HKind) (runH runF : St → Out × St) : Out × St :=
  finish (handle ω r1 hk runH) runF

theorem handle_avoid (bad : Out → Prop) (hraise : ¬ bad .raise) (ω : Oracle) (r1 : Out × St) (hk : HKind)
    (runH : St → Out × St) (h1 : ¬ bad r1.1) (hH : ∀ s, ¬ bad (runH s).1) : ¬ bad (handle ω r1 hk runH).1 := by
  unfold handle
  by_cases hr : r1.1 = .raise
  · rw [if_pos hr]
    cases hk with
    | none => exact h1
    | all => exact hH _
    | some =>
      simp only
      by_cases hw : ω r1.2.pos = true
      · rw [if_pos hw]; exact hH _
      · rw [if_neg hw]; exact hraise
  · rw [if_neg hr]; exact h1

theorem finish_avoid (bad : Out → Prop) (r2 : Out × St) (runF : St → Out × St)
    (h2 : ¬ bad r2.1) (hF : ∀ s, ¬ bad (runF s).1) : ¬ bad (finish r2 runF).1 := by
  unfold finish
  by_cases hf : r2.1 = .fuel
  · rw [if_pos hf]; exact h2
  · rw [if_neg hf]
    by_cases hn : (runF r2.2).1 = .normal
    · rw [if_pos hn]; exact h2
    · rw [if_neg hn]; exact hF _

/-- an outcome class that `raise` does not belong to is avoided by a `try` whose parts avoid it -/
theorem tryComb_avoid (bad : Out → Prop) (hraise : ¬ bad .raise) (ω : Oracle) (r1 : Out × St) (hk : HKind)
    (runH runF : St → Out × St) (h1 : ¬ bad r1.1) (hH : ∀ s, ¬ bad (runH s).1) (hF : ∀ s, ¬ bad (runF s).1) :
    ¬ bad (tryComb ω r1 hk runH runF).1 :=
  finish_avoid bad _ runF (handle_avoid bad hraise ω r1 hk runH h1 hH) hF

mutual
def exec (ω : Oracle) : Nat → Stmt → St → Out × St
  | 0, _, s => (.fuel, s)
  | fuel+1, st, s =>
    match st with
    | .simple l => (.normal, ⟨s.pos, .stmt l :: s.trace⟩)
    | .ret => (.ret, s) | .raise => (.raise, s) | .brk => (.brk, s) | .cont => (.cont, s)
    | .assertC c => let (b, s') := evalCond ω c s; if b then (.normal, s') else (.raise, s')
    | .ite c b o => let (v, s') := evalCond ω c s; if v then execList ω fuel b s' else execList ω fuel o s'
    | .withS b => execList ω fuel b s
    | .whileS c b e =>
        let (v, s') := evalCond ω c s
        if v then
          match execList ω fuel b s' with
          | (.normal, s'') => exec ω fuel (.whileS c b e) s''
          | (.cont, s'') => exec ω fuel (.whileS c b e) s''
          | (.brk, s'') => (.normal, s'')
          | r => r
        else execList ω fuel e s'
    | .forS it b e =>
        -- number of iterations: empty → 0; nonempty → 1 + unknown more; unk → unknown
        match it with
        | .empty => execList ω fuel e s
        | .nonempty =>
            match execList ω fuel b s with
            | (.normal, s'') => exec ω fuel (.forS .unk b e) s''
            | (.cont, s'') => exec ω fuel (.forS .unk b e) s''
            | (.brk, s'') => (.normal, s'')
            | r => r
        | .unk =>
            let (v, s') := (ω s.pos, (⟨s.pos + 1, s.trace⟩ : St))
            if v then
              match execList ω fuel b s' with
              | (.normal, s'') => exec ω fuel (.forS .unk b e) s''
              | (.cont, s'') => exec ω fuel (.forS .unk b e) s''
              | (.brk, s'') => (.normal, s'')
              | r => r
            else execList ω fuel e s'
    | .tryS b hk hb f => tryComb ω (execList ω fuel b s) hk (execList ω fuel hb) (execList ω fuel f)
def execList (ω : Oracle) : Nat → List Stmt → St → Out × St
  | 0, _, s => (.fuel, s)
  | _+1, [], s => (.normal, s)
  | fuel+1, st :: rest, s =>
    match exec ω fuel st s with
    | (.normal, s') => execList ω fuel rest s'
    | r => r
end

/-! corrected analysis -/
inductive Par | none | loop deriving DecidableEq, Repr

mutual
/-- contains a break targeting the enclosing loop (not inside nested loops) -/
def hasBrk : Stmt → Bool
  | .brk => true
  | .ite _ b o => hasBrkL b || hasBrkL o
  | .withS b => hasBrkL b
  | .whileS _ _ e => hasBrkL e                -- jumps in a nested loop's body are its own; in its else clause, ours
  | .forS _ _ e => hasBrkL e
  | .tryS b _ hb f => hasBrkL b || hasBrkL hb || hasBrkL f
  | _ => false
def hasBrkL : List Stmt → Bool
  | [] => false
  | s :: r => hasBrk s || hasBrkL r
end
mutual
def hasJmp : Stmt → Bool
  | .brk => true | .cont => true
  | .ite _ b o => hasJmpL b || hasJmpL o
  | .withS b => hasJmpL b
  | .whileS _ _ e => hasJmpL e
  | .forS _ _ e => hasJmpL e
  | .tryS b _ hb f => hasJmpL b || hasJmpL hb || hasJmpL f
  | _ => false
def hasJmpL : List Stmt → Bool
  | [] => false
  | s :: r => hasJmp s || hasJmpL r
end

mutual
def blocks : Par → Stmt → Bool
  | _, .raise => true
  | _, .assertC .ff => true
  | _, .ret => true
  | p, .brk => p == .none
  | p, .cont => p == .none
  | p, .ite c b o =>
      match c with
      | .tt => blocksL p b | .ff => blocksL p o
      | .unk _ _ => blocksL p b && blocksL p o
  | p, .withS b => blocksL p b
  | _, .whileS c b _ => c == .tt && !hasBrkL b
  | _, .forS it b _ => it == .nonempty && firstIter b
  | _, _ => false
/-- some reachable child blocks; stop at a child that never completes normally, and (for a
    loop parent) at a child that may jump to the loop header/exit -/
def blocksL : Par → List Stmt → Bool
  | _, [] => false
  | p, s :: r => blocks p s || (!blocks .none s && (p == .none || !hasJmp s) && blocksL p r)
/-- in the first iteration of a `for`, control surely leaves the function -/
def firstIter : List Stmt → Bool
  | l => blocksL .loop l
end


def GoodLoop (o : Out) : Prop := o = .ret ∨ o = .raise ∨ o = .fuel
def Good : Par → Out → Prop
  | .none, o => o ≠ .normal
  | .loop, o => GoodLoop o

theorem GoodLoop.good (p : Par) {o : Out} (h : GoodLoop o) : Good p o := by
  cases p
  · rcases h with h | h | h <;> simp [Good, h]
  · exact h

theorem fst_ne_of {α} {r : Out × α} {o : Out} (h : ∀ s, r = (o, s) → False) : r.1 ≠ o := by
  intro hh; exact h r.2 (Prod.ext hh rfl)

/-- no break escapes a body without loop-level break -/
theorem noBrk (ω : Oracle) : ∀ fuel,
    (∀ st s, hasBrk st = false → (exec ω fuel st s).1 ≠ .brk) ∧
    (∀ l s, hasBrkL l = false → (execList ω fuel l s).1 ≠ .brk) := by
  intro fuel
  induction fuel with
  | zero => constructor <;> intros <;> simp [exec, execList]
  | succ n ih =>
    obtain ⟨ih1, ih2⟩ := ih
    constructor
    · intro st s h
      cases st with
      | simple | ret | raise | cont => simp [exec]
      | brk => simp [hasBrk] at h
      | assertC c => simp only [exec]; split <;> simp
      | ite c b o =>
        simp [hasBrk] at h
        simp only [exec]; split
        · exact ih2 _ _ h.1
        · exact ih2 _ _ h.2
      | withS b => simp [hasBrk] at h; simp only [exec]; exact ih2 _ _ h
      | whileS c b e =>
        have he : hasBrkL e = false := by simpa [hasBrk] using h
        simp only [exec]
        split
        · split
          · exact ih1 _ _ (by simpa [hasBrk] using he)
          · exact ih1 _ _ (by simpa [hasBrk] using he)
          · simp
          · rename_i hb; exact fst_ne_of hb
        · exact ih2 _ _ he
      | forS it b e =>
        have he : hasBrkL e = false := by simpa [hasBrk] using h
        simp only [exec]
        split
        · exact ih2 _ _ he
        · split
          · exact ih1 _ _ (by simpa [hasBrk] using he)
          · exact ih1 _ _ (by simpa [hasBrk] using he)
          · simp
          · rename_i hb; exact fst_ne_of hb
        · split
          · split
            · exact ih1 _ _ (by simpa [hasBrk] using he)
            · exact ih1 _ _ (by simpa [hasBrk] using he)
            · simp
            · rename_i hb; exact fst_ne_of hb
          · exact ih2 _ _ he
      | tryS b hk hb f =>
        simp [hasBrk] at h
        simp only [exec]
        exact tryComb_avoid (· = .brk) (by simp) ω _ hk _ _ (ih2 _ _ h.1.1) (fun s => ih2 _ s h.1.2) (fun s => ih2 _ s h.2)
    · intro l s h
      cases l with
      | nil => simp [execList]
      | cons st rest =>
        simp [hasBrkL] at h
        simp only [execList]
        split
        · exact ih2 _ _ h.2
        · rename_i hn
          have h1 := ih1 st s h.1
          exact h1

def Esc (o : Out) : Prop := o = .brk ∨ o = .cont

theorem not_esc_of {α} {r : Out × α} (hb : ∀ s, r = (Out.brk, s) → False) (hc : ∀ s, r = (Out.cont, s) → False) : ¬ Esc r.1 := by
  intro h; rcases h with h | h
  · exact hb r.2 (Prod.ext h rfl)
  · exact hc r.2 (Prod.ext h rfl)

theorem noJmp (ω : Oracle) : ∀ fuel,
    (∀ st s, hasJmp st = false → ¬ Esc (exec ω fuel st s).1) ∧
    (∀ l s, hasJmpL l = false → ¬ Esc (execList ω fuel l s).1) := by
  intro fuel
  induction fuel with
  | zero => constructor <;> intros <;> simp [exec, execList, Esc]
  | succ n ih =>
    obtain ⟨ih1, ih2⟩ := ih
    constructor
    · intro st s h
      cases st with
      | simple | ret | raise => simp [exec, Esc]
      | brk => simp [hasJmp] at h
      | cont => simp [hasJmp] at h
      | assertC c => simp only [exec]; split <;> simp [Esc]
      | ite c b o =>
        simp [hasJmp] at h
        simp only [exec]; split
        · exact ih2 _ _ h.1
        · exact ih2 _ _ h.2
      | withS b => simp [hasJmp] at h; simp only [exec]; exact ih2 _ _ h
      | whileS c b e =>
        have he : hasJmpL e = false := by simpa [hasJmp] using h
        simp only [exec]
        split
        · split
          · exact ih1 _ _ (by simpa [hasJmp] using he)
          · exact ih1 _ _ (by simpa [hasJmp] using he)
          · simp [Esc]
          · rename_i hn hc hb; exact not_esc_of hb hc
        · exact ih2 _ _ he
      | forS it b e =>
        have he : hasJmpL e = false := by simpa [hasJmp] using h
        simp only [exec]
        split
        · exact ih2 _ _ he
        · split
          · exact ih1 _ _ (by simpa [hasJmp] using he)
          · exact ih1 _ _ (by simpa [hasJmp] using he)
          · simp [Esc]
          · rename_i hn hc hb; exact not_esc_of hb hc
        · split
          · split
            · exact ih1 _ _ (by simpa [hasJmp] using he)
            · exact ih1 _ _ (by simpa [hasJmp] using he)
            · simp [Esc]
            · rename_i hn hc hb; exact not_esc_of hb hc
          · exact ih2 _ _ he
      | tryS b hk hb f =>
        simp [hasJmp] at h
        simp only [exec]
        exact tryComb_avoid Esc (by simp [Esc]) ω _ hk _ _ (ih2 _ _ h.1.1) (fun s => ih2 _ s h.1.2) (fun s => ih2 _ s h.2)
    · intro l s h
      cases l with
      | nil => simp [execList, Esc]
      | cons st rest =>
        simp [hasJmpL] at h
        simp only [execList]
        split
        · exact ih2 _ _ h.2
        · exact ih1 st s h.1

theorem good_of_rest (p : Par) {o : Out} (hn : o ≠ .normal) (he : p = .loop → ¬ Esc o) : Good p o := by
  cases p with
  | none => exact hn
  | loop =>
    have := he rfl
    cases o <;> simp_all [Good, GoodLoop, Esc]

theorem Good.ne_normal {p : Par} {o : Out} (h : Good p o) : o ≠ .normal := by
  cases p with
  | none => exact h
  | loop => rcases h with h | h | h <;> simp [h]

theorem Good.not_esc {o : Out} (h : Good .loop o) : ¬ Esc o := by
  rcases h with h | h | h <;> simp [h, Esc]

theorem sound (ω : Oracle) : ∀ fuel,
    (∀ p st s, blocks p st = true → Good p (exec ω fuel st s).1) ∧
    (∀ p l s, blocksL p l = true → Good p (execList ω fuel l s).1) := by
  intro fuel
  induction fuel with
  | zero =>
    constructor <;> intro p <;> intros <;> cases p <;> simp [exec, execList, Good, GoodLoop]
  | succ n ih =>
    obtain ⟨ih1, ih2⟩ := ih
    have loopCase : ∀ (p : Par) (L : Stmt) (b : List Stmt) (s' : St),
        (∀ s, Good p (exec ω n L s).1) →
        ((execList ω n b s').1 ≠ .brk) →
        Good p (match execList ω n b s' with
          | (.normal, s'') => exec ω n L s''
          | (.cont, s'') => exec ω n L s''
          | (.brk, s'') => (.normal, s'')
          | r => r).1 := by
      intro p L b s' hL hb
      split
      · exact hL _
      · exact hL _
      · rename_i heq; rw [heq] at hb; exact absurd rfl hb
      · rename_i hn hc hbb
        apply good_of_rest
        · exact fst_ne_of hn
        · intro _; exact not_esc_of hbb hc
    constructor
    · intro p st s h
      cases st with
      | simple => simp [blocks] at h
      | ret => cases p <;> simp [exec, Good, GoodLoop]
      | raise => cases p <;> simp [exec, Good, GoodLoop]
      | brk => cases p <;> simp [blocks] at h <;> simp [exec, Good]
      | cont => cases p <;> simp [blocks] at h <;> simp [exec, Good]
      | assertC c =>
        cases c <;> simp [blocks] at h
        cases p <;> simp [exec, evalCond, Good, GoodLoop]
      | ite c b o =>
        cases c with
        | tt => simp [blocks] at h; simp only [exec, evalCond]; exact ih2 p b s h
        | ff => simp [blocks] at h; simp only [exec, evalCond]; simpa using ih2 p o s h
        | unk =>
          simp [blocks] at h
          simp only [exec]; split
          · exact ih2 _ _ _ h.1
          · exact ih2 _ _ _ h.2
      | withS b => simp [blocks] at h; simp only [exec]; exact ih2 _ _ _ h
      | whileS c b =>
        simp [blocks] at h
        obtain ⟨hc, hb⟩ := h
        subst hc
        simp only [exec, evalCond, if_true]
        apply loopCase
        · intro s2; exact ih1 p _ s2 (by simp [blocks, hb])
        · exact (noBrk ω n).2 _ _ hb
      | forS it b =>
        simp [blocks, firstIter] at h
        obtain ⟨hi, hf⟩ := h
        subst hi
        simp only [exec]
        have hg := ih2 .loop b s hf
        split
        · rename_i heq; rw [heq] at hg; exact absurd rfl hg.ne_normal
        · rename_i heq; rw [heq] at hg; exact absurd (Or.inr rfl) hg.not_esc
        · rename_i heq; rw [heq] at hg; exact absurd (Or.inl rfl) hg.not_esc
        · exact GoodLoop.good p hg
      | tryS b hk hb f => simp [blocks] at h
    · intro p l s h
      cases l with
      | nil => simp [blocksL] at h
      | cons st rest =>
        simp only [blocksL, Bool.or_eq_true, Bool.and_eq_true, Bool.not_eq_true', beq_iff_eq] at h
        simp only [execList]
        rcases h with h | ⟨⟨hnb, hj⟩, hr⟩
        · have hg := ih1 p st s h
          split
          · rename_i heq; rw [heq] at hg; exact absurd rfl hg.ne_normal
          · exact hg
        · split
          · exact ih2 _ _ _ hr
          · rename_i hn
            apply good_of_rest
            · exact fst_ne_of hn
            · intro hp
              subst hp
              simp at hj
              exact (noJmp ω n).1 _ _ hj


/-- a statement reported blocking never completes normally (under any oracle, with any fuel) -/
theorem blocking_sound (ω : Oracle) (fuel : Nat) (st : Stmt) (s : St)
    (h : blocks .none st = true) : (exec ω fuel st s).1 ≠ .normal :=
  (sound ω fuel).1 .none st s h

/-- `fixes._iter_unreachable_nodes` + deletion: keep a statement list up to and including its first blocking
statement -/
def deleteUnreachable : List Stmt → List Stmt
  | [] => []
  | st :: rest => if blocks .none st then [st] else st :: deleteUnreachable rest

/-- deleting what follows a blocking statement changes neither the outcome nor the oracle position -/
theorem deleteUnreachable_sound (ω : Oracle) : ∀ (fuel : Nat) (l : List Stmt) (s : St),
    execList ω fuel (deleteUnreachable l) s = execList ω fuel l s := by
  intro fuel
  induction fuel with
  | zero => intro l s; simp [execList]
  | succ n ih =>
    intro l s
    cases l with
    | nil => simp [deleteUnreachable]
    | cons st rest =>
      simp only [deleteUnreachable]
      split
      · rename_i hb
        have hne := blocking_sound ω n st s hb
        simp only [execList]
        split
        · rename_i heq; rw [heq] at hne; exact absurd rfl hne
        · rfl
      · simp only [execList]
        split
        · exact ih _ _
        · rfl

end C16
