/-!
# `parsing.safe_callable_names`: which function names may be called without a side effect

```
defined_names = names stored anywhere;  function_defs = all def nodes
safe = SAFE_CALLABLES - (defined_names | def names | class names | imported names)     -- a module's own `format` is not the builtin
while changes:
    for node in function_defs:                      -- the definitions not yet judged safe
        if node.name in defined_names or node.decorator_list: continue
        if no statement that counts has a side effect under `safe`:
            safe_nodes.add(node)
            if every definition of node.name is in safe_nodes: safe.add(node.name)
    function_defs = [node for node in function_defs if node not in safe_nodes]
```
A definition is summarised by what `core.has_side_effect` reports about the statements that count (those in front of the first
blocking statement, and every returned value): `intrinsic` — an effect of its own, reported whatever the whitelist — and
`calls` — the names whose membership in the whitelist decides the rest.  The summaries are computed with the real
`has_side_effect` (suite `safecalls`), the fixpoint iteration is the model's.
-/
namespace C16.SafeCalls

structure Def where
  name : String
  intrinsic : Bool
  calls : List String
  decorated : Bool := false      -- what is called is whatever the decorator returns: never judged safe
  deriving Repr

structure St where
  names : List String        -- safe_callables
  nodes : List Nat           -- safe_callable_nodes, as indices into the list of definitions

def defSafe (names : List String) (d : Def) : Bool :=
  !d.decorated && !d.intrinsic && d.calls.all (fun c => decide (c ∈ names))

/-- every definition of the name `n` is among the safe nodes -/
def allDefsSafe (all : List Def) (nodes : List Nat) (n : String) : Bool :=
  (List.range all.length).all (fun i =>
    match all[i]? with
    | some d => decide (d.name ≠ n) || decide (i ∈ nodes)
    | none => true)

/-- one pass of `for node in function_defs`; the whitelist grows during the pass -/
def sweep (all : List Def) (stores : List String) : List Nat → St → St × Bool
  | [], st => (st, false)
  | i :: rest, st =>
    match all[i]? with
    | none => sweep all stores rest st
    | some d =>
      if d.name ∈ stores then sweep all stores rest st
      else if defSafe st.names d then
        let nodes' := i :: st.nodes
        let names' := if allDefsSafe all nodes' d.name then d.name :: st.names else st.names
        ((sweep all stores rest ⟨names', nodes'⟩).1, true)
      else sweep all stores rest st

/-- `while changes:` with the number of definitions as budget (each productive pass adds a node) -/
def loop (all : List Def) (stores : List String) : Nat → List Nat → St → St
  | 0, _, st => st
  | fuel + 1, todo, st =>
    let r := sweep all stores todo st
    if r.2 then loop all stores fuel (todo.filter (fun i => !decide (i ∈ r.1.nodes))) r.1 else r.1

/-- the whitelist the iteration starts from: builtins whose name the module does not bind itself -/
def startNames (base : List String) (all : List Def) (stores otherBound : List String) : List String :=
  base.filter (fun n => !decide (n ∈ stores) && !decide (n ∈ all.map Def.name) && !decide (n ∈ otherBound))

def safeNames (base : List String) (all : List Def) (stores otherBound : List String) : List String :=
  (loop all stores (all.length + 1) (List.range all.length) ⟨startNames base all stores otherBound, []⟩).names

/-! ## soundness -/

theorem defSafe_mono (names names' : List String) (d : Def) (h : ∀ n ∈ names, n ∈ names')
    (hs : defSafe names d = true) : defSafe names' d = true := by
  simp only [defSafe, Bool.and_eq_true, List.all_eq_true, decide_eq_true_eq] at hs ⊢
  exact ⟨hs.1, fun c hc => h c (hs.2 c hc)⟩

/-- the invariant of the iteration -/
structure Inv (start : List String) (all : List Def) (st : St) : Prop where
  nodes_safe : ∀ i ∈ st.nodes, ∃ d, all[i]? = some d ∧ defSafe st.names d = true
  names_closed : ∀ n ∈ st.names, n ∈ start ∨ (∀ i d, all[i]? = some d → d.name = n → i ∈ st.nodes)

theorem allDefsSafe_spec (all : List Def) (nodes : List Nat) (n : String) (h : allDefsSafe all nodes n = true) :
    ∀ i d, all[i]? = some d → d.name = n → i ∈ nodes := by
  intro i d hi hn
  simp only [allDefsSafe, List.all_eq_true, List.mem_range] at h
  have hlt : i < all.length := by
    rcases Nat.lt_or_ge i all.length with h' | h'
    · exact h'
    · rw [List.getElem?_eq_none h'] at hi; cases hi
  have := h i hlt
  rw [hi] at this
  simp only [Bool.or_eq_true, decide_eq_true_eq] at this
  rcases this with h1 | h2
  · exact absurd hn h1
  · exact h2

theorem sweep_inv (start : List String) (all : List Def) (stores : List String) :
    ∀ (todo : List Nat) (st : St), Inv start all st → Inv start all (sweep all stores todo st).1 := by
  intro todo
  induction todo with
  | nil => intro st h; exact h
  | cons i rest ih =>
    intro st h
    simp only [sweep]
    split
    · exact ih st h
    · rename_i d hd
      split
      · exact ih st h
      · split
        · rename_i hsafe
          apply ih
          constructor
          · -- nodes: the new node is safe under the (possibly larger) whitelist, the old ones stay safe
            intro j hj
            have hmono : ∀ n ∈ st.names, n ∈ (if allDefsSafe all (i :: st.nodes) d.name then d.name :: st.names else st.names) := by
              intro n hn; split <;> simp [hn]
            simp only [List.mem_cons] at hj
            rcases hj with rfl | hj
            · exact ⟨d, hd, defSafe_mono _ _ d hmono hsafe⟩
            · obtain ⟨d', hd', hs'⟩ := h.nodes_safe j hj
              exact ⟨d', hd', defSafe_mono _ _ d' hmono hs'⟩
          · intro n hn
            simp only at hn
            split at hn
            · rename_i hall
              simp only [List.mem_cons] at hn
              rcases hn with rfl | hn
              · right; exact allDefsSafe_spec all _ _ hall
              · rcases h.names_closed n hn with h1 | h2
                · left; exact h1
                · right; intro k dk hk hkn; exact List.mem_cons_of_mem _ (h2 k dk hk hkn)
            · rcases h.names_closed n hn with h1 | h2
              · left; exact h1
              · right; intro k dk hk hkn; exact List.mem_cons_of_mem _ (h2 k dk hk hkn)
        · exact ih st h

theorem loop_inv (start : List String) (all : List Def) (stores : List String) :
    ∀ (fuel : Nat) (todo : List Nat) (st : St), Inv start all st → Inv start all (loop all stores fuel todo st) := by
  intro fuel
  induction fuel with
  | zero => intro todo st h; exact h
  | succ fuel ih =>
    intro todo st h
    simp only [loop]
    have hs := sweep_inv start all stores todo st h
    split
    · exact ih _ _ hs
    · exact hs

/-- **The admitted names are self-consistent**: a name in the result is a builtin the module does not bind, or *every*
definition of it has no effect of its own and calls admitted names only — for every module summary -/
theorem safeNames_consistent (base : List String) (all : List Def) (stores otherBound : List String) (n : String)
    (hn : n ∈ safeNames base all stores otherBound) :
    n ∈ startNames base all stores otherBound ∨
    (∀ d ∈ all, d.name = n → d.intrinsic = false ∧ ∀ c ∈ d.calls, c ∈ safeNames base all stores otherBound) := by
  have hinv := loop_inv (startNames base all stores otherBound) all stores (all.length + 1) (List.range all.length)
    ⟨startNames base all stores otherBound, []⟩
    ⟨(by intro i hi; simp at hi), (by intro m hm; left; exact hm)⟩
  rcases hinv.names_closed n hn with h1 | h2
  · left; exact h1
  · right
    intro d hd hdn
    obtain ⟨i, hi⟩ := List.getElem?_of_mem hd
    have hnode := h2 i d hi hdn
    obtain ⟨d', hd', hs⟩ := hinv.nodes_safe i hnode
    rw [hi] at hd'
    cases hd'
    simp only [defSafe, Bool.and_eq_true, Bool.not_eq_true', List.all_eq_true, decide_eq_true_eq] at hs
    exact ⟨hs.1.2, hs.2⟩

/-- a builtin name the iteration starts from is not defined by the module -/
theorem startNames_not_defined (base : List String) (all : List Def) (stores otherBound : List String) (n : String)
    (hn : n ∈ startNames base all stores otherBound) : ∀ d ∈ all, d.name ≠ n := by
  intro d hd hdn
  simp only [startNames, List.mem_filter, Bool.and_eq_true, Bool.not_eq_true', decide_eq_false_iff_not, List.mem_map,
    not_exists, not_and] at hn
  exact hn.2.1.2 d hd hdn

/-- may a call of `n` reach, within call depth `k`, a definition that has an effect of its own? -/
def reachesEffect (all : List Def) : Nat → String → Bool
  | 0, _ => false
  | k + 1, n => all.any (fun d => decide (d.name = n) && (d.intrinsic || d.calls.any (reachesEffect all k)))

/-- **Calling an admitted name never reaches an effect**, at any call depth -/
theorem safeNames_no_effect (base : List String) (all : List Def) (stores otherBound : List String) :
    ∀ (k : Nat) (n : String), n ∈ safeNames base all stores otherBound → reachesEffect all k n = false := by
  intro k
  induction k with
  | zero => intro n _; rfl
  | succ k ih =>
    intro n hn
    simp only [reachesEffect, List.any_eq_false, Bool.and_eq_true, decide_eq_true_eq, Bool.or_eq_true, List.any_eq_true,
      not_and, not_or, not_exists]
    intro d hd hdn
    rcases safeNames_consistent base all stores otherBound n hn with h1 | h2
    · exact absurd hdn (startNames_not_defined base all stores otherBound n h1 d hd)
    · obtain ⟨hi, hc⟩ := h2 d hd hdn
      refine ⟨by simp [hi], ?_⟩
      intro c hcm
      have := ih c (hc c hcm)
      simp [this]

end C16.SafeCalls
