/-!
# `core.has_side_effect` on expressions and simple statements

`hse W e` mirrors the clauses of `core.has_side_effect(node, safe_callable_whitelist = W)` on the node kinds below
(every other node kind is `other`, for which the real function answers `True`).  `Clean W e` is an independent
specification: nowhere inside `e` — comprehension elements, conditions, slices, f-strings, keyword values
included — is there a store (except to `_`), a control transfer / definition / import, or a call whose callee is
not whitelisted, and every callable handed to a builtin that calls it (`key=`, first argument of `map` / `filter`) is a
lambda, a constant or whitelisted.
-/
namespace C16

inductive Ctx | load | store | del deriving DecidableEq, Repr

inductive E
  | const
  | name (id : String) (ctx : Ctx)
  | coll (es : List E)                       -- List / Set / Tuple; Dict as keys ++ values
  | unary (e : E)
  | bin (l r : E)
  | nary (es : List E)                       -- Compare (left :: comparators), BoolOp
  | attribute (value : E) (attr : String) (ctx : Ctx)
  | subscript (value slice : E) (ctx : Ctx)
  | slice (parts : List E)                   -- the present ones of lower / upper / step
  | comp (elts : List E) (gens : List (E × E × List E))   -- elt (List/Set/Gen) or key, value (DictComp); generators
  | call (func : E) (args : List E) (kwvals : List E)
  | starred (e : E)
  | ifexp (t b o : E)
  | named (target value : E)                 -- `:=`, also Assign / AugAssign / AnnAssign with one target
  | lambda (defaults : List E) (body : E)
  | fstring (parts : List E)                 -- JoinedStr values / FormattedValue (value, format spec)
  | keyarg (e : E)                           -- the value of a keyword argument named `key` (an element of `kwvals`)
  | forStmt (target iter : E) (body orelse : List E)   -- `for` statement (the else clause counts: repaired defect)
  | ifStmt (test : E) (body orelse : List E)           -- `if` statement
  | other                                    -- yield, return, raise, break, continue, assert, import, def, …
deriving Repr, Inhabited

mutual
/-- all `Name` ids anywhere in the term (`ast.walk(node.func)`) -/
def namesIn : E → List String
  | .name id _ => [id]
  | .coll es => namesInL es | .unary e => namesIn e | .bin l r => namesIn l ++ namesIn r | .nary es => namesInL es
  | .attribute v _ _ => namesIn v | .subscript v s _ => namesIn v ++ namesIn s | .slice ps => namesInL ps
  | .comp es gens => namesInL es ++ namesInG gens
  | .call f as ks => namesIn f ++ namesInL as ++ namesInL ks
  | .starred e => namesIn e | .ifexp t b o => namesIn t ++ namesIn b ++ namesIn o
  | .named t v => namesIn t ++ namesIn v | .lambda ds b => namesInL ds ++ namesIn b | .fstring ps => namesInL ps
  | .keyarg e => namesIn e
  | .forStmt t i b o => namesIn t ++ namesIn i ++ namesInL b ++ namesInL o
  | .ifStmt t b o => namesIn t ++ namesInL b ++ namesInL o
  | .const => [] | .other => []
def namesInL : List E → List String
  | [] => []
  | e :: es => namesIn e ++ namesInL es
def namesInG : List (E × E × List E) → List String
  | [] => []
  | (t, i, ifs) :: gs => namesIn t ++ namesIn i ++ namesInL ifs ++ namesInG gs
end

mutual
/-- all attribute names anywhere in the term (`walk(node, ast.Attribute)`) -/
def attrsIn : E → List String
  | .attribute v a _ => a :: attrsIn v
  | .coll es => attrsInL es | .unary e => attrsIn e | .bin l r => attrsIn l ++ attrsIn r | .nary es => attrsInL es
  | .subscript v s _ => attrsIn v ++ attrsIn s | .slice ps => attrsInL ps
  | .comp es gens => attrsInL es ++ attrsInG gens
  | .call f as ks => attrsIn f ++ attrsInL as ++ attrsInL ks
  | .starred e => attrsIn e | .ifexp t b o => attrsIn t ++ attrsIn b ++ attrsIn o
  | .named t v => attrsIn t ++ attrsIn v | .lambda ds b => attrsInL ds ++ attrsIn b | .fstring ps => attrsInL ps
  | .keyarg e => attrsIn e
  | .forStmt t i b o => attrsIn t ++ attrsIn i ++ attrsInL b ++ attrsInL o
  | .ifStmt t b o => attrsIn t ++ attrsInL b ++ attrsInL o
  | .name _ _ => [] | .const => [] | .other => []
def attrsInL : List E → List String
  | [] => []
  | e :: es => attrsIn e ++ attrsInL es
def attrsInG : List (E × E × List E) → List String
  | [] => []
  | (t, i, ifs) :: gs => attrsIn t ++ attrsIn i ++ attrsInL ifs ++ attrsInG gs
end

def isName : E → Bool | .name _ _ => true | _ => false
def isUnderscore : E → Bool | .name "_" _ => true | _ => false
def isConst : E → Bool | .const => true | _ => false

def isLambda : E → Bool | .lambda _ _ => true | _ => false
def isMapFilter : E → Bool | .name "map" _ => true | .name "filter" _ => true | _ => false

/-- the values of the keywords named `key` -/
def keyVals : List E → List E
  | [] => []
  | .keyarg e :: rest => e :: keyVals rest
  | _ :: rest => keyVals rest

/-- what a call hands to a builtin that will call it: `key=` values, the first argument of `map` / `filter` -/
def handed (f : E) (as ks : List E) : List E := keyVals ks ++ (if isMapFilter f then as.take 1 else [])

/-- a handed callable that the real function accepts: a lambda (its body is examined with the arguments), a constant
(`filter(None, …)`), or a whitelisted name -/
def safeHanded (W : List String) : E → Bool
  | .lambda _ _ => true
  | .const => true
  | .name id _ => W.contains id
  | _ => false

/-- a method of a literal (`"".join`) extends the whitelist by its own name for that call -/
def extW (W : List String) : E → List String
  | .attribute .const a _ => a :: W
  | _ => W

mutual
/-- `core.has_side_effect(e, W)` -/
def hse (W : List String) : E → Bool
  | .const => false
  | .name id ctx => ctx == .store && id != "_"
  | .coll es => hseL W es
  | .unary e => hse W e
  | .bin l r => hse W l || hse W r
  | .nary es => hseL W es
  | .attribute v _ ctx => ctx == .store || hse [] v                 -- the whitelist is not passed down
  | .subscript v s ctx => hse W v || hse W s || (ctx == .store && !isUnderscore v)
  | .slice ps => hseL W ps
  | .comp es gens => hseL W es || hseG W gens
  | .call f as ks =>
    let W' := extW W f
    !(handed f as ks).all (safeHanded W') ||
    !(namesIn f).all (fun n => W'.contains n || n == "_") || hseL W' as || hseL W' ks ||
      !(attrsIn (.call f as ks)).all (fun a => W'.contains a)
  | .starred e => hse W e
  | .ifexp t b o => hse W t || hse W b || hse W o
  | .named t v => hse [] v || hse [] t                               -- whitelist dropped
  | .lambda ds b => hseL W ds || hse W b
  | .fstring ps => hseL [] ps                                        -- whitelist dropped
  | .keyarg e => hse W e
  | .forStmt t i b o => hse W t || hse W i || hseL W b || hseL W o
  | .ifStmt t b o => hseL W b || hse W t || hseL W o
  | .other => true
def hseL (W : List String) : List E → Bool
  | [] => false
  | e :: es => hse W e || hseL W es
/-- a comprehension clause is clean only if its target is a plain name and iterable and conditions are -/
def hseG (W : List String) : List (E × E × List E) → Bool
  | [] => false
  | (t, i, ifs) :: gs => !(isName t && !hse W i && !hseL W ifs) || hseG W gs
end

mutual
/-- independent specification: no store except to `_` (comprehension targets are plain names), nothing of kind
`other`, and every call's callee names and attribute names are whitelisted (a method of a literal is allowed) -/
def Clean (W : List String) : E → Prop
  | .const => True
  | .name id ctx => ctx ≠ .store ∨ id = "_"
  | .coll es => CleanL W es
  | .unary e => Clean W e
  | .bin l r => Clean W l ∧ Clean W r
  | .nary es => CleanL W es
  | .attribute v _ ctx => ctx ≠ .store ∧ Clean W v
  | .subscript v s ctx => Clean W v ∧ Clean W s ∧ (ctx ≠ .store ∨ isUnderscore v = true)
  | .slice ps => CleanL W ps
  | .comp es gens => CleanL W es ∧ CleanG W gens
  | .call f as ks =>
    (∀ n ∈ namesIn f, n ∈ W ∨ n = "_" ∨ (∃ a c, f = .attribute .const a c ∧ n = a)) ∧
    (∀ a ∈ attrsIn f, a ∈ W ∨ (∃ c, f = .attribute .const a c)) ∧
    CleanL (extW W f) as ∧
    CleanL (extW W f) ks ∧
    (∀ h ∈ handed f as ks, safeHanded (extW W f) h = true)
  | .starred e => Clean W e
  | .ifexp t b o => Clean W t ∧ Clean W b ∧ Clean W o
  | .named t v => Clean W t ∧ Clean W v
  | .lambda ds b => CleanL W ds ∧ Clean W b
  | .fstring ps => CleanL W ps
  | .keyarg e => Clean W e
  | .forStmt t i b o => Clean W t ∧ Clean W i ∧ CleanL W b ∧ CleanL W o
  | .ifStmt t b o => Clean W t ∧ CleanL W b ∧ CleanL W o
  | .other => False
def CleanL (W : List String) : List E → Prop
  | [] => True
  | e :: es => Clean W e ∧ CleanL W es
def CleanG (W : List String) : List (E × E × List E) → Prop
  | [] => True
  | (t, i, ifs) :: gs => isName t = true ∧ Clean W i ∧ CleanL W ifs ∧ CleanG W gs
end

end C16
