import PyrefactModel.C16.Flow
/-!
# Fuel-free view of the skeleton semantics

`exec` / `execList` are monotone in the fuel; `ResS` / `Res` ("some fuel suffices, and the result is this") are
therefore functional relations, and they satisfy the big-step equations one would write down for the language.
All rule-soundness proofs (`Rules.lean`) go through these equations and never mention fuel.
-/
namespace C16

theorem handle_mono (ω : Oracle) (r1 : Out × St) (hk : HKind) (runH runH' : St → Out × St) (r2 : Out × St)
    (hH : ∀ s r', runH s = r' → r'.1 ≠ .fuel → runH' s = r')
    (h : handle ω r1 hk runH = r2) (hr : r2.1 ≠ .fuel) : handle ω r1 hk runH' = r2 := by
  unfold handle at h ⊢
  by_cases hra : r1.1 = .raise
  · rw [if_pos hra] at h ⊢
    cases hk with
    | none => exact h
    | all => exact hH _ _ h hr
    | some =>
      simp only at h ⊢
      by_cases hw : ω r1.2.pos = true
      · rw [if_pos hw] at h ⊢; exact hH _ _ h hr
      · rw [if_neg hw] at h ⊢; exact h
  · rw [if_neg hra] at h ⊢; exact h

theorem finish_mono (r2 : Out × St) (runF runF' : St → Out × St) (r : Out × St)
    (hF : ∀ s r', runF s = r' → r'.1 ≠ .fuel → runF' s = r')
    (h : finish r2 runF = r) (hr : r.1 ≠ .fuel) : finish r2 runF' = r := by
  unfold finish at h ⊢
  by_cases hf : r2.1 = .fuel
  · rw [if_pos hf] at h; subst h; exact absurd hf hr
  · rw [if_neg hf] at h ⊢
    by_cases hn : (runF r2.2).1 = .normal
    · rw [if_pos hn] at h
      have e := hF r2.2 _ rfl (by rw [hn]; simp)
      rw [e, if_pos hn]; exact h
    · rw [if_neg hn] at h
      have e := hF r2.2 r h hr
      rw [e]
      have hn' : ¬ r.1 = .normal := by rw [← h]; exact hn
      rw [if_neg hn']

theorem finish_ne_fuel {r2 : Out × St} {runF : St → Out × St} (h : (finish r2 runF).1 ≠ .fuel) : r2.1 ≠ .fuel := by
  intro hf; unfold finish at h; rw [if_pos hf] at h; exact h hf

theorem handle_ne_fuel {ω : Oracle} {r1 : Out × St} {hk : HKind} {runH : St → Out × St}
    (h : (handle ω r1 hk runH).1 ≠ .fuel) : r1.1 ≠ .fuel := by
  intro hf; unfold handle at h
  have : ¬ r1.1 = .raise := by rw [hf]; simp
  rw [if_neg this] at h; exact h hf

theorem exec_mono (ω : Oracle) : ∀ n,
    (∀ st s r, exec ω n st s = r → r.1 ≠ .fuel → exec ω (n + 1) st s = r) ∧
    (∀ l s r, execList ω n l s = r → r.1 ≠ .fuel → execList ω (n + 1) l s = r) := by
  intro n
  induction n with
  | zero =>
    constructor
    · intro st s r h hr; subst h; simp [exec] at hr
    · intro l s r h hr; subst h; simp [execList] at hr
  | succ n ih =>
    obtain ⟨ih1, ih2⟩ := ih
    have loopStep : ∀ (L : Stmt) (b : List Stmt) (s' : St) (r : Out × St),
        (match execList ω n b s' with
          | (.normal, s'') => exec ω n L s''
          | (.cont, s'') => exec ω n L s''
          | (.brk, s'') => (.normal, s'')
          | r => r) = r → r.1 ≠ .fuel →
        (match execList ω (n + 1) b s' with
          | (.normal, s'') => exec ω (n + 1) L s''
          | (.cont, s'') => exec ω (n + 1) L s''
          | (.brk, s'') => (.normal, s'')
          | r => r) = r := by
      intro L b s' r h hr
      generalize hb : execList ω n b s' = rb at h
      obtain ⟨o, s''⟩ := rb
      have hbf : o ≠ .fuel := by
        intro ho; subst ho; simp at h; subst h; simp at hr
      have hb' := ih2 b s' (o, s'') hb hbf
      rw [hb']
      cases o with
      | normal => simp at h ⊢; exact ih1 _ _ _ h hr
      | cont => simp at h ⊢; exact ih1 _ _ _ h hr
      | brk => simpa using h
      | ret => simpa using h
      | raise => simpa using h
      | fuel => exact absurd rfl hbf
    constructor
    · intro st s r h hr
      cases st with
      | simple l => simpa [exec] using h
      | ret => simpa [exec] using h
      | raise => simpa [exec] using h
      | brk => simpa [exec] using h
      | cont => simpa [exec] using h
      | assertC c => simpa [exec] using h
      | ite c b o =>
        simp only [exec] at h ⊢
        split
        · rename_i hv; simp only [hv, if_true] at h; exact ih2 _ _ _ h hr
        · rename_i hv; simp only [hv] at h; exact ih2 _ _ _ (by simpa using h) hr
      | withS b => simp only [exec] at h ⊢; exact ih2 _ _ _ h hr
      | whileS c b e =>
        simp only [exec] at h ⊢
        split
        · rename_i hv; simp only [hv, if_true] at h; exact loopStep _ _ _ _ h hr
        · rename_i hv; simp only [hv] at h; exact ih2 _ _ _ (by simpa using h) hr
      | forS it b e =>
        cases it with
        | empty => simp only [exec] at h ⊢; exact ih2 _ _ _ h hr
        | nonempty => simp only [exec] at h ⊢; exact loopStep _ _ _ _ h hr
        | unk =>
          simp only [exec] at h ⊢
          split
          · rename_i hv; simp only [hv, if_true] at h; exact loopStep _ _ _ _ h hr
          · rename_i hv; simp only [hv] at h; exact ih2 _ _ _ (by simpa using h) hr
      | tryS b hk hb f =>
        simp only [exec, tryComb] at h ⊢
        have h2ne := finish_ne_fuel (by rw [h]; exact hr)
        have h1ne := handle_ne_fuel h2ne
        rw [ih2 b s _ rfl h1ne]
        rw [handle_mono ω _ hk _ (execList ω (n + 1) hb) _ (fun s r' => ih2 hb s r') rfl h2ne]
        exact finish_mono _ _ _ _ (fun s r' => ih2 f s r') h hr
    · intro l s r h hr
      cases l with
      | nil => simpa [execList] using h
      | cons st rest =>
        simp only [execList] at h ⊢
        generalize hst : exec ω n st s = rs at h
        obtain ⟨o, s'⟩ := rs
        have hof : o ≠ .fuel := by
          intro ho; subst ho; simp at h; subst h; simp at hr
        rw [ih1 st s (o, s') hst hof]
        cases o with
        | normal => simp at h ⊢; exact ih2 _ _ _ h hr
        | fuel => exact absurd rfl hof
        | ret => simpa using h
        | raise => simpa using h
        | brk => simpa using h
        | cont => simpa using h

theorem exec_mono_le (ω : Oracle) {n m : Nat} (h : n ≤ m) {st : Stmt} {s : St} {r : Out × St}
    (he : exec ω n st s = r) (hr : r.1 ≠ .fuel) : exec ω m st s = r := by
  induction h with
  | refl => exact he
  | step _ ih => exact (exec_mono ω _).1 _ _ _ ih hr

theorem execList_mono_le (ω : Oracle) {n m : Nat} (h : n ≤ m) {l : List Stmt} {s : St} {r : Out × St}
    (he : execList ω n l s = r) (hr : r.1 ≠ .fuel) : execList ω m l s = r := by
  induction h with
  | refl => exact he
  | step _ ih => exact (exec_mono ω _).2 _ _ _ ih hr

/-- the statement terminates (without running out of fuel) with result `r` -/
def ResS (ω : Oracle) (st : Stmt) (s : St) (r : Out × St) : Prop := ∃ n, exec ω n st s = r ∧ r.1 ≠ .fuel
/-- the statement list terminates with result `r` -/
def Res (ω : Oracle) (l : List Stmt) (s : St) (r : Out × St) : Prop := ∃ n, execList ω n l s = r ∧ r.1 ≠ .fuel

theorem ResS.det {ω st s r r'} (h : ResS ω st s r) (h' : ResS ω st s r') : r = r' := by
  obtain ⟨n, hn, hr⟩ := h
  obtain ⟨m, hm, hr'⟩ := h'
  have a := exec_mono_le ω (Nat.le_max_left n m) hn hr
  have b := exec_mono_le ω (Nat.le_max_right n m) hm hr'
  exact a.symm.trans b

theorem Res.det {ω l s r r'} (h : Res ω l s r) (h' : Res ω l s r') : r = r' := by
  obtain ⟨n, hn, hr⟩ := h
  obtain ⟨m, hm, hr'⟩ := h'
  have a := execList_mono_le ω (Nat.le_max_left n m) hn hr
  have b := execList_mono_le ω (Nat.le_max_right n m) hm hr'
  exact a.symm.trans b

/-- continue with `K` after a normal completion, otherwise propagate -/
def Then (r1 : Out × St) (K : St → Out × St → Prop) (r : Out × St) : Prop :=
  if r1.1 = .normal then K r1.2 r else r = r1

theorem res_nil (ω : Oracle) (s : St) (r : Out × St) : Res ω [] s r ↔ r = (.normal, s) := by
  constructor
  · rintro ⟨n, hn, hr⟩
    cases n with
    | zero => subst hn; simp [execList] at hr
    | succ n => simpa [execList] using hn.symm
  · intro h; subst h; exact ⟨1, by simp [execList], by simp⟩

theorem res_cons (ω : Oracle) (st : Stmt) (rest : List Stmt) (s : St) (r : Out × St) :
    Res ω (st :: rest) s r ↔ ∃ r1, ResS ω st s r1 ∧ Then r1 (Res ω rest) r := by
  constructor
  · rintro ⟨n, hn, hr⟩
    cases n with
    | zero => subst hn; simp [execList] at hr
    | succ n =>
      simp only [execList] at hn
      generalize hst : exec ω n st s = rs at hn
      obtain ⟨o, s'⟩ := rs
      have hof : o ≠ .fuel := by
        intro ho; subst ho; simp at hn; subst hn; simp at hr
      refine ⟨(o, s'), ⟨n, hst, hof⟩, ?_⟩
      unfold Then
      cases o with
      | normal => simp at hn ⊢; exact ⟨n, hn, hr⟩
      | fuel => exact absurd rfl hof
      | ret => simpa using hn.symm
      | raise => simpa using hn.symm
      | brk => simpa using hn.symm
      | cont => simpa using hn.symm
  · rintro ⟨⟨o, s'⟩, ⟨n1, h1, hr1⟩, ht⟩
    unfold Then at ht
    by_cases ho : o = .normal
    · subst ho
      simp at ht
      obtain ⟨n2, h2, hr2⟩ := ht
      refine ⟨max n1 n2 + 1, ?_, hr2⟩
      simp only [execList]
      rw [exec_mono_le ω (Nat.le_max_left n1 n2) h1 hr1]
      simp
      exact execList_mono_le ω (Nat.le_max_right n1 n2) h2 hr2
    · simp [ho] at ht
      subst ht
      refine ⟨n1 + 1, ?_, hr1⟩
      simp only [execList]
      rw [h1]
      cases o <;> simp_all

theorem res_append (ω : Oracle) (a k : List Stmt) (s : St) (r : Out × St) :
    Res ω (a ++ k) s r ↔ ∃ r1, Res ω a s r1 ∧ Then r1 (Res ω k) r := by
  induction a generalizing s r with
  | nil =>
    simp only [List.nil_append]
    constructor
    · intro h; exact ⟨(.normal, s), (res_nil ω s _).2 rfl, by simpa [Then] using h⟩
    · rintro ⟨r1, h1, ht⟩
      have := (res_nil ω s r1).1 h1; subst this
      simpa [Then] using ht
  | cons st rest ih =>
    simp only [List.cons_append]
    rw [res_cons]
    constructor
    · rintro ⟨r1, h1, ht⟩
      unfold Then at ht
      by_cases ho : r1.1 = .normal
      · simp only [ho, if_true] at ht
        obtain ⟨r2, h2, ht2⟩ := (ih _ _).1 ht
        exact ⟨r2, (res_cons ω st rest s r2).2 ⟨r1, h1, by simpa [Then, ho] using h2⟩, ht2⟩
      · simp only [ho, if_false] at ht
        subst ht
        exact ⟨r, (res_cons ω st rest s r).2 ⟨r, h1, by simp [Then, ho]⟩, by simp [Then, ho]⟩
    · rintro ⟨r2, h2, ht2⟩
      obtain ⟨r1, h1, ht⟩ := (res_cons ω st rest s r2).1 h2
      refine ⟨r1, h1, ?_⟩
      unfold Then at ht ⊢
      by_cases ho : r1.1 = .normal
      · simp only [ho, if_true] at ht ⊢
        exact (ih _ _).2 ⟨r2, ht, ht2⟩
      · simp only [ho, if_false] at ht ⊢
        subst ht
        simpa [Then, ho] using ht2

/-! big-step equations for the statements -/

theorem resS_simple (ω : Oracle) (l : Nat) (s : St) (r : Out × St) :
    ResS ω (.simple l) s r ↔ r = (.normal, ⟨s.pos, .stmt l :: s.trace⟩) := by
  constructor
  · rintro ⟨n, hn, hr⟩
    cases n with
    | zero => subst hn; simp [exec] at hr
    | succ n => simpa [exec] using hn.symm
  · intro h; subst h; exact ⟨1, by simp [exec], by simp⟩

theorem resS_jump (ω : Oracle) (st : Stmt) (o : Out) (ho : o ≠ .fuel)
    (hst : ∀ n s, exec ω (n + 1) st s = (o, s)) (s : St) (r : Out × St) :
    ResS ω st s r ↔ r = (o, s) := by
  constructor
  · rintro ⟨n, hn, hr⟩
    cases n with
    | zero => subst hn; simp [exec] at hr
    | succ n => rw [hst] at hn; exact hn.symm
  · intro h; subst h; exact ⟨1, hst 0 s, ho⟩

theorem resS_ret (ω s r) : ResS ω .ret s r ↔ r = (.ret, s) := resS_jump ω _ _ (by simp) (by intros; simp [exec]) s r
theorem resS_raise (ω s r) : ResS ω .raise s r ↔ r = (.raise, s) := resS_jump ω _ _ (by simp) (by intros; simp [exec]) s r
theorem resS_brk (ω s r) : ResS ω .brk s r ↔ r = (.brk, s) := resS_jump ω _ _ (by simp) (by intros; simp [exec]) s r
theorem resS_cont (ω s r) : ResS ω .cont s r ↔ r = (.cont, s) := resS_jump ω _ _ (by simp) (by intros; simp [exec]) s r

theorem resS_assert (ω : Oracle) (c : Cond) (s : St) (r : Out × St) :
    ResS ω (.assertC c) s r ↔ r = (if (evalCond ω c s).1 then .normal else .raise, (evalCond ω c s).2) := by
  constructor
  · rintro ⟨n, hn, hr⟩
    cases n with
    | zero => subst hn; simp [exec] at hr
    | succ n =>
      simp only [exec] at hn
      rw [← hn]; split <;> simp_all
  · intro h
    refine ⟨1, ?_, ?_⟩
    · simp only [exec]; rw [h]; split <;> simp_all
    · rw [h]; split <;> simp

theorem resS_ite (ω : Oracle) (c : Cond) (b o : List Stmt) (s : St) (r : Out × St) :
    ResS ω (.ite c b o) s r ↔ Res ω (if (evalCond ω c s).1 then b else o) (evalCond ω c s).2 r := by
  constructor
  · rintro ⟨n, hn, hr⟩
    cases n with
    | zero => subst hn; simp [exec] at hr
    | succ n =>
      simp only [exec] at hn
      refine ⟨n, ?_, hr⟩
      split at hn <;> simp_all
  · rintro ⟨n, hn, hr⟩
    refine ⟨n + 1, ?_, hr⟩
    simp only [exec]
    split at hn <;> simp_all

theorem resS_with (ω : Oracle) (b : List Stmt) (s : St) (r : Out × St) :
    ResS ω (.withS b) s r ↔ Res ω b s r := by
  constructor
  · rintro ⟨n, hn, hr⟩
    cases n with
    | zero => subst hn; simp [exec] at hr
    | succ n => exact ⟨n, by simpa [exec] using hn, hr⟩
  · rintro ⟨n, hn, hr⟩
    exact ⟨n + 1, by simpa [exec] using hn, hr⟩

/-- what a loop does after one run of its body -/
def loopK (ω : Oracle) (L : Stmt) (rb : Out × St) (r : Out × St) : Prop :=
  match rb.1 with
  | .normal => ResS ω L rb.2 r
  | .cont => ResS ω L rb.2 r
  | .brk => r = (.normal, rb.2)
  | _ => r = rb

theorem loopMatch_iff (ω : Oracle) (L : Stmt) (b : List Stmt) (s' : St) (r : Out × St) :
    (∃ n, (match execList ω n b s' with
          | (.normal, s'') => exec ω n L s''
          | (.cont, s'') => exec ω n L s''
          | (.brk, s'') => (.normal, s'')
          | r => r) = r ∧ r.1 ≠ .fuel)
    ↔ ∃ rb, Res ω b s' rb ∧ loopK ω L rb r := by
  constructor
  · rintro ⟨n, hn, hr⟩
    generalize hb : execList ω n b s' = rb at hn
    obtain ⟨o, s''⟩ := rb
    have hbf : o ≠ .fuel := by
      intro ho; subst ho; simp at hn; subst hn; simp at hr
    refine ⟨(o, s''), ⟨n, hb, hbf⟩, ?_⟩
    unfold loopK
    cases o with
    | normal => simp at hn ⊢; exact ⟨n, hn, hr⟩
    | cont => simp at hn ⊢; exact ⟨n, hn, hr⟩
    | brk => simpa using hn.symm
    | ret => simpa using hn.symm
    | raise => simpa using hn.symm
    | fuel => exact absurd rfl hbf
  · rintro ⟨⟨o, s''⟩, ⟨n1, h1, hr1⟩, hk⟩
    unfold loopK at hk
    cases o with
    | normal =>
      simp at hk
      obtain ⟨n2, h2, hr2⟩ := hk
      refine ⟨max n1 n2, ?_, hr2⟩
      rw [execList_mono_le ω (Nat.le_max_left n1 n2) h1 hr1]
      simp
      exact exec_mono_le ω (Nat.le_max_right n1 n2) h2 hr2
    | cont =>
      simp at hk
      obtain ⟨n2, h2, hr2⟩ := hk
      refine ⟨max n1 n2, ?_, hr2⟩
      rw [execList_mono_le ω (Nat.le_max_left n1 n2) h1 hr1]
      simp
      exact exec_mono_le ω (Nat.le_max_right n1 n2) h2 hr2
    | brk => simp at hk; subst hk; exact ⟨n1, by rw [h1], by simp⟩
    | ret => simp at hk; subst hk; exact ⟨n1, by rw [h1], by simp⟩
    | raise => simp at hk; subst hk; exact ⟨n1, by rw [h1], by simp⟩
    | fuel => simp at hr1

theorem resS_while (ω : Oracle) (c : Cond) (b e : List Stmt) (s : St) (r : Out × St) :
    ResS ω (.whileS c b e) s r ↔
      if (evalCond ω c s).1 then ∃ rb, Res ω b (evalCond ω c s).2 rb ∧ loopK ω (.whileS c b e) rb r
      else Res ω e (evalCond ω c s).2 r := by
  rw [← loopMatch_iff]
  constructor
  · rintro ⟨n, hn, hr⟩
    cases n with
    | zero => subst hn; simp [exec] at hr
    | succ n =>
      simp only [exec] at hn
      split
      · rename_i hv; simp only [hv, if_true] at hn; exact ⟨n, hn, hr⟩
      · rename_i hv; simp only [hv] at hn; exact ⟨n, by simpa using hn, hr⟩
  · intro h
    split at h
    · rename_i hv
      obtain ⟨n, hn, hr⟩ := h
      exact ⟨n + 1, by simp only [exec, hv, if_true]; exact hn, hr⟩
    · rename_i hv
      obtain ⟨n, hn, hr⟩ := h
      exact ⟨n + 1, by simp only [exec]; simp [hv]; exact hn, hr⟩

theorem resS_for_empty (ω : Oracle) (b e : List Stmt) (s : St) (r : Out × St) :
    ResS ω (.forS .empty b e) s r ↔ Res ω e s r := by
  constructor
  · rintro ⟨n, hn, hr⟩
    cases n with
    | zero => subst hn; simp [exec] at hr
    | succ n => exact ⟨n, by simpa [exec] using hn, hr⟩
  · rintro ⟨n, hn, hr⟩
    exact ⟨n + 1, by simpa [exec] using hn, hr⟩

theorem resS_for_nonempty (ω : Oracle) (b e : List Stmt) (s : St) (r : Out × St) :
    ResS ω (.forS .nonempty b e) s r ↔ ∃ rb, Res ω b s rb ∧ loopK ω (.forS .unk b e) rb r := by
  rw [← loopMatch_iff]
  constructor
  · rintro ⟨n, hn, hr⟩
    cases n with
    | zero => subst hn; simp [exec] at hr
    | succ n => simp only [exec] at hn; exact ⟨n, hn, hr⟩
  · rintro ⟨n, hn, hr⟩
    exact ⟨n + 1, by simp only [exec]; exact hn, hr⟩

theorem resS_for_unk (ω : Oracle) (b e : List Stmt) (s : St) (r : Out × St) :
    ResS ω (.forS .unk b e) s r ↔
      if ω s.pos then ∃ rb, Res ω b ⟨s.pos + 1, s.trace⟩ rb ∧ loopK ω (.forS .unk b e) rb r
      else Res ω e ⟨s.pos + 1, s.trace⟩ r := by
  rw [← loopMatch_iff]
  constructor
  · rintro ⟨n, hn, hr⟩
    cases n with
    | zero => subst hn; simp [exec] at hr
    | succ n =>
      simp only [exec] at hn
      split
      · rename_i hv; simp only [hv, if_true] at hn; exact ⟨n, hn, hr⟩
      · rename_i hv; simp only [hv] at hn; exact ⟨n, by simpa using hn, hr⟩
  · intro h
    split at h
    · rename_i hv
      obtain ⟨n, hn, hr⟩ := h
      exact ⟨n + 1, by simp only [exec, hv, if_true]; exact hn, hr⟩
    · rename_i hv
      obtain ⟨n, hn, hr⟩ := h
      exact ⟨n + 1, by simp only [exec]; simp [hv]; exact hn, hr⟩

/-! `try` -/

/-- the handler step, big-step -/
def Handled (ω : Oracle) (hk : HKind) (hb : List Stmt) (r1 r2 : Out × St) : Prop :=
  if r1.1 = .raise then
    match hk with
    | .none => r2 = r1
    | .all => Res ω hb r1.2 r2
    | .some =>
      if ω r1.2.pos then Res ω hb ⟨r1.2.pos + 1, r1.2.trace⟩ r2
      else r2 = (.raise, ⟨r1.2.pos + 1, r1.2.trace⟩)
  else r2 = r1

/-- the `finally` step, big-step -/
def Finished (ω : Oracle) (f : List Stmt) (r2 r : Out × St) : Prop :=
  ∃ r3, Res ω f r2.2 r3 ∧ r = (if r3.1 = .normal then (r2.1, r3.2) else r3)

theorem handled_of (ω : Oracle) (n : Nat) (hk : HKind) (hb : List Stmt) (r1 : Out × St)
    (hne : (handle ω r1 hk (execList ω n hb)).1 ≠ .fuel) :
    Handled ω hk hb r1 (handle ω r1 hk (execList ω n hb)) := by
  unfold Handled
  unfold handle at hne ⊢
  by_cases hra : r1.1 = .raise
  · rw [if_pos hra] at hne ⊢; rw [if_pos hra]
    cases hk with
    | none => rfl
    | all => exact ⟨n, rfl, hne⟩
    | some =>
      simp only at hne ⊢
      by_cases hw : ω r1.2.pos = true
      · rw [if_pos hw] at hne ⊢; rw [if_pos hw]; exact ⟨n, rfl, hne⟩
      · rw [if_neg hw]; rw [if_neg hw]
  · rw [if_neg hra]; rw [if_neg hra]

theorem handle_of (ω : Oracle) (hk : HKind) (hb : List Stmt) (r1 r2 : Out × St) (h : Handled ω hk hb r1 r2)
    (h1 : r1.1 ≠ .fuel) : ∃ n, ∀ m, n ≤ m → handle ω r1 hk (execList ω m hb) = r2 ∧ r2.1 ≠ .fuel := by
  unfold Handled at h
  unfold handle
  by_cases hra : r1.1 = .raise
  · rw [if_pos hra] at h
    cases hk with
    | none => subst h; exact ⟨0, fun m _ => ⟨by rw [if_pos hra], h1⟩⟩
    | all =>
      obtain ⟨n, hn, hr⟩ := h
      exact ⟨n, fun m hm => ⟨by rw [if_pos hra]; exact execList_mono_le ω hm hn hr, hr⟩⟩
    | some =>
      simp only at h
      by_cases hw : ω r1.2.pos = true
      · rw [if_pos hw] at h
        obtain ⟨n, hn, hr⟩ := h
        exact ⟨n, fun m hm => ⟨by rw [if_pos hra]; simp only; rw [if_pos hw]; exact execList_mono_le ω hm hn hr, hr⟩⟩
      · rw [if_neg hw] at h
        subst h
        exact ⟨0, fun m _ => ⟨by rw [if_pos hra]; simp only; rw [if_neg hw], by simp⟩⟩
  · rw [if_neg hra] at h; subst h
    exact ⟨0, fun m _ => ⟨by rw [if_neg hra], h1⟩⟩

theorem resS_try (ω : Oracle) (b : List Stmt) (hk : HKind) (hb f : List Stmt) (s : St) (r : Out × St) :
    ResS ω (.tryS b hk hb f) s r ↔ ∃ r1 r2, Res ω b s r1 ∧ Handled ω hk hb r1 r2 ∧ Finished ω f r2 r := by
  constructor
  · rintro ⟨n, hn, hr⟩
    cases n with
    | zero => subst hn; simp [exec] at hr
    | succ n =>
      simp only [exec, tryComb] at hn
      have h2ne := finish_ne_fuel (by rw [hn]; exact hr)
      have h1ne := handle_ne_fuel h2ne
      refine ⟨execList ω n b s, handle ω (execList ω n b s) hk (execList ω n hb), ⟨n, rfl, h1ne⟩, handled_of ω n hk hb _ h2ne, ?_⟩
      generalize handle ω (execList ω n b s) hk (execList ω n hb) = r2 at hn h2ne
      unfold finish at hn
      rw [if_neg h2ne] at hn
      refine ⟨execList ω n f r2.2, ⟨n, rfl, ?_⟩, hn.symm⟩
      by_cases hnn : (execList ω n f r2.2).1 = .normal
      · rw [hnn]; simp
      · rw [if_neg hnn] at hn; rw [hn]; exact hr
  · rintro ⟨r1, r2, ⟨n1, hn1, hr1⟩, hh, ⟨r3, ⟨n3, hn3, hr3⟩, hfin⟩⟩
    obtain ⟨n2, hn2⟩ := handle_of ω hk hb r1 r2 hh hr1
    let m := max n1 (max n2 n3)
    have hm1 : n1 ≤ m := Nat.le_max_left _ _
    have hm2 : n2 ≤ m := Nat.le_trans (Nat.le_max_left _ _) (Nat.le_max_right _ _)
    have hm3 : n3 ≤ m := Nat.le_trans (Nat.le_max_right _ _) (Nat.le_max_right _ _)
    have e1 := execList_mono_le ω hm1 hn1 hr1
    obtain ⟨e2, h2ne⟩ := hn2 m hm2
    have e3 := execList_mono_le ω hm3 hn3 hr3
    have hrne : r.1 ≠ .fuel := by
      rw [hfin]
      by_cases hnn : r3.1 = .normal
      · rw [if_pos hnn]; exact h2ne
      · rw [if_neg hnn]; exact hr3
    refine ⟨m + 1, ?_, hrne⟩
    simp only [exec, tryComb]
    rw [e1, e2]
    unfold finish
    rw [if_neg h2ne, e3]
    exact hfin.symm

end C16
