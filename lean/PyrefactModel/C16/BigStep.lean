import PyrefactModel.C16.Flow
/-!
# Fuel-free view of the skeleton semantics

`exec` / `execList` are monotone in the fuel; `ResS` / `Res` ("some fuel suffices, and the result is this") are
therefore functional relations, and they satisfy the big-step equations one would write down for the language.
All rule-soundness proofs (`Rules.lean`) go through these equations and never mention fuel.
-/
namespace C16

theorem exec_mono (ω : Oracle) : ∀ n,
    (∀ st s r, exec ω n st s = r → r.1 ≠ .fuel → exec ω (n + 1) st s = r) ∧
    (∀ l s r, execList ω n l s = r → r.1 ≠ .fuel → execList ω (n + 1) l s = r) := by
  intro n
  induction n with
  | zero =>
    constructor
    · intro st s r h hr; subst h; simp [exec] at hr
    · intro l s r h hr; subst h; simp [execList] at hr
  | succ n ih =>
    obtain ⟨ih1, ih2⟩ := ih
    have loopStep : ∀ (L : Stmt) (b : List Stmt) (s' : St) (r : Out × St),
        (match execList ω n b s' with
          | (.normal, s'') => exec ω n L s''
          | (.cont, s'') => exec ω n L s''
          | (.brk, s'') => (.normal, s'')
          | r => r) = r → r.1 ≠ .fuel →
        (match execList ω (n + 1) b s' with
          | (.normal, s'') => exec ω (n + 1) L s''
          | (.cont, s'') => exec ω (n + 1) L s''
          | (.brk, s'') => (.normal, s'')
          | r => r) = r := by
      intro L b s' r h hr
      generalize hb : execList ω n b s' = rb at h
      obtain ⟨o, s''⟩ := rb
      have hbf : o ≠ .fuel := by
        intro ho; subst ho; simp at h; subst h; simp at hr
      have hb' := ih2 b s' (o, s'') hb hbf
      rw [hb']
      cases o with
      | normal => simp at h ⊢; exact ih1 _ _ _ h hr
      | cont => simp at h ⊢; exact ih1 _ _ _ h hr
      | brk => simpa using h
      | ret => simpa using h
      | raise => simpa using h
      | fuel => exact absurd rfl hbf
    constructor
    · intro st s r h hr
      cases st with
      | simple l => simpa [exec] using h
      | ret => simpa [exec] using h
      | raise => simpa [exec] using h
      | brk => simpa [exec] using h
      | cont => simpa [exec] using h
      | assertC c => simpa [exec] using h
      | ite c b o =>
        simp only [exec] at h ⊢
        split
        · rename_i hv; simp only [hv, if_true] at h; exact ih2 _ _ _ h hr
        · rename_i hv; simp only [hv] at h; exact ih2 _ _ _ (by simpa using h) hr
      | withS b => simp only [exec] at h ⊢; exact ih2 _ _ _ h hr
      | whileS c b =>
        simp only [exec] at h ⊢
        split
        · rename_i hv; simp only [hv, if_true] at h; exact loopStep _ _ _ _ h hr
        · rename_i hv; simp only [hv] at h; simpa using h
      | forS it b =>
        cases it with
        | empty => simpa [exec] using h
        | nonempty => simp only [exec] at h ⊢; exact loopStep _ _ _ _ h hr
        | unk =>
          simp only [exec] at h ⊢
          split
          · rename_i hv; simp only [hv, if_true] at h; exact loopStep _ _ _ _ h hr
          · rename_i hv; simp only [hv] at h; simpa using h
    · intro l s r h hr
      cases l with
      | nil => simpa [execList] using h
      | cons st rest =>
        simp only [execList] at h ⊢
        generalize hst : exec ω n st s = rs at h
        obtain ⟨o, s'⟩ := rs
        have hof : o ≠ .fuel := by
          intro ho; subst ho; simp at h; subst h; simp at hr
        rw [ih1 st s (o, s') hst hof]
        cases o with
        | normal => simp at h ⊢; exact ih2 _ _ _ h hr
        | fuel => exact absurd rfl hof
        | ret => simpa using h
        | raise => simpa using h
        | brk => simpa using h
        | cont => simpa using h

theorem exec_mono_le (ω : Oracle) {n m : Nat} (h : n ≤ m) {st : Stmt} {s : St} {r : Out × St}
    (he : exec ω n st s = r) (hr : r.1 ≠ .fuel) : exec ω m st s = r := by
  induction h with
  | refl => exact he
  | step _ ih => exact (exec_mono ω _).1 _ _ _ ih hr

theorem execList_mono_le (ω : Oracle) {n m : Nat} (h : n ≤ m) {l : List Stmt} {s : St} {r : Out × St}
    (he : execList ω n l s = r) (hr : r.1 ≠ .fuel) : execList ω m l s = r := by
  induction h with
  | refl => exact he
  | step _ ih => exact (exec_mono ω _).2 _ _ _ ih hr

/-- the statement terminates (without running out of fuel) with result `r` -/
def ResS (ω : Oracle) (st : Stmt) (s : St) (r : Out × St) : Prop := ∃ n, exec ω n st s = r ∧ r.1 ≠ .fuel
/-- the statement list terminates with result `r` -/
def Res (ω : Oracle) (l : List Stmt) (s : St) (r : Out × St) : Prop := ∃ n, execList ω n l s = r ∧ r.1 ≠ .fuel

theorem ResS.det {ω st s r r'} (h : ResS ω st s r) (h' : ResS ω st s r') : r = r' := by
  obtain ⟨n, hn, hr⟩ := h
  obtain ⟨m, hm, hr'⟩ := h'
  have a := exec_mono_le ω (Nat.le_max_left n m) hn hr
  have b := exec_mono_le ω (Nat.le_max_right n m) hm hr'
  exact a.symm.trans b

theorem Res.det {ω l s r r'} (h : Res ω l s r) (h' : Res ω l s r') : r = r' := by
  obtain ⟨n, hn, hr⟩ := h
  obtain ⟨m, hm, hr'⟩ := h'
  have a := execList_mono_le ω (Nat.le_max_left n m) hn hr
  have b := execList_mono_le ω (Nat.le_max_right n m) hm hr'
  exact a.symm.trans b

/-- continue with `K` after a normal completion, otherwise propagate -/
def Then (r1 : Out × St) (K : St → Out × St → Prop) (r : Out × St) : Prop :=
  if r1.1 = .normal then K r1.2 r else r = r1

theorem res_nil (ω : Oracle) (s : St) (r : Out × St) : Res ω [] s r ↔ r = (.normal, s) := by
  constructor
  · rintro ⟨n, hn, hr⟩
    cases n with
    | zero => subst hn; simp [execList] at hr
    | succ n => simpa [execList] using hn.symm
  · intro h; subst h; exact ⟨1, by simp [execList], by simp⟩

theorem res_cons (ω : Oracle) (st : Stmt) (rest : List Stmt) (s : St) (r : Out × St) :
    Res ω (st :: rest) s r ↔ ∃ r1, ResS ω st s r1 ∧ Then r1 (Res ω rest) r := by
  constructor
  · rintro ⟨n, hn, hr⟩
    cases n with
    | zero => subst hn; simp [execList] at hr
    | succ n =>
      simp only [execList] at hn
      generalize hst : exec ω n st s = rs at hn
      obtain ⟨o, s'⟩ := rs
      have hof : o ≠ .fuel := by
        intro ho; subst ho; simp at hn; subst hn; simp at hr
      refine ⟨(o, s'), ⟨n, hst, hof⟩, ?_⟩
      unfold Then
      cases o with
      | normal => simp at hn ⊢; exact ⟨n, hn, hr⟩
      | fuel => exact absurd rfl hof
      | ret => simpa using hn.symm
      | raise => simpa using hn.symm
      | brk => simpa using hn.symm
      | cont => simpa using hn.symm
  · rintro ⟨⟨o, s'⟩, ⟨n1, h1, hr1⟩, ht⟩
    unfold Then at ht
    by_cases ho : o = .normal
    · subst ho
      simp at ht
      obtain ⟨n2, h2, hr2⟩ := ht
      refine ⟨max n1 n2 + 1, ?_, hr2⟩
      simp only [execList]
      rw [exec_mono_le ω (Nat.le_max_left n1 n2) h1 hr1]
      simp
      exact execList_mono_le ω (Nat.le_max_right n1 n2) h2 hr2
    · simp [ho] at ht
      subst ht
      refine ⟨n1 + 1, ?_, hr1⟩
      simp only [execList]
      rw [h1]
      cases o <;> simp_all

theorem res_append (ω : Oracle) (a k : List Stmt) (s : St) (r : Out × St) :
    Res ω (a ++ k) s r ↔ ∃ r1, Res ω a s r1 ∧ Then r1 (Res ω k) r := by
  induction a generalizing s r with
  | nil =>
    simp only [List.nil_append]
    constructor
    · intro h; exact ⟨(.normal, s), (res_nil ω s _).2 rfl, by simpa [Then] using h⟩
    · rintro ⟨r1, h1, ht⟩
      have := (res_nil ω s r1).1 h1; subst this
      simpa [Then] using ht
  | cons st rest ih =>
    simp only [List.cons_append]
    rw [res_cons]
    constructor
    · rintro ⟨r1, h1, ht⟩
      unfold Then at ht
      by_cases ho : r1.1 = .normal
      · simp only [ho, if_true] at ht
        obtain ⟨r2, h2, ht2⟩ := (ih _ _).1 ht
        exact ⟨r2, (res_cons ω st rest s r2).2 ⟨r1, h1, by simpa [Then, ho] using h2⟩, ht2⟩
      · simp only [ho, if_false] at ht
        subst ht
        exact ⟨r, (res_cons ω st rest s r).2 ⟨r, h1, by simp [Then, ho]⟩, by simp [Then, ho]⟩
    · rintro ⟨r2, h2, ht2⟩
      obtain ⟨r1, h1, ht⟩ := (res_cons ω st rest s r2).1 h2
      refine ⟨r1, h1, ?_⟩
      unfold Then at ht ⊢
      by_cases ho : r1.1 = .normal
      · simp only [ho, if_true] at ht ⊢
        exact (ih _ _).2 ⟨r2, ht, ht2⟩
      · simp only [ho, if_false] at ht ⊢
        subst ht
        simpa [Then, ho] using ht2

/-! big-step equations for the statements -/

theorem resS_simple (ω : Oracle) (l : Nat) (s : St) (r : Out × St) :
    ResS ω (.simple l) s r ↔ r = (.normal, ⟨s.pos, .stmt l :: s.trace⟩) := by
  constructor
  · rintro ⟨n, hn, hr⟩
    cases n with
    | zero => subst hn; simp [exec] at hr
    | succ n => simpa [exec] using hn.symm
  · intro h; subst h; exact ⟨1, by simp [exec], by simp⟩

theorem resS_jump (ω : Oracle) (st : Stmt) (o : Out) (ho : o ≠ .fuel)
    (hst : ∀ n s, exec ω (n + 1) st s = (o, s)) (s : St) (r : Out × St) :
    ResS ω st s r ↔ r = (o, s) := by
  constructor
  · rintro ⟨n, hn, hr⟩
    cases n with
    | zero => subst hn; simp [exec] at hr
    | succ n => rw [hst] at hn; exact hn.symm
  · intro h; subst h; exact ⟨1, hst 0 s, ho⟩

theorem resS_ret (ω s r) : ResS ω .ret s r ↔ r = (.ret, s) := resS_jump ω _ _ (by simp) (by intros; simp [exec]) s r
theorem resS_raise (ω s r) : ResS ω .raise s r ↔ r = (.raise, s) := resS_jump ω _ _ (by simp) (by intros; simp [exec]) s r
theorem resS_brk (ω s r) : ResS ω .brk s r ↔ r = (.brk, s) := resS_jump ω _ _ (by simp) (by intros; simp [exec]) s r
theorem resS_cont (ω s r) : ResS ω .cont s r ↔ r = (.cont, s) := resS_jump ω _ _ (by simp) (by intros; simp [exec]) s r

theorem resS_assert (ω : Oracle) (c : Cond) (s : St) (r : Out × St) :
    ResS ω (.assertC c) s r ↔ r = (if (evalCond ω c s).1 then .normal else .raise, (evalCond ω c s).2) := by
  constructor
  · rintro ⟨n, hn, hr⟩
    cases n with
    | zero => subst hn; simp [exec] at hr
    | succ n =>
      simp only [exec] at hn
      rw [← hn]; split <;> simp_all
  · intro h
    refine ⟨1, ?_, ?_⟩
    · simp only [exec]; rw [h]; split <;> simp_all
    · rw [h]; split <;> simp

theorem resS_ite (ω : Oracle) (c : Cond) (b o : List Stmt) (s : St) (r : Out × St) :
    ResS ω (.ite c b o) s r ↔ Res ω (if (evalCond ω c s).1 then b else o) (evalCond ω c s).2 r := by
  constructor
  · rintro ⟨n, hn, hr⟩
    cases n with
    | zero => subst hn; simp [exec] at hr
    | succ n =>
      simp only [exec] at hn
      refine ⟨n, ?_, hr⟩
      split at hn <;> simp_all
  · rintro ⟨n, hn, hr⟩
    refine ⟨n + 1, ?_, hr⟩
    simp only [exec]
    split at hn <;> simp_all

theorem resS_with (ω : Oracle) (b : List Stmt) (s : St) (r : Out × St) :
    ResS ω (.withS b) s r ↔ Res ω b s r := by
  constructor
  · rintro ⟨n, hn, hr⟩
    cases n with
    | zero => subst hn; simp [exec] at hr
    | succ n => exact ⟨n, by simpa [exec] using hn, hr⟩
  · rintro ⟨n, hn, hr⟩
    exact ⟨n + 1, by simpa [exec] using hn, hr⟩

/-- what a loop does after one run of its body -/
def loopK (ω : Oracle) (L : Stmt) (rb : Out × St) (r : Out × St) : Prop :=
  match rb.1 with
  | .normal => ResS ω L rb.2 r
  | .cont => ResS ω L rb.2 r
  | .brk => r = (.normal, rb.2)
  | _ => r = rb

theorem loopMatch_iff (ω : Oracle) (L : Stmt) (b : List Stmt) (s' : St) (r : Out × St) :
    (∃ n, (match execList ω n b s' with
          | (.normal, s'') => exec ω n L s''
          | (.cont, s'') => exec ω n L s''
          | (.brk, s'') => (.normal, s'')
          | r => r) = r ∧ r.1 ≠ .fuel)
    ↔ ∃ rb, Res ω b s' rb ∧ loopK ω L rb r := by
  constructor
  · rintro ⟨n, hn, hr⟩
    generalize hb : execList ω n b s' = rb at hn
    obtain ⟨o, s''⟩ := rb
    have hbf : o ≠ .fuel := by
      intro ho; subst ho; simp at hn; subst hn; simp at hr
    refine ⟨(o, s''), ⟨n, hb, hbf⟩, ?_⟩
    unfold loopK
    cases o with
    | normal => simp at hn ⊢; exact ⟨n, hn, hr⟩
    | cont => simp at hn ⊢; exact ⟨n, hn, hr⟩
    | brk => simpa using hn.symm
    | ret => simpa using hn.symm
    | raise => simpa using hn.symm
    | fuel => exact absurd rfl hbf
  · rintro ⟨⟨o, s''⟩, ⟨n1, h1, hr1⟩, hk⟩
    unfold loopK at hk
    cases o with
    | normal =>
      simp at hk
      obtain ⟨n2, h2, hr2⟩ := hk
      refine ⟨max n1 n2, ?_, hr2⟩
      rw [execList_mono_le ω (Nat.le_max_left n1 n2) h1 hr1]
      simp
      exact exec_mono_le ω (Nat.le_max_right n1 n2) h2 hr2
    | cont =>
      simp at hk
      obtain ⟨n2, h2, hr2⟩ := hk
      refine ⟨max n1 n2, ?_, hr2⟩
      rw [execList_mono_le ω (Nat.le_max_left n1 n2) h1 hr1]
      simp
      exact exec_mono_le ω (Nat.le_max_right n1 n2) h2 hr2
    | brk => simp at hk; subst hk; exact ⟨n1, by rw [h1], by simp⟩
    | ret => simp at hk; subst hk; exact ⟨n1, by rw [h1], by simp⟩
    | raise => simp at hk; subst hk; exact ⟨n1, by rw [h1], by simp⟩
    | fuel => simp at hr1

theorem resS_while (ω : Oracle) (c : Cond) (b : List Stmt) (s : St) (r : Out × St) :
    ResS ω (.whileS c b) s r ↔
      if (evalCond ω c s).1 then ∃ rb, Res ω b (evalCond ω c s).2 rb ∧ loopK ω (.whileS c b) rb r
      else r = (.normal, (evalCond ω c s).2) := by
  rw [← loopMatch_iff]
  constructor
  · rintro ⟨n, hn, hr⟩
    cases n with
    | zero => subst hn; simp [exec] at hr
    | succ n =>
      simp only [exec] at hn
      split
      · rename_i hv; simp only [hv, if_true] at hn; exact ⟨n, hn, hr⟩
      · rename_i hv; simp only [hv] at hn; simpa using hn.symm
  · intro h
    split at h
    · rename_i hv
      obtain ⟨n, hn, hr⟩ := h
      exact ⟨n + 1, by simp only [exec, hv, if_true]; exact hn, hr⟩
    · rename_i hv
      subst h
      exact ⟨1, by simp only [exec]; simp [hv], by simp⟩

theorem resS_for_empty (ω : Oracle) (b : List Stmt) (s : St) (r : Out × St) :
    ResS ω (.forS .empty b) s r ↔ r = (.normal, s) :=
  resS_jump ω _ _ (by simp) (by intros; simp [exec]) s r

theorem resS_for_nonempty (ω : Oracle) (b : List Stmt) (s : St) (r : Out × St) :
    ResS ω (.forS .nonempty b) s r ↔ ∃ rb, Res ω b s rb ∧ loopK ω (.forS .unk b) rb r := by
  rw [← loopMatch_iff]
  constructor
  · rintro ⟨n, hn, hr⟩
    cases n with
    | zero => subst hn; simp [exec] at hr
    | succ n => simp only [exec] at hn; exact ⟨n, hn, hr⟩
  · rintro ⟨n, hn, hr⟩
    exact ⟨n + 1, by simp only [exec]; exact hn, hr⟩

theorem resS_for_unk (ω : Oracle) (b : List Stmt) (s : St) (r : Out × St) :
    ResS ω (.forS .unk b) s r ↔
      if ω s.pos then ∃ rb, Res ω b ⟨s.pos + 1, s.trace⟩ rb ∧ loopK ω (.forS .unk b) rb r
      else r = (.normal, ⟨s.pos + 1, s.trace⟩) := by
  rw [← loopMatch_iff]
  constructor
  · rintro ⟨n, hn, hr⟩
    cases n with
    | zero => subst hn; simp [exec] at hr
    | succ n =>
      simp only [exec] at hn
      split
      · rename_i hv; simp only [hv, if_true] at hn; exact ⟨n, hn, hr⟩
      · rename_i hv; simp only [hv] at hn; simpa using hn.symm
  · intro h
    split at h
    · rename_i hv
      obtain ⟨n, hn, hr⟩ := h
      exact ⟨n + 1, by simp only [exec, hv, if_true]; exact hn, hr⟩
    · rename_i hv
      subst h
      exact ⟨1, by simp only [exec]; simp [hv], by simp⟩

end C16
