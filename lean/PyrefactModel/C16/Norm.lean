import PyrefactModel.C16.Rules
/-!
# Basic equivalences, the normaliser, and its soundness
-/
namespace C16

/-! ## basic equivalences (each is the semantic content of a pyrefact control-flow rule) -/

/-- the continuation of an `if` may be sunk into both branches (remove_redundant_else, early return / continue and
moving common trailing code out of an if/else are instances, read in one or the other direction) -/
theorem sink (c : Cond) (a b k : List Stmt) : Equiv (.ite c a b :: k) [.ite c (a ++ k) (b ++ k)] := by
  intro ω s r
  rw [res_cons, res_cons]
  constructor
  · rintro ⟨r1, h1, ht⟩
    rw [resS_ite] at h1
    refine ⟨r, ?_, ?_⟩
    · rw [resS_ite]
      split at h1
      · rw [if_pos (by assumption)]; exact (res_append ω a k _ r).2 ⟨r1, h1, ht⟩
      · rw [if_neg (by assumption)]; exact (res_append ω b k _ r).2 ⟨r1, h1, ht⟩
    · unfold Then; split
      · rename_i hn; exact (res_nil ω _ _).2 (Prod.ext hn rfl)
      · rfl
  · rintro ⟨r1, h1, ht⟩
    have hr : r = r1 := by
      unfold Then at ht; split at ht
      · rename_i hn
        have := (res_nil ω _ _).1 ht; rw [this]; exact Prod.ext hn.symm rfl
      · exact ht
    subst hr
    rw [resS_ite] at h1
    split at h1
    · rename_i hv
      obtain ⟨r0, h0, ht0⟩ := (res_append ω a k _ r).1 h1
      exact ⟨r0, by rw [resS_ite, if_pos hv]; exact h0, ht0⟩
    · rename_i hv
      obtain ⟨r0, h0, ht0⟩ := (res_append ω b k _ r).1 h1
      exact ⟨r0, by rw [resS_ite, if_neg hv]; exact h0, ht0⟩

/-- negating the test and swapping the branches (swap_if_else) -/
theorem swapNeg (id : Nat) (a b : List Stmt) : EquivS (.ite (.unk id true) a b) (.ite (.unk id false) b a) := by
  intro ω s r
  rw [resS_ite, resS_ite]
  simp only [evalCond]
  by_cases h : ω s.pos = true
  · simp [h]
  · simp at h; simp [h]

theorem ite_tt (a b k : List Stmt) : Equiv (.ite .tt a b :: k) (a ++ k) := by
  intro ω s r
  rw [res_cons, res_append]
  constructor
  · rintro ⟨r1, h1, ht⟩; rw [resS_ite] at h1; exact ⟨r1, by simpa [evalCond] using h1, ht⟩
  · rintro ⟨r1, h1, ht⟩; exact ⟨r1, by rw [resS_ite]; simpa [evalCond] using h1, ht⟩

theorem ite_ff (a b k : List Stmt) : Equiv (.ite .ff a b :: k) (b ++ k) := by
  intro ω s r
  rw [res_cons, res_append]
  constructor
  · rintro ⟨r1, h1, ht⟩; rw [resS_ite] at h1; exact ⟨r1, by simpa [evalCond] using h1, ht⟩
  · rintro ⟨r1, h1, ht⟩; exact ⟨r1, by rw [resS_ite]; simpa [evalCond] using h1, ht⟩

/-- whatever follows a statement that always jumps is dead -/
theorem jump_drop (st : Stmt) (o : Out) (ho : o ≠ .normal) (hst : ∀ ω s r, ResS ω st s r ↔ r = (o, s)) (k : List Stmt) :
    Equiv (st :: k) [st] := by
  intro ω s r
  rw [res_cons, res_cons]
  constructor
  · rintro ⟨r1, h1, ht⟩
    have := (hst ω s r1).1 h1; subst this
    exact ⟨_, h1, by simpa [Then, ho] using ht⟩
  · rintro ⟨r1, h1, ht⟩
    have := (hst ω s r1).1 h1; subst this
    exact ⟨_, h1, by simpa [Then, ho] using ht⟩

theorem ret_drop (k : List Stmt) : Equiv (.ret :: k) [.ret] := jump_drop _ .ret (by simp) resS_ret k
theorem raise_drop (k : List Stmt) : Equiv (.raise :: k) [.raise] := jump_drop _ .raise (by simp) resS_raise k
theorem brk_drop (k : List Stmt) : Equiv (.brk :: k) [.brk] := jump_drop _ .brk (by simp) resS_brk k
theorem cont_drop (k : List Stmt) : Equiv (.cont :: k) [.cont] := jump_drop _ .cont (by simp) resS_cont k

/-- a statement that does nothing observable may be removed -/
theorem skip_drop (st : Stmt) (hst : ∀ ω s r, ResS ω st s r ↔ r = (.normal, s)) (k : List Stmt) : Equiv (st :: k) k := by
  intro ω s r
  rw [res_cons]
  constructor
  · rintro ⟨r1, h1, ht⟩
    have := (hst ω s r1).1 h1; subst this
    simpa [Then] using ht
  · intro h
    exact ⟨(.normal, s), (hst ω s _).2 rfl, by simpa [Then] using h⟩

theorem assert_tt_drop (k : List Stmt) : Equiv (.assertC .tt :: k) k :=
  skip_drop _ (by intro ω s r; rw [resS_assert]; simp [evalCond]) k
theorem assert_ff (k : List Stmt) : Equiv (.assertC .ff :: k) [.raise] := by
  have h : EquivS (.assertC .ff) .raise := by
    intro ω s r; rw [resS_assert, resS_raise]; simp [evalCond]
  exact (Equiv.cons h (Equiv.refl k)).trans (raise_drop k)
/-- a loop that never runs is its `else` clause -/
theorem while_ff_drop (b e k : List Stmt) : Equiv (.whileS .ff b e :: k) (e ++ k) := by
  intro ω s r
  rw [res_cons, res_append]
  constructor
  · rintro ⟨r1, h1, ht⟩; rw [resS_while] at h1; exact ⟨r1, by simpa [evalCond] using h1, ht⟩
  · rintro ⟨r1, h1, ht⟩; exact ⟨r1, by rw [resS_while]; simpa [evalCond] using h1, ht⟩
theorem for_empty_drop (b e k : List Stmt) : Equiv (.forS .empty b e :: k) (e ++ k) := by
  intro ω s r
  rw [res_cons, res_append]
  constructor
  · rintro ⟨r1, h1, ht⟩; rw [resS_for_empty] at h1; exact ⟨r1, h1, ht⟩
  · rintro ⟨r1, h1, ht⟩; exact ⟨r1, by rw [resS_for_empty]; exact h1, ht⟩

/-- whatever follows a statement that `is_blocking` reports is dead (delete_unreachable_code), by `blocking_sound` -/
theorem blocking_drop (st : Stmt) (hb : blocks .none st = true) (k : List Stmt) : Equiv (st :: k) [st] := by
  intro ω s r
  rw [res_cons, res_cons]
  have hne : ∀ r1, ResS ω st s r1 → r1.1 ≠ .normal := by
    rintro r1 ⟨n, hn, _⟩
    rw [← hn]; exact blocking_sound ω n st s hb
  constructor
  · rintro ⟨r1, h1, ht⟩; exact ⟨r1, h1, by simpa [Then, hne r1 h1] using ht⟩
  · rintro ⟨r1, h1, ht⟩; exact ⟨r1, h1, by simpa [Then, hne r1 h1] using ht⟩

theorem blockingL_drop (l : List Stmt) (hb : blocksL .none l = true) (k : List Stmt) : Equiv (l ++ k) l := by
  intro ω s r
  rw [res_append]
  have hne : ∀ r1, Res ω l s r1 → r1.1 ≠ .normal := by
    rintro r1 ⟨n, hn, _⟩
    rw [← hn]; exact (sound ω n).2 .none l s hb
  constructor
  · rintro ⟨r1, h1, ht⟩
    have : r = r1 := by simpa [Then, hne r1 h1] using ht
    rw [this]; exact h1
  · intro h; exact ⟨r, h, by simp [Then, hne r h]⟩

/-! ## a trailing `continue` in a loop body -/

mutual
/-- the statement in tail position of a loop body -/
def stripLast : Stmt → List Stmt
  | .cont => []
  | .ite c b o => [.ite c (stripL b) (stripL o)]
  | .simple l => [.simple l] | .ret => [.ret] | .raise => [.raise] | .brk => [.brk]
  | .assertC c => [.assertC c] | .whileS c b e => [.whileS c b e] | .forS it b e => [.forS it b e] | .withS b => [.withS b]
  | .tryS b hk hb f => [.tryS b hk hb f]
def stripL : List Stmt → List Stmt
  | [] => []
  | x :: rest =>
    match rest with
    | [] => stripLast x
    | _ :: _ => x :: stripL rest
end

theorem loopLe_of_last {x : Stmt} {l' : List Stmt}
    (h : ∀ ω s r1, ResS ω x s r1 → ∃ rb', Res ω l' s rb' ∧ rb'.2 = r1.2 ∧ sq rb'.1 = sq r1.1) : LoopLe [x] l' := by
  intro ω s rb hr
  rw [res_cons] at hr
  obtain ⟨r1, h1, ht⟩ := hr
  have : rb = r1 := by
    unfold Then at ht; split at ht
    · rename_i hn
      have := (res_nil ω _ _).1 ht
      rw [this, ← hn]
    · exact ht
  subst this
  exact h ω s rb h1

theorem loopLe_to_last {x : Stmt} {l : List Stmt}
    (h : ∀ ω s rb, Res ω l s rb → ∃ r1, ResS ω x s r1 ∧ r1.2 = rb.2 ∧ sq r1.1 = sq rb.1) : LoopLe l [x] := by
  intro ω s rb hr
  obtain ⟨r1, h1, hs, ho⟩ := h ω s rb hr
  refine ⟨r1, ?_, hs, ho⟩
  rw [res_cons]
  refine ⟨r1, h1, ?_⟩
  unfold Then; split
  · rename_i hn; apply (res_nil ω _ _).2; rw [← hn]
  · rfl

theorem LoopLe.cons (x : Stmt) {k k' : List Stmt} (h : LoopLe k k') : LoopLe (x :: k) (x :: k') := by
  intro ω s rb hr
  rw [res_cons] at hr
  obtain ⟨r1, h1, ht⟩ := hr
  unfold Then at ht
  by_cases hn : r1.1 = .normal
  · simp only [hn, if_true] at ht
    obtain ⟨rb', hr', hs, ho⟩ := h ω _ rb ht
    exact ⟨rb', (res_cons ω x k' s rb').2 ⟨r1, h1, by simpa [Then, hn] using hr'⟩, hs, ho⟩
  · simp only [hn, if_false] at ht
    subst ht
    exact ⟨rb, (res_cons ω x k' s rb).2 ⟨rb, h1, by simp [Then, hn]⟩, rfl, rfl⟩

mutual
theorem stripLast_le : ∀ x : Stmt, LoopLe [x] (stripLast x) ∧ LoopLe (stripLast x) [x]
  | .cont => by
    simp only [stripLast]
    constructor
    · intro ω s rb hr
      rw [res_cons] at hr
      obtain ⟨r1, h1, ht⟩ := hr
      rw [resS_cont] at h1; subst h1
      simp [Then] at ht; subst ht
      exact ⟨(.normal, s), (res_nil ω s _).2 rfl, rfl, rfl⟩
    · intro ω s rb hr
      have := (res_nil ω s rb).1 hr; subst this
      refine ⟨(.cont, s), ?_, rfl, rfl⟩
      rw [res_cons]
      exact ⟨(.cont, s), (resS_cont ω s _).2 rfl, by simp [Then]⟩
  | .ite c b o => by
    simp only [stripLast]
    have hb := stripL_le b
    have ho := stripL_le o
    constructor
    · apply loopLe_of_last
      intro ω s r1 h1
      rw [resS_ite] at h1
      split at h1
      · rename_i hv
        obtain ⟨rb', hr', hs, hq⟩ := hb.1 ω _ r1 h1
        refine ⟨rb', ?_, hs, hq⟩
        rw [res_cons]
        refine ⟨rb', by rw [resS_ite, if_pos hv]; exact hr', ?_⟩
        unfold Then; split
        · rename_i hn; apply (res_nil ω _ _).2; rw [← hn]
        · rfl
      · rename_i hv
        obtain ⟨rb', hr', hs, hq⟩ := ho.1 ω _ r1 h1
        refine ⟨rb', ?_, hs, hq⟩
        rw [res_cons]
        refine ⟨rb', by rw [resS_ite, if_neg hv]; exact hr', ?_⟩
        unfold Then; split
        · rename_i hn; apply (res_nil ω _ _).2; rw [← hn]
        · rfl
    · apply loopLe_to_last
      intro ω s rb hr
      rw [res_cons] at hr
      obtain ⟨r1, h1, ht⟩ := hr
      have : rb = r1 := by
        unfold Then at ht; split at ht
        · rename_i hn
          have := (res_nil ω _ _).1 ht
          rw [this, ← hn]
        · exact ht
      subst this
      rw [resS_ite] at h1
      split at h1
      · rename_i hv
        obtain ⟨rb', hr', hs, hq⟩ := hb.2 ω _ rb h1
        exact ⟨rb', by rw [resS_ite, if_pos hv]; exact hr', hs, hq⟩
      · rename_i hv
        obtain ⟨rb', hr', hs, hq⟩ := ho.2 ω _ rb h1
        exact ⟨rb', by rw [resS_ite, if_neg hv]; exact hr', hs, hq⟩
  | .simple l => by simp only [stripLast]; exact ⟨LoopLe.refl _, LoopLe.refl _⟩
  | .ret => by simp only [stripLast]; exact ⟨LoopLe.refl _, LoopLe.refl _⟩
  | .raise => by simp only [stripLast]; exact ⟨LoopLe.refl _, LoopLe.refl _⟩
  | .brk => by simp only [stripLast]; exact ⟨LoopLe.refl _, LoopLe.refl _⟩
  | .assertC c => by simp only [stripLast]; exact ⟨LoopLe.refl _, LoopLe.refl _⟩
  | .whileS c b e => by simp only [stripLast]; exact ⟨LoopLe.refl _, LoopLe.refl _⟩
  | .forS it b e => by simp only [stripLast]; exact ⟨LoopLe.refl _, LoopLe.refl _⟩
  | .withS b => by simp only [stripLast]; exact ⟨LoopLe.refl _, LoopLe.refl _⟩
  | .tryS b hk hb f => by simp only [stripLast]; exact ⟨LoopLe.refl _, LoopLe.refl _⟩
theorem stripL_le : ∀ l : List Stmt, LoopLe l (stripL l) ∧ LoopLe (stripL l) l
  | [] => by simp only [stripL]; exact ⟨LoopLe.refl _, LoopLe.refl _⟩
  | [x] => by simp only [stripL]; exact stripLast_le x
  | x :: y :: rest => by
    simp only [stripL]
    have h := stripL_le (y :: rest)
    exact ⟨LoopLe.cons x h.1, LoopLe.cons x h.2⟩
end

theorem stripL_loopEquiv (l : List Stmt) : LoopEquiv l (stripL l) := stripL_le l

/-! ## the normaliser -/

mutual
/-- normal form of `st :: k` -/
def normS : Stmt → List Stmt → List Stmt
  | .simple l, k => .simple l :: k
  | .ret, _ => [.ret]
  | .raise, _ => [.raise]
  | .brk, _ => [.brk]
  | .cont, _ => [.cont]
  | .assertC c, k =>
    match c with
    | .tt => k
    | .ff => [.raise]
    | .unk id neg => .assertC (.unk id neg) :: k
  | .ite c b o, k =>
    match c with
    | .tt => normL b k
    | .ff => normL o k
    | .unk id false => [.ite (.unk id false) (normL b k) (normL o k)]
    | .unk id true => [.ite (.unk id false) (normL o k) (normL b k)]
  | .withS b, k => .withS (normL b []) :: k
  | .whileS c b e, k =>
    match c with
    | .ff => normL e k
    | .tt => .whileS .tt (stripL (normL b [])) (normL e []) :: k
    | .unk id neg => .whileS (.unk id neg) (stripL (normL b [])) (normL e []) :: k
  | .forS it b e, k =>
    match it with
    | .empty => normL e k
    | .nonempty => .forS .nonempty (stripL (normL b [])) (normL e []) :: k
    | .unk => .forS .unk (stripL (normL b [])) (normL e []) :: k
  | .tryS b hk hb f, k => .tryS (normL b []) hk (normL hb []) (normL f []) :: k
/-- normal form of `l ++ k`; whatever follows a statement whose own normal form `is_blocking` reports is dropped -/
def normL : List Stmt → List Stmt → List Stmt
  | [], k => k
  | st :: rest, k => if blocksL .none (normS st []) then normS st [] else normS st (normL rest k)
end

mutual
theorem normS_sound : ∀ (st : Stmt) (k : List Stmt), Equiv (st :: k) (normS st k)
  | .simple l, k => by simp only [normS]; exact Equiv.refl _
  | .ret, k => by simp only [normS]; exact ret_drop k
  | .raise, k => by simp only [normS]; exact raise_drop k
  | .brk, k => by simp only [normS]; exact brk_drop k
  | .cont, k => by simp only [normS]; exact cont_drop k
  | .assertC .tt, k => by simp only [normS]; exact assert_tt_drop k
  | .assertC .ff, k => by simp only [normS]; exact assert_ff k
  | .assertC (.unk id neg), k => by simp only [normS]; exact Equiv.refl _
  | .ite .tt b o, k => by simp only [normS]; exact (ite_tt b o k).trans (normL_sound b k)
  | .ite .ff b o, k => by simp only [normS]; exact (ite_ff b o k).trans (normL_sound o k)
  | .ite (.unk id false) b o, k => by
    simp only [normS]
    exact (sink _ b o k).trans (Equiv.cons (EquivS.ite (normL_sound b k) (normL_sound o k)) (Equiv.refl []))
  | .ite (.unk id true) b o, k => by
    simp only [normS]
    refine (Equiv.cons (swapNeg id b o) (Equiv.refl k)).trans ?_
    exact (sink _ o b k).trans (Equiv.cons (EquivS.ite (normL_sound o k) (normL_sound b k)) (Equiv.refl []))
  | .withS b, k => by
    simp only [normS]
    have h := normL_sound b []
    rw [List.append_nil] at h
    exact Equiv.cons (EquivS.withS h) (Equiv.refl k)
  | .whileS .ff b e, k => by simp only [normS]; exact (while_ff_drop b e k).trans (normL_sound e k)
  | .whileS .tt b e, k => by
    simp only [normS]
    have h := normL_sound b []
    have he := normL_sound e []
    rw [List.append_nil] at h he
    exact Equiv.cons (EquivS.whileS _ (h.loopEquiv.trans (stripL_loopEquiv _)) he) (Equiv.refl k)
  | .whileS (.unk id neg) b e, k => by
    simp only [normS]
    have h := normL_sound b []
    have he := normL_sound e []
    rw [List.append_nil] at h he
    exact Equiv.cons (EquivS.whileS _ (h.loopEquiv.trans (stripL_loopEquiv _)) he) (Equiv.refl k)
  | .forS .empty b e, k => by simp only [normS]; exact (for_empty_drop b e k).trans (normL_sound e k)
  | .forS .nonempty b e, k => by
    simp only [normS]
    have h := normL_sound b []
    have he := normL_sound e []
    rw [List.append_nil] at h he
    exact Equiv.cons (EquivS.forS _ (h.loopEquiv.trans (stripL_loopEquiv _)) he) (Equiv.refl k)
  | .forS .unk b e, k => by
    simp only [normS]
    have h := normL_sound b []
    have he := normL_sound e []
    rw [List.append_nil] at h he
    exact Equiv.cons (EquivS.forS _ (h.loopEquiv.trans (stripL_loopEquiv _)) he) (Equiv.refl k)
  | .tryS b hk hb f, k => by
    simp only [normS]
    have h1 := normL_sound b []
    have h2 := normL_sound hb []
    have h3 := normL_sound f []
    rw [List.append_nil] at h1 h2 h3
    exact Equiv.cons (EquivS.tryS hk h1 h2 h3) (Equiv.refl k)
theorem normL_sound : ∀ (l k : List Stmt), Equiv (l ++ k) (normL l k)
  | [], k => by simp only [normL, List.nil_append]; exact Equiv.refl k
  | st :: rest, k => by
    simp only [normL, List.cons_append]
    split
    · rename_i hb
      have h1 : Equiv ([st] ++ (rest ++ k)) (normS st [] ++ (rest ++ k)) :=
        Equiv.append (normS_sound st []) (Equiv.refl _)
      exact h1.trans (blockingL_drop _ hb _)
    · exact (Equiv.cons (EquivS.refl st) (normL_sound rest k)).trans (normS_sound st (normL rest k))
end

/-! ## the validator -/

mutual
def beqS : Stmt → Stmt → Bool
  | .simple a, .simple b => a == b
  | .ret, .ret => true | .raise, .raise => true | .brk, .brk => true | .cont, .cont => true
  | .assertC c, .assertC d => c == d
  | .ite c b o, .ite c' b' o' => c == c' && beqL b b' && beqL o o'
  | .whileS c b e, .whileS c' b' e' => c == c' && beqL b b' && beqL e e'
  | .forS i b e, .forS i' b' e' => i == i' && beqL b b' && beqL e e'
  | .withS b, .withS b' => beqL b b'
  | .tryS b hk hb f, .tryS b' hk' hb' f' => hk == hk' && beqL b b' && beqL hb hb' && beqL f f'
  | _, _ => false
def beqL : List Stmt → List Stmt → Bool
  | [], [] => true
  | a :: as, b :: bs => beqS a b && beqL as bs
  | _, _ => false
end

mutual
theorem beqS_eq : ∀ (a b : Stmt), beqS a b = true → a = b
  | .simple a, .simple b, h => by simp [beqS] at h; rw [h]
  | .ret, .ret, _ => rfl
  | .raise, .raise, _ => rfl
  | .brk, .brk, _ => rfl
  | .cont, .cont, _ => rfl
  | .assertC c, .assertC d, h => by simp [beqS] at h; rw [h]
  | .ite c b o, .ite c' b' o', h => by
    simp [beqS] at h
    rw [h.1.1, beqL_eq b b' h.1.2, beqL_eq o o' h.2]
  | .whileS c b e, .whileS c' b' e', h => by
    simp [beqS] at h
    rw [h.1.1, beqL_eq b b' h.1.2, beqL_eq e e' h.2]
  | .forS i b e, .forS i' b' e', h => by
    simp [beqS] at h
    rw [h.1.1, beqL_eq b b' h.1.2, beqL_eq e e' h.2]
  | .withS b, .withS b', h => by
    simp [beqS] at h
    rw [beqL_eq b b' h]
  | .tryS b hk hb f, .tryS b' hk' hb' f', h => by
    simp [beqS] at h
    rw [h.1.1.1, beqL_eq b b' h.1.1.2, beqL_eq hb hb' h.1.2, beqL_eq f f' h.2]
  | .simple _, .ret, h | .simple _, .raise, h | .simple _, .brk, h | .simple _, .cont, h | .simple _, .assertC _, h
  | .simple _, .ite _ _ _, h | .simple _, .whileS _ _ _, h | .simple _, .forS _ _ _, h | .simple _, .withS _, h | .simple _, .tryS _ _ _ _, h => by simp [beqS] at h
  | .ret, .simple _, h | .ret, .raise, h | .ret, .brk, h | .ret, .cont, h | .ret, .assertC _, h
  | .ret, .ite _ _ _, h | .ret, .whileS _ _ _, h | .ret, .forS _ _ _, h | .ret, .withS _, h | .ret, .tryS _ _ _ _, h => by simp [beqS] at h
  | .raise, .simple _, h | .raise, .ret, h | .raise, .brk, h | .raise, .cont, h | .raise, .assertC _, h
  | .raise, .ite _ _ _, h | .raise, .whileS _ _ _, h | .raise, .forS _ _ _, h | .raise, .withS _, h | .raise, .tryS _ _ _ _, h => by simp [beqS] at h
  | .brk, .simple _, h | .brk, .ret, h | .brk, .raise, h | .brk, .cont, h | .brk, .assertC _, h
  | .brk, .ite _ _ _, h | .brk, .whileS _ _ _, h | .brk, .forS _ _ _, h | .brk, .withS _, h | .brk, .tryS _ _ _ _, h => by simp [beqS] at h
  | .cont, .simple _, h | .cont, .ret, h | .cont, .raise, h | .cont, .brk, h | .cont, .assertC _, h
  | .cont, .ite _ _ _, h | .cont, .whileS _ _ _, h | .cont, .forS _ _ _, h | .cont, .withS _, h | .cont, .tryS _ _ _ _, h => by simp [beqS] at h
  | .assertC _, .simple _, h | .assertC _, .ret, h | .assertC _, .raise, h | .assertC _, .brk, h | .assertC _, .cont, h
  | .assertC _, .ite _ _ _, h | .assertC _, .whileS _ _ _, h | .assertC _, .forS _ _ _, h | .assertC _, .withS _, h | .assertC _, .tryS _ _ _ _, h => by simp [beqS] at h
  | .ite _ _ _, .simple _, h | .ite _ _ _, .ret, h | .ite _ _ _, .raise, h | .ite _ _ _, .brk, h | .ite _ _ _, .cont, h
  | .ite _ _ _, .assertC _, h | .ite _ _ _, .whileS _ _ _, h | .ite _ _ _, .forS _ _ _, h | .ite _ _ _, .withS _, h | .ite _ _ _, .tryS _ _ _ _, h => by simp [beqS] at h
  | .whileS _ _ _, .simple _, h | .whileS _ _ _, .ret, h | .whileS _ _ _, .raise, h | .whileS _ _ _, .brk, h | .whileS _ _ _, .cont, h
  | .whileS _ _ _, .assertC _, h | .whileS _ _ _, .ite _ _ _, h | .whileS _ _ _, .forS _ _ _, h | .whileS _ _ _, .withS _, h | .whileS _ _ _, .tryS _ _ _ _, h => by simp [beqS] at h
  | .forS _ _ _, .simple _, h | .forS _ _ _, .ret, h | .forS _ _ _, .raise, h | .forS _ _ _, .brk, h | .forS _ _ _, .cont, h
  | .forS _ _ _, .assertC _, h | .forS _ _ _, .ite _ _ _, h | .forS _ _ _, .whileS _ _ _, h | .forS _ _ _, .withS _, h | .forS _ _ _, .tryS _ _ _ _, h => by simp [beqS] at h
  | .withS _, .simple _, h | .withS _, .ret, h | .withS _, .raise, h | .withS _, .brk, h | .withS _, .cont, h
  | .withS _, .assertC _, h | .withS _, .ite _ _ _, h | .withS _, .whileS _ _ _, h | .withS _, .forS _ _ _, h | .withS _, .tryS _ _ _ _, h => by simp [beqS] at h
  | .tryS _ _ _ _, .simple _, h | .tryS _ _ _ _, .ret, h | .tryS _ _ _ _, .raise, h | .tryS _ _ _ _, .brk, h | .tryS _ _ _ _, .cont, h
  | .tryS _ _ _ _, .assertC _, h | .tryS _ _ _ _, .ite _ _ _, h | .tryS _ _ _ _, .whileS _ _ _, h | .tryS _ _ _ _, .forS _ _ _, h | .tryS _ _ _ _, .withS _, h => by simp [beqS] at h
theorem beqL_eq : ∀ (a b : List Stmt), beqL a b = true → a = b
  | [], [], _ => rfl
  | a :: as, b :: bs, h => by
    simp [beqL] at h
    rw [beqS_eq a b h.1, beqL_eq as bs h.2]
  | [], _ :: _, h => by simp [beqL] at h
  | _ :: _, [], h => by simp [beqL] at h
end

/-- the validator: equal normal forms -/
def validate (l l' : List Stmt) : Bool := beqL (normL l []) (normL l' [])

/-- every statement list is equivalent to its normal form -/
theorem norm_sound (l : List Stmt) : Equiv l (normL l []) := by
  have h := normL_sound l []
  rwa [List.append_nil] at h

/-- **validated rewrites are behaviour preserving**: under every oracle and from every state the two lists
terminate with the same outcome, oracle position and trace, or both fail to terminate -/
theorem validate_sound (l l' : List Stmt) (h : validate l l' = true) : Equiv l l' := by
  have e := beqL_eq _ _ h
  have h1 := norm_sound l
  have h2 := norm_sound l'
  rw [e] at h1
  exact h1.trans h2.symm

end C16
