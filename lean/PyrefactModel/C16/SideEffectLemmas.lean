import PyrefactModel.C16.SideEffect
/-! # `has_side_effect = false` implies the independent specification `Clean` -/
namespace C16

theorem mem_extW (W : List String) (f : E) (x : String) :
    x ∈ extW W f ↔ x ∈ W ∨ ∃ a c, f = .attribute .const a c ∧ x = a := by
  unfold extW
  split
  · rename_i a c
    simp only [List.mem_cons]
    constructor
    · rintro (rfl | h)
      · exact Or.inr ⟨x, c, rfl, rfl⟩
      · exact Or.inl h
    · rintro (h | ⟨a', c', heq, rfl⟩)
      · exact Or.inr h
      · cases heq; exact Or.inl rfl
  · rename_i hne
    constructor
    · intro h; exact Or.inl h
    · rintro (h | ⟨a', c', heq, _⟩)
      · exact h
      · exact absurd heq (hne a' c')

theorem extW_mono (W W' : List String) (h : ∀ x ∈ W, x ∈ W') (f : E) : ∀ x ∈ extW W f, x ∈ extW W' f := by
  intro x hx
  rw [mem_extW] at hx ⊢
  rcases hx with hx | hx
  · exact Or.inl (h x hx)
  · exact Or.inr hx

theorem safeHanded_mono (W W' : List String) (h : ∀ x ∈ W, x ∈ W') (e : E) (hs : safeHanded W e = true) :
    safeHanded W' e = true := by
  cases e <;> simp only [safeHanded] at hs ⊢ <;> try exact hs
  rename_i id _
  simp only [List.contains_iff_mem] at hs ⊢
  exact h id hs

mutual
theorem clean_mono (W W' : List String) (h : ∀ x ∈ W, x ∈ W') : ∀ e : E, Clean W e → Clean W' e
  | .const, _ => trivial
  | .name _ _, hc => hc
  | .coll es, hc => by simp only [Clean] at hc ⊢; exact cleanL_mono W W' h es hc
  | .unary e, hc => by simp only [Clean] at hc ⊢; exact clean_mono W W' h e hc
  | .bin l r, hc => by simp only [Clean] at hc ⊢; exact ⟨clean_mono W W' h l hc.1, clean_mono W W' h r hc.2⟩
  | .nary es, hc => by simp only [Clean] at hc ⊢; exact cleanL_mono W W' h es hc
  | .attribute v _ _, hc => by simp only [Clean] at hc ⊢; exact ⟨hc.1, clean_mono W W' h v hc.2⟩
  | .subscript v s _, hc => by
    simp only [Clean] at hc ⊢
    exact ⟨clean_mono W W' h v hc.1, clean_mono W W' h s hc.2.1, hc.2.2⟩
  | .slice ps, hc => by simp only [Clean] at hc ⊢; exact cleanL_mono W W' h ps hc
  | .comp es gens, hc => by
    simp only [Clean] at hc ⊢; exact ⟨cleanL_mono W W' h es hc.1, cleanG_mono W W' h gens hc.2⟩
  | .call f as ks, hc => by
    simp only [Clean] at hc ⊢
    obtain ⟨h1, h2, h3, h4, h5⟩ := hc
    refine ⟨?_, ?_, ?_, ?_, ?_⟩
    · intro n hn; rcases h1 n hn with hw | hw | hw
      · exact Or.inl (h n hw)
      · exact Or.inr (Or.inl hw)
      · exact Or.inr (Or.inr hw)
    · intro a ha; rcases h2 a ha with hw | hw
      · exact Or.inl (h a hw)
      · exact Or.inr hw
    · exact cleanL_mono (extW W f) (extW W' f) (extW_mono W W' h f) as h3
    · exact cleanL_mono (extW W f) (extW W' f) (extW_mono W W' h f) ks h4
    · intro x hx; exact safeHanded_mono _ _ (extW_mono W W' h f) x (h5 x hx)
  | .starred e, hc => by simp only [Clean] at hc ⊢; exact clean_mono W W' h e hc
  | .ifexp t b o, hc => by
    simp only [Clean] at hc ⊢
    exact ⟨clean_mono W W' h t hc.1, clean_mono W W' h b hc.2.1, clean_mono W W' h o hc.2.2⟩
  | .named t v, hc => by simp only [Clean] at hc ⊢; exact ⟨clean_mono W W' h t hc.1, clean_mono W W' h v hc.2⟩
  | .lambda ds b, hc => by simp only [Clean] at hc ⊢; exact ⟨cleanL_mono W W' h ds hc.1, clean_mono W W' h b hc.2⟩
  | .fstring ps, hc => by simp only [Clean] at hc ⊢; exact cleanL_mono W W' h ps hc
  | .keyarg e, hc => by simp only [Clean] at hc ⊢; exact clean_mono W W' h e hc
  | .forStmt t i b o, hc => by
    simp only [Clean] at hc ⊢
    exact ⟨clean_mono W W' h t hc.1, clean_mono W W' h i hc.2.1, cleanL_mono W W' h b hc.2.2.1, cleanL_mono W W' h o hc.2.2.2⟩
  | .ifStmt t b o, hc => by
    simp only [Clean] at hc ⊢
    exact ⟨clean_mono W W' h t hc.1, cleanL_mono W W' h b hc.2.1, cleanL_mono W W' h o hc.2.2⟩
  | .other, hc => by simp only [Clean] at hc
theorem cleanL_mono (W W' : List String) (h : ∀ x ∈ W, x ∈ W') : ∀ es : List E, CleanL W es → CleanL W' es
  | [], _ => trivial
  | e :: es, hc => by simp only [CleanL] at hc ⊢; exact ⟨clean_mono W W' h e hc.1, cleanL_mono W W' h es hc.2⟩
theorem cleanG_mono (W W' : List String) (h : ∀ x ∈ W, x ∈ W') :
    ∀ gs : List (E × E × List E), CleanG W gs → CleanG W' gs
  | [], _ => trivial
  | (t, i, ifs) :: gs, hc => by
    simp only [CleanG] at hc ⊢
    exact ⟨hc.1, clean_mono W W' h i hc.2.1, cleanL_mono W W' h ifs hc.2.2.1, cleanG_mono W W' h gs hc.2.2.2⟩
end

theorem nil_sub (W : List String) : ∀ x ∈ ([] : List String), x ∈ W := by intro x hx; cases hx

mutual
/-- **Soundness of `has_side_effect`** w.r.t. the specification, for every whitelist -/
theorem hse_clean : ∀ (W : List String) (e : E), hse W e = false → Clean W e
  | _, .const, _ => trivial
  | _, .name id ctx, h => by
    simp only [hse, Bool.and_eq_false_iff, beq_eq_false_iff_ne, bne_eq_false_iff_eq] at h
    simp only [Clean]
    rcases h with h | h
    · exact Or.inl h
    · exact Or.inr h
  | W, .coll es, h => by simp only [hse] at h; simp only [Clean]; exact hseL_cleanL W es h
  | W, .unary e, h => by simp only [hse] at h; simp only [Clean]; exact hse_clean W e h
  | W, .bin l r, h => by
    simp only [hse, Bool.or_eq_false_iff] at h; simp only [Clean]
    exact ⟨hse_clean W l h.1, hse_clean W r h.2⟩
  | W, .nary es, h => by simp only [hse] at h; simp only [Clean]; exact hseL_cleanL W es h
  | W, .attribute v a ctx, h => by
    simp only [hse, Bool.or_eq_false_iff, beq_eq_false_iff_ne] at h; simp only [Clean]
    exact ⟨h.1, clean_mono [] W (nil_sub W) v (hse_clean [] v h.2)⟩
  | W, .subscript v s ctx, h => by
    simp only [hse, Bool.or_eq_false_iff, Bool.and_eq_false_iff, beq_eq_false_iff_ne, Bool.not_eq_false'] at h
    simp only [Clean]
    exact ⟨hse_clean W v h.1.1, hse_clean W s h.1.2, h.2⟩
  | W, .slice ps, h => by simp only [hse] at h; simp only [Clean]; exact hseL_cleanL W ps h
  | W, .comp es gens, h => by
    simp only [hse, Bool.or_eq_false_iff] at h; simp only [Clean]
    exact ⟨hseL_cleanL W es h.1, hseG_cleanG W gens h.2⟩
  | W, .call f as ks, h => by
    simp only [hse, Bool.or_eq_false_iff, Bool.not_eq_false', List.all_eq_true, Bool.or_eq_true,
      List.contains_iff_mem, beq_iff_eq] at h
    obtain ⟨⟨⟨⟨hh, hn⟩, ha⟩, hk⟩, hat⟩ := h
    simp only [Clean]
    have hattr_f : ∀ a ∈ attrsIn f, a ∈ attrsIn (.call f as ks) := by
      intro a ha'; simp only [attrsIn, List.mem_append]; exact Or.inl (Or.inl ha')
    refine ⟨?_, ?_, hseL_cleanL _ as ha, hseL_cleanL _ ks hk, hh⟩
    · intro n hn'
      rcases hn n hn' with h1 | h1
      · rcases (mem_extW W f n).mp h1 with h2 | h2
        · exact Or.inl h2
        · exact Or.inr (Or.inr h2)
      · exact Or.inr (Or.inl h1)
    · intro a ha'
      rcases (mem_extW W f a).mp (hat a (hattr_f a ha')) with h2 | ⟨a', c', heq, rfl⟩
      · exact Or.inl h2
      · exact Or.inr ⟨c', heq⟩
  | W, .starred e, h => by simp only [hse] at h; simp only [Clean]; exact hse_clean W e h
  | W, .ifexp t b o, h => by
    simp only [hse, Bool.or_eq_false_iff] at h; simp only [Clean]
    exact ⟨hse_clean W t h.1.1, hse_clean W b h.1.2, hse_clean W o h.2⟩
  | W, .named t v, h => by
    simp only [hse, Bool.or_eq_false_iff] at h; simp only [Clean]
    exact ⟨clean_mono [] W (nil_sub W) t (hse_clean [] t h.2), clean_mono [] W (nil_sub W) v (hse_clean [] v h.1)⟩
  | W, .lambda ds b, h => by
    simp only [hse, Bool.or_eq_false_iff] at h; simp only [Clean]
    exact ⟨hseL_cleanL W ds h.1, hse_clean W b h.2⟩
  | W, .fstring ps, h => by
    simp only [hse] at h; simp only [Clean]
    exact cleanL_mono [] W (nil_sub W) ps (hseL_cleanL [] ps h)
  | W, .keyarg e, h => by simp only [hse] at h; simp only [Clean]; exact hse_clean W e h
  | W, .forStmt t i b o, h => by
    simp only [hse, Bool.or_eq_false_iff] at h; simp only [Clean]
    exact ⟨hse_clean W t h.1.1.1, hse_clean W i h.1.1.2, hseL_cleanL W b h.1.2, hseL_cleanL W o h.2⟩
  | W, .ifStmt t b o, h => by
    simp only [hse, Bool.or_eq_false_iff] at h; simp only [Clean]
    exact ⟨hse_clean W t h.1.2, hseL_cleanL W b h.1.1, hseL_cleanL W o h.2⟩
  | _, .other, h => by simp [hse] at h
theorem hseL_cleanL : ∀ (W : List String) (es : List E), hseL W es = false → CleanL W es
  | _, [], _ => trivial
  | W, e :: es, h => by
    simp only [hseL, Bool.or_eq_false_iff] at h; simp only [CleanL]
    exact ⟨hse_clean W e h.1, hseL_cleanL W es h.2⟩
theorem hseG_cleanG : ∀ (W : List String) (gs : List (E × E × List E)), hseG W gs = false → CleanG W gs
  | _, [], _ => trivial
  | W, (t, i, ifs) :: gs, h => by
    simp only [hseG, Bool.or_eq_false_iff, Bool.not_eq_false', Bool.and_eq_true, Bool.not_eq_true'] at h
    simp only [CleanG]
    exact ⟨h.1.1.1, hse_clean W i h.1.1.2, hseL_cleanL W ifs h.1.2, hseG_cleanG W gs h.2⟩
end

end C16
