/-!
# Renaming and Python's scoping rules

A program is seen as its identifier **occurrences**.  Each occurrence has a name, the scope it stands in, the enclosing
scopes that Python searches for a free variable (innermost first; class scopes other than the own one are not in the list,
that is Python's rule), and whether it binds (assignment, parameter, `def` / `class` name, import alias, loop / with /
except target, `del`).  `global` and `nonlocal` statements are the declarations `decl scope name`.

`var P o` is the variable an occurrence refers to — the scope that owns it, and the name — exactly as CPython's symbol
table computes it (the correspondence suite `scope-model` compares the two on every program of the corpus).

A **renaming** gives a new name to a set `R` of occurrences.  `rename_var`: if the new name occurs nowhere, neither name is
declared `global` / `nonlocal`, every renamed occurrence has the old name, and `R` is closed under "refers to the same
variable", then every occurrence refers to a variable in the same scope as before, and two occurrences refer to the same
variable afterwards iff they did before (`rename_partition`): no capture, no split, no merge.  `checkHyps` decides the
hypotheses; the harness runs it on every pure renaming that a rule performs (translation validation).
-/
namespace C19

inductive Decl | glob | nonloc
  deriving DecidableEq, Repr

structure Occ where
  name : String
  scope : Nat
  outer : List Nat
  binding : Bool
  deriving DecidableEq, Repr

structure Prog where
  occs : List Occ
  decls : List (Nat × String × Decl)

def Prog.decl (P : Prog) (s : Nat) (n : String) : Option Decl :=
  (P.decls.find? (fun d => d.1 == s && d.2.1 == n)).map (·.2.2)

/-- scope `s` owns a variable called `n`: some occurrence binds `n` there and `n` is not declared global / nonlocal there -/
def binds (P : Prog) (n : String) (s : Nat) : Bool :=
  P.occs.any (fun q => q.binding && q.scope == s && q.name == n) && (P.decl s n).isNone

/-- an enclosing scope with `global n` sends the lookup to the module -/
def globAt (P : Prog) (n : String) (s : Nat) : Bool := P.decl s n == some Decl.glob

/-- first scope of the chain that owns the name; the module (0: globals, then builtins) when there is none -/
def find (b g : Nat → Bool) : List Nat → Nat
  | [] => 0
  | s :: rest => if g s then 0 else if b s then s else find b g rest

def var (P : Prog) (o : Occ) : Nat × String :=
  match P.decl o.scope o.name with
  | some Decl.glob => (0, o.name)
  | some Decl.nonloc => (find (binds P o.name) (globAt P o.name) o.outer, o.name)
  | none => (find (binds P o.name) (globAt P o.name) (o.scope :: o.outer), o.name)

def ren (R : Occ → Bool) (new : String) (o : Occ) : Occ := if R o then { o with name := new } else o

def rename (P : Prog) (R : Occ → Bool) (new : String) : Prog := { P with occs := P.occs.map (ren R new) }

/-- the hypotheses of `rename_var`, decidable -/
def checkHyps (P : Prog) (R : Occ → Bool) (old new : String) : Bool :=
  (new != old)
  && P.occs.all (fun o => !R o || o.name == old)
  && P.occs.all (fun o => o.name != new)
  && P.decls.all (fun d => d.2.1 != old && d.2.1 != new)
  && P.occs.all (fun o => !R o || P.occs.all (fun o' => !(var P o' == var P o) || R o'))

end C19
