import PyrefactModel.C19.Scope
/-! # Renaming under freshness and closedness preserves the binding structure (proofs) -/
namespace C19

theorem any_ext {α : Type} {l : List α} {p q : α → Bool} (h : ∀ x ∈ l, p x = q x) : l.any p = l.any q := by
  induction l with
  | nil => rfl
  | cons a l ih =>
    simp only [List.any_cons]
    rw [h a (by simp), ih (fun x hx => h x (by simp [hx]))]

theorem decl_none_of_forall (P : Prog) (s : Nat) (n : String) (h : ∀ d ∈ P.decls, d.2.1 ≠ n) : P.decl s n = none := by
  unfold Prog.decl
  have : P.decls.find? (fun d => d.1 == s && d.2.1 == n) = none := by
    rw [List.find?_eq_none]
    intro d hd
    simp [h d hd]
  rw [this]; rfl

@[simp] theorem rename_decl (P : Prog) (R : Occ → Bool) (new : String) (s : Nat) (n : String) :
    (rename P R new).decl s n = P.decl s n := rfl

@[simp] theorem rename_globAt (P : Prog) (R : Occ → Bool) (new : String) (n : String) :
    globAt (rename P R new) n = globAt P n := rfl

theorem var_snd (P : Prog) (o : Occ) : (var P o).2 = o.name := by
  unfold var; split <;> rfl

theorem find_congr (b b' g g' : Nat → Bool) (hg : ∀ s, g s = false) (hg' : ∀ s, g' s = false) : ∀ c : List Nat,
    (∀ s ∈ c, b' s = true → b s = true) → (b (find b g c) = true → b' (find b g c) = true) →
    find b' g' c = find b g c
  | [], _, _ => by simp [find]
  | s :: rest, h1, h2 => by
    by_cases hb : b s = true
    · have hf : find b g (s :: rest) = s := by simp [find, hg, hb]
      rw [hf] at h2
      simp [find, hg, hg', hb, h2 hb]
    · have hb' : b' s = false := by
        cases h : b' s with
        | false => rfl
        | true => exact absurd (h1 s (by simp) h) hb
      have hbf : b s = false := by simpa using hb
      have hf : find b g (s :: rest) = find b g rest := by simp [find, hg, hbf]
      rw [hf] at h2
      simp only [find, hg, hg', hbf, hb']
      exact find_congr b b' g g' hg hg' rest (fun s hs => h1 s (by simp [hs])) h2

theorem binds_iff (P : Prog) (n : String) (s : Nat) (hd : P.decl s n = none) :
    binds P n s = true ↔ ∃ q ∈ P.occs, q.binding = true ∧ q.scope = s ∧ q.name = n := by
  unfold binds
  simp [hd, List.any_eq_true, and_assoc]

theorem binds_rename_iff (P : Prog) (R : Occ → Bool) (new n : String) (s : Nat) (hd : P.decl s n = none) :
    binds (rename P R new) n s = true ↔
      ∃ q ∈ P.occs, (ren R new q).binding = true ∧ (ren R new q).scope = s ∧ (ren R new q).name = n := by
  rw [binds_iff _ _ _ (by simpa using hd)]
  simp only [rename, List.mem_map]
  constructor
  · rintro ⟨q, ⟨a, ha, rfl⟩, h⟩; exact ⟨a, ha, h⟩
  · rintro ⟨a, ha, h⟩; exact ⟨_, ⟨a, ha, rfl⟩, h⟩

theorem ren_binding (R : Occ → Bool) (new : String) (q : Occ) : (ren R new q).binding = q.binding := by
  unfold ren; split <;> rfl
theorem ren_scope (R : Occ → Bool) (new : String) (q : Occ) : (ren R new q).scope = q.scope := by
  unfold ren; split <;> rfl
theorem ren_outer (R : Occ → Bool) (new : String) (q : Occ) : (ren R new q).outer = q.outer := by
  unfold ren; split <;> rfl
theorem ren_name_pos (R : Occ → Bool) (new : String) (q : Occ) (h : R q = true) : (ren R new q).name = new := by
  simp [ren, h]
theorem ren_neg (R : Occ → Bool) (new : String) (q : Occ) (h : R q = false) : ren R new q = q := by
  simp [ren, h]

/-- names other than the old and the new one are bound where they were -/
theorem binds_other (P : Prog) (R : Occ → Bool) (old new n : String) (hR : ∀ o ∈ P.occs, R o = true → o.name = old)
    (h1 : n ≠ old) (h2 : n ≠ new) : binds (rename P R new) n = binds P n := by
  funext s
  unfold binds
  simp only [rename_decl]
  congr 1
  simp only [rename, List.any_map]
  apply any_ext
  intro q hq
  simp only [Function.comp, ren_binding, ren_scope]
  cases hr : R q with
  | false => rw [ren_neg R new q hr]
  | true =>
    have hn : q.name = old := hR q hq hr
    have e1 : ((ren R new q).name == n) = false := by rw [ren_name_pos R new q hr]; simpa using fun e => h2 e.symm
    have e2 : (q.name == n) = false := by rw [hn]; simpa using fun e => h1 e.symm
    rw [e1, e2]

/-- a binding occurrence of a name that is nowhere declared global / nonlocal refers to its own scope -/
theorem var_binding (P : Prog) (q : Occ) (hq : q ∈ P.occs) (hb : q.binding = true)
    (hd : ∀ s, P.decl s q.name = none) : var P q = (q.scope, q.name) := by
  unfold var
  rw [hd q.scope]
  have hg : globAt P q.name q.scope = false := by simp [globAt, hd]
  have hbd : binds P q.name q.scope = true := (binds_iff P q.name q.scope (hd _)).2 ⟨q, hq, hb, rfl, rfl⟩
  simp [find, hg, hbd]

/-- **Renaming keeps every occurrence in its variable's scope.** -/
theorem rename_var (P : Prog) (R : Occ → Bool) (old new : String) (hne : new ≠ old)
    (hR : ∀ o ∈ P.occs, R o = true → o.name = old) (hfresh : ∀ o ∈ P.occs, o.name ≠ new)
    (hdo : ∀ d ∈ P.decls, d.2.1 ≠ old) (hdn : ∀ d ∈ P.decls, d.2.1 ≠ new)
    (hclosed : ∀ o ∈ P.occs, R o = true → ∀ o' ∈ P.occs, var P o' = var P o → R o' = true) :
    ∀ o ∈ P.occs, var (rename P R new) (ren R new o) = ((var P o).1, (ren R new o).name) := by
  have dold : ∀ s, P.decl s old = none := fun s => decl_none_of_forall P s old hdo
  have dnew : ∀ s, P.decl s new = none := fun s => decl_none_of_forall P s new hdn
  have gold : ∀ s, globAt P old s = false := fun s => by simp [globAt, dold]
  have gnew : ∀ s, globAt P new s = false := fun s => by simp [globAt, dnew]
  intro o ho
  cases hr : R o with
  | true =>
    have hn : o.name = old := hR o ho hr
    have hvo : var P o = (find (binds P old) (globAt P old) (o.scope :: o.outer), old) := by
      unfold var; rw [hn, dold]
    have hnew : (ren R new o).name = new := ren_name_pos R new o hr
    have hv' : var (rename P R new) (ren R new o)
        = (find (binds (rename P R new) new) (globAt P new) (o.scope :: o.outer), new) := by
      unfold var; rw [hnew, ren_scope, ren_outer, rename_decl, dnew, rename_globAt]
    rw [hv', hvo, hnew]
    simp only
    congr 1
    apply find_congr _ _ _ _ gold gnew
    · intro s _ hb'
      obtain ⟨q, hq, hqb, hqs, hqn⟩ := (binds_rename_iff P R new new s (dnew s)).1 hb'
      rw [ren_binding] at hqb; rw [ren_scope] at hqs
      cases hrq : R q with
      | true => exact (binds_iff P old s (dold s)).2 ⟨q, hq, hqb, hqs, hR q hq hrq⟩
      | false => rw [ren_neg R new q hrq] at hqn; exact absurd hqn (hfresh q hq)
    · intro hb
      generalize hs : find (binds P old) (globAt P old) (o.scope :: o.outer) = s at hb hvo
      obtain ⟨q, hq, hqb, hqs, hqn⟩ := (binds_iff P old s (dold s)).1 hb
      have hvq : var P q = (s, old) := by
        have := var_binding P q hq hqb (by rw [hqn]; exact dold)
        rw [this, hqs, hqn]
      have hrq : R q = true := hclosed o ho hr q hq (by rw [hvq, hvo])
      exact (binds_rename_iff P R new new s (dnew s)).2
        ⟨q, hq, by rw [ren_binding]; exact hqb, by rw [ren_scope]; exact hqs, ren_name_pos R new q hrq⟩
  | false =>
    rw [ren_neg R new o hr]
    by_cases hn : o.name = old
    · have hvo : var P o = (find (binds P old) (globAt P old) (o.scope :: o.outer), old) := by
        unfold var; rw [hn, dold]
      have hv' : var (rename P R new) o
          = (find (binds (rename P R new) old) (globAt P old) (o.scope :: o.outer), old) := by
        unfold var; rw [rename_decl, hn, dold, rename_globAt]
      rw [hv', hvo, hn]
      simp only
      congr 1
      apply find_congr _ _ _ _ gold gold
      · intro s _ hb'
        obtain ⟨q, hq, hqb, hqs, hqn⟩ := (binds_rename_iff P R new old s (dold s)).1 hb'
        rw [ren_binding] at hqb; rw [ren_scope] at hqs
        cases hrq : R q with
        | true => rw [ren_name_pos R new q hrq] at hqn; exact absurd hqn hne
        | false => rw [ren_neg R new q hrq] at hqn; exact (binds_iff P old s (dold s)).2 ⟨q, hq, hqb, hqs, hqn⟩
      · intro hb
        generalize hs : find (binds P old) (globAt P old) (o.scope :: o.outer) = s at hb hvo
        obtain ⟨q, hq, hqb, hqs, hqn⟩ := (binds_iff P old s (dold s)).1 hb
        have hvq : var P q = (s, old) := by
          have := var_binding P q hq hqb (by rw [hqn]; exact dold)
          rw [this, hqs, hqn]
        have hrq : R q = false := by
          cases h : R q with
          | false => rfl
          | true =>
            have := hclosed q hq h o ho (by rw [hvq, hvo])
            rw [hr] at this; cases this
        exact (binds_rename_iff P R new old s (dold s)).2
          ⟨q, hq, by rw [ren_binding]; exact hqb, by rw [ren_scope]; exact hqs, by rw [ren_neg R new q hrq]; exact hqn⟩
    · have hn2 : o.name ≠ new := hfresh o ho
      have hb := binds_other P R old new o.name hR hn hn2
      unfold var
      simp only [rename_decl, rename_globAt, hb]
      split <;> rfl

/-- **No capture, no split, no merge**: two occurrences refer to the same variable after the renaming iff they did before. -/
theorem rename_partition (P : Prog) (R : Occ → Bool) (old new : String) (hne : new ≠ old)
    (hR : ∀ o ∈ P.occs, R o = true → o.name = old) (hfresh : ∀ o ∈ P.occs, o.name ≠ new)
    (hdo : ∀ d ∈ P.decls, d.2.1 ≠ old) (hdn : ∀ d ∈ P.decls, d.2.1 ≠ new)
    (hclosed : ∀ o ∈ P.occs, R o = true → ∀ o' ∈ P.occs, var P o' = var P o → R o' = true) :
    ∀ o ∈ P.occs, ∀ o' ∈ P.occs,
      (var (rename P R new) (ren R new o) = var (rename P R new) (ren R new o') ↔ var P o = var P o') := by
  intro o ho o' ho'
  rw [rename_var P R old new hne hR hfresh hdo hdn hclosed o ho,
    rename_var P R old new hne hR hfresh hdo hdn hclosed o' ho']
  have e : ∀ x : Occ, var P x = ((var P x).1, x.name) := fun x => by rw [← var_snd P x]
  rw [e o, e o']
  simp only [Prod.mk.injEq]
  cases hr : R o with
  | true =>
    cases hr' : R o' with
    | true =>
      rw [ren_name_pos R new o hr, ren_name_pos R new o' hr', hR o ho hr, hR o' ho' hr']
      simp
    | false =>
      rw [ren_name_pos R new o hr, ren_neg R new o' hr']
      constructor
      · intro ⟨_, h⟩; exact absurd h.symm (hfresh o' ho')
      · intro ⟨h1, h2⟩
        have : var P o' = var P o := by rw [e o, e o']; simp [h1, h2]
        have := hclosed o ho hr o' ho' this
        rw [hr'] at this; cases this
  | false =>
    cases hr' : R o' with
    | true =>
      rw [ren_neg R new o hr, ren_name_pos R new o' hr']
      constructor
      · intro ⟨_, h⟩; exact absurd h (hfresh o ho)
      · intro ⟨h1, h2⟩
        have : var P o = var P o' := by rw [e o, e o']; simp [h1, h2]
        have := hclosed o' ho' hr' o ho this
        rw [hr] at this; cases this
    | false => rw [ren_neg R new o hr, ren_neg R new o' hr']

/-- the decidable check establishes the hypotheses -/
theorem checkHyps_sound (P : Prog) (R : Occ → Bool) (old new : String) (h : checkHyps P R old new = true) :
    ∀ o ∈ P.occs, ∀ o' ∈ P.occs,
      (var (rename P R new) (ren R new o) = var (rename P R new) (ren R new o') ↔ var P o = var P o') := by
  simp only [checkHyps, Bool.and_eq_true, List.all_eq_true, Bool.or_eq_true, Bool.not_eq_true', bne_iff_ne, ne_eq,
    beq_iff_eq] at h
  obtain ⟨⟨⟨⟨h1, h2⟩, h3⟩, h4⟩, h5⟩ := h
  apply rename_partition P R old new h1
  · intro o ho hr
    rcases h2 o ho with h | h
    · rw [hr] at h; cases h
    · exact h
  · exact h3
  · intro d hd; exact (h4 d hd).1
  · intro d hd; exact (h4 d hd).2
  · intro o ho hr o' ho' hv
    rcases h5 o ho with h | h
    · rw [hr] at h; cases h
    · rcases h o' ho' with h' | h'
      · rw [hv] at h'; simp at h'
      · exact h'

end C19
