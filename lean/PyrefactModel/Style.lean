/-!
# Naming conventions: `style._list_words`, `_make_snakecase`, `rename_variable`

`_list_words` splits with the regex `([A-Z]{2,}(?![a-z])|[A-Z]?[a-z]*)\d*`; the model is an explicit scanner for
it (ASCII letters and digits; every other character is skipped, as an empty regex match is).
-/
namespace Style

def isUp (c : Char) : Bool := 'A' ≤ c && c ≤ 'Z'
def isLo (c : Char) : Bool := 'a' ≤ c && c ≤ 'z'
def isDg (c : Char) : Bool := '0' ≤ c && c ≤ '9'

def spanWhile (p : Char → Bool) : List Char → List Char × List Char
  | [] => ([], [])
  | c :: cs => if p c then let r := spanWhile p cs; (c :: r.1, r.2) else ([], c :: cs)

/-- longest prefix of the upper-case run `ups` (followed by `rest`) of length ≥ 2 that is not followed by a
lower-case letter: `[A-Z]{2,}(?![a-z])` with backtracking -/
def alt1 (ups rest : List Char) : Option (List Char × List Char) :=
  match rest with
  | r :: _ =>
    if isLo r then
      -- give one capital back (then the look-ahead sees a capital)
      if ups.length ≥ 3 then some (ups.dropLast, ups.getLast?.toList ++ rest) else none
    else if ups.length ≥ 2 then some (ups, rest) else none
  | [] => if ups.length ≥ 2 then some (ups, rest) else none

/-- one regex match at the head: the word (possibly empty) and the remaining text -/
def oneWord (s : List Char) : List Char × List Char :=
  let (ups, rest) := spanWhile isUp s
  let (w, rest) :=
    match alt1 ups rest with
    | some r => r
    | none =>
      -- `[A-Z]?[a-z]*`
      match s with
      | c :: cs => if isUp c then let r := spanWhile isLo cs; (c :: r.1, r.2) else spanWhile isLo s
      | [] => ([], [])
  let (ds, rest) := spanWhile isDg rest
  (w ++ ds, rest)

def listWordsFuel : Nat → List Char → List (List Char)
  | 0, _ => []
  | _ + 1, [] => []
  | n + 1, s =>
    let (w, rest) := oneWord s
    if w.isEmpty then listWordsFuel n (s.drop 1) else w :: listWordsFuel n rest

def listWords (s : List Char) : List (List Char) := listWordsFuel (s.length + 1) s

def lowerC (c : Char) : Char := if isUp c then Char.ofNat (c.toNat + 32) else c
def upperC (c : Char) : Char := if isLo c then Char.ofNat (c.toNat - 32) else c

def joinU : List (List Char) → List Char
  | [] => []
  | [w] => w
  | w :: ws => w ++ '_' :: joinU ws

def snake (upper : Bool) (s : List Char) : List Char :=
  joinU ((listWords s).map (fun w => w.map (if upper then upperC else lowerC)))

def stripUnderscores : List Char → List Char
  | '_' :: cs => stripUnderscores cs
  | cs => cs

inductive Renamed | ok (s : List Char) | raises
deriving Repr, DecidableEq

/-- add the private underscore if missing / strip leading underscores of a public name -/
def adjust (priv : Bool) (r : List Char) : List Char :=
  if priv then (if r.head? == some '_' then r else '_' :: r) else stripUnderscores r

/-- `style.rename_variable(variable, static=, private=)` -/
def renameVariable (v : List Char) (static priv : Bool) : Renamed :=
  if v = ['_'] then .ok v
  else if v.take 2 = ['_', '_'] ∧ v.reverse.take 2 = ['_', '_'] then .ok v
  else
    let r := adjust priv (snake static v)
    if r.isEmpty then .raises else .ok r

theorem stripUnderscores_head (cs : List Char) : (stripUnderscores cs).head? ≠ some '_' := by
  induction cs with
  | nil => simp [stripUnderscores]
  | cons c cs ih =>
    by_cases h : c = '_'
    · subst h; simpa [stripUnderscores] using ih
    · unfold stripUnderscores
      split
      · rename_i heq; cases heq; exact absurd rfl h
      · simp [h]

theorem adjust_prefix (priv : Bool) (r : List Char) :
    (priv = true → (adjust priv r).head? = some '_') ∧ (priv = false → (adjust priv r).head? ≠ some '_') := by
  cases priv
  · simp only [adjust, Bool.false_eq_true, if_false]
    exact ⟨fun h => absurd h (by simp), fun _ => stripUnderscores_head r⟩
  · simp only [adjust, if_true]
    refine ⟨fun _ => ?_, fun h => absurd h (by simp)⟩
    split
    · rename_i h; simpa using h
    · rfl

/-- a public rename never starts with an underscore, a private one always does (dunder names and `_` apart) -/
theorem rename_prefix (v : List Char) (static priv : Bool) (r : List Char)
    (h : renameVariable v static priv = .ok r) (h1 : v ≠ ['_'])
    (h2 : ¬ (v.take 2 = ['_', '_'] ∧ v.reverse.take 2 = ['_', '_'])) :
    (priv = true → r.head? = some '_') ∧ (priv = false → r.head? ≠ some '_') := by
  unfold renameVariable at h
  rw [if_neg h1, if_neg h2] at h
  simp only [] at h
  by_cases he : (adjust priv (snake static v)).isEmpty = true
  · rw [if_pos he] at h; cases h
  · rw [if_neg he] at h
    cases h
    exact adjust_prefix priv (snake static v)

end Style
