import PyrefactModel.BlankLines
/-!
# `processing.minimize_whitespace_line_differences` — the last stage of `format_code`

The real function asks `difflib.Differ` for a line diff between the original text and the formatted text, groups
adjacent diff lines with the same tag, and rebuilds a text from the groups: lines present in both, added groups that
are not whitespace-only, and *removed* groups that are whitespace-only (they are restored).  `difflib` is a
parameter of the model: the functions below work on an arbitrary diff script (hint lines `?` included), and the
theorems hold for every script.  The suite `minimize` runs the same `Differ` as the real function, hands the script
to the model and compares the rebuilt text byte for byte.
-/
namespace Minimize
open BlankLines (isSpace)

inductive Tag
  | same | plus | minus | hint
  deriving DecidableEq, Repr

abbrev Script := List (Tag × List Char)
abbrev Seg := Tag × List (List Char)

/-- adjacent diff lines with the same tag form one segment -/
def segments : Script → List Seg
  | [] => []
  | (t, l) :: rest =>
    match segments rest with
    | (t', ls) :: segs => if t = t' then (t, l :: ls) :: segs else (t, [l]) :: (t', ls) :: segs
    | [] => [(t, [l])]

/-- `not "".join(lines).strip()` -/
def blankSeg (ls : List (List Char)) : Bool := ls.flatten.all isSpace

/-- the lines a segment contributes to the rebuilt text -/
def keep : Seg → List (List Char)
  | (.same, ls) => ls
  | (.plus, ls) => if blankSeg ls then [] else ls
  | (.minus, ls) => if blankSeg ls then ls else []
  | (.hint, _) => []

def minimizeLines (sc : Script) : List (List Char) := (segments sc).flatMap keep
def minimize (sc : Script) : List Char := (minimizeLines sc).flatten

/-- the two texts a script relates -/
def newLines (sc : Script) : List (List Char) := (sc.filter (fun p => p.1 = .same || p.1 = .plus)).map (·.2)
def oldLines (sc : Script) : List (List Char) := (sc.filter (fun p => p.1 = .same || p.1 = .minus)).map (·.2)
def newText (sc : Script) : List Char := (newLines sc).flatten

/-- the characters that are not whitespace, in order -/
def nonSp (s : List Char) : List Char := s.filter (fun c => !isSpace c)

theorem nonSp_append (a b : List Char) : nonSp (a ++ b) = nonSp a ++ nonSp b := by simp [nonSp]

theorem nonSp_blank (ls : List (List Char)) (h : blankSeg ls = true) : nonSp ls.flatten = [] := by
  simp only [nonSp, List.filter_eq_nil_iff]
  intro c hc
  simp only [blankSeg, List.all_eq_true] at h
  simp [h c hc]

/-- what a segment contributes to the new text -/
def keepNew : Seg → List (List Char)
  | (.same, ls) => ls
  | (.plus, ls) => ls
  | _ => []

theorem seg_nonSp (sg : Seg) : nonSp (keep sg).flatten = nonSp (keepNew sg).flatten := by
  obtain ⟨t, ls⟩ := sg
  cases t <;> simp only [keep, keepNew]
  · split
    · rename_i h; rw [nonSp_blank ls h]; rfl
    · rfl
  · split
    · rename_i h; rw [nonSp_blank ls h]; rfl
    · rfl

theorem segs_nonSp (segs : List Seg) : nonSp (segs.flatMap keep).flatten = nonSp (segs.flatMap keepNew).flatten := by
  induction segs with
  | nil => rfl
  | cons sg rest ih =>
    simp only [List.flatMap_cons, List.flatten_append, nonSp_append, ih, seg_nonSp]

/-- grouping loses nothing: the new-text lines of the segments are the new-text lines of the script -/
theorem segments_new (sc : Script) : (segments sc).flatMap keepNew = newLines sc := by
  induction sc with
  | nil => rfl
  | cons p rest ih =>
    obtain ⟨t, l⟩ := p
    simp only [segments]
    cases hseg : segments rest with
    | nil =>
      rw [hseg] at ih
      simp only [List.flatMap_nil] at ih
      cases t <;> simp [newLines, keepNew] at ih ⊢ <;> first | exact ih | (rw [← ih])
    | cons sg segs =>
      obtain ⟨t', ls⟩ := sg
      rw [hseg] at ih
      simp only
      split
      · rename_i heq
        subst heq
        cases t <;> simp [newLines, keepNew] at ih ⊢ <;> first | exact ih | (rw [← ih])
      · cases t <;> simp [newLines, keepNew] at ih ⊢ <;> first | exact ih | (rw [← ih])

/-- **the rebuilt text has exactly the non-whitespace characters of the formatted text**, whatever diff script the
line differ produced -/
theorem minimize_nonSp (sc : Script) : nonSp (minimize sc) = nonSp (newText sc) := by
  simp only [minimize, minimizeLines, newText, ← segments_new, segs_nonSp]

/-- a script without removed whitespace-only groups and without added whitespace-only groups is rebuilt as the
formatted text itself -/
theorem minimize_eq_new (sc : Script)
    (h : ∀ sg ∈ segments sc, (sg.1 = .plus → blankSeg sg.2 = false) ∧ (sg.1 = .minus → blankSeg sg.2 = false)) :
    minimize sc = newText sc := by
  simp only [minimize, minimizeLines, newText, ← segments_new]
  congr 1
  generalize segments sc = segs at h
  induction segs with
  | nil => rfl
  | cons sg rest ih =>
    simp only [List.flatMap_cons]
    rw [ih (fun x hx => h x (List.mem_cons_of_mem _ hx))]
    congr 1
    obtain ⟨t, ls⟩ := sg
    have := h (t, ls) (List.mem_cons_self ..)
    cases t <;> simp [keep, keepNew] <;> simp_all

end Minimize
