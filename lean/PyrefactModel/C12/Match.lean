import PyrefactModel.C12.Quant
/-!
# The template matcher: `core.match_template` over generic trees, and its declarative semantics

`Val` is an exported syntax tree (typed node with named fields / list / atom), `Tm` a compiled template
(type set, literal, tuple = alternatives, set, quantified list, named wildcard with its own template,
`...`, partial node).  `key` stands for `core.unparse` (bindings are compared by canonical text, as
`merge_matches` does), `isinst` for `isinstance` over the `ast` class hierarchy.
-/
namespace C12

inductive Val where
  | atom (s : String)
  | list (xs : List Val)
  | node (ty : String) (fields : List (String × Val))
deriving Repr, Inhabited

inductive Tm where
  | ty (names : List String)
  | lit (s : String)
  | alt (ts : List Tm)
  | setOf (ts : List Tm)
  | seq (ts : List (Q × Tm))
  | wild (name : String) (t : Tm)
  | anything
  | node (ty : String) (fields : List (String × Tm))
deriving Repr, Inhabited

/-- canonical text of a tree (stands for `unparse`) — abstract parameter -/
abbrev Key := Val → String
abbrev Bnd := List (String × String)

def consistent (a b : Bnd) : Bool :=
  a.all (fun p => b.all (fun q => p.1 != q.1 || p.2 == q.2))
def merge (a b : Bnd) : Option Bnd := if consistent a b then some (a ++ b) else none

def expand {α} : List α → List Nat → List α
  | a :: as, c :: cs => List.replicate c a ++ expand as cs
  | _, _ => []

/-- the Python type of an exported atom: atoms are written `type:repr` -/
def atomTy (a : String) : String := (a.splitOn ":").headD ""

variable (key : Key) (isinst : String → List String → Bool)

mutual
def matchT : Nat → Val → Tm → Option Bnd
  | 0, _, _ => none
  | fuel+1, v, t =>
    match t with
    | .anything => some []
    | .ty names => match v with
        | .node ty _ => if isinst ty names then some [] else none
        | .atom a => if isinst (atomTy a) names then some [] else none
        | .list _ => if isinst "list" names then some [] else none
    | .lit s => match v with | .atom a => if a == s then some [] else none | _ => none
    | .alt ts => matchAlt fuel v ts
    | .wild name t' => match matchT fuel v t' with
        | some b' => if b'.isEmpty then some [(name, key v)] else none  -- `len(template_match) == 1`
        | none => none
    | .setOf ts => match v with
        | .list xs => matchAll fuel (xs.map (fun x => (x, Tm.alt ts)))
        | _ => none
    | .seq qts => match v with
        | .list xs => matchPerms fuel xs (qts.map (·.2)) (perms (qts.map (·.1)) xs.length)
        | _ => none
    | .node ty fields => match v with
        | .node vty vfields => if isinst vty [ty] then matchFields fuel vfields fields else none
        | _ => none
def matchAlt : Nat → Val → List Tm → Option Bnd
  | 0, _, _ => none
  | _+1, _, [] => none
  | fuel+1, v, t :: ts => match matchT fuel v t with
      | some b => some b
      | none => matchAlt fuel v ts
def matchPerms : Nat → List Val → List Tm → List (List Nat) → Option Bnd
  | 0, _, _, _ => none
  | _+1, _, _, [] => none
  | fuel+1, xs, ts, c :: cs => match matchAll fuel (xs.zip (expand ts c)) with
      | some b => some b
      | none => matchPerms fuel xs ts cs
def matchAll : Nat → List (Val × Tm) → Option Bnd
  | 0, _ => none
  | _+1, [] => some []
  | fuel+1, (v, t) :: rest =>
    match matchT fuel v t, matchAll fuel rest with
    | some a, some b => merge a b
    | _, _ => none
def matchFields : Nat → List (String × Val) → List (String × Tm) → Option Bnd
  | 0, _, _ => none
  | _+1, _, [] => some []
  | fuel+1, vf, (k, t) :: rest =>
    match vf.lookup k with
    | none => none
    | some v =>
      match matchT fuel v t, matchFields fuel vf rest with
      | some a, some b => merge a b
      | _, _ => none
end

/-- declarative semantics under a global assignment σ of wildcard names to canonical texts -/
inductive Matches : (String → String) → Val → Tm → Prop
  | anything {σ v} : Matches σ v .anything
  | ty {σ ty fs names} : isinst ty names = true → Matches σ (.node ty fs) (.ty names)
  | tyAtom {σ a names} : isinst (atomTy a) names = true → Matches σ (.atom a) (.ty names)
  | tyList {σ xs names} : isinst "list" names = true → Matches σ (.list xs) (.ty names)
  | lit {σ s} : Matches σ (.atom s) (.lit s)
  | alt {σ v ts t} : t ∈ ts → Matches σ v t → Matches σ v (.alt ts)
  | wild {σ v name t σ'} : Matches σ' v t → σ name = key v → Matches σ v (.wild name t)
  | setOf {σ xs ts} : (∀ x ∈ xs, Matches σ x (.alt ts)) → Matches σ (.list xs) (.setOf ts)
  | seq {σ xs qts c} : c ∈ perms (qts.map (·.1)) xs.length →
      (∀ p ∈ xs.zip (expand (qts.map (·.2)) c), Matches σ p.1 p.2) →
      Matches σ (.list xs) (.seq qts)
  | node {σ vty vfs ty fields} : isinst vty [ty] = true →
      (∀ kt ∈ fields, (vfs.lookup kt.1).isSome = true) →
      (∀ kt ∈ fields, ∀ v, vfs.lookup kt.1 = some v → Matches σ v kt.2) →
      Matches σ (.node vty vfs) (.node ty fields)

def Agrees (σ : String → String) (b : Bnd) : Prop := ∀ p ∈ b, σ p.1 = p.2

theorem agrees_merge {σ a b c} (h : merge a b = some c) (hc : Agrees σ c) : Agrees σ a ∧ Agrees σ b := by
  unfold merge at h
  split at h
  · cases h
    constructor
    · intro p hp; exact hc p (List.mem_append_left _ hp)
    · intro p hp; exact hc p (List.mem_append_right _ hp)
  · cases h


def Func (b : Bnd) : Prop := ∀ p ∈ b, ∀ q ∈ b, p.1 = q.1 → p.2 = q.2

theorem func_merge {a b c : Bnd} (h : merge a b = some c) (ha : Func a) (hb : Func b) : Func c := by
  unfold merge at h
  split at h
  · rename_i hc
    cases h
    simp only [consistent, List.all_eq_true, Bool.or_eq_true, bne_iff_ne, ne_eq, beq_iff_eq] at hc
    intro p hp q hq hpq
    rcases List.mem_append.mp hp with hp | hp <;> rcases List.mem_append.mp hq with hq | hq
    · exact ha p hp q hq hpq
    · rcases hc p hp q hq with h | h
      · exact absurd hpq h
      · exact h
    · rcases hc q hq p hp with h | h
      · exact absurd hpq.symm h
      · exact h.symm
    · exact hb p hp q hq hpq
  · cases h

theorem func_nil : Func [] := by intro p hp; simp at hp
theorem func_single (n k : String) : Func [(n, k)] := by
  intro p hp q hq _; simp at hp hq; rw [hp, hq]

theorem agrees_lookup {b : Bnd} (hf : Func b) : Agrees (fun n => (b.lookup n).getD "") b := by
  intro p hp
  induction b with
  | nil => simp at hp
  | cons x rest ih =>
    simp only [List.lookup]
    by_cases hx : p.1 = x.1
    · have : (p.1 == x.1) = true := by simp [hx]
      simp only [this, Option.getD_some]
      exact (hf p hp x (by simp) hx).symm
    · have : (p.1 == x.1) = false := by simp [hx]
      simp only [this]
      have hp' : p ∈ rest := by
        rcases List.mem_cons.mp hp with h | h
        · exact absurd (by rw [h]) hx
        · exact h
      exact ih (fun a ha c hc => hf a (List.mem_cons_of_mem _ ha) c (List.mem_cons_of_mem _ hc)) hp'

theorem functional : ∀ fuel,
    (∀ v t b, matchT key isinst fuel v t = some b → Func b) ∧
    (∀ v ts b, matchAlt key isinst fuel v ts = some b → Func b) ∧
    (∀ xs ts cs b, matchPerms key isinst fuel xs ts cs = some b → Func b) ∧
    (∀ ps b, matchAll key isinst fuel ps = some b → Func b) ∧
    (∀ vf fs b, matchFields key isinst fuel vf fs = some b → Func b) := by
  intro fuel
  induction fuel with
  | zero => refine ⟨?_, ?_, ?_, ?_, ?_⟩ <;> intros <;> simp_all [matchT, matchAlt, matchPerms, matchAll, matchFields]
  | succ n ih =>
    obtain ⟨ihT, ihAlt, ihPerms, ihAll, ihFields⟩ := ih
    refine ⟨?_, ?_, ?_, ?_, ?_⟩
    · intro v t b h
      cases t with
      | anything => simp [matchT] at h; subst h; exact func_nil
      | ty names => cases v <;> simp [matchT] at h <;> (obtain ⟨_, rfl⟩ := h; exact func_nil)
      | lit s => cases v <;> simp [matchT] at h; obtain ⟨_, rfl⟩ := h; exact func_nil
      | alt ts => simp only [matchT] at h; exact ihAlt v ts b h
      | wild name t' =>
        simp only [matchT] at h
        split at h
        · split at h
          · cases h; exact func_single _ _
          · cases h
        · cases h
      | setOf ts => cases v <;> simp [matchT] at h; exact ihAll _ b h
      | seq qts => cases v <;> simp [matchT] at h; exact ihPerms _ _ _ b h
      | node ty fields => cases v <;> simp [matchT] at h; exact ihFields _ _ b h.2
    · intro v ts b h
      cases ts with
      | nil => simp [matchAlt] at h
      | cons t ts =>
        simp only [matchAlt] at h
        split at h
        · rename_i b' hb'; cases h; exact ihT v t b hb'
        · exact ihAlt v ts b h
    · intro xs ts cs b h
      cases cs with
      | nil => simp [matchPerms] at h
      | cons c cs =>
        simp only [matchPerms] at h
        split at h
        · rename_i b' hb'; cases h; exact ihAll _ b hb'
        · exact ihPerms xs ts cs b h
    · intro ps b h
      cases ps with
      | nil => simp [matchAll] at h; subst h; exact func_nil
      | cons p rest =>
        obtain ⟨v, t⟩ := p
        simp only [matchAll] at h
        split at h
        · rename_i a b' ha hb'
          exact func_merge h (ihT v t a ha) (ihAll rest b' hb')
        · cases h
    · intro vf fs b h
      cases fs with
      | nil => simp [matchFields] at h; subst h; exact func_nil
      | cons kt rest =>
        obtain ⟨k, t⟩ := kt
        simp only [matchFields] at h
        split at h
        · cases h
        · rename_i v hv
          split at h
          · rename_i a b' ha hb'
            exact func_merge h (ihT v t a ha) (ihFields vf rest b' hb')
          · cases h

theorem sound : ∀ fuel,
    (∀ v t b, matchT key isinst fuel v t = some b → ∀ σ, Agrees σ b → Matches key isinst σ v t) ∧
    (∀ v ts b, matchAlt key isinst fuel v ts = some b → ∀ σ, Agrees σ b → ∃ t ∈ ts, Matches key isinst σ v t) ∧
    (∀ xs ts cs b, matchPerms key isinst fuel xs ts cs = some b → ∀ σ, Agrees σ b →
        ∃ c ∈ cs, ∀ p ∈ xs.zip (expand ts c), Matches key isinst σ p.1 p.2) ∧
    (∀ ps b, matchAll key isinst fuel ps = some b → ∀ σ, Agrees σ b → ∀ p ∈ ps, Matches key isinst σ p.1 p.2) ∧
    (∀ vf fs b, matchFields key isinst fuel vf fs = some b → ∀ σ, Agrees σ b →
        ∀ kt ∈ fs, ∃ v, vf.lookup kt.1 = some v ∧ Matches key isinst σ v kt.2) := by
  intro fuel
  induction fuel with
  | zero => refine ⟨?_, ?_, ?_, ?_, ?_⟩ <;> intros <;> simp_all [matchT, matchAlt, matchPerms, matchAll, matchFields]
  | succ n ih =>
    obtain ⟨ihT, ihAlt, ihPerms, ihAll, ihFields⟩ := ih
    refine ⟨?_, ?_, ?_, ?_, ?_⟩
    · intro v t b h σ hσ
      cases t with
      | anything => exact .anything
      | ty names =>
        cases v <;> simp [matchT] at h
        · exact .tyAtom h.1
        · exact .tyList h.1
        · exact .ty h.1
      | lit s =>
        cases v <;> simp [matchT] at h
        obtain ⟨rfl, _⟩ := h
        exact .lit
      | alt ts =>
        simp only [matchT] at h
        obtain ⟨t, ht, hm⟩ := ihAlt v ts b h σ hσ
        exact .alt ht hm
      | wild name t' =>
        simp only [matchT] at h
        split at h
        · rename_i b' hb'
          split at h
          case isFalse => cases h
          cases h
          have hm := ihT v t' b' hb' (fun n => (b'.lookup n).getD "")
            (agrees_lookup ((functional key isinst n).1 v t' b' hb'))
          exact .wild hm (hσ (name, key v) (by simp))
        · cases h
      | setOf ts =>
        cases v <;> simp [matchT] at h
        rename_i xs
        apply Matches.setOf
        intro x hx
        have := ihAll _ b h σ hσ (x, Tm.alt ts) (List.mem_map.mpr ⟨x, hx, rfl⟩)
        exact this
      | seq qts =>
        cases v <;> simp [matchT] at h
        rename_i xs
        obtain ⟨c, hc, hm⟩ := ihPerms _ _ _ b h σ hσ
        exact .seq hc hm
      | node ty fields =>
        cases v <;> simp [matchT] at h
        rename_i vty vfs
        have hf := ihFields _ _ b h.2 σ hσ
        refine .node h.1 ?_ ?_
        · intro kt hkt; obtain ⟨v, hv, _⟩ := hf kt hkt; simp [hv]
        · intro kt hkt v hv; obtain ⟨v', hv', hm⟩ := hf kt hkt
          rw [hv] at hv'; cases hv'; exact hm
    · intro v ts b h σ hσ
      cases ts with
      | nil => simp [matchAlt] at h
      | cons t ts =>
        simp only [matchAlt] at h
        split at h
        · rename_i b' hb'; cases h
          exact ⟨t, by simp, ihT v t b hb' σ hσ⟩
        · obtain ⟨t', ht', hm⟩ := ihAlt v ts b h σ hσ
          exact ⟨t', by simp [ht'], hm⟩
    · intro xs ts cs b h σ hσ
      cases cs with
      | nil => simp [matchPerms] at h
      | cons c cs =>
        simp only [matchPerms] at h
        split at h
        · rename_i b' hb'; cases h
          exact ⟨c, by simp, ihAll _ b hb' σ hσ⟩
        · obtain ⟨c', hc', hm⟩ := ihPerms xs ts cs b h σ hσ
          exact ⟨c', by simp [hc'], hm⟩
    · intro ps b h σ hσ
      cases ps with
      | nil => intro p hp; simp at hp
      | cons p rest =>
        obtain ⟨v, t⟩ := p
        simp only [matchAll] at h
        split at h
        · rename_i a b' ha hb'
          obtain ⟨h1, h2⟩ := agrees_merge h hσ
          intro q hq
          simp at hq
          rcases hq with rfl | hq
          · exact ihT v t a ha σ h1
          · exact ihAll rest b' hb' σ h2 q hq
        · cases h
    · intro vf fs b h σ hσ
      cases fs with
      | nil => intro kt hkt; simp at hkt
      | cons kt rest =>
        obtain ⟨k, t⟩ := kt
        simp only [matchFields] at h
        split at h
        · cases h
        · rename_i v hv
          split at h
          · rename_i a b' ha hb'
            obtain ⟨h1, h2⟩ := agrees_merge h hσ
            intro q hq
            simp at hq
            rcases hq with rfl | hq
            · exact ⟨v, hv, ihT v t a ha σ h1⟩
            · exact ihFields vf rest b' hb' σ h2 q hq
          · cases h

/-- property-level corollary: a successful match is a declarative match for the assignment read off
    the returned bindings -/
theorem match_sound (fuel : Nat) (v : Val) (t : Tm) (b : Bnd)
    (h : matchT key isinst fuel v t = some b) :
    Matches key isinst (fun n => (b.lookup n).getD "") v t :=
  (sound key isinst fuel).1 v t b h _ (agrees_lookup ((functional key isinst fuel).1 v t b h))



end C12
