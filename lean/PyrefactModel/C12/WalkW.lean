/-!
# `core.walk_wildcard`: which nodes a search reports, in which order, and that none is reported twice

```
types_in_scope = group the nodes of ast.walk(scope) by type (types in first-seen order, nodes in walk order)
for template in templates:                                   -- a tuple of templates: alternatives, tried in order
    nodes = chain(bucket for type, bucket in types_in_scope.items() if issubclass(type, type_of(template)))
    for node in nodes:
        if node not in yielded and match_template(node, template): yield; yielded.add(node)
```
`sub` stands for `issubclass`, `m` for `match_template` (modelled in `Match.lean`); the theorems hold for every such pair.
Tied by the suite `walk` (type templates over the `ast` class hierarchy: reported nodes and their order).
-/
namespace C12.WalkW

variable {ν τ β : Type} [DecidableEq ν] [DecidableEq τ]

/-- first occurrences, in order -/
def dedup : List τ → List τ
  | [] => []
  | a :: l => a :: (dedup l).filter (fun x => decide (x ≠ a))

theorem mem_dedup (l : List τ) (x : τ) : x ∈ dedup l ↔ x ∈ l := by
  induction l with
  | nil => simp [dedup]
  | cons a l ih =>
    simp only [dedup, List.mem_cons, List.mem_filter, decide_eq_true_eq, ih]
    constructor
    · rintro (h | ⟨h, _⟩)
      · exact Or.inl h
      · exact Or.inr h
    · rintro (h | h)
      · exact Or.inl h
      · by_cases hx : x = a
        · exact Or.inl hx
        · exact Or.inr ⟨h, hx⟩

/-- the nodes of one type, in walk order -/
def bucket (nodes : List (τ × ν)) (t : τ) : List ν := (nodes.filter (fun p => decide (p.1 = t))).map (·.2)

/-- the nodes a template is tried on: the buckets of the matching types, types in first-seen order -/
def candidates (nodes : List (τ × ν)) (sub : τ → β → Bool) (tm : β) : List ν :=
  ((dedup (nodes.map (·.1))).filter (fun t => sub t tm)).flatMap (bucket nodes)

def step (m : β → ν → Bool) (tm : β) (acc : List ν) (n : ν) : List ν :=
  if n ∈ acc then acc else if m tm n then acc ++ [n] else acc

/-- the reported nodes, in order, given the nodes reported so far -/
def walkFrom (nodes : List (τ × ν)) (sub : τ → β → Bool) (m : β → ν → Bool) : List β → List ν → List ν
  | [], acc => acc
  | tm :: rest, acc => walkFrom nodes sub m rest ((candidates nodes sub tm).foldl (step m tm) acc)

def walk (nodes : List (τ × ν)) (sub : τ → β → Bool) (m : β → ν → Bool) (tms : List β) : List ν :=
  walkFrom nodes sub m tms []

theorem mem_candidates (nodes : List (τ × ν)) (sub : τ → β → Bool) (tm : β) (n : ν) :
    n ∈ candidates nodes sub tm ↔ ∃ t, (t, n) ∈ nodes ∧ sub t tm = true := by
  simp only [candidates, List.mem_flatMap, List.mem_filter, mem_dedup, List.mem_map, bucket, decide_eq_true_eq]
  constructor
  · rintro ⟨t, ⟨_, hs⟩, ⟨p, ⟨hp, hpt⟩, rfl⟩⟩
    exact ⟨t, by rw [← hpt]; exact hp, hs⟩
  · rintro ⟨t, hn, hs⟩
    exact ⟨t, ⟨⟨(t, n), hn, rfl⟩, hs⟩, ⟨(t, n), ⟨hn, rfl⟩, rfl⟩⟩

/-! ## the inner loop -/

theorem fold_nodup (m : β → ν → Bool) (tm : β) (L acc : List ν) (h : acc.Nodup) : (L.foldl (step m tm) acc).Nodup := by
  induction L generalizing acc with
  | nil => exact h
  | cons n L ih =>
    simp only [List.foldl_cons]
    apply ih
    unfold step
    split
    · exact h
    · rename_i hn
      split
      · rw [List.nodup_append]
        refine ⟨h, by simp, ?_⟩
        intro a ha b hb
        simp only [List.mem_singleton] at hb
        subst hb
        intro hab; subst hab; exact hn ha
      · exact h

theorem fold_mono (m : β → ν → Bool) (tm : β) (L acc : List ν) (x : ν) (hx : x ∈ acc) : x ∈ L.foldl (step m tm) acc := by
  induction L generalizing acc with
  | nil => exact hx
  | cons n L ih =>
    simp only [List.foldl_cons]
    apply ih
    unfold step
    split
    · exact hx
    · split
      · simp [hx]
      · exact hx

theorem fold_complete (m : β → ν → Bool) (tm : β) (L acc : List ν) (n : ν) (hn : n ∈ L) (hm : m tm n = true) :
    n ∈ L.foldl (step m tm) acc := by
  induction L generalizing acc with
  | nil => cases hn
  | cons a L ih =>
    simp only [List.foldl_cons]
    simp only [List.mem_cons] at hn
    rcases hn with rfl | hn
    · apply fold_mono
      unfold step
      split
      · assumption
      · simp [hm]
    · exact ih _ hn

theorem fold_sound (m : β → ν → Bool) (tm : β) (L acc : List ν) (x : ν) (hx : x ∈ L.foldl (step m tm) acc) :
    x ∈ acc ∨ (x ∈ L ∧ m tm x = true) := by
  induction L generalizing acc with
  | nil => exact Or.inl hx
  | cons a L ih =>
    simp only [List.foldl_cons] at hx
    rcases ih _ hx with h | ⟨h1, h2⟩
    · unfold step at h
      split at h
      · exact Or.inl h
      · split at h
        · rename_i hma
          simp only [List.mem_append, List.mem_singleton] at h
          rcases h with h | rfl
          · exact Or.inl h
          · exact Or.inr ⟨List.mem_cons_self .., hma⟩
        · exact Or.inl h
    · exact Or.inr ⟨List.mem_cons_of_mem _ h1, h2⟩

/-! ## the search as a whole -/

theorem walkFrom_nodup (nodes : List (τ × ν)) (sub : τ → β → Bool) (m : β → ν → Bool) :
    ∀ (tms : List β) (acc : List ν), acc.Nodup → (walkFrom nodes sub m tms acc).Nodup := by
  intro tms
  induction tms with
  | nil => intro acc h; exact h
  | cons tm rest ih => intro acc h; exact ih _ (fold_nodup m tm _ acc h)

theorem walkFrom_mono (nodes : List (τ × ν)) (sub : τ → β → Bool) (m : β → ν → Bool) :
    ∀ (tms : List β) (acc : List ν) (x : ν), x ∈ acc → x ∈ walkFrom nodes sub m tms acc := by
  intro tms
  induction tms with
  | nil => intro acc x h; exact h
  | cons tm rest ih => intro acc x h; exact ih _ x (fold_mono m tm _ acc x h)

/-- **No node is reported twice**, whatever the templates (alternatives may overlap) -/
theorem walk_nodup (nodes : List (τ × ν)) (sub : τ → β → Bool) (m : β → ν → Bool) (tms : List β) :
    (walk nodes sub m tms).Nodup := walkFrom_nodup nodes sub m tms [] List.nodup_nil

/-- **Every reported node matches**: it is a node of the scope whose type fits one of the templates and which that
template matches -/
theorem walk_sound (nodes : List (τ × ν)) (sub : τ → β → Bool) (m : β → ν → Bool) (tms : List β) (x : ν)
    (hx : x ∈ walk nodes sub m tms) : ∃ tm ∈ tms, ∃ t, (t, x) ∈ nodes ∧ sub t tm = true ∧ m tm x = true := by
  have key : ∀ (tms : List β) (acc : List ν), x ∈ walkFrom nodes sub m tms acc →
      x ∈ acc ∨ ∃ tm ∈ tms, ∃ t, (t, x) ∈ nodes ∧ sub t tm = true ∧ m tm x = true := by
    intro tms
    induction tms with
    | nil => intro acc h; exact Or.inl h
    | cons tm rest ih =>
      intro acc h
      rcases ih _ h with h1 | ⟨tm', htm', t, h2⟩
      · rcases fold_sound m tm _ acc x h1 with h3 | ⟨h3, h4⟩
        · exact Or.inl h3
        · obtain ⟨t, ht, hs⟩ := (mem_candidates nodes sub tm x).mp h3
          exact Or.inr ⟨tm, List.mem_cons_self .., t, ht, hs, h4⟩
      · exact Or.inr ⟨tm', List.mem_cons_of_mem _ htm', t, h2⟩
  rcases key tms [] hx with h | h
  · cases h
  · exact h

/-- **Every matching node is reported**: a node of the scope whose type fits a template that matches it -/
theorem walk_complete (nodes : List (τ × ν)) (sub : τ → β → Bool) (m : β → ν → Bool) (tms : List β) (tm : β) (t : τ) (x : ν)
    (htm : tm ∈ tms) (hx : (t, x) ∈ nodes) (hs : sub t tm = true) (hm : m tm x = true) : x ∈ walk nodes sub m tms := by
  have key : ∀ (tms : List β) (acc : List ν), tm ∈ tms → x ∈ walkFrom nodes sub m tms acc := by
    intro tms
    induction tms with
    | nil => intro acc h; cases h
    | cons tm' rest ih =>
      intro acc h
      simp only [List.mem_cons] at h
      rcases h with rfl | h
      · exact walkFrom_mono nodes sub m rest _ x
          (fold_complete m tm _ acc x ((mem_candidates nodes sub tm x).mpr ⟨t, hx, hs⟩) hm)
      · exact ih _ h
  exact key tms [] htm

end C12.WalkW
