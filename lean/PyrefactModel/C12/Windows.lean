/-!
# `core.walk_sequence`: which statement windows of a body are tried

```
for nodes in zip(*(body[i : len(body) - len(templates) + i + 1] for i in range(len(templates)))):
```
With `k = len(templates)`, slice `i` is `body[i : len - k + i + 1]` (Python's rule for a negative stop applies when the
body is shorter than the pattern) and `zip` pairs the slices position by position up to the shortest one.  The model
spells exactly that out (`windowsPy`); the theorem says that the tuples tried are exactly the `len - k + 1` contiguous
windows of length `k`, in source order, each once — so a statement-sequence pattern is tried at every position of
every body and nowhere else.  Tied by the suite `windows` (the same expression evaluated by CPython) and, for the search as a
whole, by the `sequence-oracle` against a reference written from the `ast`.
-/
namespace C12

variable {α : Type}

/-- `l[start:stop]` for `0 ≤ start`, any integer `stop` (negative: counted from the end) -/
def pySlice (l : List α) (start : Nat) (stop : Int) : List α :=
  let n : Int := l.length
  let stop' : Int := if stop < 0 then max (stop + n) 0 else min stop n
  (l.drop start).take (stop'.toNat - start)

/-- the slices handed to `zip` -/
def slices (body : List α) (k : Nat) : List (List α) :=
  (List.range k).map (fun i => pySlice body i ((body.length : Int) - k + i + 1))

def minLen : List (List α) → Nat
  | [] => 0                                   -- zip() of nothing yields nothing
  | [l] => l.length
  | l :: ls => min l.length (minLen ls)

/-- `zip(*ls)`: the `j`-th tuple holds the `j`-th elements, up to the shortest list -/
def zipAll (ls : List (List α)) : List (List α) :=
  (List.range (minLen ls)).map (fun j => ls.filterMap (fun l => l[j]?))

/-- the tuples of statements that `walk_sequence` tries in one body -/
def windowsPy (body : List α) (k : Nat) : List (List α) := zipAll (slices body k)

/-- the contiguous windows of length `k`, in order -/
def windows (body : List α) (k : Nat) : List (List α) :=
  if k ≤ body.length then (List.range (body.length + 1 - k)).map (fun j => (body.drop j).take k) else []

theorem minLen_const (ls : List (List α)) (m : Nat) (hne : ls ≠ []) (h : ∀ l ∈ ls, l.length = m) : minLen ls = m := by
  induction ls with
  | nil => exact absurd rfl hne
  | cons l rest ih =>
    cases rest with
    | nil => simp [minLen, h l (by simp)]
    | cons l2 rest2 =>
      have := ih (by simp) (fun x hx => h x (by simp [hx]))
      simp only [minLen] at this ⊢
      rw [this, h l (by simp)]; simp

theorem minLen_zero (ls : List (List α)) (l : List α) (hl : l ∈ ls) (h0 : l.length = 0) : minLen ls = 0 := by
  induction ls with
  | nil => simp at hl
  | cons x rest ih =>
    cases rest with
    | nil =>
      have hx : l = x := by simpa using hl
      subst hx; simp [minLen, h0]
    | cons x2 rest2 =>
      simp only [minLen]
      simp only [List.mem_cons] at hl
      rcases hl with rfl | hl
      · simp [h0]
      · have := ih (by simpa using hl)
        rw [this]; simp

/-- a slice of a body that is long enough: `len - k + 1` elements from position `i` -/
theorem pySlice_long (body : List α) (k i : Nat) (hk : k ≤ body.length) (hi : i < k) :
    pySlice body i ((body.length : Int) - k + i + 1) = (body.drop i).take (body.length + 1 - k) := by
  unfold pySlice
  simp only
  have h1 : ¬ ((body.length : Int) - k + i + 1 < 0) := by omega
  rw [if_neg h1]
  have h2 : min ((body.length : Int) - k + i + 1) (body.length : Int) = (body.length : Int) - k + i + 1 := by omega
  rw [h2]
  congr 1
  omega

theorem pySlice_long_length (body : List α) (k i : Nat) (hk : k ≤ body.length) (hi : i < k) :
    (pySlice body i ((body.length : Int) - k + i + 1)).length = body.length + 1 - k := by
  rw [pySlice_long body k i hk hi]
  simp only [List.length_take, List.length_drop]
  omega

/-- the last slice of a body that is too short is empty -/
theorem pySlice_short (body : List α) (k : Nat) (hk : body.length < k) :
    (pySlice body (k - 1) ((body.length : Int) - k + (k - 1 : Nat) + 1)).length = 0 := by
  unfold pySlice
  simp only [List.length_take, List.length_drop]
  omega

theorem filterMap_congr' {β γ : Type} (f g : β → Option γ) (l : List β) (h : ∀ x ∈ l, f x = g x) :
    l.filterMap f = l.filterMap g := by
  induction l with
  | nil => rfl
  | cons x xs ih =>
    simp only [List.filterMap_cons, h x (by simp)]
    rw [ih (fun y hy => h y (by simp [hy]))]

/-- the `j`-th tuple: the elements `j, j + 1, …` of the body -/
theorem row_eq (body : List α) (j : Nat) : ∀ k, (List.range k).filterMap (fun i => body[i + j]?) = (body.drop j).take k := by
  intro k
  induction k with
  | zero => simp
  | succ k ih =>
    rw [List.range_succ, List.filterMap_append, ih, List.take_succ, List.getElem?_drop]
    congr 1
    simp only [List.filterMap_cons, List.filterMap_nil]
    rw [Nat.add_comm]
    cases body[j + k]? <;> rfl

/-- **The windows tried are exactly the contiguous windows, in order, each once** — for every body and every pattern
length `k ≥ 1` -/
theorem windowsPy_eq (body : List α) (k : Nat) (hk : 1 ≤ k) : windowsPy body k = windows body k := by
  unfold windowsPy windows zipAll
  by_cases hlen : k ≤ body.length
  · rw [if_pos hlen]
    have hmin : minLen (slices body k) = body.length + 1 - k := by
      apply minLen_const
      · simp only [slices, ne_eq, List.map_eq_nil_iff, List.range_eq_nil]; omega
      · intro l hl
        simp only [slices, List.mem_map, List.mem_range] at hl
        obtain ⟨i, hi, rfl⟩ := hl
        exact pySlice_long_length body k i hlen hi
    rw [hmin]
    apply List.map_congr_left
    intro j hj
    simp only [List.mem_range] at hj
    simp only [slices, List.filterMap_map]
    have hcongr : List.filterMap ((fun l => l[j]?) ∘ fun i => pySlice body i ((body.length : Int) - k + i + 1)) (List.range k)
        = List.filterMap (fun i => body[i + j]?) (List.range k) := by
      apply filterMap_congr'
      intro i hi
      simp only [List.mem_range] at hi
      simp only [Function.comp]
      rw [pySlice_long body k i hlen hi, List.getElem?_take_of_lt (by omega), List.getElem?_drop]
    rw [hcongr, row_eq]
  · rw [if_neg hlen]
    have : minLen (slices body k) = 0 := by
      apply minLen_zero (slices body k) (pySlice body (k - 1) ((body.length : Int) - k + (k - 1 : Nat) + 1))
      · simp only [slices, List.mem_map, List.mem_range]
        exact ⟨k - 1, by omega, rfl⟩
      · exact pySlice_short body k (by omega)
    rw [this]; rfl

end C12
