import PyrefactModel.C12.Match
/-!
# Every tree matches itself

`asTm v` is `v` read as a template (what the exporter produces for a syntax tree without wildcards: atoms become
literals, lists become lists of `one`-quantified items, nodes become node templates over all their fields).
`self_match`: with enough fuel `matchT` accepts `v` against `asTm v` and binds nothing.
-/
namespace C12

mutual
def asTm : Val → Tm
  | .atom s => .lit s
  | .list xs => .seq (asTmL xs)
  | .node ty fs => .node ty (asTmF fs)
def asTmL : List Val → List (Q × Tm)
  | [] => []
  | x :: xs => (.one, asTm x) :: asTmL xs
def asTmF : List (String × Val) → List (String × Tm)
  | [] => []
  | (k, v) :: fs => (k, asTm v) :: asTmF fs
end

mutual
/-- fuel that suffices for the self-match -/
def need : Val → Nat
  | .atom _ => 1
  | .list xs => 3 + needL xs
  | .node _ fs => 2 + needF fs
def needL : List Val → Nat
  | [] => 0
  | x :: xs => need x + 1 + needL xs
def needF : List (String × Val) → Nat
  | [] => 0
  | (_, v) :: fs => need v + 1 + needF fs
end

mutual
/-- field names are distinct in every node (true of `ast` nodes) -/
def WF : Val → Prop
  | .atom _ => True
  | .list xs => WFL xs
  | .node _ fs => (fs.map (·.1)).Nodup ∧ WFF fs
def WFL : List Val → Prop
  | [] => True
  | x :: xs => WF x ∧ WFL xs
def WFF : List (String × Val) → Prop
  | [] => True
  | (_, v) :: fs => WF v ∧ WFF fs
end

theorem asTmL_fst : ∀ xs : List Val, (asTmL xs).map (·.1) = List.replicate xs.length Q.one
  | [] => by simp [asTmL]
  | x :: xs => by simp [asTmL, asTmL_fst xs, List.replicate_succ]

theorem asTmL_length : ∀ xs : List Val, (asTmL xs).length = xs.length
  | [] => by simp [asTmL]
  | x :: xs => by simp [asTmL, asTmL_length xs]

theorem product_ones : ∀ n : Nat, product (List.replicate n [1]) = [List.replicate n 1]
  | 0 => by simp [product]
  | n + 1 => by simp [List.replicate_succ, product, product_ones n]

theorem sum_replicate_one : ∀ n : Nat, (List.replicate n 1).sum = n
  | 0 => by simp
  | n + 1 => by simp [List.replicate_succ, sum_replicate_one n]; omega

theorem perms_ones (n : Nat) : perms (List.replicate n Q.one) n = [List.replicate n 1] := by
  unfold perms
  have hm : ((List.replicate n Q.one).map minCount).sum = n := by
    simp [minCount, sum_replicate_one]
  simp only [hm, Nat.lt_irrefl, if_false, Nat.sub_self]
  have hr : (List.replicate n Q.one).map (fun q => rangeIncl (bounds q 0).1 (bounds q 0).2) = List.replicate n [1] := by
    simp [bounds, rangeIncl]
  rw [hr, product_ones]
  simp [sum_replicate_one]

theorem expand_ones : ∀ (ts : List Tm), expand ts (List.replicate ts.length 1) = ts
  | [] => by simp [expand]
  | t :: ts => by simp [List.replicate_succ, expand, expand_ones ts]

variable (key : Key) (isinst : String → List String → Bool)

theorem merge_nil : merge ([] : Bnd) [] = some [] := by simp [merge, consistent]

/-- `lookup` finds a field's own value when names are distinct -/
theorem lookup_self {k : String} {v : Val} : ∀ {pre post : List (String × Val)},
    ((pre ++ (k, v) :: post).map (·.1)).Nodup → (pre ++ (k, v) :: post).lookup k = some v
  | [], post, _ => by simp [List.lookup]
  | (k', v') :: pre, post, h => by
    simp only [List.cons_append, List.map_cons, List.nodup_cons] at h
    have hne : k ≠ k' := by
      intro e; apply h.1; rw [← e]; simp
    have : (k == k') = false := by simp [hne]
    simp only [List.cons_append, List.lookup, this]
    exact lookup_self h.2

mutual
theorem selfT (hrefl : ∀ ty, isinst ty [ty] = true) : ∀ (v : Val), WF v → ∀ fuel, need v ≤ fuel →
    matchT key isinst fuel v (asTm v) = some []
  | .atom s, _, fuel, hf => by
    obtain ⟨n, rfl⟩ : ∃ n, fuel = n + 1 := ⟨fuel - 1, by simp [need] at hf; omega⟩
    simp [asTm, matchT]
  | .list xs, hw, fuel, hf => by
    simp only [need] at hf
    obtain ⟨n, rfl⟩ : ∃ n, fuel = n + 3 := ⟨fuel - 3, by omega⟩
    simp only [asTm, matchT, asTmL_fst, perms_ones]
    simp only [matchPerms]
    have hlen : List.replicate xs.length 1 = List.replicate ((asTmL xs).map (·.2)).length 1 := by
      simp [asTmL_length]
    rw [hlen, expand_ones]
    have h := selfAll hrefl xs (by simpa [WF] using hw) (n + 1) (by omega)
    rw [h]
  | .node ty fs, hw, fuel, hf => by
    simp only [need] at hf
    obtain ⟨n, rfl⟩ : ∃ n, fuel = n + 2 := ⟨fuel - 2, by omega⟩
    simp only [WF] at hw
    simp only [asTm, matchT, hrefl, if_true]
    exact selfFields hrefl fs [] fs rfl hw.1 hw.2 (n + 1) (by omega)
theorem selfAll (hrefl : ∀ ty, isinst ty [ty] = true) : ∀ (xs : List Val), WFL xs → ∀ fuel, needL xs + 1 ≤ fuel →
    matchAll key isinst fuel (xs.zip ((asTmL xs).map (·.2))) = some []
  | [], _, fuel, hf => by
    obtain ⟨n, rfl⟩ : ∃ n, fuel = n + 1 := ⟨fuel - 1, by omega⟩
    simp [asTmL, matchAll]
  | x :: xs, hw, fuel, hf => by
    simp only [needL] at hf
    obtain ⟨n, rfl⟩ : ∃ n, fuel = n + 1 := ⟨fuel - 1, by omega⟩
    simp only [WFL] at hw
    simp only [asTmL, List.map_cons, List.zip_cons_cons, matchAll]
    rw [selfT hrefl x hw.1 n (by omega), selfAll hrefl xs hw.2 n (by omega)]
    exact merge_nil
theorem selfFields (hrefl : ∀ ty, isinst ty [ty] = true) : ∀ (all pre post : List (String × Val)), all = pre ++ post →
    (all.map (·.1)).Nodup → WFF post → ∀ fuel, needF post + 1 ≤ fuel →
    matchFields key isinst fuel all (asTmF post) = some []
  | all, pre, [], _, _, _, fuel, hf => by
    obtain ⟨n, rfl⟩ : ∃ n, fuel = n + 1 := ⟨fuel - 1, by omega⟩
    simp [asTmF, matchFields]
  | all, pre, (k, v) :: post, he, hnd, hw, fuel, hf => by
    simp only [needF] at hf
    obtain ⟨n, rfl⟩ : ∃ n, fuel = n + 1 := ⟨fuel - 1, by omega⟩
    simp only [WFF] at hw
    simp only [asTmF, matchFields]
    have hl : all.lookup k = some v := by rw [he]; exact lookup_self (by rw [← he]; exact hnd)
    rw [hl]
    simp only
    rw [selfT hrefl v hw.1 n (by omega),
      selfFields hrefl all (pre ++ [(k, v)]) post (by rw [he]; simp) hnd hw.2 n (by omega)]
    exact merge_nil
end

/-- **every tree matches itself** (and binds nothing), for every class hierarchy in which a class is an instance of
itself, with the fuel `need v` or any larger one -/
theorem self_match (hrefl : ∀ ty, isinst ty [ty] = true) (v : Val) (hw : WF v) (fuel : Nat) (hf : need v ≤ fuel) :
    matchT key isinst fuel v (asTm v) = some [] := selfT key isinst hrefl v hw fuel hf

end C12
