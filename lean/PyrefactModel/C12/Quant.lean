/-!
# List quantifiers: `core._iter_template_permutations` and its regular-expression reading
-/
namespace C12

inductive Q where | one | opt | star | plus
deriving Repr, DecidableEq

def minCount : Q → Nat | .one => 1 | .opt => 0 | .star => 0 | .plus => 1
def bounds (q : Q) (slack : Nat) : Nat × Nat :=
  match q with
  | .one => (1, 1) | .opt => (0, 1) | .star => (0, slack) | .plus => (1, 1 + slack)

/-- admissible repetition count in the regular-expression reading -/
def admissible : Q → Nat → Prop
  | .one, c => c = 1 | .opt, c => c ≤ 1 | .star, _ => True | .plus, c => 1 ≤ c

inductive All2 {α β : Type} (R : α → β → Prop) : List α → List β → Prop
  | nil : All2 R [] []
  | cons {a b as bs} : R a b → All2 R as bs → All2 R (a :: as) (b :: bs)

theorem All2.imp {α β : Type} {R S : α → β → Prop} {l₁ l₂} (h : All2 R l₁ l₂) (f : ∀ {a b}, R a b → S a b) : All2 S l₁ l₂ := by
  induction h with
  | nil => exact .nil
  | cons hx _ ih => exact .cons (f hx) ih

def rangeIncl (lo hi : Nat) : List Nat := (List.range (hi + 1 - lo)).map (· + lo)

theorem mem_rangeIncl {lo hi x : Nat} : x ∈ rangeIncl lo hi ↔ lo ≤ x ∧ x ≤ hi := by
  simp [rangeIncl]
  constructor
  · rintro ⟨a, ha, rfl⟩; omega
  · intro h; exact ⟨x - lo, by omega, by omega⟩

def product : List (List Nat) → List (List Nat)
  | [] => [[]]
  | xs :: rest => xs.flatMap (fun x => (product rest).map (fun r => x :: r))

theorem mem_product : ∀ (ls : List (List Nat)) (c : List Nat),
    c ∈ product ls ↔ All2 (fun x l => x ∈ l) c ls := by
  intro ls
  induction ls with
  | nil =>
    intro c; simp only [product, List.mem_singleton]
    constructor
    · rintro rfl; exact .nil
    · intro h; cases h; rfl
  | cons l rest ih =>
    intro c
    simp only [product, List.mem_flatMap, List.mem_map]
    constructor
    · rintro ⟨x, hx, r, hr, rfl⟩
      exact All2.cons hx ((ih r).1 hr)
    · intro h
      cases h with
      | cons hx hr => exact ⟨_, hx, _, (ih _).2 hr, rfl⟩

def perms (qs : List Q) (n : Nat) : List (List Nat) :=
  let m := (qs.map minCount).sum
  if n < m then [] else
  let slack := n - m
  (product (qs.map (fun q => rangeIncl (bounds q slack).1 (bounds q slack).2))).filter (fun c => c.sum == n)

def Adm (c : List Nat) (qs : List Q) : Prop := All2 (fun x q => admissible q x) c qs

theorem adm_sum_ge : ∀ (c : List Nat) (qs : List Q), Adm c qs → (qs.map minCount).sum ≤ c.sum := by
  intro c qs h
  induction h with
  | nil => simp
  | @cons x q c' qs' hx _ ih =>
    simp only [List.map_cons, List.sum_cons]
    cases q <;> simp [admissible, minCount] at hx ⊢ <;> omega

/-- each admissible count with total n is within the slack-bounded range -/
theorem adm_in_bounds : ∀ (c : List Nat) (qs : List Q), Adm c qs →
    ∀ slack, c.sum ≤ (qs.map minCount).sum + slack →
    All2 (fun x q => (bounds q slack).1 ≤ x ∧ x ≤ (bounds q slack).2) c qs := by
  intro c qs h
  induction h with
  | nil => intro _ _; exact All2.nil
  | @cons x q c' qs' hx hr ih =>
    intro slack hs
    simp only [List.map_cons, List.sum_cons] at hs
    have hge := adm_sum_ge c' qs' hr
    refine All2.cons ?_ ?_
    · cases q <;> simp [admissible, bounds, minCount] at hx hs ⊢ <;> omega
    · apply ih
      cases q <;> simp [admissible, minCount] at hx hs <;> omega

theorem bounds_adm (q : Q) (slack x : Nat) (h : (bounds q slack).1 ≤ x ∧ x ≤ (bounds q slack).2) : admissible q x := by
  cases q <;> simp [bounds, admissible] at h ⊢ <;> omega

theorem forall2_map_right {α β γ : Type} {R : α → γ → Prop} {f : β → γ} :
    ∀ {l₁ : List α} {l₂ : List β}, All2 R l₁ (l₂.map f) ↔ All2 (fun a b => R a (f b)) l₁ l₂ := by
  intro l₁ l₂
  induction l₂ generalizing l₁ with
  | nil =>
    constructor
    · intro h; cases h; exact .nil
    · intro h; cases h; exact .nil
  | cons b l₂ ih =>
    constructor
    · intro h; cases h with | cons hx hr => exact .cons hx (ih.1 hr)
    · intro h; cases h with | cons hx hr => exact .cons hx (ih.2 hr)

theorem perms_exact (qs : List Q) (n : Nat) (c : List Nat) :
    c ∈ perms qs n ↔ Adm c qs ∧ c.sum = n := by
  unfold perms
  simp only
  split
  · rename_i hlt
    simp only [List.not_mem_nil, false_iff, not_and]
    intro h hs
    have := adm_sum_ge c qs h
    omega
  · rename_i hge
    simp only [List.mem_filter, mem_product, beq_iff_eq, forall2_map_right, mem_rangeIncl]
    constructor
    · rintro ⟨h, hs⟩
      refine ⟨?_, hs⟩
      exact h.imp (fun hx => bounds_adm _ _ _ hx)
    · rintro ⟨h, hs⟩
      refine ⟨?_, hs⟩
      apply adm_in_bounds c qs h
      omega


#eval perms [.star, .one, .star] 3

end C12
