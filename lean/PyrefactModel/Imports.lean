/-!
# Import statements: which name is bound to which object

`import m [as a]` binds `a` (or the top package of `m`) to a module; `from m import x [as y]` binds `y` (or `x`)
to attribute `x` of `m`.  Later bindings shadow earlier ones.
-/
namespace Imports

inductive Imp
  | plain (mod : String) (as_ : Option String)
  | from_ (mod name : String) (as_ : Option String)
deriving DecidableEq, Repr

def topPackage (m : String) : String := (m.splitOn ".").headD m

/-- the name the statement binds -/
def Imp.bound : Imp → String
  | .plain m none => topPackage m
  | .plain _ (some a) => a
  | .from_ _ x none => x
  | .from_ _ _ (some y) => y

/-- the object it is bound to: (module, attribute) -/
def Imp.target : Imp → String × Option String
  | .plain m none => (topPackage m, none)
  | .plain m (some _) => (m, none)
  | .from_ m x _ => (m, some x)

/-- the environment after executing the statements in order: the last binding of `x` -/
def env (imps : List Imp) (x : String) : Option (String × Option String) :=
  ((imps.reverse.find? (fun i => i.bound == x)).map Imp.target)

theorem env_eq_of_unique (imps : List Imp) (hnd : (imps.map Imp.bound).Nodup) (i : Imp) (hi : i ∈ imps) :
    env imps i.bound = some i.target := by
  unfold env
  have : imps.reverse.find? (fun j => j.bound == i.bound) = some i := by
    have hmem : i ∈ imps.reverse := List.mem_reverse.mpr hi
    have hnd' : (imps.reverse.map Imp.bound).Nodup := by
      rw [List.map_reverse]; exact (List.reverse_perm _).nodup_iff.mpr hnd
    generalize imps.reverse = l at hmem hnd'
    induction l with
    | nil => cases hmem
    | cons j js ih =>
      simp only [List.find?_cons]
      by_cases hj : j.bound = i.bound
      · simp only [hj, beq_self_eq_true]
        rcases List.mem_cons.mp hmem with rfl | hm
        · rfl
        · exfalso
          simp only [List.map_cons, List.nodup_cons, List.mem_map, not_exists, not_and] at hnd'
          exact hnd'.1 i hm hj.symm
      · have hne : (j.bound == i.bound) = false := by simpa using hj
        simp only [hne]
        rcases List.mem_cons.mp hmem with rfl | hm
        · exact absurd rfl hj
        · simp only [List.map_cons, List.nodup_cons] at hnd'
          exact ih hm hnd'.2
  rw [this]; rfl

/-- **Reordering (sorting, merging, moving) is safe when the bound names are pairwise distinct**: every
permutation of the import statements gives the same environment -/
theorem env_perm (l1 l2 : List Imp) (hp : l1.Perm l2) (hnd : (l1.map Imp.bound).Nodup) (x : String) :
    env l1 x = env l2 x := by
  have hnd2 : (l2.map Imp.bound).Nodup := (hp.map _).nodup_iff.mp hnd
  by_cases hx : ∃ i ∈ l1, i.bound = x
  · obtain ⟨i, hi, rfl⟩ := hx
    rw [env_eq_of_unique l1 hnd i hi, env_eq_of_unique l2 hnd2 i (hp.mem_iff.mp hi)]
  · have h1 : env l1 x = none := by
      unfold env
      rw [Option.map_eq_none_iff, List.find?_eq_none]
      intro j hj; simp only [beq_iff_eq]; intro hb
      exact hx ⟨j, List.mem_reverse.mp hj, hb⟩
    have h2 : env l2 x = none := by
      unfold env
      rw [Option.map_eq_none_iff, List.find?_eq_none]
      intro j hj; simp only [beq_iff_eq]; intro hb
      exact hx ⟨j, hp.mem_iff.mpr (List.mem_reverse.mp hj), hb⟩
    rw [h1, h2]

theorem find?_filter_of_imp {α : Type} (p q : α → Bool) (l : List α) (h : ∀ a ∈ l, p a = true → q a = true) :
    (l.filter q).find? p = l.find? p := by
  induction l with
  | nil => rfl
  | cons a as ih =>
    have ih' := ih (fun b hb => h b (List.mem_cons_of_mem _ hb))
    by_cases hq : q a = true
    · rw [List.filter_cons_of_pos hq, List.find?_cons, List.find?_cons, ih']
    · have hp : p a = false := by
        cases hpa : p a with
        | false => rfl
        | true => exact absurd (h a (List.mem_cons_self ..) hpa) hq
      rw [List.filter_cons_of_neg hq, List.find?_cons, hp, ih']

/-- **Removing import statements is safe for every name none of them binds** (unused-import removal, duplicate removal):
for every list of statements and every selection -/
theorem env_filter (imps : List Imp) (keep : Imp → Bool) (x : String)
    (h : ∀ i ∈ imps, keep i = false → i.bound ≠ x) : env (imps.filter keep) x = env imps x := by
  unfold env
  rw [← List.filter_reverse]
  rw [find?_filter_of_imp]
  intro i hi hb
  simp only [beq_iff_eq] at hb
  cases hk : keep i with
  | true => rfl
  | false => exact absurd hb (h i (List.mem_reverse.mp hi) hk)

/-- **A shadowed import can go**: a statement whose name is bound again later contributes nothing -/
theorem env_remove_shadowed (a b : List Imp) (i : Imp) (h : ∃ j ∈ b, j.bound = i.bound) (x : String) :
    env (a ++ i :: b) x = env (a ++ b) x := by
  unfold env
  simp only [List.reverse_append, List.reverse_cons, List.find?_append, List.append_assoc]
  by_cases hx : i.bound = x
  · obtain ⟨j, hj, hji⟩ := h
    have : (b.reverse.find? (fun k => k.bound == x)).isSome = true := by
      rw [List.find?_isSome]
      exact ⟨j, List.mem_reverse.mpr hj, by simp [hji, hx]⟩
    cases hf : b.reverse.find? (fun k => k.bound == x) with
    | none => rw [hf] at this; cases this
    | some v => simp
  · have hne : (i.bound == x) = false := by simpa using hx
    simp [List.find?_cons, hne]

/-- the names in `used` are bound to the same objects by both lists (decidable: what the validator evaluates) -/
def agreeOn (used : List String) (a b : List Imp) : Bool := used.all (fun x => decide (env a x = env b x))

theorem agreeOn_sound (used : List String) (a b : List Imp) (h : agreeOn used a b = true) :
    ∀ x ∈ used, env a x = env b x := by
  intro x hx
  simp only [agreeOn, List.all_eq_true, decide_eq_true_eq] at h
  exact h x hx

end Imports
