/-!
# Import statements: which name is bound to which object

`import m [as a]` binds `a` (or the top package of `m`) to a module; `from m import x [as y]` binds `y` (or `x`)
to attribute `x` of `m`.  Later bindings shadow earlier ones.
-/
namespace Imports

inductive Imp
  | plain (mod : String) (as_ : Option String)
  | from_ (mod name : String) (as_ : Option String)
deriving DecidableEq, Repr

def topPackage (m : String) : String := (m.splitOn ".").headD m

/-- the name the statement binds -/
def Imp.bound : Imp → String
  | .plain m none => topPackage m
  | .plain _ (some a) => a
  | .from_ _ x none => x
  | .from_ _ _ (some y) => y

/-- the object it is bound to: (module, attribute) -/
def Imp.target : Imp → String × Option String
  | .plain m none => (topPackage m, none)
  | .plain m (some _) => (m, none)
  | .from_ m x _ => (m, some x)

/-- the environment after executing the statements in order: the last binding of `x` -/
def env (imps : List Imp) (x : String) : Option (String × Option String) :=
  ((imps.reverse.find? (fun i => i.bound == x)).map Imp.target)

theorem env_eq_of_unique (imps : List Imp) (hnd : (imps.map Imp.bound).Nodup) (i : Imp) (hi : i ∈ imps) :
    env imps i.bound = some i.target := by
  unfold env
  have : imps.reverse.find? (fun j => j.bound == i.bound) = some i := by
    have hmem : i ∈ imps.reverse := List.mem_reverse.mpr hi
    have hnd' : (imps.reverse.map Imp.bound).Nodup := by
      rw [List.map_reverse]; exact (List.reverse_perm _).nodup_iff.mpr hnd
    generalize imps.reverse = l at hmem hnd'
    induction l with
    | nil => cases hmem
    | cons j js ih =>
      simp only [List.find?_cons]
      by_cases hj : j.bound = i.bound
      · simp only [hj, beq_self_eq_true]
        rcases List.mem_cons.mp hmem with rfl | hm
        · rfl
        · exfalso
          simp only [List.map_cons, List.nodup_cons, List.mem_map, not_exists, not_and] at hnd'
          exact hnd'.1 i hm hj.symm
      · have hne : (j.bound == i.bound) = false := by simpa using hj
        simp only [hne]
        rcases List.mem_cons.mp hmem with rfl | hm
        · exact absurd rfl hj
        · simp only [List.map_cons, List.nodup_cons] at hnd'
          exact ih hm hnd'.2
  rw [this]; rfl

/-- **Reordering (sorting, merging, moving) is safe when the bound names are pairwise distinct**: every
permutation of the import statements gives the same environment -/
theorem env_perm (l1 l2 : List Imp) (hp : l1.Perm l2) (hnd : (l1.map Imp.bound).Nodup) (x : String) :
    env l1 x = env l2 x := by
  have hnd2 : (l2.map Imp.bound).Nodup := (hp.map _).nodup_iff.mp hnd
  by_cases hx : ∃ i ∈ l1, i.bound = x
  · obtain ⟨i, hi, rfl⟩ := hx
    rw [env_eq_of_unique l1 hnd i hi, env_eq_of_unique l2 hnd2 i (hp.mem_iff.mp hi)]
  · have h1 : env l1 x = none := by
      unfold env
      rw [Option.map_eq_none_iff, List.find?_eq_none]
      intro j hj; simp only [beq_iff_eq]; intro hb
      exact hx ⟨j, List.mem_reverse.mp hj, hb⟩
    have h2 : env l2 x = none := by
      unfold env
      rw [Option.map_eq_none_iff, List.find?_eq_none]
      intro j hj; simp only [beq_iff_eq]; intro hb
      exact hx ⟨j, hp.mem_iff.mpr (List.mem_reverse.mp hj), hb⟩
    rw [h1, h2]

end Imports
