import PyrefactModel.Basic.Rng
/-!
# Physical lines (`str.splitlines(keepends=True)`), ignore comments (`core.has_ignore_comment`)

Texts are `List Char`, positions are code point numbers (as in Python `str`).
The set of line breaks is a parameter: `str.splitlines` and CPython's tokenizer disagree on it.
-/

/-- line boundaries of `str.splitlines` (besides the pair `\r\n`) -/
def pyBreak (c : Char) : Bool :=
  c.val = 0x0a || c.val = 0x0d || c.val = 0x0b || c.val = 0x0c || c.val = 0x1c || c.val = 0x1d ||
  c.val = 0x1e || c.val = 0x85 || c.val = 0x2028 || c.val = 0x2029

/-- line boundaries of the CPython tokenizer / `ast` line numbers -/
def astBreak (c : Char) : Bool := c.val = 0x0a || c.val = 0x0d

/-- `str.isspace()` / regex `\s` for `str` patterns -/
def pySpace (c : Char) : Bool :=
  c.val = 0x20 || (0x09 ≤ c.val && c.val ≤ 0x0d) || (0x1c ≤ c.val && c.val ≤ 0x1f) || c.val = 0x85 ||
  c.val = 0xa0 || c.val = 0x1680 || (0x2000 ≤ c.val && c.val ≤ 0x200a) || c.val = 0x2028 ||
  c.val = 0x2029 || c.val = 0x202f || c.val = 0x205f || c.val = 0x3000

/-- `splitlines(keepends=True)`; `acc` is the current line, reversed -/
def splitLinesAux (brk : Char → Bool) : List Char → List Char → List (List Char)
  | [], acc => if acc.isEmpty then [] else [acc.reverse]
  | [c], acc => if brk c then [(c :: acc).reverse] else [(c :: acc).reverse]
  | c :: d :: rest', acc =>
    if brk c then
      if c.val = 0x0d && d.val = 0x0a then (d :: c :: acc).reverse :: splitLinesAux brk rest' []
      else (c :: acc).reverse :: splitLinesAux brk (d :: rest') []
    else splitLinesAux brk (d :: rest') (c :: acc)

def splitLines (brk : Char → Bool) (t : List Char) : List (List Char) := splitLinesAux brk t []

theorem splitLinesAux_flatten (brk : Char → Bool) : ∀ (n : Nat) (t acc : List Char), t.length ≤ n →
    (splitLinesAux brk t acc).flatten = acc.reverse ++ t := by
  intro n
  induction n with
  | zero =>
    intro t acc h
    have : t = [] := List.length_eq_zero_iff.mp (by omega)
    subst this
    simp only [splitLinesAux]; split <;> simp_all
  | succ n ih =>
    intro t acc h
    match t with
    | [] => simp only [splitLinesAux]; split <;> simp_all
    | [c] => simp [splitLinesAux]
    | c :: d :: rest' =>
      simp only [List.length_cons] at h
      simp only [splitLinesAux]
      split
      · split
        · rw [List.flatten_cons, ih rest' [] (by omega)]; simp
        · rw [List.flatten_cons, ih (d :: rest') [] (by simp; omega)]; simp
      · rw [ih (d :: rest') (c :: acc) (by simp; omega)]; simp

/-- joining the physical lines gives back the text: no character is lost or invented -/
theorem splitLines_flatten (brk : Char → Bool) (t : List Char) : (splitLines brk t).flatten = t := by
  unfold splitLines; rw [splitLinesAux_flatten brk t.length t [] (Nat.le_refl _)]; simp

/-- start offsets of the lines: `core._get_line_start_charnos` -/
def lineStartsFrom : Nat → List (List Char) → List Nat
  | _, [] => []
  | pos, l :: ls => pos :: lineStartsFrom (pos + l.length) ls

def lineStarts (brk : Char → Bool) (t : List Char) : List Nat := lineStartsFrom 0 (splitLines brk t)

/-! ## the ignore pattern `#\s*pyrefact\s*:\s*(skip_file|ignore)` -/

def skipSpace : List Char → List Char
  | [] => []
  | c :: r => if pySpace c then skipSpace r else c :: r

def isPrefixChars : List Char → List Char → Bool
  | [], _ => true
  | _ :: _, [] => false
  | a :: as, b :: bs => a == b && isPrefixChars as bs

/-- does the pattern match with its `#` at the head of `l`? (`\s*` is greedy and what follows is never a
space, so no backtracking is needed) -/
def ignoreAt (l : List Char) : Bool :=
  match l with
  | '#' :: r =>
    let r := skipSpace r
    if isPrefixChars "pyrefact".toList r then
      match skipSpace (r.drop 8) with
      | ':' :: r2 =>
        let r3 := skipSpace r2
        isPrefixChars "skip_file".toList r3 || isPrefixChars "ignore".toList r3
      | _ => false
    else false
  | _ => false

/-- `pattern.search(line)` -/
def ignoreSearch : List Char → Bool
  | [] => false
  | c :: r => ignoreAt (c :: r) || ignoreSearch r

/-- the skip-file test of `main.format_code`: the literal text `# pyrefact: skip_file` occurs -/
def skipFileSearch : List Char → Bool
  | [] => false
  | c :: r => isPrefixChars "# pyrefact: skip_file".toList (c :: r) || skipFileSearch r

/-- `core.has_ignore_comment(source, rng)`: some physical line overlapping `rng` matches -/
def ignoredFrom (rng : Rng) : Nat → List (List Char) → Bool
  | _, [] => false
  | pos, l :: ls =>
    (rng.overlaps ⟨pos, pos + l.length⟩ && ignoreSearch l) || ignoredFrom rng (pos + l.length) ls

def hasIgnoreComment (src : List Char) (rng : Rng) : Bool :=
  ignoredFrom rng 0 (splitLines astBreak src)   -- physical lines as the tokenizer sees them (since the repair 2dfbdbe)
