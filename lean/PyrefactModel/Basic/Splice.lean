import PyrefactModel.Basic.Rng
/-!
# Text splicing

`splice t r new = t[:r.s] ++ new ++ t[r.e:]` is the pure core of `processing._do_rewrite`.
`seqApplyDesc` applies rewrites one after the other in the order given (the scheduler hands them over
sorted descending); `parallelFrom` is the simultaneous substitution read off the *original* text.
-/

variable {α : Type}

def splice (t : List α) (r : Rng) (new : List α) : List α := t.take r.s ++ new ++ t.drop r.e

/-- simultaneous substitution for an ASCENDING list of rewrites, reading the source from `pos`:
    copy source up to the range start, emit the replacement, continue after the range end -/
def parallelFrom (t : List α) : Nat → List (Rng × List α) → List α
  | pos, [] => t.drop pos
  | pos, (r, new) :: rest => (t.drop pos).take (r.s - pos) ++ new ++ parallelFrom t r.e rest

/-- well-formed ascending chain starting at `pos`: in-bounds, s ≤ e, and each starts at or after the
    previous end -/
def Chain (len : Nat) : Nat → List (Rng × List α) → Prop
  | _, [] => True
  | pos, (r, _) :: rest => pos ≤ r.s ∧ r.s ≤ r.e ∧ r.e ≤ len ∧ Chain len r.e rest

/-- the code's order: rewrites sorted DESCENDING, applied left to right -/
def seqApplyDesc (t : List α) (d : List (Rng × List α)) : List α :=
  d.foldl (fun acc p => splice acc p.1 p.2) t

theorem take_splice_of_le (t : List α) (r : Rng) (new : List α) (k : Nat) (h : k ≤ r.s)
    (hs : r.s ≤ t.length) : (splice t r new).take k = t.take k := by
  unfold splice
  rw [List.append_assoc, List.take_append_of_le_length (by simp; omega)]
  rw [List.take_take]; congr 1; omega

theorem drop_take_eq (l : List α) (pos k : Nat) :
    (l.drop pos).take (k - pos) = (l.take k).drop pos := by
  rw [List.drop_take]

theorem chain_last_ge (len : Nat) : ∀ (pos : Nat) (rws : List (Rng × List α)) (r : Rng) (new : List α),
    Chain len pos (rws ++ [(r, new)]) → pos ≤ r.s ∧ r.s ≤ r.e ∧ r.e ≤ len := by
  intro pos rws
  induction rws generalizing pos with
  | nil => intro r new h; simp [Chain] at h; exact ⟨h.1, h.2.1, h.2.2⟩
  | cons p rest ih =>
    intro r new h
    obtain ⟨r1, n1⟩ := p
    simp only [List.cons_append, Chain] at h
    have := ih r1.e r new h.2.2.2
    exact ⟨by omega, this.2.1, this.2.2⟩

theorem parallel_snoc (t : List α) : ∀ (pos : Nat) (rws : List (Rng × List α)) (r : Rng) (new : List α),
    Chain t.length pos (rws ++ [(r, new)]) →
    parallelFrom t pos (rws ++ [(r, new)]) = parallelFrom (splice t r new) pos rws := by
  intro pos rws
  induction rws generalizing pos with
  | nil =>
    intro r new h
    simp only [List.nil_append, Chain, and_true] at h
    simp only [List.nil_append, parallelFrom, splice]
    rw [drop_take_eq]
    rw [List.drop_append_of_le_length (by simp; omega), List.drop_append_of_le_length (by simp; omega)]
  | cons p rest ih =>
    intro r new h
    obtain ⟨r1, n1⟩ := p
    have hlast := chain_last_ge t.length pos ((r1, n1) :: rest) r new h
    simp only [List.cons_append, Chain] at h
    have hlast' := chain_last_ge t.length r1.e rest r new h.2.2.2
    simp only [List.cons_append, parallelFrom]
    rw [ih r1.e r new h.2.2.2]
    congr 2
    rw [drop_take_eq, drop_take_eq, take_splice_of_le t r new r1.s (by omega) (by omega)]

theorem chain_mono {len len' : Nat} (hl : len ≤ len') : ∀ (pos : Nat) (rws : List (Rng × List α)),
    Chain len pos rws → Chain len' pos rws := by
  intro pos rws
  induction rws generalizing pos with
  | nil => intro _; trivial
  | cons p rest ih =>
    intro h; obtain ⟨r1, n1⟩ := p
    simp only [Chain] at h ⊢
    exact ⟨h.1, h.2.1, by omega, ih _ h.2.2.2⟩

theorem chain_prefix (len : Nat) : ∀ (pos : Nat) (rws : List (Rng × List α)) (r : Rng) (new : List α),
    Chain len pos (rws ++ [(r, new)]) → Chain r.s pos rws := by
  intro pos rws
  induction rws generalizing pos with
  | nil => intro _ _ _; trivial
  | cons p rest ih =>
    intro r new h; obtain ⟨r1, n1⟩ := p
    simp only [List.cons_append, Chain] at h ⊢
    have hl := chain_last_ge len r1.e rest r new h.2.2.2
    exact ⟨h.1, h.2.1, by omega, ih _ r new h.2.2.2⟩

theorem splice_length (t : List α) (r : Rng) (new : List α) (h1 : r.s ≤ r.e) (h2 : r.e ≤ t.length) :
    (splice t r new).length = r.s + new.length + (t.length - r.e) := by
  simp [splice]; omega

/-- Descending sequential splicing equals the simultaneous substitution ("reverse-position application
keeps earlier offsets valid"). Insertions at equal positions are allowed by `Chain`. -/
theorem seq_eq_parallel : ∀ (d : List (Rng × List α)) (t : List α),
    Chain t.length 0 d.reverse → seqApplyDesc t d = parallelFrom t 0 d.reverse := by
  intro d
  induction d with
  | nil => intro t _; simp [seqApplyDesc, parallelFrom]
  | cons p d ih =>
    intro t h
    obtain ⟨r, new⟩ := p
    simp only [List.reverse_cons] at h ⊢
    have hl := chain_last_ge t.length 0 d.reverse r new h
    rw [parallel_snoc t 0 d.reverse r new h]
    simp only [seqApplyDesc, List.foldl_cons]
    apply ih (splice t r new)
    apply chain_mono _ 0 d.reverse (chain_prefix t.length 0 d.reverse r new h)
    rw [splice_length t r new hl.2.1 hl.2.2]; omega

/-- every segment of the source that lies between two consecutive rewritten ranges (or before the
first / after the last) occurs verbatim in the simultaneous substitution, in order:
the output is `seg₀ ++ new₁ ++ seg₁ ++ … ++ newₙ ++ segₙ` with `segᵢ` source slices. -/
def untouchedSegments (t : List α) : Nat → List (Rng × List α) → List (List α)
  | pos, [] => [t.drop pos]
  | pos, (r, _) :: rest => (t.drop pos).take (r.s - pos) :: untouchedSegments t r.e rest

def interleave : List (List α) → List (List α) → List α
  | s :: ss, n :: ns => s ++ n ++ interleave ss ns
  | s :: _, [] => s
  | [], _ => []

theorem parallel_eq_interleave (t : List α) : ∀ (pos : Nat) (rws : List (Rng × List α)),
    parallelFrom t pos rws = interleave (untouchedSegments t pos rws) (rws.map (·.2)) := by
  intro pos rws
  induction rws generalizing pos with
  | nil => simp [parallelFrom, untouchedSegments, interleave]
  | cons p rest ih =>
    obtain ⟨r, new⟩ := p
    simp [parallelFrom, untouchedSegments, interleave, ih]

/-! ## text outside every rewritten range survives verbatim -/

/-- `s` occurs in `l` -/
def Occurs (s l : List α) : Prop := ∃ pre post, l = pre ++ s ++ post

theorem occurs_append_left {s l : List α} (m : List α) (h : Occurs s l) : Occurs s (l ++ m) := by
  obtain ⟨pre, post, rfl⟩ := h
  exact ⟨pre, post ++ m, by simp [List.append_assoc]⟩

theorem occurs_append_right {s l : List α} (m : List α) (h : Occurs s l) : Occurs s (m ++ l) := by
  obtain ⟨pre, post, rfl⟩ := h
  exact ⟨m ++ pre, post, by simp [List.append_assoc]⟩

/-- the slice `[a, b)` of `t` occurs in `(t.drop pos).take (k - pos)` when `pos ≤ a ≤ b ≤ k ≤ |t|` -/
theorem slice_occurs_in_segment (t : List α) (pos k a b : Nat) (h1 : pos ≤ a) (h2 : a ≤ b) (h3 : b ≤ k)
    (h4 : k ≤ t.length) : Occurs ((t.drop a).take (b - a)) ((t.drop pos).take (k - pos)) := by
  refine ⟨(t.drop pos).take (a - pos), ((t.drop b).take (k - b)), ?_⟩
  have e1 : (t.drop pos).take (k - pos) =
      (t.drop pos).take (a - pos) ++ ((t.drop pos).drop (a - pos)).take (k - pos - (a - pos)) := by
    have hk : k - pos = (a - pos) + (k - pos - (a - pos)) := by omega
    calc (t.drop pos).take (k - pos)
        = (t.drop pos).take ((a - pos) + (k - pos - (a - pos))) := by rw [← hk]
      _ = _ := by rw [List.take_add]
  rw [e1, List.drop_drop]
  have ha : pos + (a - pos) = a := by omega
  rw [ha]
  have e2 : (t.drop a).take (k - pos - (a - pos)) =
      (t.drop a).take (b - a) ++ ((t.drop a).drop (b - a)).take (k - pos - (a - pos) - (b - a)) := by
    have hk : k - pos - (a - pos) = (b - a) + (k - pos - (a - pos) - (b - a)) := by omega
    calc (t.drop a).take (k - pos - (a - pos))
        = (t.drop a).take ((b - a) + (k - pos - (a - pos) - (b - a))) := by rw [← hk]
      _ = _ := by rw [List.take_add]
  rw [e2, List.drop_drop]
  have hb : a + (b - a) = b := by omega
  have hkb : k - pos - (a - pos) - (b - a) = k - b := by omega
  rw [hb, hkb, List.append_assoc]

/-- **Untouched text is carried over verbatim**: a source slice `[a, b)` that overlaps no rewritten range
occurs in the simultaneous substitution. -/
theorem parallel_untouched (t : List α) : ∀ (rws : List (Rng × List α)) (pos a b : Nat),
    Chain t.length pos rws → pos ≤ a → a ≤ b → b ≤ t.length →
    (∀ p ∈ rws, p.1.e ≤ a ∨ b ≤ p.1.s) →
    Occurs ((t.drop a).take (b - a)) (parallelFrom t pos rws) := by
  intro rws
  induction rws with
  | nil =>
    intro pos a b _ h1 h2 h3 _
    have := slice_occurs_in_segment t pos t.length a b h1 h2 h3 (Nat.le_refl _)
    simpa [parallelFrom, List.take_of_length_le] using this
  | cons p rest ih =>
    intro pos a b hc h1 h2 h3 hno
    obtain ⟨r, new⟩ := p
    simp only [Chain] at hc
    simp only [parallelFrom]
    rcases hno (r, new) (by simp) with h | h
    · -- the slice lies after this rewrite
      apply occurs_append_right
      exact ih r.e a b hc.2.2.2 h h2 h3 (fun q hq => hno q (by simp [hq]))
    · -- the slice lies in the copied segment before this rewrite
      rw [List.append_assoc]
      apply occurs_append_left
      exact slice_occurs_in_segment t pos r.s a b h1 h2 h (by omega)
