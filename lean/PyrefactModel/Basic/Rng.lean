/-!
# Character ranges (`core.Range`)

`core.Range(start, end)` is a half-open interval of character (code point) numbers.
`overlaps` is `self.start < other.end and other.start < self.end`, so an empty range (an insertion
point) overlaps a replacement only strictly inside it and never overlaps another empty range.
-/

structure Rng where
  s : Nat
  e : Nat
deriving DecidableEq, Repr, Inhabited

namespace Rng

def overlaps (a b : Rng) : Bool := decide (a.s < b.e) && decide (b.s < a.e)

/-- tuple order of the `NamedTuple` -/
def lt (a b : Rng) : Bool := decide (a.s < b.s) || (decide (a.s = b.s) && decide (a.e < b.e))
def le (a b : Rng) : Bool := decide (a.s < b.s) || (decide (a.s = b.s) && decide (a.e ≤ b.e))

theorem overlaps_comm (a b : Rng) : a.overlaps b = b.overlaps a := by
  simp [overlaps, Bool.and_comm]

theorem overlaps_iff (a b : Rng) : a.overlaps b = true ↔ a.s < b.e ∧ b.s < a.e := by
  simp [overlaps]

theorem not_overlaps_iff (a b : Rng) : a.overlaps b = false ↔ b.e ≤ a.s ∨ a.e ≤ b.s := by
  simp [overlaps]; omega

/-- an empty range never overlaps an empty range -/
theorem empty_not_overlaps_empty (a b : Rng) (ha : a.s = a.e) (hb : b.s = b.e) :
    a.overlaps b = false := by
  rw [not_overlaps_iff]; omega

/-- a non-empty range overlaps itself -/
theorem overlaps_self (a : Rng) (h : a.s < a.e) : a.overlaps a = true := by
  simp [overlaps, h]

end Rng
