import PyrefactModel.Offsets
/-!
# `core.get_charnos` in full: line table, byte columns, blank trimming, decorator look-behind, `keep_first_indent`

```
if start_position.lineno > len(line_start_charnos): return Range(len(source), len(source))     -- insertion after the last line
start = line_start[first.lineno - 1] + col_to_chars(first);   no end position -> Range(start, start)
end   = line_start[node.end_lineno - 1] + col_to_chars(end)
code = source[start:end]
if code and code[0] == " ":  start += len(leading blanks of code)
if code and code[-1] == " ": end   -= len(trailing blanks of code)
if start > 0 and source[start - 1] == "@" and node is a class / function definition: start -= 1
if keep_first_indent: start -= len(trailing blanks of source[:start])
```
`first` is the node's own position, or that of its first decorator.  Tied by the suite `charnos`: every positioned node of the
test sources, with and without `keep_first_indent`, against the real function (start and end offsets).
-/
namespace Charnos

structure Pos where
  lineno : Nat
  col : Nat            -- UTF-8 byte column, as CPython reports it
  deriving Repr

def isSp (c : Char) : Bool := c = ' '

/-- number of leading characters that satisfy `p` -/
def countLeading (p : Char → Bool) : List Char → Nat
  | [] => 0
  | c :: cs => if p c then 1 + countLeading p cs else 0

/-- `source[a:b]` -/
def slice (s : List Char) (a b : Nat) : List Char := (s.drop a).take (b - a)

structure Raw where
  s0 : Nat
  e0 : Nat

def getCharnos (src : List Char) (first : Pos) (endp : Option Pos) (isDef keepIndent : Bool) : Nat × Nat :=
  let lines := splitLines astBreak src
  if first.lineno > lines.length then (src.length, src.length)
  else
    let s0 := charPos lines first.lineno first.col
    match endp with
    | none => (s0, s0)
    | some e =>
      let e0 := charPos lines e.lineno e.col
      let code := slice src s0 e0
      let s1 := s0 + countLeading isSp code
      let e1 := e0 - countLeading isSp code.reverse
      let s2 := if 0 < s1 && (src.getD (s1 - 1) ' ' == '@') && isDef then s1 - 1 else s1
      let s3 := if keepIndent then s2 - countLeading isSp (src.take s2).reverse else s2
      (s3, e1)

/-! ## the blank trimming -/

theorem countLeading_le (p : Char → Bool) (l : List Char) : countLeading p l ≤ l.length := by
  induction l with
  | nil => simp [countLeading]
  | cons c cs ih => simp only [countLeading]; split <;> simp <;> omega

theorem countLeading_take (p : Char → Bool) (l : List Char) : ∀ c ∈ l.take (countLeading p l), p c = true := by
  induction l with
  | nil => intro c hc; simp at hc
  | cons d ds ih =>
    intro c hc
    simp only [countLeading] at hc
    split at hc
    · rename_i hd
      rw [Nat.add_comm, List.take_succ_cons] at hc
      simp only [List.mem_cons] at hc
      rcases hc with rfl | hc
      · exact hd
      · exact ih c hc
    · simp at hc

theorem countLeading_stop (p : Char → Bool) (l : List Char) (c : Char)
    (h : l[countLeading p l]? = some c) : p c = false := by
  induction l with
  | nil => simp at h
  | cons d ds ih =>
    simp only [countLeading] at h
    split at h
    · rw [Nat.add_comm] at h
      simp only [List.getElem?_cons_succ] at h
      exact ih h
    · rename_i hd
      simp only [List.getElem?_cons_zero, Option.some.injEq] at h
      subst h
      simpa using hd

/-- a text with a non-blank character is not all leading blanks -/
theorem countLeading_lt (p : Char → Bool) (l : List Char) (h : ∃ c ∈ l, p c = false) : countLeading p l < l.length := by
  induction l with
  | nil => obtain ⟨c, hc, _⟩ := h; simp at hc
  | cons d ds ih =>
    simp only [countLeading]
    split
    · rename_i hd
      obtain ⟨c, hc, hpc⟩ := h
      simp only [List.mem_cons] at hc
      rcases hc with rfl | hc
      · rw [hd] at hpc; cases hpc
      · have := ih ⟨c, hc, hpc⟩
        simp only [List.length_cons]; omega
    · simp

/-- the span that survives the trimming of `code`: `[a, b)` relative to the start of `code` -/
def trimSpan (code : List Char) : Nat × Nat :=
  (countLeading isSp code, code.length - countLeading isSp code.reverse)

/-- **Trimming only cuts blanks and stops at the first / last non-blank character**: for a text with a non-blank character
the surviving span is non-empty, what is cut off in front and behind consists of blanks, and the span starts and ends with a
non-blank character. -/
theorem trim_spec (code : List Char) (h : ∃ c ∈ code, isSp c = false) :
    (trimSpan code).1 < (trimSpan code).2 ∧ (trimSpan code).2 ≤ code.length ∧
    (∀ c ∈ code.take (trimSpan code).1, c = ' ') ∧ (∀ c ∈ code.drop (trimSpan code).2, c = ' ') ∧
    (∀ c, code[(trimSpan code).1]? = some c → c ≠ ' ') ∧
    (∀ c, code[(trimSpan code).2 - 1]? = some c → c ≠ ' ') := by
  have hrev : ∃ c ∈ code.reverse, isSp c = false := by
    obtain ⟨c, hc, hp⟩ := h; exact ⟨c, by simpa using hc, hp⟩
  have h1 := countLeading_lt isSp code h
  have h2 := countLeading_lt isSp code.reverse hrev
  simp only [List.length_reverse] at h2
  -- the first non-blank from the left is not behind the first non-blank from the right
  have hcross : countLeading isSp code + countLeading isSp code.reverse < code.length := by
    apply Classical.byContradiction
    intro hge
    -- the character at position `a` is non-blank, but lies in the blank suffix
    have ha : ∃ c, code[countLeading isSp code]? = some c := ⟨code[countLeading isSp code], by simp [h1]⟩
    obtain ⟨c, hc⟩ := ha
    have hnb := countLeading_stop isSp code c hc
    have hin : c ∈ code.reverse.take (countLeading isSp code.reverse) := by
      rw [List.mem_take_iff_getElem]
      refine ⟨code.length - 1 - countLeading isSp code, ?_, ?_⟩
      · simp only [List.length_reverse]; omega
      · rw [List.getElem_reverse]
        have : code.length - 1 - (code.length - 1 - countLeading isSp code) = countLeading isSp code := by omega
        simp only [this]
        rw [List.getElem?_eq_getElem h1] at hc
        exact Option.some.inj hc
    have := countLeading_take isSp code.reverse c hin
    rw [hnb] at this; cases this
  simp only [trimSpan]
  refine ⟨by omega, by omega, ?_, ?_, ?_, ?_⟩
  · intro c hc
    have := countLeading_take isSp code c hc
    simpa [isSp] using this
  · intro c hc
    -- the dropped suffix is the reversed blank prefix of the reversed text
    have hmem : c ∈ code.reverse.take (countLeading isSp code.reverse) := by
      rw [List.mem_drop_iff_getElem] at hc
      obtain ⟨i, hi, rfl⟩ := hc
      rw [List.mem_take_iff_getElem]
      refine ⟨code.length - 1 - (code.length - countLeading isSp code.reverse + i), ?_, ?_⟩
      · simp only [List.length_reverse]; omega
      · rw [List.getElem_reverse]
        congr 1
        omega
    have := countLeading_take isSp code.reverse c hmem
    simpa [isSp] using this
  · intro c hc
    have := countLeading_stop isSp code c hc
    intro hcs; subst hcs; simp [isSp] at this
  · intro c hc
    have hidx : code.reverse[countLeading isSp code.reverse]? = some c := by
      rw [List.getElem?_reverse (by omega)]
      have : code.length - 1 - countLeading isSp code.reverse = code.length - countLeading isSp code.reverse - 1 := by omega
      rw [this]; exact hc
    have := countLeading_stop isSp code.reverse c hidx
    intro hcs; subst hcs; simp [isSp] at this

/-! ## spans lie inside the source, also after trimming and look-behind -/

theorem slice_length_le (s : List Char) (a b : Nat) : (slice s a b).length ≤ b - a := by
  simp [slice, List.length_take]; omega

/-- **The reported range lies inside the text**: for every source, every start / end position on existing lines and every
flag combination, `start ≤ |src|` and `end ≤ |src|` -/
theorem getCharnos_inside (src : List Char) (first : Pos) (endp : Option Pos) (isDef keepIndent : Bool)
    (h1 : 1 ≤ first.lineno)
    (he : ∀ e, endp = some e → 1 ≤ e.lineno ∧ e.lineno ≤ (splitLines astBreak src).length) :
    (getCharnos src first endp isDef keepIndent).1 ≤ src.length ∧ (getCharnos src first endp isDef keepIndent).2 ≤ src.length := by
  unfold getCharnos
  simp only
  split
  · simp
  · rename_i hl
    have hs0 : charPos (splitLines astBreak src) first.lineno first.col ≤ src.length := by
      have := charPos_le (splitLines astBreak src) first.lineno first.col h1 (by omega)
      rwa [splitLines_flatten] at this
    cases endp with
    | none => exact ⟨hs0, hs0⟩
    | some e =>
      obtain ⟨he1, he2⟩ := he e rfl
      have he0 : charPos (splitLines astBreak src) e.lineno e.col ≤ src.length := by
        have := charPos_le (splitLines astBreak src) e.lineno e.col he1 he2
        rwa [splitLines_flatten] at this
      simp only
      generalize charPos (splitLines astBreak src) first.lineno first.col = s0 at *
      generalize charPos (splitLines astBreak src) e.lineno e.col = e0 at *
      have hc := countLeading_le isSp (slice src s0 e0)
      have hl2 := slice_length_le src s0 e0
      have hlen : (slice src s0 e0).length ≤ src.length - s0 := by
        simp [slice, List.length_take]; omega
      constructor
      · split <;> split <;> omega
      · omega

/-- the decorator look-behind moves the start by at most one character, onto an `@` -/
theorem lookbehind_spec (src : List Char) (s1 : Nat) (isDef : Bool) :
    let s2 := if 0 < s1 && (src.getD (s1 - 1) ' ' == '@') && isDef then s1 - 1 else s1
    s2 = s1 ∨ (s2 + 1 = s1 ∧ src.getD s2 ' ' = '@' ∧ isDef = true) := by
  simp only
  split
  · rename_i h
    simp only [Bool.and_eq_true, decide_eq_true_eq, beq_iff_eq] at h
    right; exact ⟨by omega, h.1.2, h.2⟩
  · left; rfl

/-- `keep_first_indent` extends the start over blanks only -/
theorem keepIndent_only_blanks (src : List Char) (s2 : Nat) :
    ∀ c ∈ slice src (s2 - countLeading isSp (src.take s2).reverse) s2, c = ' ' := by
  intro c hc
  have hle := countLeading_le isSp (src.take s2).reverse
  simp only [List.length_reverse, List.length_take] at hle
  -- the slice is the reversed blank prefix of the reversed head
  generalize hn : countLeading isSp (src.take s2).reverse = n at *
  have hmem : c ∈ (src.take s2).reverse.take n := by
    simp only [slice] at hc
    rw [List.mem_take_iff_getElem] at hc
    obtain ⟨i, hi, rfl⟩ := hc
    simp only [List.length_drop] at hi
    have htl : (src.take s2).length = min s2 src.length := List.length_take ..
    rw [List.mem_take_iff_getElem]
    refine ⟨(src.take s2).length - 1 - (s2 - n + i), ?_, ?_⟩
    · simp only [List.length_reverse]; omega
    · rw [List.getElem_reverse, List.getElem_take, List.getElem_drop]
      congr 1
      omega
  have := countLeading_take isSp (src.take s2).reverse c (by rw [hn]; exact hmem)
  simpa [isSp] using this

end Charnos
