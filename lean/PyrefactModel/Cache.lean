/-!
# The memoisation protocol (`functools.lru_cache` on `core.parse`, `core.compile_template`, …)

State: most-recently-used-first association list of at most `cap` entries.  A *rule call* looks the tree
of its source up (or parses it), computes its output from the tree, and may hand back a *different* tree
for the cache slot — this is how in-place mutation of the shared cached object is modelled.
-/

structure LRU (K V : Type) where
  cap : Nat
  entries : List (K × V)
deriving Repr

variable {K V O : Type} [DecidableEq K]

def LRU.lookup (c : LRU K V) (k : K) : Option V := (c.entries.find? (fun p => p.1 == k)).map (·.2)

/-- insert / refresh as most recent, evicting the least recent entry beyond the capacity -/
def LRU.put (c : LRU K V) (k : K) (v : V) : LRU K V :=
  { c with entries := ((k, v) :: c.entries.filter (fun p => p.1 != k)).take c.cap }

/-- `lru_cache`-wrapped `parse`: value, new state, hit? -/
def LRU.get (parse : K → V) (c : LRU K V) (k : K) : V × LRU K V × Bool :=
  match c.lookup k with
  | some v => (v, c.put k v, true)
  | none => (parse k, c.put k (parse k), false)

/-- a rule: from (source, tree) to (output, tree left in the cache slot) -/
abbrev Rule (K V O : Type) := K → V → O × V

/-- one rule call on source `k` -/
def callRule (parse : K → V) (r : Rule K V O) (c : LRU K V) (k : K) : O × LRU K V :=
  let (v, c', _) := c.get parse k
  let (o, v') := r k v
  -- the object in the slot is the one the rule (possibly) mutated
  (o, if c'.cap = 0 then c' else c'.put k v')

def RulePure (r : Rule K V O) : Prop := ∀ k v, (r k v).2 = v

/-- every cached tree is the parse of its key -/
def Faithful (parse : K → V) (c : LRU K V) : Prop := ∀ p ∈ c.entries, p.2 = parse p.1

def WF (c : LRU K V) : Prop := c.entries.length ≤ c.cap ∧ (c.entries.map (·.1)).Nodup

theorem put_wf (c : LRU K V) (k : K) (v : V) (h : WF c) : WF (c.put k v) := by
  obtain ⟨_, hnd⟩ := h
  constructor
  · simp only [LRU.put, List.length_take]; omega
  · simp only [LRU.put]
    have hnd' : (((k, v) :: c.entries.filter (fun p => p.1 != k)).map (·.1)).Nodup := by
      simp only [List.map_cons, List.nodup_cons, List.mem_map, List.mem_filter, not_exists, not_and]
      refine ⟨fun p hp hk => by simp [hk] at hp, ?_⟩
      exact hnd.sublist (List.Sublist.map _ List.filter_sublist)
    exact hnd'.sublist (List.Sublist.map _ (List.take_sublist _ _))

theorem put_faithful (parse : K → V) (c : LRU K V) (k : K) (v : V) (h : Faithful parse c) (hv : v = parse k) :
    Faithful parse (c.put k v) := by
  intro p hp
  simp only [LRU.put] at hp
  have := List.mem_of_mem_take hp
  rcases List.mem_cons.mp this with rfl | hp'
  · exact hv
  · exact h p (List.mem_filter.mp hp').1

theorem lookup_faithful (parse : K → V) (c : LRU K V) (k : K) (v : V) (h : Faithful parse c)
    (hl : c.lookup k = some v) : v = parse k := by
  simp only [LRU.lookup, Option.map_eq_some_iff] at hl
  obtain ⟨p, hp, rfl⟩ := hl
  have hm := List.mem_of_find?_eq_some hp
  have hk := List.find?_some hp
  simp only [beq_iff_eq] at hk
  rw [h p hm, hk]

/-- a pure rule keeps the cache well-formed and faithful, and its output is what it computes from a fresh
parse — whatever the cache held -/
theorem callRule_pure (parse : K → V) (r : Rule K V O) (hr : RulePure r) (c : LRU K V) (k : K)
    (hwf : WF c) (hf : Faithful parse c) :
    (callRule parse r c k).1 = (r k (parse k)).1 ∧ WF (callRule parse r c k).2 ∧
      Faithful parse (callRule parse r c k).2 := by
  have hpure := hr k (parse k)
  unfold callRule LRU.get
  cases hl : c.lookup k with
  | some v =>
    have hv := lookup_faithful parse c k v hf hl
    subst hv
    simp only []
    refine ⟨trivial, ?_, ?_⟩
    · split
      · exact put_wf c k _ hwf
      · exact put_wf _ k _ (put_wf c k _ hwf)
    · split
      · exact put_faithful parse c k _ hf rfl
      · exact put_faithful parse _ k _ (put_faithful parse c k _ hf rfl) hpure
  | none =>
    simp only []
    refine ⟨trivial, ?_, ?_⟩
    · split
      · exact put_wf c k _ hwf
      · exact put_wf _ k _ (put_wf c k _ hwf)
    · split
      · exact put_faithful parse c k _ hf rfl
      · exact put_faithful parse _ k _ (put_faithful parse c k _ hf rfl) hpure

/-- a history: a sequence of rule calls (rule index, source) -/
def runHistory (parse : K → V) (rules : Nat → Rule K V O) (c : LRU K V) : List (Nat × K) → LRU K V
  | [] => c
  | (i, k) :: rest => runHistory parse rules (callRule parse (rules i) c k).2 rest

theorem runHistory_inv (parse : K → V) (rules : Nat → Rule K V O) (hr : ∀ i, RulePure (rules i)) :
    ∀ (h : List (Nat × K)) (c : LRU K V), WF c → Faithful parse c →
      WF (runHistory parse rules c h) ∧ Faithful parse (runHistory parse rules c h) := by
  intro h
  induction h with
  | nil => intro c hw hf; exact ⟨hw, hf⟩
  | cons p rest ih =>
    intro c hw hf
    obtain ⟨i, k⟩ := p
    have := callRule_pure parse (rules i) (hr i) c k hw hf
    exact ih _ this.2.1 this.2.2
