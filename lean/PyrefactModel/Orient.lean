/-!
# `fixes._orelse_preferred_as_body`: which branch of an `if … else …` should come first

```
if all(isinstance(node, ast.Pass) for node in body):   return True
if all(isinstance(node, ast.Pass) for node in orelse): return False
body_blocking / orelse_blocking = any(core.is_blocking(node) …)
if body_blocking and not orelse_blocking: return False
if orelse_blocking and not body_blocking: return True
if orelse_blocking and body_blocking and body_branches >= 2 * orelse_branches: return True
return isinstance(orelse[0], (ast.Return, ast.Continue, ast.Break)) and len(body) > 3
```
A branch is summarised by what the heuristic looks at (measured on the real statements by the suite `orient`).  `swap_if_else`
exchanges the branches when the heuristic prefers the other order; if it preferred *both* orders the rule would exchange them
back and forth on every application — the one place in the rule set where an oscillation would be built in.
-/
namespace Orient

structure Branch where
  allPass : Bool        -- every statement is `pass` (vacuously for an empty branch)
  blocking : Bool       -- some statement is blocking
  branches : Nat        -- 1 + number of `if` statements inside
  firstJump : Bool      -- the first statement is return / continue / break
  len : Nat
  deriving Repr, DecidableEq

def preferOrelse (body orelse : Branch) : Bool :=
  if body.allPass then true
  else if orelse.allPass then false
  else if body.blocking && !orelse.blocking then false
  else if orelse.blocking && !body.blocking then true
  else if orelse.blocking && body.blocking && decide (2 * orelse.branches ≤ body.branches) then true
  else orelse.firstJump && decide (3 < body.len)

/-- summaries of real branches: at least one `if`-free count, and a branch that starts with a jump and has further
statements holds dead code (which `delete_unreachable_code` removes before) -/
structure Sane (b : Branch) : Prop where
  branches_pos : 1 ≤ b.branches
  no_dead_code : b.firstJump = true → b.len ≤ 1
  jump_alone : b.firstJump = true → b.branches = 1      -- … and a lone jump contains no `if`

/-- **The heuristic never prefers both orders**, for branches that are not both `pass`-only and hold no dead code behind a
leading jump: so `swap_if_else` cannot exchange the branches of one `if` back and forth -/
theorem prefer_antisymmetric (b o : Branch) (hb : Sane b) (ho : Sane o) (hpass : ¬ (b.allPass = true ∧ o.allPass = true))
    (h1 : preferOrelse b o = true) : preferOrelse o b = false := by
  have hb1 := hb.branches_pos
  have ho1 := ho.branches_pos
  have hbd := hb.no_dead_code
  have hod := ho.no_dead_code
  have hbj := hb.jump_alone
  have hoj := ho.jump_alone
  unfold preferOrelse at h1 ⊢
  cases hbp : b.allPass <;> cases hop : o.allPass <;> simp_all
  cases hbb : b.blocking <;> cases hob : o.blocking <;> simp_all
  · -- neither branch blocks: only the last clause can prefer
    intro hj; omega
  · -- both block
    rcases h1 with h1 | h1
    · refine ⟨by omega, ?_⟩
      intro hj; have := hbj hj; omega
    · refine ⟨?_, ?_⟩
      · have := hoj h1.1; omega
      · intro hj; have := hbd hj; omega

/-- both hypotheses are needed: two `pass`-only branches, and two branches that start with a jump and carry dead code, are
preferred in both orders (the history of `processing.fix` then cuts the ping-pong after an even number of swaps) -/
theorem prefer_both_counterexamples :
    (preferOrelse ⟨true, false, 1, false, 1⟩ ⟨true, false, 1, false, 1⟩ = true) ∧
    (preferOrelse ⟨false, true, 1, true, 4⟩ ⟨false, true, 1, true, 4⟩ = true) := by decide

end Orient
