import PyrefactModel.Basic.Splice
import PyrefactModel.Basic.Lines
/-!
# The rewrite scheduler: `processing._schedule_rewrites`, `_apply_rewrites`, `fix`, `chain`

The model mirrors the code that exists:

* every yielded tuple increments the default transaction counter (starting at −10⁸); a tuple with an
  explicit transaction number keeps it (`fill`);
* rewrites are grouped by `(group number, transaction number)` (`buildTab`; the group *name* is a
  function of the group number and is left out of the key);
* after the yields of group `g` have been collected, all transactions collected so far are scanned in
  key order and every transaction whose tuple of rewrites equals the tuple of an earlier one in that
  order is deleted (`dupScan`);
* the surviving transactions of group `g` are then visited in key order: rewrites are de-duplicated,
  and the transaction is accepted iff none of its ranges carries an ignore comment, no two of its
  ranges overlap and none overlaps an already accepted rewrite (`accept`);
* the accepted rewrites are finally sorted descending by `(range, new text, transaction)`.
-/

structure Rw where
  r : Rng
  new : String
deriving DecidableEq, Repr

structure Key where
  g : Nat
  t : Int
deriving DecidableEq, Repr

def Key.le (a b : Key) : Bool := decide (a.g < b.g) || (decide (a.g = b.g) && decide (a.t ≤ b.t))
def Key.lt (a b : Key) : Bool := decide (a.g < b.g) || (decide (a.g = b.g) && decide (a.t < b.t))

structure Yield where
  r : Rng
  new : String
  txn : Option Int
deriving Repr

abbrev Tab := List (Key × List Rw)

/-- `fill_transaction` over the yields of group `g`, threading the shared counter -/
def fill (g : Nat) : List Yield → Int → List (Key × Rw) × Int
  | [], c => ([], c)
  | y :: ys, c =>
    let c' := c + 1
    let rest := fill g ys c'
    ((⟨g, y.txn.getD c'⟩, ⟨y.r, y.new⟩) :: rest.1, rest.2)

/-- first-occurrence de-duplication (order of a Python `dict` / `set` of first insertions) -/
def dedup {α : Type} [DecidableEq α] : List α → List α
  | [] => []
  | a :: as => a :: (dedup as).filter (fun b => decide (b ≠ a))

/-- the rewrites yielded under transaction key `k`, in yield order -/
def rwsOf (l : List (Key × Rw)) (k : Key) : List Rw :=
  l.filterMap (fun x => if x.1 = k then some x.2 else none)

/-- `transaction_rewrites[t].append(rewrite)` over all yields of a group: a `defaultdict(list)` keyed by
transaction, i.e. group-by in first-occurrence order -/
def buildTab (l : List (Key × Rw)) : Tab := (dedup (l.map (·.1))).map (fun k => (k, rwsOf l k))

def sortKeys (tab : Tab) : Tab := tab.mergeSort (fun a b => a.1.le b.1)

/-- keys whose rewrite tuple was already seen earlier in the (sorted) scan -/
def dupScan : Tab → List (List Rw) → List Key
  | [], _ => []
  | (k, rws) :: rest, seen =>
    if rws ∈ seen then k :: dupScan rest seen else dupScan rest (rws :: seen)

def rwGe (a b : Rw) : Bool :=
  b.r.lt a.r || (decide (a.r = b.r) && decide (b.new ≤ a.new))

/-- set-dedup of a transaction's rewrites, in a canonical (descending) order -/
def normRws (rws : List Rw) : List Rw := (dedup rws).mergeSort rwGe

def selfConflict : List Rw → Bool
  | [] => false
  | x :: xs => xs.any (fun y => x.r.overlaps y.r) || selfConflict xs

def conflictsWith (acc : List (Key × Rw)) (rws : List Rw) : Bool :=
  rws.any (fun x => acc.any (fun p => x.r.overlaps p.2.r))

def accept (ign : Rng → Bool) (acc : List (Key × Rw)) (p : Key × List Rw) : List (Key × Rw) :=
  let rws := normRws p.2
  if rws.any (fun x => ign x.r) then acc
  else if selfConflict rws || conflictsWith acc rws then acc
  else acc ++ rws.map (fun x => (p.1, x))

structure SchedState where
  /-- surviving transactions of the groups processed so far, in key order -/
  done : Tab
  sched : List (Key × Rw)
  ctr : Int

def groupStep (ign : Rng → Bool) (st : SchedState) (g : Nat) (ys : List Yield) : SchedState :=
  let f := fill g ys st.ctr
  let all := st.done ++ sortKeys (buildTab f.1)
  let dups := dupScan all []
  let all' := all.filter (fun p => !dups.contains p.1)
  { done := all'
    sched := (all'.filter (fun p => p.1.g == g)).foldl (accept ign) st.sched
    ctr := f.2 }

def runGroups (ign : Rng → Bool) : SchedState → Nat → List (List Yield) → SchedState
  | st, _, [] => st
  | st, g, ys :: rest => runGroups ign (groupStep ign st g ys) (g + 1) rest

def initState : SchedState := { done := [], sched := [], ctr := -100000000 }

/-- final order: descending by `(range, new text, transaction)` -/
def finalGe (a b : Key × Rw) : Bool :=
  b.2.r.lt a.2.r ||
    (decide (a.2.r = b.2.r) &&
      (decide (b.2.new < a.2.new) || (decide (a.2.new = b.2.new) && b.1.le a.1)))

def schedule (ign : Rng → Bool) (groups : List (List Yield)) : List (Key × Rw) :=
  (runGroups ign initState 0 groups).sched.mergeSort finalGe

/-! ## applying a schedule (`_apply_rewrites`) -/

/-- `_apply_rewrites` over an abstract single-rewrite function and validity predicate: roll back to the
input when the result is invalid, also after the post-processing `post` (string restoration). -/
def applyRewrites {T : Type} (valid : T → Bool) (doRw : T → Key × Rw → T) (post : T → T → T)
    (src : T) (rws : List (Key × Rw)) : T :=
  let new := rws.foldl doRw src
  if !valid new then src
  else
    let new2 := post src new
    if !valid new2 then src else new2

/-- the pure splice reading of `_do_rewrite` -/
def spliceRw (t : List Char) (p : Key × Rw) : List Char := splice t p.2.r p.2.new.toList

/-- `processing.fix`: history holds only the *initial* text -/
def fixLoop {T : Type} [DecidableEq T] (pass : T → T) : Nat → T → T → T
  | 0, _, cur => cur
  | n + 1, init, cur =>
    let nxt := pass cur
    if nxt = init then nxt else fixLoop pass n init nxt
