import PyrefactModel.Basic.Lines
/-!
# Source positions: `core.get_charnos`, `core._col_offset_to_chars`, `Match._lineno_col_offset`

CPython reports `(lineno, col_offset)` with the column in UTF-8 **bytes** and with lines split at `\n`, `\r`,
`\r\n` only.  Character offsets are obtained by converting the byte column on its line and adding the
character offset of the line start.
-/

/-- number of leading characters of `line` whose UTF-8 encoding fits into `col` bytes
(`line.encode()[:col].decode(errors="ignore")`) -/
def byteColToChar : List Char → Nat → Nat
  | [], _ => 0
  | c :: cs, col => if c.utf8Size ≤ col then 1 + byteColToChar cs (col - c.utf8Size) else 0

def utf8Bytes (l : List Char) : Nat := (l.map Char.utf8Size).sum

/-- character offset of `(lineno, byte column)` -/
def charPos (lines : List (List Char)) (lineno col : Nat) : Nat :=
  (lines.take (lineno - 1)).flatten.length + byteColToChar (lines.getD (lineno - 1) []) col

theorem byteColToChar_le (l : List Char) (col : Nat) : byteColToChar l col ≤ l.length := by
  induction l generalizing col with
  | nil => simp [byteColToChar]
  | cons c cs ih =>
    simp only [byteColToChar]
    split
    · have := ih (col - c.utf8Size); simp; omega
    · simp

/-- at a character boundary the conversion is exact: the byte length of the first `k` characters maps to `k` -/
theorem byteColToChar_boundary (l : List Char) (k : Nat) (hk : k ≤ l.length) :
    byteColToChar l (utf8Bytes (l.take k)) = k := by
  induction l generalizing k with
  | nil => simp at hk; subst hk; simp [byteColToChar, utf8Bytes]
  | cons c cs ih =>
    cases k with
    | zero =>
      simp only [List.take_zero, utf8Bytes, List.map_nil, List.sum_nil, byteColToChar]
      have : 0 < c.utf8Size := Char.utf8Size_pos c
      split
      · omega
      · rfl
    | succ k =>
      simp only [List.take_succ_cons, utf8Bytes, List.map_cons, List.sum_cons, byteColToChar]
      have hle : c.utf8Size ≤ c.utf8Size + (List.map Char.utf8Size (List.take k cs)).sum := Nat.le_add_right _ _
      rw [if_pos hle, Nat.add_sub_cancel_left]
      have := ih k (by simpa using hk)
      unfold utf8Bytes at this
      omega

/-- ASCII lines: bytes are characters -/
theorem byteColToChar_ascii (l : List Char) (h : ∀ c ∈ l, c.utf8Size = 1) (col : Nat) (hc : col ≤ l.length) :
    byteColToChar l col = col := by
  induction l generalizing col with
  | nil => simp at hc; subst hc; simp [byteColToChar]
  | cons c cs ih =>
    simp only [byteColToChar]
    have h1 := h c (by simp)
    cases col with
    | zero => simp [h1]
    | succ col =>
      rw [h1, if_pos (by omega)]
      have := ih (fun x hx => h x (by simp [hx])) col (by simpa using hc)
      rw [Nat.add_sub_cancel, this]; omega

theorem take_flatten_length_le (lines : List (List Char)) (n : Nat) :
    (lines.take n).flatten.length ≤ lines.flatten.length := by
  induction lines generalizing n with
  | nil => simp
  | cons l ls ih =>
    cases n with
    | zero => simp
    | succ n => simp only [List.take_succ_cons, List.flatten_cons, List.length_append]; have := ih n; omega

/-- **Spans lie inside the source**: a position on an existing line is at most the length of the text -/
theorem charPos_le (lines : List (List Char)) (lineno col : Nat) (h1 : 1 ≤ lineno) (h2 : lineno ≤ lines.length) :
    charPos lines lineno col ≤ lines.flatten.length := by
  unfold charPos
  obtain ⟨n, rfl⟩ : ∃ n, lineno = n + 1 := ⟨lineno - 1, by omega⟩
  simp only [Nat.add_sub_cancel]
  have hlt : n < lines.length := by omega
  have hsplit : lines.flatten = (lines.take n).flatten ++ (lines[n] ++ (lines.drop (n + 1)).flatten) := by
    conv => lhs; rw [← List.take_append_drop n lines]
    rw [List.flatten_append, List.drop_eq_getElem_cons hlt, List.flatten_cons]
  have hget : lines.getD n [] = lines[n] := by simp [List.getD, hlt]
  rw [hget, hsplit]
  have := byteColToChar_le lines[n] col
  simp only [List.length_append]
  omega

/-! ## `Match._lineno_col_offset`: from a character offset back to (line, column) -/

/-- scan `line_start_charnos[1:]` for the first start beyond `p` -/
def linenoColFrom : Nat → Nat → List Nat → Nat → Nat × Nat
  | ln, prev, [], p => (ln, p - prev)
  | ln, prev, st :: rest, p => if p < st then (ln, p - prev) else linenoColFrom (ln + 1) st rest p

def linenoCol (starts : List Nat) (p : Nat) : Nat × Nat :=
  match starts with
  | [] => (0, p)
  | s0 :: rest => linenoColFrom 1 s0 rest p

/-- **Round trip**: for ascending line starts the reported (line, column) addresses `p` again, the line is
the one containing `p`, and the column is counted from that line's start. -/
theorem linenoColFrom_spec : ∀ (rest : List Nat) (ln prev p : Nat), prev ≤ p →
    (prev :: rest).Pairwise (· ≤ ·) →
    let r := linenoColFrom ln prev rest p
    ln ≤ r.1 ∧ r.1 - ln ≤ rest.length ∧
      (prev :: rest).getD (r.1 - ln) 0 + r.2 = p ∧
      (∀ st, (prev :: rest)[r.1 - ln + 1]? = some st → p < st) := by
  intro rest
  induction rest with
  | nil => intro ln prev p hp _; simp [linenoColFrom]; omega
  | cons st rest ih =>
    intro ln prev p hp hs
    simp only [linenoColFrom]
    split
    · rename_i hlt
      simp only [Nat.sub_self, List.getD_cons_zero, Nat.zero_le, true_and, Nat.le_refl]
      refine ⟨by omega, ?_⟩
      intro s hs'
      simp at hs'
      omega
    · rename_i hge
      have hs2 : (st :: rest).Pairwise (· ≤ ·) := (List.pairwise_cons.mp hs).2
      have := ih (ln + 1) st p (by omega) hs2
      simp only [] at this ⊢
      obtain ⟨h1, h2, h3, h4⟩ := this
      generalize linenoColFrom (ln + 1) st rest p = r at *
      have hk : r.1 - ln = (r.1 - (ln + 1)) + 1 := by omega
      refine ⟨by omega, by simp; omega, ?_, ?_⟩
      · rw [hk]; simpa using h3
      · intro s hs'
        rw [hk] at hs'
        exact h4 s (by simpa using hs')
