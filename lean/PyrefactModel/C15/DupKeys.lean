/-!
# `fixes.remove_duplicate_dict_keys` and `fixes.remove_duplicate_set_elts`

A dict display `{k₁: v₁, …}` is a list of pairs; a key is either a constant (`some c`, constants that compare equal get
the same `c`) or an arbitrary expression (`none`, never touched by the rules).  `build` is what Python does: a key that
is already present keeps its position and gets the new value.  The rule keeps, for every constant key, the LAST pair
(`keepLast`).  What holds: every key is looked up to the same value before and after (`keepLast_lookup`).  What does
not hold: the order of the items (`order_counterexample` — recorded finding `dict-duplicate-key-order`).
For sets the rule keeps the FIRST occurrence, which is what Python does (`keepFirst_build`).
-/
namespace C15

/-- insert or overwrite in place (Python `dict.__setitem__` on an insertion-ordered dict) -/
def put {κ ν : Type} [DecidableEq κ] (k : κ) (v : ν) : List (κ × ν) → List (κ × ν)
  | [] => [(k, v)]
  | (k', v') :: rest => if k' = k then (k, v) :: rest else (k', v') :: put k v rest

/-- evaluate a display of constant keys left to right -/
def build {κ ν : Type} [DecidableEq κ] (l : List (κ × ν)) : List (κ × ν) :=
  l.foldl (fun d p => put p.1 p.2 d) []

/-- the rule: a pair is kept iff no later pair has the same key -/
def keepLast {κ ν : Type} [DecidableEq κ] : List (κ × ν) → List (κ × ν)
  | [] => []
  | p :: rest => if rest.any (fun q => q.1 = p.1) then keepLast rest else p :: keepLast rest

theorem lookup_put {κ ν : Type} [DecidableEq κ] (k k' : κ) (v : ν) (d : List (κ × ν)) :
    (put k v d).lookup k' = if k' = k then some v else d.lookup k' := by
  induction d with
  | nil =>
    by_cases h : k' = k
    · simp [put, List.lookup, h]
    · have : (k' == k) = false := by simp [h]
      simp [put, List.lookup, this, h]
  | cons p rest ih =>
    obtain ⟨k0, v0⟩ := p
    by_cases h0 : k0 = k
    · subst h0
      by_cases h : k' = k0
      · simp [put, List.lookup, h]
      · have : (k' == k0) = false := by simp [h]
        simp [put, List.lookup, this, h]
    · simp only [put, if_neg h0, List.lookup]
      by_cases h1 : k' = k0
      · have hk : k' ≠ k := by rw [h1]; exact h0
        simp [h1, hk, h0]
      · have : (k' == k0) = false := by simp [h1]
        simp only [this]
        exact ih

/-- the last pair with a key decides what the key is looked up to -/
def lastVal {κ ν : Type} [DecidableEq κ] (k : κ) : List (κ × ν) → Option ν
  | [] => none
  | p :: rest => match lastVal k rest with
    | some v => some v
    | none => if p.1 = k then some p.2 else none

theorem lookup_foldl {κ ν : Type} [DecidableEq κ] (k : κ) : ∀ (l : List (κ × ν)) (d : List (κ × ν)),
    (l.foldl (fun d p => put p.1 p.2 d) d).lookup k = (match lastVal k l with | some v => some v | none => d.lookup k)
  | [], d => by simp [lastVal]
  | p :: rest, d => by
    simp only [List.foldl_cons, lastVal]
    rw [lookup_foldl k rest (put p.1 p.2 d)]
    cases h : lastVal k rest with
    | some v => simp
    | none =>
      simp only [lookup_put]
      by_cases hk : p.1 = k
      · simp [hk]
      · have : ¬ k = p.1 := fun e => hk e.symm
        simp [hk, this]

theorem lookup_build {κ ν : Type} [DecidableEq κ] (k : κ) (l : List (κ × ν)) : (build l).lookup k = lastVal k l := by
  unfold build
  rw [lookup_foldl]
  cases lastVal k l <;> simp [List.lookup]

theorem lastVal_none_of_not_mem {κ ν : Type} [DecidableEq κ] (k : κ) : ∀ (l : List (κ × ν)),
    l.any (fun q => q.1 = k) = false → lastVal k l = none
  | [], _ => rfl
  | p :: rest, h => by
    simp only [List.any_cons, Bool.or_eq_false_iff, decide_eq_false_iff_not] at h
    simp [lastVal, lastVal_none_of_not_mem k rest h.2, h.1]

theorem lastVal_some_of_mem {κ ν : Type} [DecidableEq κ] (k : κ) : ∀ (l : List (κ × ν)),
    l.any (fun q => q.1 = k) = true → ∃ v, lastVal k l = some v
  | [], h => by simp at h
  | p :: rest, h => by
    simp only [lastVal]
    cases hr : lastVal k rest with
    | some v => exact ⟨v, rfl⟩
    | none =>
      simp only [List.any_cons, Bool.or_eq_true, decide_eq_true_eq] at h
      rcases h with h | h
      · exact ⟨p.2, by simp [h]⟩
      · obtain ⟨v, hv⟩ := lastVal_some_of_mem k rest h
        rw [hv] at hr; cases hr

theorem lastVal_keepLast {κ ν : Type} [DecidableEq κ] (k : κ) : ∀ (l : List (κ × ν)), lastVal k (keepLast l) = lastVal k l
  | [] => rfl
  | p :: rest => by
    simp only [keepLast]
    split
    · rename_i hdup
      rw [lastVal_keepLast k rest]
      simp only [lastVal]
      cases hr : lastVal k rest with
      | some v => rfl
      | none =>
        by_cases hk : p.1 = k
        · -- a later pair has the key p.1 = k, so lastVal k rest is not none
          subst hk
          obtain ⟨v, hv⟩ := lastVal_some_of_mem p.1 rest hdup
          rw [hv] at hr; cases hr
        · simp [hk]
    · simp only [lastVal, lastVal_keepLast k rest]

/-- **what holds**: every key is looked up to the same value in the dict built from the rule's output -/
theorem keepLast_lookup {κ ν : Type} [DecidableEq κ] (l : List (κ × ν)) (k : κ) :
    (build (keepLast l)).lookup k = (build l).lookup k := by
  rw [lookup_build, lookup_build, lastVal_keepLast]

/-- **what does not hold**: `{'k': 1, 'j': 2, 'k': 3}` iterates k, j; the rule's `{'j': 2, 'k': 3}` iterates j, k -/
theorem order_counterexample :
    (build (keepLast [(0, 1), (1, 2), (0, 3)])).map (·.1) ≠ (build [(0, 1), (1, 2), (0, 3)]).map (·.1) := by
  decide

/-! sets: the first occurrence stays, as in Python -/

def putS {κ : Type} [DecidableEq κ] (k : κ) (d : List κ) : List κ := if k ∈ d then d else d ++ [k]
def buildS {κ : Type} [DecidableEq κ] (l : List κ) : List κ := l.foldl (fun d k => putS k d) []
/-- the rule: an element is kept iff it did not occur before -/
def keepFirst {κ : Type} [DecidableEq κ] : List κ → List κ → List κ
  | _, [] => []
  | seen, k :: rest => if k ∈ seen then keepFirst seen rest else k :: keepFirst (k :: seen) rest

theorem foldl_putS {κ : Type} [DecidableEq κ] : ∀ (l d : List κ),
    l.foldl (fun d k => putS k d) d = d ++ keepFirst d l
  | [], d => by simp [keepFirst]
  | k :: rest, d => by
    simp only [List.foldl_cons, keepFirst]
    by_cases h : k ∈ d
    · have hp : putS k d = d := by simp [putS, h]
      rw [hp]; simp only [h, if_true]; exact foldl_putS rest d
    · have hp : putS k d = d ++ [k] := by simp [putS, h]
      rw [hp]; simp only [h, if_false]
      rw [foldl_putS rest (d ++ [k])]
      have hk : ∀ (s s' : List κ), (∀ x, x ∈ s ↔ x ∈ s') → keepFirst s rest = keepFirst s' rest := by
        intro s s' hs
        induction rest generalizing s s' with
        | nil => rfl
        | cons y ys ih =>
          simp only [keepFirst]
          by_cases hy : y ∈ s
          · simp only [hy, (hs y).1 hy, if_true]; exact ih s s' hs
          · have hy' : y ∉ s' := fun h' => hy ((hs y).2 h')
            simp only [hy, hy', if_false]
            congr 1
            exact ih (y :: s) (y :: s') (by intro x; simp [hs x])
      rw [hk (d ++ [k]) (k :: d) (by intro x; simp [or_comm])]
      simp

/-- the elements the rule keeps, in their order, are exactly the set Python builds -/
theorem keepFirst_build {κ : Type} [DecidableEq κ] (l : List κ) : buildS l = keepFirst [] l := by
  unfold buildS; rw [foldl_putS]; simp

end C15
