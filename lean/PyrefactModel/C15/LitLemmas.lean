import PyrefactModel.C15.Lit
/-! # Environment independence of successful name-free evaluation -/
namespace C15

abbrev noEnv : Env := fun _ => Option.none

mutual
theorem ev_mono (env : Env) : ∀ (e : Expr) (v : Val), ev true noEnv e = .ok v → ev false env e = .ok v
  | .int n, v, h => by simpa [ev] using h
  | .bool b, v, h => by simpa [ev] using h
  | .none, v, h => by simpa [ev] using h
  | .str s, v, h => by simpa [ev] using h
  | .name id, v, h => by simp [ev, noEnv] at h
  | .tuple es, v, h => by
    simp only [ev] at h ⊢
    split at h
    · cases h
    simp only [Bool.false_and, Bool.false_eq_true, if_false]
    cases hl : evList true noEnv es with
    | ok vs => rw [hl] at h; rw [evList_mono env es vs hl]; exact h
    | err => rw [hl] at h; cases h
    | unk => rw [hl] at h; cases h
    | oof => rw [hl] at h; cases h
  | .list es, v, h => by
    simp only [ev] at h ⊢
    split at h
    · cases h
    simp only [Bool.false_and, Bool.false_eq_true, if_false]
    cases hl : evList true noEnv es with
    | ok vs => rw [hl] at h; rw [evList_mono env es vs hl]; exact h
    | err => rw [hl] at h; cases h
    | unk => rw [hl] at h; cases h
    | oof => rw [hl] at h; cases h
  | .not e, v, h => by
    simp only [ev] at h ⊢
    cases he : ev true noEnv e with
    | ok w => rw [he] at h; rw [ev_mono env e w he]; exact h
    | err => rw [he] at h; cases h
    | unk => rw [he] at h; cases h
    | oof => rw [he] at h; cases h
  | .neg e, v, h => by
    simp only [ev] at h ⊢
    split at h
    · cases h
    simp only [Bool.false_and, Bool.false_eq_true, if_false]
    cases he : ev true noEnv e with
    | ok w => rw [he] at h; rw [ev_mono env e w he]; exact h
    | err => rw [he] at h; cases h
    | unk => rw [he] at h; cases h
    | oof => rw [he] at h; cases h
  | .bin op l r, v, h => by
    simp only [ev] at h ⊢
    cases hl : ev true noEnv l with
    | ok a =>
      rw [hl] at h
      cases hr : ev true noEnv r with
      | ok b => rw [hr] at h; rw [ev_mono env l a hl, ev_mono env r b hr]; exact h
      | err => rw [hr] at h; cases h
      | unk => rw [hr] at h; cases h
      | oof => rw [hr] at h; cases h
    | err => rw [hl] at h; cases h
    | unk => rw [hl] at h; cases h
    | oof => rw [hl] at h; cases h
  | .cmp first ops rest, v, h => by
    simp only [ev] at h ⊢
    cases hf : ev true noEnv first with
    | ok a =>
      rw [hf] at h
      dsimp only at h
      cases hc : evChain true noEnv a ops rest with
      | ok b => rw [hc] at h; rw [ev_mono env first a hf]; dsimp only; rw [evChain_mono env rest ops a b hc]; exact h
      | err => rw [hc] at h; cases h
      | unk => rw [hc] at h; cases h
      | oof => rw [hc] at h; cases h
    | err => rw [hf] at h; cases h
    | unk => rw [hf] at h; cases h
    | oof => rw [hf] at h; cases h
  | .and es, v, h => by simp only [ev] at h ⊢; exact evAnd_mono env es v h
  | .or es, v, h => by simp only [ev] at h ⊢; exact evOr_mono env es v h
  | .call f args, v, h => by
    simp only [ev] at h ⊢
    cases hl : evList true noEnv args with
    | ok vs => rw [hl] at h; rw [evList_mono env args vs hl]; exact h
    | err => rw [hl] at h; cases h
    | unk => rw [hl] at h; cases h
    | oof => rw [hl] at h; cases h
  | .othercall _ _, v, h => by simp [ev] at h
theorem evList_mono (env : Env) : ∀ (es : List Expr) (vs : List Val),
    evList true noEnv es = .ok vs → evList false env es = .ok vs
  | [], vs, h => by simpa [evList] using h
  | e :: es, vs, h => by
    simp only [evList] at h ⊢
    cases he : ev true noEnv e with
    | ok w =>
      rw [he] at h
      cases hl : evList true noEnv es with
      | ok ws => rw [hl] at h; rw [ev_mono env e w he, evList_mono env es ws hl]; exact h
      | err => rw [hl] at h; cases h
      | unk => rw [hl] at h; cases h
      | oof => rw [hl] at h; cases h
    | err => rw [he] at h; cases h
    | unk => rw [he] at h; cases h
    | oof => rw [he] at h; cases h
theorem evChain_mono (env : Env) : ∀ (es : List Expr) (ops : List CmpOp) (left : Val) (b : Bool),
    evChain true noEnv left ops es = .ok b → evChain false env left ops es = .ok b
  | [], [], left, b, h => by simpa [evChain] using h
  | [], _ :: _, left, b, h => by simp [evChain] at h
  | _ :: _, [], left, b, h => by simp [evChain] at h
  | e :: es, op :: ops, left, b, h => by
    simp only [evChain] at h ⊢
    cases he : ev true noEnv e with
    | ok w =>
      rw [he] at h; rw [ev_mono env e w he]
      dsimp only at h ⊢
      cases hc : cmpop op left w with
      | ok t =>
        rw [hc] at h
        cases t with
        | true => dsimp only at h ⊢; exact evChain_mono env es ops w b h
        | false => exact h
      | err => rw [hc] at h; cases h
      | unk => rw [hc] at h; cases h
      | oof => rw [hc] at h; cases h
    | err => rw [he] at h; cases h
    | unk => rw [he] at h; cases h
    | oof => rw [he] at h; cases h
theorem evAnd_mono (env : Env) : ∀ (es : List Expr) (v : Val), evAnd true noEnv es = .ok v → evAnd false env es = .ok v
  | [], v, h => by simp [evAnd] at h
  | [e], v, h => by simp only [evAnd] at h ⊢; exact ev_mono env e v h
  | e :: e2 :: es, v, h => by
    simp only [evAnd] at h ⊢
    cases he : ev true noEnv e with
    | ok w =>
      rw [he] at h; rw [ev_mono env e w he]
      dsimp only at h ⊢
      by_cases ht : w.truthy = true
      · simp only [ht, if_true] at h ⊢; exact evAnd_mono env (e2 :: es) v h
      · simp only [ht] at h ⊢; exact h
    | err => rw [he] at h; cases h
    | unk => rw [he] at h; cases h
    | oof => rw [he] at h; cases h
theorem evOr_mono (env : Env) : ∀ (es : List Expr) (v : Val), evOr true noEnv es = .ok v → evOr false env es = .ok v
  | [], v, h => by simp [evOr] at h
  | [e], v, h => by simp only [evOr] at h ⊢; exact ev_mono env e v h
  | e :: e2 :: es, v, h => by
    simp only [evOr] at h ⊢
    cases he : ev true noEnv e with
    | ok w =>
      rw [he] at h; rw [ev_mono env e w he]
      dsimp only at h ⊢
      by_cases ht : w.truthy = true
      · simp only [ht, if_true] at h ⊢; exact h
      · simp only [ht] at h ⊢; exact evOr_mono env (e2 :: es) v h
    | err => rw [he] at h; cases h
    | unk => rw [he] at h; cases h
    | oof => rw [he] at h; cases h
end

end C15
