/-!
# `fixes.remove_redundant_boolop_values`

An `and` / `or` chain is a list of operands; for each operand the rule knows (`some b`) or does not know (`none`) its
truth value (`literal_value`).  `keepAnd` / `keepOr` say which operands the rule keeps (tie: suite `boolop`, all masks up
to length 6).  Python's `and` returns the first falsy operand, else the last one; `or` the first truthy one, else the
last.  `keepAnd_sound` / `keepOr_sound`: the kept operands evaluate to the same *value* (not only the same truth value)
as the whole chain, whatever the unknown operands are.
-/
namespace C15

/-- `a and b and …`: the first falsy operand, else the last one (`none` only for the empty chain) -/
def evalAnd {α : Type} (truthy : α → Bool) : List α → Option α
  | [] => none
  | [v] => some v
  | v :: w :: rest => if truthy v then evalAnd truthy (w :: rest) else some v

/-- `a or b or …`: the first truthy operand, else the last one -/
def evalOr {α : Type} (truthy : α → Bool) : List α → Option α
  | [] => none
  | [v] => some v
  | v :: w :: rest => if truthy v then some v else evalOr truthy (w :: rest)

/-- operands kept in an `and` chain: a known-truthy operand that is not the last one is dropped; after a known-falsy
operand that is not the last one everything is dropped -/
def keepAnd {α : Type} : List (Option Bool × α) → List α
  | [] => []
  | [(_, v)] => [v]
  | (m, v) :: w :: rest =>
    match m with
    | some false => [v]
    | some true => keepAnd (w :: rest)
    | none => v :: keepAnd (w :: rest)

/-- operands kept in an `or` chain: a known-falsy operand that is not the last one is dropped; a known-truthy operand
directly after a known-truthy one is dropped (`prev` = the preceding operand of the original chain is known truthy) -/
def keepOr {α : Type} : Bool → List (Option Bool × α) → List α
  | _, [] => []
  | prev, [(m, v)] => if prev && m == some true then [] else [v]
  | prev, (m, v) :: w :: rest =>
    match m with
    | some false => keepOr false (w :: rest)
    | some true => if prev then keepOr true (w :: rest) else v :: keepOr true (w :: rest)
    | none => v :: keepOr false (w :: rest)

/-- the known truth values are right -/
def Consistent {α : Type} (truthy : α → Bool) (l : List (Option Bool × α)) : Prop :=
  ∀ p ∈ l, ∀ b, p.1 = some b → truthy p.2 = b

theorem Consistent.tail {α : Type} {truthy : α → Bool} {p : Option Bool × α} {l : List (Option Bool × α)}
    (h : Consistent truthy (p :: l)) : Consistent truthy l :=
  fun q hq b hb => h q (List.mem_cons_of_mem _ hq) b hb

/-- a non-empty `and` chain keeps at least one operand -/
theorem keepAnd_ne_nil {α : Type} : ∀ (l : List (Option Bool × α)), l ≠ [] → keepAnd l ≠ []
  | [], h => absurd rfl h
  | [(_, v)], _ => by simp [keepAnd]
  | (m, v) :: w :: rest, _ => by
    cases m with
    | none => simp [keepAnd]
    | some b =>
      cases b with
      | false => simp [keepAnd]
      | true => simpa [keepAnd] using keepAnd_ne_nil (w :: rest) (by simp)

/-- a non-empty `or` chain whose predecessor is not known truthy keeps at least one operand -/
theorem keepOr_ne_nil {α : Type} : ∀ (l : List (Option Bool × α)), l ≠ [] → keepOr false l ≠ []
  | [], h => absurd rfl h
  | [(m, v)], _ => by simp [keepOr]
  | (m, v) :: w :: rest, _ => by
    cases m with
    | none => simp [keepOr]
    | some b =>
      cases b with
      | false => simpa [keepOr] using keepOr_ne_nil (w :: rest) (by simp)
      | true => simp [keepOr]

theorem keepAnd_sound {α : Type} (truthy : α → Bool) :
    ∀ (l : List (Option Bool × α)), Consistent truthy l → evalAnd truthy (keepAnd l) = evalAnd truthy (l.map (·.2))
  | [], _ => rfl
  | [(_, v)], _ => rfl
  | (m, v) :: w :: rest, h => by
    have ih := keepAnd_sound truthy (w :: rest) h.tail
    cases m with
    | none =>
      simp only [keepAnd, List.map_cons]
      -- the kept tail is non-empty exactly like the original tail; unfold one step on both sides
      cases hk : keepAnd (w :: rest) with
      | nil => exact absurd hk (keepAnd_ne_nil (w :: rest) (by simp))
      | cons k ks =>
        rw [hk] at ih
        simp only [evalAnd]
        split
        · simpa [List.map_cons] using ih
        · rfl
    | some b =>
      have hv : truthy v = b := h (some b, v) (by simp) b rfl
      cases b with
      | false => simp [keepAnd, evalAnd, hv]
      | true =>
        simp only [keepAnd, List.map_cons, evalAnd, hv, if_true]
        simpa [List.map_cons] using ih

/-- `or` chains: the invariant carries the value of the preceding known-truthy operand -/
theorem keepOr_sound {α : Type} (truthy : α → Bool) :
    ∀ (l : List (Option Bool × α)) (prev : Bool), Consistent truthy l →
      -- when the preceding operand is known truthy the chain from here on is never reached; otherwise it evaluates alike
      prev = false → evalOr truthy (keepOr prev l) = evalOr truthy (l.map (·.2))
  | [], _, _, _ => rfl
  | [(m, v)], prev, _, hp => by subst hp; simp [keepOr]
  | (m, v) :: w :: rest, prev, h, hp => by
    subst hp
    cases m with
    | none =>
      have ih := keepOr_sound truthy (w :: rest) false h.tail rfl
      simp only [keepOr, List.map_cons]
      cases hk : keepOr false (w :: rest) with
      | nil => exact absurd hk (keepOr_ne_nil (w :: rest) (by simp))
      | cons k ks =>
        rw [hk] at ih
        simp only [evalOr]
        split
        · rfl
        · simpa [List.map_cons] using ih
    | some b =>
      have hv : truthy v = b := h (some b, v) (by simp) b rfl
      cases b with
      | false =>
        have ih := keepOr_sound truthy (w :: rest) false h.tail rfl
        simp only [keepOr, List.map_cons, evalOr, hv]
        simpa [List.map_cons] using ih
      | true =>
        -- v is kept and truthy: both sides return v, whatever is kept of the rest
        simp only [keepOr, List.map_cons, evalOr, hv, if_true]
        cases hk : keepOr true (w :: rest) with
        | nil => simp [evalOr]
        | cons k ks => simp [evalOr, hv]


/-! ## the rule is a `processing.fix` rule: the pass is repeated (up to `fuel` times) on what it kept -/

/-- one pass, keeping the truth-value annotations of the kept operands -/
def passAnd {α : Type} (l : List (Option Bool × α)) : List (Option Bool × α) :=
  keepAnd (l.map (fun p => (p.1, p)))
def passOr {α : Type} (l : List (Option Bool × α)) : List (Option Bool × α) :=
  keepOr false (l.map (fun p => (p.1, p)))

theorem keepAnd_mem {α : Type} : ∀ (l : List (Option Bool × α)) (x : α), x ∈ keepAnd l → ∃ m, (m, x) ∈ l
  | [], x, h => by simp [keepAnd] at h
  | [(m, v)], x, h => by simp [keepAnd] at h; exact ⟨m, by simp [h]⟩
  | (m, v) :: w :: rest, x, h => by
    cases m with
    | none =>
      simp only [keepAnd, List.mem_cons] at h
      rcases h with h | h
      · exact ⟨none, by simp [h]⟩
      · obtain ⟨m', hm⟩ := keepAnd_mem (w :: rest) x h
        exact ⟨m', List.mem_cons_of_mem _ hm⟩
    | some b =>
      cases b with
      | false => simp [keepAnd] at h; exact ⟨some false, by simp [h]⟩
      | true =>
        simp only [keepAnd] at h
        obtain ⟨m', hm⟩ := keepAnd_mem (w :: rest) x h
        exact ⟨m', List.mem_cons_of_mem _ hm⟩

theorem keepOr_mem {α : Type} : ∀ (l : List (Option Bool × α)) (prev : Bool) (x : α), x ∈ keepOr prev l → ∃ m, (m, x) ∈ l
  | [], _, x, h => by simp [keepOr] at h
  | [(m, v)], prev, x, h => by
    simp only [keepOr] at h
    split at h
    · simp at h
    · simp at h; exact ⟨m, by simp [h]⟩
  | (m, v) :: w :: rest, prev, x, h => by
    cases m with
    | none =>
      simp only [keepOr, List.mem_cons] at h
      rcases h with h | h
      · exact ⟨none, by simp [h]⟩
      · obtain ⟨m', hm⟩ := keepOr_mem (w :: rest) false x h
        exact ⟨m', List.mem_cons_of_mem _ hm⟩
    | some b =>
      cases b with
      | false =>
        simp only [keepOr] at h
        obtain ⟨m', hm⟩ := keepOr_mem (w :: rest) false x h
        exact ⟨m', List.mem_cons_of_mem _ hm⟩
      | true =>
        simp only [keepOr] at h
        split at h
        · obtain ⟨m', hm⟩ := keepOr_mem (w :: rest) true x h
          exact ⟨m', List.mem_cons_of_mem _ hm⟩
        · simp only [List.mem_cons] at h
          rcases h with h | h
          · exact ⟨some true, by simp [h]⟩
          · obtain ⟨m', hm⟩ := keepOr_mem (w :: rest) true x h
            exact ⟨m', List.mem_cons_of_mem _ hm⟩

theorem passAnd_sub {α : Type} (l : List (Option Bool × α)) : ∀ p ∈ passAnd l, p ∈ l := by
  intro p hp
  obtain ⟨m, hm⟩ := keepAnd_mem _ p hp
  simp only [List.mem_map] at hm
  obtain ⟨q, hq, he⟩ := hm
  cases he; exact hq

theorem passOr_sub {α : Type} (l : List (Option Bool × α)) : ∀ p ∈ passOr l, p ∈ l := by
  intro p hp
  obtain ⟨m, hm⟩ := keepOr_mem _ false p hp
  simp only [List.mem_map] at hm
  obtain ⟨q, hq, he⟩ := hm
  cases he; exact hq

/-- evaluation through the annotated operands -/
theorem passAnd_sound {α : Type} (truthy : α → Bool) (l : List (Option Bool × α)) (h : Consistent truthy l) :
    evalAnd truthy ((passAnd l).map (·.2)) = evalAnd truthy (l.map (·.2)) := by
  -- evaluate chains of annotated operands with the truth value of their second component
  have key := keepAnd_sound (fun p : Option Bool × α => truthy p.2) (l.map (fun p => (p.1, p)))
    (by
      intro q hq b hb
      simp only [List.mem_map] at hq
      obtain ⟨p, hp, rfl⟩ := hq
      exact h p hp b hb)
  -- transport along `map snd`
  have tr : ∀ (xs : List (Option Bool × α)),
      (evalAnd (fun p : Option Bool × α => truthy p.2) xs).map (·.2) = evalAnd truthy (xs.map (·.2)) := by
    intro xs
    induction xs with
    | nil => rfl
    | cons x xs ih =>
      cases xs with
      | nil => rfl
      | cons y ys =>
        simp only [evalAnd, List.map_cons] at ih ⊢
        split
        · exact ih
        · rfl
  have := congrArg (Option.map (·.2)) key
  rw [tr, tr] at this
  simpa [passAnd, List.map_map, Function.comp_def] using this

theorem passOr_sound {α : Type} (truthy : α → Bool) (l : List (Option Bool × α)) (h : Consistent truthy l) :
    evalOr truthy ((passOr l).map (·.2)) = evalOr truthy (l.map (·.2)) := by
  have key := keepOr_sound (fun p : Option Bool × α => truthy p.2) (l.map (fun p => (p.1, p))) false
    (by
      intro q hq b hb
      simp only [List.mem_map] at hq
      obtain ⟨p, hp, rfl⟩ := hq
      exact h p hp b hb) rfl
  have tr : ∀ (xs : List (Option Bool × α)),
      (evalOr (fun p : Option Bool × α => truthy p.2) xs).map (·.2) = evalOr truthy (xs.map (·.2)) := by
    intro xs
    induction xs with
    | nil => rfl
    | cons x xs ih =>
      cases xs with
      | nil => rfl
      | cons y ys =>
        simp only [evalOr, List.map_cons] at ih ⊢
        split
        · rfl
        · exact ih
  have := congrArg (Option.map (·.2)) key
  rw [tr, tr] at this
  simpa [passOr, List.map_map, Function.comp_def] using this

/-- `processing.fix`: repeat the pass while it changes something, at most `fuel` times (a pass that drops nothing ends the loop) -/
def iterPass {α : Type} (pass : List (Option Bool × α) → List (Option Bool × α)) : Nat → List (Option Bool × α) → List (Option Bool × α)
  | 0, l => l
  | n + 1, l => let l' := pass l; if l'.length = l.length then l else iterPass pass n l'

theorem iterPass_inv {α : Type} (P : List (Option Bool × α) → Prop) (pass : List (Option Bool × α) → List (Option Bool × α))
    (hstep : ∀ l, P l → P (pass l)) : ∀ n l, P l → P (iterPass pass n l)
  | 0, l, h => h
  | n + 1, l, h => by
    simp only [iterPass]
    split
    · exact h
    · exact iterPass_inv P pass hstep n _ (hstep l h)

/-- the repeated rule keeps the value of the chain -/
theorem iterAnd_sound {α : Type} (truthy : α → Bool) (n : Nat) (l : List (Option Bool × α)) (h : Consistent truthy l) :
    evalAnd truthy ((iterPass passAnd n l).map (·.2)) = evalAnd truthy (l.map (·.2)) := by
  have := iterPass_inv (fun l' => Consistent truthy l' ∧ evalAnd truthy (l'.map (·.2)) = evalAnd truthy (l.map (·.2))) passAnd
    (fun l' ⟨hc, he⟩ => ⟨fun p hp => hc p (passAnd_sub l' p hp), (passAnd_sound truthy l' hc).trans he⟩) n l ⟨h, rfl⟩
  exact this.2

theorem iterOr_sound {α : Type} (truthy : α → Bool) (n : Nat) (l : List (Option Bool × α)) (h : Consistent truthy l) :
    evalOr truthy ((iterPass passOr n l).map (·.2)) = evalOr truthy (l.map (·.2)) := by
  have := iterPass_inv (fun l' => Consistent truthy l' ∧ evalOr truthy (l'.map (·.2)) = evalOr truthy (l.map (·.2))) passOr
    (fun l' ⟨hc, he⟩ => ⟨fun p hp => hc p (passOr_sub l' p hp), (passOr_sound truthy l' hc).trans he⟩) n l ⟨h, rfl⟩
  exact this.2

end C15
