/-!
# Constant evaluation: `core.literal_value` on a fragment of Python expressions

One evaluator `ev env e` serves as the reference semantics (with a full environment; validated against
CPython's `eval` by suite `pyeval`) and as the model of `core.literal_value` (`lit = true`: empty environment,
after the `has_side_effect` pre-check, unary minus and containers only as far as the `ast.literal_eval`
fallback accepts them; tied by suite `lit`).  The soundness theorem is then: *an evaluation
that succeeds without looking up any name gives the same value in every environment*.
-/
namespace C15

inductive Val
  | int (n : Int) | bool (b : Bool) | none | str (s : String)
  | tuple (vs : List Val) | list (vs : List Val)
deriving Repr, Inhabited

inductive BinOp | add | sub | mul | floordiv | mod deriving DecidableEq, Repr, Inhabited
inductive CmpOp | eq | ne | lt | le | gt | ge deriving DecidableEq, Repr, Inhabited
inductive Builtin | len | abs | bool | int | min | max | sum | any | all | tuple | list deriving DecidableEq, Repr, Inhabited

inductive Expr
  | int (n : Int) | bool (b : Bool) | none | str (s : String)
  | name (id : Nat)
  | tuple (es : List Expr) | list (es : List Expr)
  | not (e : Expr) | neg (e : Expr)
  | bin (op : BinOp) (l r : Expr)
  | cmp (first : Expr) (ops : List CmpOp) (rest : List Expr)
  | and (es : List Expr) | or (es : List Expr)
  | call (f : Builtin) (args : List Expr)
  /-- a call of anything else (a side effect for `literal_value`) -/
  | othercall (id : Nat) (args : List Expr)
deriving Repr, Inhabited

/-- result of evaluation: a value, an exception, an unbound name, or outside the modelled fragment -/
inductive Res (α : Type)
  | ok (v : α) | err | unk | oof
deriving Repr, Inhabited

def Val.truthy : Val → Bool
  | .int n => n != 0 | .bool b => b | .none => false | .str s => !s.isEmpty
  | .tuple vs => !vs.isEmpty | .list vs => !vs.isEmpty

def Val.asInt? : Val → Option Int
  | .int n => some n | .bool b => some (if b then 1 else 0) | _ => Option.none

mutual
def eqVal : Val → Val → Bool
  | .none, .none => true
  | .str a, .str b => a == b
  | .tuple a, .tuple b => eqVals a b
  | .list a, .list b => eqVals a b
  | .int a, .int b => a == b
  | .int a, .bool b => a == (if b then 1 else 0)
  | .bool a, .int b => (if a then 1 else 0) == b
  | .bool a, .bool b => a == b
  | _, _ => false
def eqVals : List Val → List Val → Bool
  | [], [] => true
  | a :: as, b :: bs => eqVal a b && eqVals as bs
  | _, _ => false
end

def binop (op : BinOp) (a b : Val) : Res Val :=
  match a.asInt?, b.asInt? with
  | some x, some y =>
    match op with
    | .add => .ok (.int (x + y)) | .sub => .ok (.int (x - y)) | .mul => .ok (.int (x * y))
    | .floordiv => if y = 0 then .err else .ok (.int (Int.fdiv x y))
    | .mod => if y = 0 then .err else .ok (.int (Int.fmod x y))
  | _, _ =>
    match op, a, b with
    | .add, .str x, .str y => .ok (.str (x ++ y))
    | .add, .tuple x, .tuple y => .ok (.tuple (x ++ y))
    | .add, .list x, .list y => .ok (.list (x ++ y))
    | .mul, _, _ => .oof       -- sequence repetition: not modelled
    | .mod, .str _, _ => .oof  -- string formatting: not modelled
    | _, _, _ => .err

/-- one comparison; ordering is modelled on numbers only -/
def cmpop (op : CmpOp) (a b : Val) : Res Bool :=
  match op with
  | .eq => .ok (eqVal a b)
  | .ne => .ok (!eqVal a b)
  | _ =>
    match a.asInt?, b.asInt? with
    | some x, some y =>
      .ok (match op with
        | .lt => decide (x < y) | .le => decide (x ≤ y) | .gt => decide (x > y) | _ => decide (x ≥ y))
    | _, _ =>
      match a, b with
      | .str _, .str _ => .oof | .tuple _, .tuple _ => .oof | .list _, .list _ => .oof
      | _, _ => .err

/-- `sum` over ints and bools (`0 + x₁ + …`); anything else in the sequence raises -/
def sumVals : List Val → Res Val
  | [] => .ok (.int 0)
  | v :: vs => match v.asInt?, sumVals vs with
    | some x, .ok (.int t) => .ok (.int (x + t))
    | _, _ => .err

def callBuiltin (f : Builtin) (args : List Val) : Res Val :=
  match f, args with
  | .len, [.str s] => .ok (.int s.length)
  | .len, [.tuple vs] => .ok (.int vs.length)
  | .len, [.list vs] => .ok (.int vs.length)
  | .len, [_] => .err
  | .abs, [v] => match v.asInt? with | some x => .ok (.int x.natAbs) | _ => .err
  | .bool, [v] => .ok (.bool v.truthy)
  | .bool, [] => .ok (.bool false)
  | .int, [v] => match v with | .int n => .ok (.int n) | .bool b => .ok (.int (if b then 1 else 0)) | .str _ => .oof | _ => .err
  | .int, [] => .ok (.int 0)
  | .min, [a, b] => match a.asInt?, b.asInt? with
      | some x, some y => .ok (if y < x then b else a) | _, _ => .oof
  | .max, [a, b] => match a.asInt?, b.asInt? with
      | some x, some y => .ok (if y > x then b else a) | _, _ => .oof
  | .min, _ => .oof | .max, _ => .oof
  | .sum, [.list vs] => sumVals vs
  | .sum, [.tuple vs] => sumVals vs
  | .sum, [.str s] => if s.isEmpty then .ok (.int 0) else .err
  | .sum, [_] => .err
  | .any, [.list vs] => .ok (.bool (vs.any Val.truthy))
  | .any, [.tuple vs] => .ok (.bool (vs.any Val.truthy))
  | .any, [.str s] => .ok (.bool (!s.isEmpty))
  | .any, [_] => .err
  | .all, [.list vs] => .ok (.bool (vs.all Val.truthy))
  | .all, [.tuple vs] => .ok (.bool (vs.all Val.truthy))
  | .all, [.str _] => .ok (.bool true)
  | .all, [_] => .err
  | .tuple, [] => .ok (.tuple [])
  | .tuple, [.list vs] => .ok (.tuple vs)
  | .tuple, [.tuple vs] => .ok (.tuple vs)
  | .tuple, [.str s] => if s.isEmpty then .ok (.tuple []) else .oof
  | .tuple, [_] => .err
  | .list, [] => .ok (.list [])
  | .list, [.list vs] => .ok (.list vs)
  | .list, [.tuple vs] => .ok (.list vs)
  | .list, [.str s] => if s.isEmpty then .ok (.list []) else .oof
  | .list, [_] => .err
  | _, _ => .err

abbrev Env := Nat → Option Val

mutual
/-- what `ast.literal_eval` accepts (the fallback of `literal_value`): constants, a minus sign in front of a
number literal, tuples and lists of such -/
def constE : Expr → Bool
  | .int _ => true | .bool _ => true | .none => true | .str _ => true
  | .neg (.int n) => decide (n ≥ 0)
  | .tuple es => constL es | .list es => constL es
  | _ => false
def constL : List Expr → Bool
  | [] => true
  | e :: es => constE e && constL es
end

mutual
def ev (lit : Bool) (env : Env) : Expr → Res Val
  | .int n => .ok (.int n) | .bool b => .ok (.bool b) | .none => .ok .none | .str s => .ok (.str s)
  | .name id => match env id with | some v => .ok v | Option.none => .unk
  | .tuple es =>
    if lit && !constL es then .unk else
    match evList lit env es with | .ok vs => .ok (.tuple vs) | .err => .err | .unk => .unk | .oof => .oof
  | .list es =>
    if lit && !constL es then .unk else
    match evList lit env es with | .ok vs => .ok (.list vs) | .err => .err | .unk => .unk | .oof => .oof
  | .not e => match ev lit env e with | .ok v => .ok (.bool (!v.truthy)) | .err => .err | .unk => .unk | .oof => .oof
  | .neg e =>
    if lit && !constE (.neg e) then .unk else
    match ev lit env e with
    | .ok v => (match v.asInt? with | some x => .ok (.int (-x)) | Option.none => .err)
    | .err => .err | .unk => .unk | .oof => .oof
  | .bin op l r => match ev lit env l with
    | .ok a => (match ev lit env r with | .ok b => binop op a b | .err => .err | .unk => .unk | .oof => .oof)
    | .err => .err | .unk => .unk | .oof => .oof
  | .cmp first ops rest => match ev lit env first with
    | .ok a => (match evChain lit env a ops rest with | .ok b => .ok (.bool b) | .err => .err | .unk => .unk | .oof => .oof)
    | .err => .err | .unk => .unk | .oof => .oof
  | .and es => evAnd lit env es
  | .or es => evOr lit env es
  | .call f args => match evList lit env args with
    | .ok vs => callBuiltin f vs | .err => .err | .unk => .unk | .oof => .oof
  | .othercall _ _ => .oof
def evList (lit : Bool) (env : Env) : List Expr → Res (List Val)
  | [] => .ok []
  | e :: es => match ev lit env e with
    | .ok v => (match evList lit env es with | .ok vs => .ok (v :: vs) | .err => .err | .unk => .unk | .oof => .oof)
    | .err => .err | .unk => .unk | .oof => .oof
/-- `a op₁ b op₂ c …`: each operand evaluated once, stop at the first false link -/
def evChain (lit : Bool) (env : Env) (left : Val) : List CmpOp → List Expr → Res Bool
  | op :: ops, e :: es => match ev lit env e with
    | .ok b => (match cmpop op left b with
      | .ok true => evChain lit env b ops es
      | .ok false => .ok false
      | .err => .err | .unk => .unk | .oof => .oof)
    | .err => .err | .unk => .unk | .oof => .oof
  | [], [] => .ok true
  | _, _ => .oof
/-- `and`: the first falsy operand, else the last one -/
def evAnd (lit : Bool) (env : Env) : List Expr → Res Val
  | [] => .oof
  | [e] => ev lit env e
  | e :: es => match ev lit env e with
    | .ok v => if v.truthy then evAnd lit env es else .ok v
    | .err => .err | .unk => .unk | .oof => .oof
def evOr (lit : Bool) (env : Env) : List Expr → Res Val
  | [] => .oof
  | [e] => ev lit env e
  | e :: es => match ev lit env e with
    | .ok v => if v.truthy then .ok v else evOr lit env es
    | .err => .err | .unk => .unk | .oof => .oof
end

mutual
/-- some call outside the pure builtins occurs anywhere (the `has_side_effect` pre-check of `literal_value`) -/
def impure : Expr → Bool
  | .othercall _ _ => true
  | .tuple es => impureL es | .list es => impureL es
  | .not e => impure e | .neg e => impure e
  | .bin _ l r => impure l || impure r
  | .cmp f _ rest => impure f || impureL rest
  | .and es => impureL es | .or es => impureL es
  | .call _ args => impureL args
  | _ => false
def impureL : List Expr → Bool
  | [] => false
  | e :: es => impure e || impureL es
end

inductive Lit | known (v : Val) | unknown | oof
deriving Repr

/-- `core.literal_value`: known value, or `ValueError` ("unknown") -/
def litValue (e : Expr) : Lit :=
  if impure e then .unknown
  else match ev true (fun _ => Option.none) e with
    | .ok v => .known v | .err => .unknown | .unk => .unknown | .oof => .oof

end C15
