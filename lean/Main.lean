import Lean.Data.Json
import PyrefactModel
/-!
Line-protocol driver: one JSON request per line on stdin, one JSON answer per line on stdout.
Stateless between lines. Unknown or malformed requests answer `{"r":"bad-request"}`.
-/
open Lean

def bad : Json := Json.mkObj [("r", "bad-request")]

def getNat? (j : Json) : Option Nat := match j.getNat? with | .ok n => some n | _ => none
def getInt? (j : Json) : Option Int := match j.getInt? with | .ok n => some n | _ => none
def getStr? (j : Json) : Option String := match j.getStr? with | .ok n => some n | _ => none
def getArr? (j : Json) : Option (Array Json) := match j.getArr? with | .ok n => some n | _ => none
def field? (j : Json) (k : String) : Option Json := match j.getObjVal? k with | .ok v => some v | _ => none

def parseYield (j : Json) : Option Yield := do
  let a ← getArr? j
  if a.size != 4 then none
  let s ← getNat? a[0]!
  let e ← getNat? a[1]!
  let new ← getStr? a[2]!
  let txn ← (if a[3]!.isNull then some none else (getInt? a[3]!).map some)
  some ⟨⟨s, e⟩, new, txn⟩

def handleSched (j : Json) : Option Json := do
  let src ← (field? j "src") >>= getStr?
  let gs ← (field? j "groups") >>= getArr?
  let groups ← gs.toList.mapM (fun g => do
    let ys ← getArr? g
    ys.toList.mapM parseYield)
  let chars := src.toList
  let sched := schedule (hasIgnoreComment chars) groups
  let out := sched.map (fun (p : Key × Rw) =>
    Json.arr #[Json.num p.1.g, Json.num (JsonNumber.fromInt p.1.t), Json.num p.2.r.s, Json.num p.2.r.e, Json.str p.2.new])
  let text := String.ofList (sched.foldl spliceRw chars)
  some (Json.mkObj [("sched", Json.arr out.toArray), ("text", Json.str text)])

def handleLines (j : Json) : Option Json := do
  let src ← (field? j "src") >>= getStr?
  let rs ← (field? j "ranges") >>= getArr?
  let chars := src.toList
  let out ← rs.toList.mapM (fun r => do
    let a ← getArr? r
    if a.size != 2 then none
    let s ← getNat? a[0]!
    let e ← getNat? a[1]!
    some (Json.bool (hasIgnoreComment chars ⟨s, e⟩)))
  some (Json.mkObj [("ignored", Json.arr out.toArray),
    ("starts", Json.arr ((lineStarts astBreak chars).map (fun (n : Nat) => Json.num n)).toArray),
    ("skipfile", Json.bool (skipFileSearch chars))])

def handleFixloop (j : Json) : Option Json := do
  let nxt ← (field? j "next") >>= getArr?
  let nxt ← nxt.toList.mapM getNat?
  let init ← (field? j "init") >>= getNat?
  let m ← (field? j "max_iter") >>= getNat?
  if init ≥ nxt.length || nxt.any (· ≥ nxt.length) then none
  let st := fixLoop (fun i => nxt.getD i 0) m init init
  some (Json.mkObj [("state", Json.num st)])

def parseOp (s : String) : Option C17.Op :=
  match s with
  | "eq" => some .eq | "ne" => some .ne | "gt" => some .gt | "ge" => some .ge | "lt" => some .lt | "le" => some .le
  | _ => none

def getBool? (j : Json) : Option Bool := match j.getBool? with | .ok b => some b | _ => none

/-- item: ["cmp", var, op, c, flipped, neg, direct] | ["atom", id, neg, direct] -/
def parseItem (j : Json) : Option C17.Item := do
  let a ← getArr? j
  match (← getStr? a[0]!) with
  | "cmp" =>
    if a.size != 7 then none
    some (.cmp (← getNat? a[1]!) (← (getStr? a[2]!) >>= parseOp) (← getInt? a[3]!) (← getBool? a[4]!) (← getBool? a[5]!) (← getBool? a[6]!))
  | "atom" =>
    if a.size != 4 then none
    some (.atom (← getNat? a[1]!) (← getBool? a[2]!) (← getBool? a[3]!))
  | _ => none

def handleBounds (j : Json) : Option Json := do
  let isAnd ← (field? j "isAnd") >>= getBool?
  let items ← (field? j "items") >>= getArr?
  let items ← items.toList.mapM parseItem
  match C17.simplifyNode Generated.boundTable isAnd items with
  | .const b => some (Json.mkObj [("r", "const"), ("v", Json.bool b)])
  | .drop idxs => some (Json.mkObj [("r", "drop"), ("idx", Json.arr (idxs.map (fun (n : Nat) => Json.num n)).toArray)])
  | .none => some (Json.mkObj [("r", "none")])

def parseCOp (s : String) : Option C17.COp :=
  match s with
  | "eq" => some .eq | "ne" => some .ne | "gt" => some .gt | "ge" => some .ge | "lt" => some .lt | "le" => some .le
  | "in_" => some .in_ | "notIn" => some .notIn | "is_" => some .is_ | "isNot" => some .isNot
  | _ => none

def copName : C17.COp → String
  | .eq => "eq" | .ne => "ne" | .gt => "gt" | .ge => "ge" | .lt => "lt" | .le => "le"
  | .in_ => "in_" | .notIn => "notIn" | .is_ => "is_" | .isNot => "isNot"

def parseTerm (j : Json) : Option C17.Term := do
  let a ← getArr? j
  if a.size != 2 then none
  match (← getStr? a[0]!) with
  | "var" => some (.var (← getNat? a[1]!))
  | "const" => some (.const (← getInt? a[1]!))
  | _ => none

def termJson : C17.Term → Json
  | .var n => Json.arr #["var", Json.num n]
  | .const c => Json.arr #["const", Json.num (JsonNumber.fromInt c)]

partial def parseCond (j : Json) : Option C17.Cond := do
  let a ← getArr? j
  match (← getStr? a[0]!) with
  | "cmp" => if a.size != 4 then none else some (.cmp (← parseTerm a[1]!) (← (getStr? a[2]!) >>= parseCOp) (← parseTerm a[3]!))
  | "atom" => if a.size != 2 then none else some (.atom (← getNat? a[1]!))
  | "not" => if a.size != 2 then none else some (.not (← parseCond a[1]!))
  | "and" => if a.size != 2 then none else some (.and (← (← getArr? a[1]!).toList.mapM parseCond))
  | "or" => if a.size != 2 then none else some (.or (← (← getArr? a[1]!).toList.mapM parseCond))
  | _ => none

partial def condJson : C17.Cond → Json
  | .cmp l op r => Json.arr #["cmp", termJson l, copName op, termJson r]
  | .atom i => Json.arr #["atom", Json.num i]
  | .not c => Json.arr #["not", condJson c]
  | .and cs => Json.arr #["and", Json.arr (cs.map condJson).toArray]
  | .or cs => Json.arr #["or", Json.arr (cs.map condJson).toArray]

def handleNegate (j : Json) : Option Json := do
  let c ← (field? j "c") >>= parseCond
  some (Json.mkObj [("negate", condJson (C17.negate Generated.reverseOps c)),
                    ("flip", condJson (C17.flipNegated Generated.reverseOps c))])

def parseRCond (j : Json) : Option C17.RCond := do
  let a ← getArr? j
  if a.size != 2 then none
  match (← getStr? a[0]!) with
  | "gt" => some (.gt (← getInt? a[1]!)) | "lt" => some (.lt (← getInt? a[1]!))
  | "ge" => some (.ge (← getInt? a[1]!)) | "le" => some (.le (← getInt? a[1]!))
  | "eq" => some (.eq (← getInt? a[1]!)) | "other" => some (.other (← getNat? a[1]!))
  | _ => none

def handleRangeFold (j : Json) : Option Json := do
  let start ← (field? j "start") >>= getInt?
  let stop ← (field? j "stop") >>= getInt?
  let cs ← (field? j "conds") >>= getArr?
  let cs ← cs.toList.mapM parseRCond
  match C17.rangeFold start stop cs with
  | .none => some (Json.mkObj [("r", "none")])
  | .empty => some (Json.mkObj [("r", "empty")])
  | .range s e marked => some (Json.mkObj [("r", "range"), ("start", Json.num (JsonNumber.fromInt s)),
      ("stop", Json.num (JsonNumber.fromInt e)), ("red", Json.arr (marked.map (fun p => Json.bool p.2)).toArray)])

def handleSumRange (j : Json) : Option Json := do
  let a ← (field? j "a") >>= getInt?
  let b ← (field? j "b") >>= getInt?
  some (Json.mkObj [("closed", Json.num (JsonNumber.fromInt (C17.sumEmitted a b))),
                    ("sum", Json.num (JsonNumber.fromInt (C17.listSum (C17.intRange a b))))])

/-! ### orchestration with stub rules: texts are state numbers, every stubbed stage appends its name to a trace -/

abbrev DState := Nat × List String

def stubCall (stubs : List (String × List (Nat × Nat))) (name : String) (s : DState) : DState :=
  let tbl := (stubs.find? (fun p => p.1 == name)).map (·.2) |>.getD []
  let nxt := (tbl.find? (fun p => p.1 == s.1)).map (·.2) |>.getD s.1
  (nxt, name :: s.2)

def shortName (full : String) : String := (full.splitOn ".").getLastD full

def stubStages (stubs : List (String × List (Nat × Nat))) : Stages DState Nat :=
  let call := stubCall stubs
  { key := fun s => s.1
    skip := fun _ => false
    pre := call "fix_too_many_blank_lines"
    blank := fun _ => false
    valid := fun _ => true
    indent := fun _ => 0
    dedent := id
    addImports := call "add_missing_imports"
    singleRun := id
    multi := fun s => Generated.multiRunRules.foldl (fun acc r => call (shortName r.1) acc) s
    overused := fun _ => call "overused_constant"
    simplifyAssign := call "simplify_assign_immediate_return"
    alignNames := call "align_variable_names_with_convention"
    removeUnusedImports := call "remove_unused_imports"
    sortImports := call "sort_imports"
    lineLengths := call "fix_line_lengths"
    rmspace := id
    reindent := fun _ => id
    minimize := fun _ s => s }

def handleDriver (j : Json) : Option Json := do
  let src ← (field? j "src") >>= getNat?
  let keep ← (field? j "keep") >>= getBool?
  let maxp ← (field? j "maxp") >>= getNat?
  let stubsJ ← field? j "stubs"
  let obj ← match stubsJ.getObj? with | .ok o => some o | _ => none
  let stubs ← obj.toList.mapM (fun (kv : String × Json) => do
    let arr ← getArr? kv.2
    let pairs ← arr.toList.mapM (fun p => do
      let a ← getArr? p
      if a.size != 2 then none
      some ((← getNat? a[0]!), (← getNat? a[1]!)))
    some (kv.1, pairs))
  let r := formatCodeCount (stubStages stubs) ⟨keep, maxp⟩ (src, [])
  some (Json.mkObj [("out", Json.num r.1.1), ("trace", Json.arr (r.1.2.reverse.map Json.str).toArray),
                    ("multi_calls", Json.num r.2)])

def handleLru (j : Json) : Option Json := do
  let cap ← (field? j "cap") >>= getNat?
  let keys ← (field? j "keys") >>= getArr?
  let keys ← keys.toList.mapM getNat?
  let (hits, c) := keys.foldl (fun (acc : List Bool × LRU Nat Nat) k =>
    let r := acc.2.get id k
    (r.2.2 :: acc.1, r.2.1)) ([], ⟨cap, []⟩)
  some (Json.mkObj [("hits", Json.arr (hits.reverse.map Json.bool).toArray), ("size", Json.num c.entries.length)])

def parseCondK (s : String) : Option C16.Cond :=
  match s with
  | "tt" => some .tt | "ff" => some .ff | "unk" => some (.unk 0 false)
  | _ =>
    -- "u<id>" / "n<id>": labelled unknown test, plain / negated
    if s.startsWith "u" then (s.drop 1).toNat?.map (fun i => .unk i false)
    else if s.startsWith "n" then (s.drop 1).toNat?.map (fun i => .unk i true)
    else none
def parseIterK (s : String) : Option C16.Iter :=
  match s with | "empty" => some .empty | "nonempty" => some .nonempty | "unk" => some .unk | _ => none

partial def parseStmt (j : Json) : Option C16.Stmt := do
  let a ← getArr? j
  let body (k : Nat) : Option (List C16.Stmt) := do (← getArr? a[k]!).toList.mapM parseStmt
  match (← getStr? a[0]!) with
  | "simple" => some (.simple (if a.size > 1 then (getNat? a[1]!).getD 0 else 0)) | "ret" => some .ret | "raise" => some .raise | "brk" => some .brk | "cont" => some .cont
  | "assert" => some (.assertC (← (getStr? a[1]!) >>= parseCondK))
  | "if" => some (.ite (← (getStr? a[1]!) >>= parseCondK) (← body 2) (← body 3))
  | "while" => some (.whileS (← (getStr? a[1]!) >>= parseCondK) (← body 2) (← (if a.size > 3 then body 3 else some [])))
  | "for" => some (.forS (← (getStr? a[1]!) >>= parseIterK) (← body 2) (← (if a.size > 3 then body 3 else some [])))
  | "with" => some (.withS (← body 1))
  | "try" =>
    let hk : Option C16.HKind := match (← getStr? a[2]!) with | "none" => some .none | "all" => some .all | "some" => some .some | _ => none
    some (.tryS (← body 1) (← hk) (← body 3) (← body 4))
  | _ => none

def outName : C16.Out → String
  | .normal => "normal" | .ret => "ret" | .raise => "raise" | .brk => "brk" | .cont => "cont" | .fuel => "fuel"

def handleBlocking (j : Json) : Option Json := do
  let st ← (field? j "stmt") >>= parseStmt
  let par ← (field? j "parent") >>= getStr?
  let p : C16.Par := if par == "loop" then .loop else .none
  some (Json.mkObj [("b", Json.bool (C16.blocks p st))])

def handleExec (j : Json) : Option Json := do
  let ss ← (field? j "stmts") >>= getArr?
  let ss ← ss.toList.mapM parseStmt
  let bits ← (field? j "bits") >>= getArr?
  let bits ← bits.toList.mapM getBool?
  let fuel ← (field? j "fuel") >>= getNat?
  let r := C16.execList (fun i => bits.getD i false) fuel ss ⟨0, []⟩
  let r2 := C16.execList (fun i => bits.getD i false) fuel (C16.deleteUnreachable ss) ⟨0, []⟩
  let ev (e : C16.Ev) : Json := match e with | .stmt l => Json.arr #["s", Json.num l] | .test i => Json.arr #["t", Json.num i]
  some (Json.mkObj [("out", outName r.1), ("pos", Json.num r.2.pos), ("out_del", outName r2.1), ("pos_del", Json.num r2.2.pos),
                    ("trace", Json.arr (r.2.trace.reverse.map ev).toArray), ("same_trace", Json.bool (r.2.trace == r2.2.trace)),
                    ("kept", Json.num (C16.deleteUnreachable ss).length)])

partial def stmtJson : C16.Stmt → Json
  | .simple l => Json.arr #["simple", Json.num l]
  | .ret => Json.arr #["ret"] | .raise => Json.arr #["raise"] | .brk => Json.arr #["brk"] | .cont => Json.arr #["cont"]
  | .assertC c => Json.arr #["assert", condK c]
  | .ite c b o => Json.arr #["if", condK c, Json.arr (b.map stmtJson).toArray, Json.arr (o.map stmtJson).toArray]
  | .whileS c b e => Json.arr #["while", condK c, Json.arr (b.map stmtJson).toArray, Json.arr (e.map stmtJson).toArray]
  | .forS it b e => Json.arr #["for", (match it with | .empty => "empty" | .nonempty => "nonempty" | .unk => "unk"), Json.arr (b.map stmtJson).toArray,
      Json.arr (e.map stmtJson).toArray]
  | .withS b => Json.arr #["with", Json.arr (b.map stmtJson).toArray]
  | .tryS b hk hb f => Json.arr #["try", Json.arr (b.map stmtJson).toArray, (match hk with | .none => "none" | .all => "all" | .some => "some"),
      Json.arr (hb.map stmtJson).toArray, Json.arr (f.map stmtJson).toArray]
where condK : C16.Cond → Json
  | .tt => "tt" | .ff => "ff" | .unk id neg => Json.str ((if neg then "n" else "u") ++ toString id)

/-- the verified validator: equal normal forms; the trace of an execution is also returned for the search -/
def handleValidate (j : Json) : Option Json := do
  let a ← (field? j "a") >>= getArr?
  let a ← a.toList.mapM parseStmt
  let b ← (field? j "b") >>= getArr?
  let b ← b.toList.mapM parseStmt
  some (Json.mkObj [("ok", Json.bool (C16.validate a b)),
                    ("na", Json.arr ((C16.normL a []).map stmtJson).toArray), ("nb", Json.arr ((C16.normL b []).map stmtJson).toArray)])

/-- which operands of an and / or chain `remove_redundant_boolop_values` keeps: mask entries "t" / "f" / "u" -/
def handleBoolop (j : Json) : Option Json := do
  let isAnd ← (field? j "and") >>= getBool?
  let mask ← (field? j "mask") >>= getArr?
  let mask ← mask.toList.mapM getStr?
  let ops : List (Option Bool × Nat) := mask.zipIdx.map (fun (m, i) => ((if m == "t" then some true else if m == "f" then some false else none), i))
  let fuel := ((field? j "iter") >>= getNat?).getD 5
  let kept := ((if isAnd then C15.iterPass C15.passAnd fuel ops else C15.iterPass C15.passOr fuel ops).map (·.2))
  some (Json.mkObj [("keep", Json.arr (kept.map (fun (i : Nat) => Json.num (JsonNumber.fromNat i))).toArray)])

/-- which pairs of a dict display / elements of a set display the duplicate rules keep: keys are numbers (equal constants
get equal numbers) -/
def handleDupKeys (j : Json) : Option Json := do
  let keys ← (field? j "keys") >>= getArr?
  let keys ← keys.toList.mapM getNat?
  let pairs : List (Nat × Nat) := keys.zipIdx
  let arr (l : List Nat) : Json := Json.arr (l.map (fun (i : Nat) => Json.num (JsonNumber.fromNat i))).toArray
  some (Json.mkObj [("dict_keeps", arr ((C15.keepLast pairs).map (·.2))),
                    ("set_keeps", arr ((C15.keepFirst [] (keys.zipIdx.map (fun p => p.1))).map id)),
                    ("set_first_index", arr ((C15.keepFirst [] keys).map (fun k => keys.idxOf k))),
                    ("dict_order_python", arr ((C15.build pairs).map (·.1))), ("dict_order_rule", arr ((C15.build (C15.keepLast pairs)).map (·.1)))])

def handleScope (j : Json) : Option Json := do
  let occs ← (field? j "occs") >>= getArr?
  let occs ← occs.toList.mapM (fun o => do
    let a ← getArr? o
    let outer ← (← getArr? a[2]!).toList.mapM getNat?
    some ({ name := ← getStr? a[0]!, scope := ← getNat? a[1]!, outer := outer, binding := ← getBool? a[3]! } : C19.Occ))
  let decls ← (field? j "decls") >>= getArr?
  let decls ← decls.toList.mapM (fun d => do
    let a ← getArr? d
    let k ← getStr? a[2]!
    some ((← getNat? a[0]!, ← getStr? a[1]!, if k == "g" then C19.Decl.glob else C19.Decl.nonloc) : Nat × String × C19.Decl))
  let steps ← (field? j "steps") >>= getArr?
  let steps ← steps.toList.mapM (fun st => do
    let a ← getArr? st
    let idx ← (← getArr? a[2]!).toList.mapM getNat?
    some (← getStr? a[0]!, ← getStr? a[1]!, idx))
  let P0 : C19.Prog := { occs := occs, decls := decls }
  let num (n : Nat) : Json := Json.num (JsonNumber.fromNat n)
  let vars (P : C19.Prog) : Json := Json.arr (P.occs.map (fun o => let v := C19.var P o; Json.arr #[num v.1, Json.str v.2])).toArray
  let (P, oks) := steps.foldl (fun (acc : C19.Prog × List Bool) (st : String × String × List Nat) =>
    let P := acc.1
    let sel := st.2.2.filterMap (fun i => P.occs[i]?)
    let R : C19.Occ → Bool := fun o => sel.contains o
    ({ occs := (C19.rename P R st.2.1).occs, decls := P.decls }, acc.2 ++ [C19.checkHyps P R st.1 st.2.1])) (P0, [])
  some (Json.mkObj [("vars", vars P0), ("ok", Json.arr (oks.map Json.bool).toArray),
                    ("names", Json.arr (P.occs.map (fun o => Json.str o.name)).toArray), ("vars_after", vars P)])

partial def parseVal (j : Json) : Option C15.Val := do
  let a ← getArr? j
  match (← getStr? a[0]!) with
  | "int" => some (.int (← getInt? a[1]!)) | "bool" => some (.bool (← getBool? a[1]!)) | "none" => some .none
  | "str" => some (.str (← getStr? a[1]!))
  | "tuple" => some (.tuple (← (← getArr? a[1]!).toList.mapM parseVal))
  | "list" => some (.list (← (← getArr? a[1]!).toList.mapM parseVal))
  | _ => none

partial def parseExpr (j : Json) : Option C15.Expr := do
  let a ← getArr? j
  let es (k : Nat) : Option (List C15.Expr) := do (← getArr? a[k]!).toList.mapM parseExpr
  let binop (s : String) : Option C15.BinOp := match s with
    | "add" => some .add | "sub" => some .sub | "mul" => some .mul | "floordiv" => some .floordiv | "mod" => some .mod | _ => none
  let cmpop (s : String) : Option C15.CmpOp := match s with
    | "eq" => some .eq | "ne" => some .ne | "lt" => some .lt | "le" => some .le | "gt" => some .gt | "ge" => some .ge | _ => none
  let builtin (s : String) : Option C15.Builtin := match s with
    | "len" => some .len | "abs" => some .abs | "bool" => some .bool | "int" => some .int | "min" => some .min | "max" => some .max
    | "sum" => some .sum | "any" => some .any | "all" => some .all | "tuple" => some .tuple | "list" => some .list | _ => none
  match (← getStr? a[0]!) with
  | "int" => some (.int (← getInt? a[1]!)) | "bool" => some (.bool (← getBool? a[1]!)) | "none" => some .none
  | "str" => some (.str (← getStr? a[1]!)) | "name" => some (.name (← getNat? a[1]!))
  | "tuple" => some (.tuple (← es 1)) | "list" => some (.list (← es 1))
  | "not" => some (.not (← parseExpr a[1]!)) | "neg" => some (.neg (← parseExpr a[1]!))
  | "bin" => some (.bin (← (getStr? a[1]!) >>= binop) (← parseExpr a[2]!) (← parseExpr a[3]!))
  | "cmp" => some (.cmp (← parseExpr a[1]!) (← (← getArr? a[2]!).toList.mapM (fun o => (getStr? o) >>= cmpop)) (← es 3))
  | "and" => some (.and (← es 1)) | "or" => some (.or (← es 1))
  | "call" => some (.call (← (getStr? a[1]!) >>= builtin) (← es 2))
  | "othercall" => some (.othercall (← getNat? a[1]!) (← es 2))
  | _ => none

partial def valRepr : C15.Val → String
  | .int n => toString n | .bool b => if b then "True" else "False" | .none => "None"
  | .str s => "'" ++ s ++ "'"
  | .tuple [v] => "(" ++ valRepr v ++ ",)"
  | .tuple vs => "(" ++ ", ".intercalate (vs.map valRepr) ++ ")"
  | .list vs => "[" ++ ", ".intercalate (vs.map valRepr) ++ "]"

def handleLit (j : Json) : Option Json := do
  let e ← (field? j "e") >>= parseExpr
  let lit := match C15.litValue e with
    | .known v => Json.mkObj [("r", "known"), ("v", valRepr v)]
    | .unknown => Json.mkObj [("r", "unknown")]
    | .oof => Json.mkObj [("r", "oof")]
  let envJ ← (field? j "env") >>= getArr?
  let envL ← envJ.toList.mapM parseVal
  let env : C15.Env := fun i => envL[i]?
  let pe := match C15.ev false env e with
    | .ok v => Json.mkObj [("r", "ok"), ("v", valRepr v)]
    | .err => Json.mkObj [("r", "err")]
    | .unk => Json.mkObj [("r", "unk")]
    | .oof => Json.mkObj [("r", "oof")]
  some (Json.mkObj [("lit", lit), ("pyeval", pe)])

partial def parseMVal (j : Json) : Option C12.Val := do
  let a ← getArr? j
  match (← getStr? a[0]!) with
  | "atom" => some (.atom (← getStr? a[1]!))
  | "list" => some (.list (← (← getArr? a[1]!).toList.mapM parseMVal))
  | "node" =>
    let fs ← (← getArr? a[2]!).toList.mapM (fun f => do
      let p ← getArr? f
      some ((← getStr? p[0]!), (← parseMVal p[1]!)))
    some (.node (← getStr? a[1]!) fs)
  | _ => none

partial def parseTm (j : Json) : Option C12.Tm := do
  let a ← getArr? j
  let q (s : String) : Option C12.Q := match s with
    | "one" => some .one | "opt" => some .opt | "star" => some .star | "plus" => some .plus | _ => none
  match (← getStr? a[0]!) with
  | "ty" => some (.ty (← (← getArr? a[1]!).toList.mapM getStr?))
  | "lit" => some (.lit (← getStr? a[1]!))
  | "alt" => some (.alt (← (← getArr? a[1]!).toList.mapM parseTm))
  | "set" => some (.setOf (← (← getArr? a[1]!).toList.mapM parseTm))
  | "seq" => some (.seq (← (← getArr? a[1]!).toList.mapM (fun it => do
      let p ← getArr? it
      some ((← (getStr? p[0]!) >>= q), (← parseTm p[1]!)))))
  | "wild" => some (.wild (← getStr? a[1]!) (← parseTm a[2]!))
  | "anything" => some .anything
  | "node" =>
    let fs ← (← getArr? a[2]!).toList.mapM (fun f => do
      let p ← getArr? f
      some ((← getStr? p[0]!), (← parseTm p[1]!)))
    some (.node (← getStr? a[1]!) fs)
  | _ => none

/-- canonical text: the exporter stores `core.unparse(node)` in the field `__key__` -/
partial def mkey (v : C12.Val) : String :=
  match v with
  | .atom s => s
  | .list xs => "[" ++ ", ".intercalate (xs.map mkey) ++ "]"
  | .node _ fs => match fs.lookup "__key__" with | some (.atom s) => s | _ => "?"

def handleMatch (j : Json) : Option Json := do
  let v ← (field? j "val") >>= parseMVal
  let t ← (field? j "tmpl") >>= parseTm
  let hierJ ← field? j "hier"
  let obj ← match hierJ.getObj? with | .ok o => some o | _ => none
  let hier ← obj.toList.mapM (fun (kv : String × Json) => do
    some (kv.1, (← (← getArr? kv.2).toList.mapM getStr?)))
  let isinst (ty : String) (names : List String) : Bool :=
    let bases := (hier.lookup ty).getD [ty]
    names.any (fun n => bases.contains n)
  match C12.matchT mkey isinst 200 v t with
  | some b => some (Json.mkObj [("m", Json.bool true), ("b", Json.arr (b.map (fun p => Json.arr #[Json.str p.1, Json.str p.2])).toArray)])
  | none => some (Json.mkObj [("m", Json.bool false)])

def handlePerms (j : Json) : Option Json := do
  let qs ← (field? j "qs") >>= getArr?
  let qs ← qs.toList.mapM (fun x => do
    match (← getStr? x) with
    | "one" => some C12.Q.one | "opt" => some .opt | "star" => some .star | "plus" => some .plus | _ => none)
  let n ← (field? j "n") >>= getNat?
  some (Json.mkObj [("perms", Json.arr ((C12.perms qs n).map (fun c => Json.arr (c.map (fun (k : Nat) => Json.num k)).toArray)).toArray)])

def handleOffsets (j : Json) : Option Json := do
  let src ← (field? j "src") >>= getStr?
  let chars := src.toList
  let lines := splitLines astBreak chars
  let starts := lineStartsFrom 0 lines
  let pos ← (field? j "pos") >>= getArr?
  let cs ← pos.toList.mapM (fun p => do
    let a ← getArr? p
    some (Json.num (charPos lines (← getNat? a[0]!) (← getNat? a[1]!))))
  let pts ← (field? j "points") >>= getArr?
  let lc ← pts.toList.mapM (fun p => do
    let r := linenoCol starts (← getNat? p)
    some (Json.arr #[Json.num r.1, Json.num r.2]))
  some (Json.mkObj [("chars", Json.arr cs.toArray), ("linecol", Json.arr lc.toArray),
    ("starts", Json.arr (starts.map (fun (n : Nat) => Json.num n)).toArray)])

def handleWindows (j : Json) : Option Json := do
  let n ← (field? j "n") >>= getNat?
  let k ← (field? j "k") >>= getNat?
  let ws := C12.windowsPy (List.range n) k
  some (Json.mkObj [("windows", Json.arr (ws.map (fun w => Json.arr (w.map (fun (x : Nat) => Json.num x)).toArray)).toArray)])

def handleSafeCalls (j : Json) : Option Json := do
  let strs (k : String) : Option (List String) := do (← (field? j k) >>= getArr?).toList.mapM getStr?
  let base ← strs "base"
  let stores ← strs "stores"
  let other ← strs "other"
  let ds ← (field? j "defs") >>= getArr?
  let defs ← ds.toList.mapM (fun d => do
    let a ← getArr? d
    if a.size != 4 then none
    let calls ← (← getArr? a[2]!).toList.mapM getStr?
    some (C16.SafeCalls.Def.mk (← getStr? a[0]!) (a[1]! == Json.bool true) calls (a[3]! == Json.bool true)))
  let names := C16.SafeCalls.safeNames base defs stores other
  let k := defs.length + 1
  some (Json.mkObj [("names", Json.arr (names.map Json.str).toArray),
                    ("reaches_effect", Json.arr ((names.filter (fun n => C16.SafeCalls.reachesEffect defs k n)).map Json.str).toArray)])

def handleOrient (j : Json) : Option Json := do
  let br (k : String) : Option Orient.Branch := do
    let a ← (field? j k) >>= getArr?
    if a.size != 5 then none
    some ⟨a[0]! == Json.bool true, a[1]! == Json.bool true, ← getNat? a[2]!, a[3]! == Json.bool true, ← getNat? a[4]!⟩
  let b ← br "body"
  let o ← br "orelse"
  some (Json.mkObj [("prefer", Json.bool (Orient.preferOrelse b o)), ("prefer_swapped", Json.bool (Orient.preferOrelse o b))])

def handleWalkW (j : Json) : Option Json := do
  let ns ← (field? j "nodes") >>= getArr?
  let nodes ← ns.toList.mapM (fun n => do
    let a ← getArr? n
    some ((← getStr? a[0]!), (← getNat? a[1]!)))
  let hs ← (field? j "hier") >>= getArr?
  let hier ← hs.toList.mapM (fun h => do
    let a ← getArr? h
    some ((← getStr? a[0]!), (← (← getArr? a[1]!).toList.mapM getStr?)))
  let tms ← (field? j "templates") >>= getArr? >>= (fun a => a.toList.mapM getStr?)
  let isSub (t : String) (tm : String) : Bool := t == tm || ((hier.lookup t).getD []).contains tm
  let out := C12.WalkW.walk nodes isSub (fun _ _ => true) tms
  some (Json.mkObj [("order", Json.arr (out.map (fun (n : Nat) => Json.num n)).toArray)])

def handleCharnos (j : Json) : Option Json := do
  let src ← (field? j "src") >>= getStr?
  let chars := src.toList
  let items ← (field? j "nodes") >>= getArr?
  let out ← items.toList.mapM (fun it => do
    let a ← getArr? it
    if a.size != 6 then none
    let first : Charnos.Pos := ⟨← getNat? a[0]!, ← getNat? a[1]!⟩
    let endp : Option Charnos.Pos := if a[2]!.isNull then none else some ⟨(getNat? a[2]!).getD 0, (getNat? a[3]!).getD 0⟩
    let isDef := a[4]! == Json.bool true
    let keep := a[5]! == Json.bool true
    let r := Charnos.getCharnos chars first endp isDef keep
    some (Json.arr #[Json.num r.1, Json.num r.2]))
  some (Json.mkObj [("ranges", Json.arr out.toArray)])

def handleFormatFiles (j : Json) : Option Json := do
  let fs ← (field? j "files") >>= getArr?
  let fs ← fs.toList.mapM (fun f => do
    let a ← getArr? f
    some ((← getNat? a[0]!), (← getNat? a[1]!), (← getNat? a[2]!)))
  let maxp ← (field? j "max_passes") >>= getNat?
  let folder : Nat → Nat := fun f => ((fs.find? (fun p => p.1 == f)).map (·.2.1)).getD 0
  let contents : Contents := fs.map (fun p => (p.1, p.2.2))
  let fmt : Nat → Nat → Nat × Bool := fun _ k => if k > 0 then (k - 1, true) else (k, false)
  let r := formatFiles fmt folder (fs.map (·.1)) maxp contents
  some (Json.mkObj [("final", Json.arr ((fs.map (·.1)).map (fun (f : Nat) => Json.arr #[Json.num f, Json.num (getC r.1.contents f)])).toArray),
    ("changed", Json.bool (formatFilesChanged r)),
    ("passes", Json.arr (r.2.map (fun l => Json.arr (l.map (fun (n : Nat) => Json.num n)).toArray)).toArray)])

def handleStyle (j : Json) : Option Json := do
  let name ← (field? j "name") >>= getStr?
  let static ← (field? j "static") >>= getBool?
  let priv ← (field? j "private") >>= getBool?
  let words := (Style.listWords name.toList).map String.ofList
  let r := match Style.renameVariable name.toList static priv with
    | .ok s => Json.str (String.ofList s)
    | .raises => Json.null
  some (Json.mkObj [("words", Json.arr (words.map Json.str).toArray), ("name", r)])

def strList? (j : Json) : Option (List String) := do (← getArr? j).toList.mapM getStr?

def handlePreserve (j : Json) : Option Json := do
  let defs ← (field? j "defs") >>= strList?
  let assigns ← (field? j "assigns") >>= strList?
  let pres ← (field? j "preserve") >>= strList?
  let cms ← (field? j "class_methods") >>= getArr?
  let cms ← cms.toList.mapM (fun p => do
    let a ← getArr? p
    some ((← getStr? a[0]!), (← getStr? a[1]!)))
  let cas := match (field? j "class_assigns") >>= getArr? with
    | some arr => (arr.toList.filterMap (fun p => do
        let a ← getArr? p
        some ((← getStr? a[0]!), (← getStr? a[1]!))))
    | none => []
  let usedJ ← (field? j "used") >>= getArr?
  let used ← usedJ.toList.mapM (fun p => do
    let a ← getArr? p
    some ((← getStr? a[0]!), (← strList? a[1]!)))
  let ns ← (field? j "ns") >>= getStr?
  let imported ← (field? j "imported") >>= strList?
  let loads ← (field? j "loads") >>= strList?
  let attrsJ ← (field? j "attrs") >>= getArr?
  let attrs ← attrsJ.toList.mapM (fun p => do
    let a ← getArr? p
    some ((if a[0]!.isNull then none else getStr? a[0]!), (← getStr? a[1]!)))
  let fromNames := ((field? j "from_names") >>= strList?).getD []
  let star := (field? j "star") == some (Json.bool true)
  let allNames := ((field? j "all_names") >>= strList?).getD []
  let uRead := (field? j "underscore_read") == some (Json.bool true)
  let cls := (field? j "cls") >>= getStr?
  some (Json.mkObj [
    ("keeps_underscore", Json.bool (Preserve.keepsUnderscore pres uRead cls)),
    ("safe", Json.arr ((Preserve.safeSet ⟨defs, cms, assigns, cas⟩ pres).map Json.str).toArray),
    ("file_preserve", Json.arr ((Preserve.filePreserve used ns).map Json.str).toArray),
    ("used_names", Json.arr ((Preserve.usedNames ⟨imported, loads, attrs, fromNames, star, allNames⟩).map Json.str).toArray)])

def handleLayout (j : Json) : Option Json := do
  let src ← (field? j "src") >>= getStr?
  some (Json.mkObj [("expandtabs", Json.str (String.ofList (Layout.expandTabs src.toList))),
                    ("rmspace", Json.str (String.ofList (Layout.rmspace src.toList)))])

def handleBlankLines (j : Json) : Option Json := do
  let src ← (field? j "src") >>= getStr?
  let l := src.toList
  some (Json.mkObj [("sub1", Json.str (String.ofList (BlankLines.sub1 l))),
                    ("sub2", Json.str (String.ofList (BlankLines.sub2 l))),
                    ("sub3", Json.str (String.ofList (BlankLines.sub3 l))),
                    ("fix", Json.str (String.ofList (BlankLines.fixBlankLines l))),
                    ("nbl", Json.arr ((BlankLines.nbl l).map (fun x => Json.str (String.ofList x))).toArray)])

def handleMinimize (j : Json) : Option Json := do
  let items ← (field? j "script") >>= getArr?
  let sc ← items.toList.mapM (fun it => do
    let a ← getArr? it
    if a.size != 2 then none
    let line ← getStr? a[1]!
    match (← getStr? a[0]!) with
    | " " => some (Minimize.Tag.same, line.toList)
    | "+" => some (Minimize.Tag.plus, line.toList)
    | "-" => some (Minimize.Tag.minus, line.toList)
    | "?" => some (Minimize.Tag.hint, line.toList)
    | _ => none)
  some (Json.mkObj [("text", Json.str (String.ofList (Minimize.minimize sc))),
                    ("new", Json.str (String.ofList (Minimize.newText sc)))])

def parseImps (items : Array Json) : Option (List Imports.Imp) :=
  items.toList.mapM (fun it => do
    let a ← getArr? it
    let opt (x : Json) : Option (Option String) := if x.isNull then some none else (getStr? x).map some
    match (← getStr? a[0]!) with
    | "plain" => some (Imports.Imp.plain (← getStr? a[1]!) (← opt a[2]!))
    | "from" => some (Imports.Imp.from_ (← getStr? a[1]!) (← getStr? a[2]!) (← opt a[3]!))
    | _ => none)

def handleImports (j : Json) : Option Json := do
  let items ← (field? j "imports") >>= getArr?
  let imps ← parseImps items
  let names := (imps.map Imports.Imp.bound).eraseDups
  some (Json.mkObj [("env", Json.arr (names.map (fun n =>
    match Imports.env imps n with
    | some (m, some a) => Json.arr #[Json.str n, Json.str m, Json.str a]
    | some (m, none) => Json.arr #[Json.str n, Json.str m, Json.null]
    | none => Json.arr #[Json.str n, Json.null, Json.null])).toArray)])

/-- `fix_starred_imports` on one star import -/
def handleStarImport (j : Json) : Option Json := do
  let referenced ← (field? j "referenced") >>= strList?
  let undefinedNames ← (field? j "undefined") >>= strList?
  let provided ← (field? j "provided") >>= strList?
  some (Json.mkObj [("expand", match StarImport.expand ⟨referenced, undefinedNames, provided⟩ with
    | none => Json.null
    | some l => Json.arr (l.map Json.str).toArray)])

/-- validator of an import rewrite: are the used names bound to the same objects before and after? -/
def handleImportCheck (j : Json) : Option Json := do
  let before ← (field? j "before") >>= getArr? >>= parseImps
  let after ← (field? j "after") >>= getArr? >>= parseImps
  let used ← (field? j "used") >>= getArr?
  let used ← used.toList.mapM getStr?
  let differ := used.filter (fun x => !decide (Imports.env before x = Imports.env after x))
  some (Json.mkObj [("agree", Json.bool (Imports.agreeOn used before after)),
                    ("differ", Json.arr (differ.map Json.str).toArray)])

partial def parseE (j : Json) : Option C16.E := do
  let a ← getArr? j
  let es (k : Nat) : Option (List C16.E) := do (← getArr? a[k]!).toList.mapM parseE
  let ctx (x : Json) : Option C16.Ctx := do
    match (← getStr? x) with | "load" => some .load | "store" => some .store | "del" => some .del | _ => none
  match (← getStr? a[0]!) with
  | "const" => some .const | "other" => some .other
  | "name" => some (.name (← getStr? a[1]!) (← ctx a[2]!))
  | "coll" => some (.coll (← es 1)) | "nary" => some (.nary (← es 1)) | "slice" => some (.slice (← es 1)) | "fstring" => some (.fstring (← es 1))
  | "unary" => some (.unary (← parseE a[1]!)) | "starred" => some (.starred (← parseE a[1]!))
  | "keyarg" => some (.keyarg (← parseE a[1]!))
  | "for" => some (.forStmt (← parseE a[1]!) (← parseE a[2]!) (← es 3) (← es 4))
  | "ifstmt" => some (.ifStmt (← parseE a[1]!) (← es 2) (← es 3))
  | "bin" => some (.bin (← parseE a[1]!) (← parseE a[2]!))
  | "attribute" => some (.attribute (← parseE a[1]!) (← getStr? a[2]!) (← ctx a[3]!))
  | "subscript" => some (.subscript (← parseE a[1]!) (← parseE a[2]!) (← ctx a[3]!))
  | "comp" =>
    let gens ← (← getArr? a[2]!).toList.mapM (fun g => do
      let p ← getArr? g
      some ((← parseE p[0]!), (← parseE p[1]!), (← (← getArr? p[2]!).toList.mapM parseE)))
    some (.comp (← es 1) gens)
  | "call" => some (.call (← parseE a[1]!) (← es 2) (← es 3))
  | "ifexp" => some (.ifexp (← parseE a[1]!) (← parseE a[2]!) (← parseE a[3]!))
  | "named" => some (.named (← parseE a[1]!) (← parseE a[2]!))
  | "lambda" => some (.lambda (← es 1) (← parseE a[2]!))
  | _ => none

def handleSideEffect (j : Json) : Option Json := do
  let e ← (field? j "e") >>= parseE
  let w ← (field? j "w") >>= strList?
  some (Json.mkObj [("b", Json.bool (C16.hse w e))])

def dispatch (j : Json) : Json :=
  match (field? j "suite") >>= getStr? with
  | some "sched" => (handleSched j).getD bad
  | some "lines" => (handleLines j).getD bad
  | some "fixloop" => (handleFixloop j).getD bad
  | some "bounds" => (handleBounds j).getD bad
  | some "negate" => (handleNegate j).getD bad
  | some "rangefold" => (handleRangeFold j).getD bad
  | some "sumrange" => (handleSumRange j).getD bad
  | some "driver" => (handleDriver j).getD bad
  | some "lru" => (handleLru j).getD bad
  | some "blocking" => (handleBlocking j).getD bad
  | some "exec" => (handleExec j).getD bad
  | some "boolop" => (handleBoolop j).getD bad
  | some "dupkeys" => (handleDupKeys j).getD bad
  | some "scope" => (handleScope j).getD bad
  | some "validate" => (handleValidate j).getD bad
  | some "lit" => (handleLit j).getD bad
  | some "match" => (handleMatch j).getD bad
  | some "perms" => (handlePerms j).getD bad
  | some "offsets" => (handleOffsets j).getD bad
  | some "formatfiles" => (handleFormatFiles j).getD bad
  | some "style" => (handleStyle j).getD bad
  | some "preserve" => (handlePreserve j).getD bad
  | some "layout" => (handleLayout j).getD bad
  | some "blanklines" => (handleBlankLines j).getD bad
  | some "charnos" => (handleCharnos j).getD bad
  | some "walkw" => (handleWalkW j).getD bad
  | some "orient" => (handleOrient j).getD bad
  | some "safecalls" => (handleSafeCalls j).getD bad
  | some "windows" => (handleWindows j).getD bad
  | some "minimize" => (handleMinimize j).getD bad
  | some "imports" => (handleImports j).getD bad
  | some "importcheck" => (handleImportCheck j).getD bad
  | some "starimport" => (handleStarImport j).getD bad
  | some "sideeffect" => (handleSideEffect j).getD bad
  | _ => bad

partial def loop (h : IO.FS.Stream) (out : IO.FS.Stream) : IO Unit := do
  let line ← h.getLine
  if line.isEmpty then return ()
  let ans := match Json.parse line with
    | .ok j => dispatch j
    | .error _ => bad
  out.putStrLn ans.compress
  loop h out

def main : IO Unit := do
  let out ← IO.getStdout
  loop (← IO.getStdin) out
  out.flush
