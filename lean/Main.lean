import Lean.Data.Json
import PyrefactModel
/-!
Line-protocol driver: one JSON request per line on stdin, one JSON answer per line on stdout.
Stateless between lines. Unknown or malformed requests answer `{"r":"bad-request"}`.
-/
open Lean

def bad : Json := Json.mkObj [("r", "bad-request")]

def getNat? (j : Json) : Option Nat := match j.getNat? with | .ok n => some n | _ => none
def getInt? (j : Json) : Option Int := match j.getInt? with | .ok n => some n | _ => none
def getStr? (j : Json) : Option String := match j.getStr? with | .ok n => some n | _ => none
def getArr? (j : Json) : Option (Array Json) := match j.getArr? with | .ok n => some n | _ => none
def field? (j : Json) (k : String) : Option Json := match j.getObjVal? k with | .ok v => some v | _ => none

def parseYield (j : Json) : Option Yield := do
  let a ← getArr? j
  if a.size != 4 then none
  let s ← getNat? a[0]!
  let e ← getNat? a[1]!
  let new ← getStr? a[2]!
  let txn ← (if a[3]!.isNull then some none else (getInt? a[3]!).map some)
  some ⟨⟨s, e⟩, new, txn⟩

def handleSched (j : Json) : Option Json := do
  let src ← (field? j "src") >>= getStr?
  let gs ← (field? j "groups") >>= getArr?
  let groups ← gs.toList.mapM (fun g => do
    let ys ← getArr? g
    ys.toList.mapM parseYield)
  let chars := src.toList
  let sched := schedule (hasIgnoreComment chars) groups
  let out := sched.map (fun (p : Key × Rw) =>
    Json.arr #[Json.num p.1.g, Json.num (JsonNumber.fromInt p.1.t), Json.num p.2.r.s, Json.num p.2.r.e, Json.str p.2.new])
  let text := String.ofList (sched.foldl spliceRw chars)
  some (Json.mkObj [("sched", Json.arr out.toArray), ("text", Json.str text)])

def handleLines (j : Json) : Option Json := do
  let src ← (field? j "src") >>= getStr?
  let rs ← (field? j "ranges") >>= getArr?
  let chars := src.toList
  let out ← rs.toList.mapM (fun r => do
    let a ← getArr? r
    if a.size != 2 then none
    let s ← getNat? a[0]!
    let e ← getNat? a[1]!
    some (Json.bool (hasIgnoreComment chars ⟨s, e⟩)))
  some (Json.mkObj [("ignored", Json.arr out.toArray),
    ("starts", Json.arr ((lineStarts pyBreak chars).map (fun (n : Nat) => Json.num n)).toArray),
    ("skipfile", Json.bool (skipFileSearch chars))])

def handleFixloop (j : Json) : Option Json := do
  let nxt ← (field? j "next") >>= getArr?
  let nxt ← nxt.toList.mapM getNat?
  let init ← (field? j "init") >>= getNat?
  let m ← (field? j "max_iter") >>= getNat?
  if init ≥ nxt.length || nxt.any (· ≥ nxt.length) then none
  let st := fixLoop (fun i => nxt.getD i 0) m init init
  some (Json.mkObj [("state", Json.num st)])

def dispatch (j : Json) : Json :=
  match (field? j "suite") >>= getStr? with
  | some "sched" => (handleSched j).getD bad
  | some "lines" => (handleLines j).getD bad
  | some "fixloop" => (handleFixloop j).getD bad
  | _ => bad

partial def loop (h : IO.FS.Stream) (out : IO.FS.Stream) : IO Unit := do
  let line ← h.getLine
  if line.isEmpty then return ()
  let ans := match Json.parse line with
    | .ok j => dispatch j
    | .error _ => bad
  out.putStrLn ans.compress
  loop h out

def main : IO Unit := do
  let out ← IO.getStdout
  loop (← IO.getStdin) out
  out.flush
