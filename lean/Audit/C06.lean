import Props.C06
#print axioms C06.final_order_canonical
#print axioms C06.final_sort_total
#print axioms C06.worker_schedule_independent
#print axioms C06.file_order_independent
