import Props.C10
#print axioms C10.sched_nonoverlap
#print axioms C10.sched_sound
#print axioms C10.sched_atomic
#print axioms C10.sched_drop_reason
#print axioms C10.sched_sorted
#print axioms C10.pass_eq_parallel
#print axioms C10.pass_untouched_preserved
#print axioms C10.apply_rollback
#print axioms C10.apply_valid
#print axioms C10.pass_all_or_nothing
#print axioms C10.fix_history_initial_only
#print axioms C10.fix_budget_zero
#print axioms C10.sched_dup_reason
#print axioms C10.sched_drop_reason_full
