import Props.C03
#print axioms C03.pass_valid
#print axioms C03.fix_valid
#print axioms C03.formatCode_valid_if
#print axioms C03.formatFile_never_breaks'
#print axioms C03.formatFile_unchanged'
