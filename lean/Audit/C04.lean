import Props.C04
#print axioms C04.formatCode_pass_bound
#print axioms C04.fix_pass_bound
#print axioms C04.early_returns
