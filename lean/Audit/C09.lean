import Props.C09
#print axioms C09.loop_exit_reason
#print axioms C09.stable_output
#print axioms C09.stable_iterate
#print axioms C09.cycle_cut_returns_member
#print axioms C09.fix_history_asymmetry
#print axioms C09.orientation_antisymmetric
#print axioms C09.orientation_hypotheses_needed
