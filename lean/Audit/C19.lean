import Props.C19
#print axioms C19.rename_private_prefix
#print axioms C19.rename_exempt
#print axioms C19.rename_valid_identifier_counterexample
