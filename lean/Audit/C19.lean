import Props.C19
#print axioms C19.rename_private_prefix
#print axioms C19.rename_exempt
#print axioms C19.rename_valid_identifier_counterexample
#print axioms C19.rename_capture_free
#print axioms C19.rename_scope_kept
#print axioms C19.rename_check_sound
#print axioms C19.merge_counterexample
#print axioms C19.split_counterexample
