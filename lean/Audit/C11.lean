import Props.C11
#print axioms C11.expandtabs_only_whitespace
#print axioms C11.expandtabs_no_tab_left
#print axioms C11.rmspace_only_whitespace
#print axioms C11.whitespace_replacement_only_whitespace
#print axioms C11.layout_changes_literal_counterexample
#print axioms C11.blanklines_nonblank_lines_verbatim
#print axioms C11.blanklines_each_substitution
#print axioms C11.minimize_only_whitespace
#print axioms C11.minimize_identity_without_blank_groups
