import Props.C12
#print axioms C12.perms_exact'
#print axioms C12.match_sound'
#print axioms C12.match_functional
#print axioms C12.match_self
#print axioms C12.sequence_windows_exact
#print axioms C12.sequence_windows_count
#print axioms C12.search_reports_exactly
