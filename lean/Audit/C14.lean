import Props.C14
#print axioms C14.subn_count_bound
#print axioms C14.applied_le_yielded
#print axioms C14.sub_nomatch_id
#print axioms C14.sub_is_parallel_splice
#print axioms C14.sub_ignore_respected
#print axioms C14.sub_valid
