import Props.C05
#print axioms C05.cache_wf_faithful
#print axioms C05.history_independent
#print axioms C05.twice_same
#print axioms C05.mutation_breaks
