import Props.C16
#print axioms C16.blocking_sound_all
#print axioms C16.blocking_sound'
#print axioms C16.unreachable_sound
#print axioms C16.conditional_while_not_blocking
#print axioms C16.while_true_break_not_blocking
#print axioms C16.pure_sound
#print axioms C16.try_not_blocking
#print axioms C16.safe_callables_consistent
#print axioms C16.safe_callables_no_effect
