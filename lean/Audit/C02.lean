import Props.C02
#print axioms C02.delete_unreachable_preserves
#print axioms C02.constant_condition_sound
#print axioms C02.negated_condition_sound
#print axioms C02.flip_negated_sound
#print axioms C02.boolean_bounds_sound
#print axioms C02.constrained_range_sound
#print axioms C02.flow_rewrite_sound
#print axioms C02.if_continuation_sound
#print axioms C02.swap_if_else_sound
#print axioms C02.dead_if_sound
#print axioms C02.unreachable_drop_sound
#print axioms C02.trailing_continue_sound
#print axioms C02.reorder_not_equiv
#print axioms C02.boolop_values_preserves
#print axioms C02.duplicate_dict_keys_lookup
#print axioms C02.duplicate_dict_keys_order_changes
#print axioms C02.duplicate_set_elts_sound
