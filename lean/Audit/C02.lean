import Props.C02
#print axioms C02.delete_unreachable_preserves
#print axioms C02.constant_condition_sound
#print axioms C02.negated_condition_sound
#print axioms C02.flip_negated_sound
#print axioms C02.boolean_bounds_sound
#print axioms C02.constrained_range_sound
