import Props.C07
#print axioms C07.safe_set_covers
#print axioms C07.safe_surface_ok_partial
#print axioms C07.class_member_bare_name_missing
#print axioms C07.safe_class_member_ok
#print axioms C07.safe_underscore_member_kept
#print axioms C07.safe_underscore_toplevel_kept
#print axioms C07.underscore_member_needs_class_lookup
