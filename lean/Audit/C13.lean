import Props.C13
#print axioms C13.span_inside
#print axioms C13.column_exact
#print axioms C13.column_ascii
#print axioms C13.lineno_col_roundtrip
#print axioms C13.lines_partition
