import Props.C13
#print axioms C13.span_inside
#print axioms C13.column_exact
#print axioms C13.column_ascii
#print axioms C13.lineno_col_roundtrip
#print axioms C13.lines_partition
#print axioms C13.charnos_inside
#print axioms C13.trim_preserves_nonblank
#print axioms C13.lookbehind_and_indent
