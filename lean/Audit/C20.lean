import Props.C20
#print axioms C20.skipfile_identity
#print axioms C20.ignored_never_scheduled
#print axioms C20.ignoredFrom_iff
#print axioms C20.ignored_line_verbatim
#print axioms C20.ignored_line_verbatim_pass
