import Props.C18
#print axioms C18.reorder_preserves_env
#print axioms C18.unique_binding
#print axioms C18.alias_collision_counterexample
