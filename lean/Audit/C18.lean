import Props.C18
#print axioms C18.reorder_preserves_env
#print axioms C18.unique_binding
#print axioms C18.alias_collision_counterexample
#print axioms C18.removal_preserves_env
#print axioms C18.shadowed_import_removable
#print axioms C18.import_rewrite_check_sound
#print axioms C18.star_expansion_keeps_bindings
#print axioms C18.star_expansion_old_drops_shadowing_name
