import Props.C17
#print axioms C17.boundTable_ok
#print axioms C17.boundTable_sound
#print axioms C17.boundTable_rank_ok
#print axioms C17.boundTable_rankSound
#print axioms C17.boundTable_tableOk
#print axioms C17.bounds_sound
#print axioms C17.cstsFrom_sorted
#print axioms C17.opposite_sound
#print axioms C17.allSame_sound
#print axioms C17.reverseOps_ok
#print axioms C17.negate_sound'
#print axioms C17.flipNegated_sound'
#print axioms C17.rangeFold_sound
#print axioms C17.sumRange_sound_partial
#print axioms C17.sumRange_counterexample
#print axioms C17.sumRange_sound
