import Props.C15
#print axioms C15.lit_sound
#print axioms C15.lit_unknown_on_raise
#print axioms C15.lit_no_effects
#print axioms C15.lit_name_unknown
#print axioms C15.and_short_circuit
#print axioms C15.or_short_circuit
#print axioms C15.boolop_values_sound
#print axioms C15.boolop_values_iterated_sound
