import Props.C01
#print axioms C01.pipeline_preserves
#print axioms C01.multi_preserves
#print axioms C01.multi_preserves_perm
#print axioms C01.skip_preserves
