import Props.C08
#print axioms C08.preserved_not_touched
#print axioms C08.client_names_preserved
#print axioms C08.own_namespace_excluded_only
#print axioms C08.client_uses_collected
#print axioms C08.client_imports_collected
