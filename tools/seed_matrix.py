#!/usr/bin/env python3
"""Apply every seeded change to /repo, run the listed quick checks, undo; write seeded/<id>/meta.json. By hand only."""
import json, os, shutil, subprocess, sys
from pathlib import Path

V = Path(__file__).resolve().parent.parent
SRC = Path("/tmp/seed")
PLAN = {  # seed -> checks to try (own property first)
    "C01b": ["C01", "C19"], "C02a": ["C02", "C17"], "C02b": ["C02"], "C03a": ["C03"], "C03b": ["C03"], "C04a": ["C04"], "C04b": ["C04"],
    "C05a": ["C05"], "C05b": ["C05"], "C06a": ["C06"], "C06b": ["C06"], "C07a": ["C07"], "C07b": ["C07"], "C08a": ["C08"], "C08b": ["C08"],
    "C09a": ["C09"], "C09b": ["C09"], "C10a": ["C10"], "C10b": ["C10"], "C11a": ["C11"], "C11b": ["C11"], "C12a": ["C12"], "C12b": ["C12"],
    "C13a": ["C13"], "C13b": ["C13"], "C14a": ["C14", "C20"], "C14b": ["C14", "C10"], "C15b": ["C15"], "C15na": ["C15"], "C15nb": ["C15", "C04"],
    "C16na": ["C16"], "C16nb": ["C16"], "C17a": ["C17"], "C17b": ["C17"], "C18a": ["C18"], "C18b": ["C18"], "C19a": ["C19"], "C19b": ["C19"],
    "C20a": ["C20"], "C20b": ["C20"],
}


def sh(cmd, cwd=None, timeout=3000):
    return subprocess.run(cmd, shell=True, cwd=cwd, capture_output=True, text=True, timeout=timeout)


def main():
    only = sys.argv[1:]
    for seed, props in PLAN.items():
        if only and seed not in only:
            continue
        d = SRC / seed
        if not (d / "patch.diff").exists():
            print(seed, "missing")
            continue
        if sh("git diff --quiet", cwd="/repo").returncode != 0:
            print("/repo dirty"); return
        if sh(f"git apply {d}/patch.diff", cwd="/repo").returncode != 0:
            print(seed, "does not apply"); continue
        try:
            tests = sh("/venv/bin/python -m pytest -q -p no:cacheprovider 2>&1 | tail -1", cwd="/repo").stdout.strip()
            demo = sh(f"timeout 600 /venv/bin/python {d}/demo.py >/dev/null 2>&1; echo $?", cwd="/repo").stdout.strip()
            caught = {}
            for p in props:
                r = sh(f"timeout 2400 /venv/bin/python harness/vcheck.py check {p} --tier quick 2>/dev/null | grep -c '^VIOLATION'", cwd=str(V))
                caught[p] = int(r.stdout.strip() or 0) > 0
        finally:
            sh("git checkout -- .", cwd="/repo")
        demo_clean = sh(f"timeout 600 /venv/bin/python {d}/demo.py >/dev/null 2>&1; echo $?", cwd="/repo").stdout.strip()
        out = V / "seeded" / seed
        out.mkdir(parents=True, exist_ok=True)
        for f in ("patch.diff", "demo.py", "notes.md"):
            if (d / f).exists():
                shutil.copy(d / f, out / f)
        meta = {"breaks_property": seed[:3], "needs": (d / "notes.md").read_text()[:1800] if (d / "notes.md").exists() else "",
                "confirmed": {"pinned_tests_with_change": tests, "demo_exit_with_change": demo, "demo_exit_without_change": demo_clean,
                              "how": "git -C /repo apply patch.diff; pytest (58 pinned); demo.py from /repo; quick checks; git -C /repo checkout -- ."},
                "quick_checks_reporting_violation": caught}
        (out / "meta.json").write_text(json.dumps(meta, indent=1))
        print(seed, tests[-20:], "demo", demo, "/", demo_clean, caught, flush=True)


if __name__ == "__main__":
    main()
