#!/usr/bin/env python3
"""Write MANIFEST.json from the per-property registry below (kept in one place so it stays valid)."""
import json
from pathlib import Path

V = Path(__file__).resolve().parent.parent
PY = "/venv/bin/python"

CLAIMED = {
    "C10": dict(
        text="Full machine-checked proof over the scheduler model: non-overlap, atomicity of transactions, drop reasons, final order, "
             "descending sequential splicing = simultaneous substitution, rollback on invalid result; for all rewrite sets, "
             "transaction/group assignments, yield orders, ignore predicates and validity predicates (12 theorems, no size bound). "
             "The model is tied to processing.chain/fix/_schedule_rewrites by differential suites on every run.",
        design="4/C10",
        note="Trusted: Lean kernel, hand model Sched.lean tied by sched-random/sched-exhaustive/fixloop suites; _do_rewrite beyond the "
             "pure splice (indent repair, pass insertion, difflib minimisation) is a parameter; the duplicate-elimination drop reason "
             "is modelled and checked by correspondence and by the statement-level oracle, its top-level theorem is not yet proved.",
        technique="Lean 4 proof (induction over the accept loop and rule groups) + differential correspondence with the real scheduler",
    ),
    "C17": dict(
        text="Machine-checked proof: (1) the 216-entry pair table regenerated from the running simplify_boolean_expressions is sound for all "
             "integers (decide + lifting lemma) and rank-decreasing; (2) the n-ary bound analysis is value-preserving for every list of "
             "constraints, valuation and other operands, for any table passing the two checks (closure argument); (3) negation / De Morgan and "
             "negated-comparison flipping over the regenerated REVERSE_OPERATOR_MAPPING; (4) range-filter folding for literal bounds, any "
             "visiting order; (5) closed form of sum(range(a,b)) for a<=b, with a counterexample theorem for a>b. 15 theorems.",
        design="4/C17",
        note="Trusted: Lean kernel; models BoolSimp/Cond/RangeFold/SumRange tied by the bounds, negate, rangefold, sumrange suites; sympy.simplify "
             "is external (its rewrites are only truth-table checked); value-vs-truthiness of and/or operands belongs to C02.",
        technique="Lean 4 proof (decide over regenerated tables + lifting lemmas, induction) + differential correspondence + truth-table oracle",
    ),
}

NOT_YET = {}


def main():
    props = [json.loads(l)["id"] for l in (V / "properties.jsonl").read_text().splitlines() if l.strip()]
    reasons = json.loads((V / "tools" / "not_applicable.json").read_text())
    checks = []
    for pid in props:
        if pid not in CLAIMED:
            continue
        c = CLAIMED[pid]
        checks.append({
            "property_id": pid,
            "quick_cmd": f"{PY} harness/vcheck.py check {pid} --tier quick",
            "thorough_cmd": f"{PY} harness/vcheck.py check {pid} --tier thorough",
            "evidence_file": f"evidence/{pid}.json",
            "replay_cmd_template": f"{PY} harness/vcheck.py replay {{path}}",
            "engine": "lean-proof+correspondence",
            "level_claimed": {"category": "proof", "text": c["text"], "design_ref": c["design"]},
            "level_note": c["note"],
            "technique": c["technique"],
        })
    man = {
        "version": 1,
        "setup_cmd": f"{PY} harness/vcheck.py setup",
        "hooks": {
            "guard": "PYREFACT_VERIF",
            "enable": "no source hooks are needed: the harness imports /repo's working tree and monkey-patches from its own process; PYREFACT_VERIF=1 is exported by the harness for future hooks",
            "baseline_off_cmd": "cd /repo && env -u PYREFACT_VERIF /venv/bin/python -m pytest -ra -q -p no:cacheprovider --timeout=900",
            "source_commits": [],
            "add_only": True,
        },
        "engines": [{
            "name": "lean-proof+correspondence",
            "path": "harness/vcheck.py",
            "serves_properties": [c["property_id"] for c in checks],
            "kind_free_text": "Lean 4 models + theorems (lean/), regenerated tables, compiled JSON line-protocol driver, differential correspondence against the imported /repo modules, failing-input search on break",
        }],
        "checks": checks,
        "notes": "See DESIGN.md. Known findings / repaired defects: KNOWN_FINDINGS.txt. Seeded changes used to test the checks: seeded/.",
        "not_applicable": [{"property_id": p, "reason": reasons.get(p, "model not built yet in this session; see DESIGN.md section 9")}
                           for p in props if p not in CLAIMED],
    }
    (V / "MANIFEST.json").write_text(json.dumps(man, indent=1) + "\n")
    print("claimed:", [c["property_id"] for c in checks])


if __name__ == "__main__":
    main()
