#!/usr/bin/env python3
"""Write MANIFEST.json from the per-property registry below (kept in one place so it stays valid)."""
import json
from pathlib import Path

V = Path(__file__).resolve().parent.parent
PY = "/venv/bin/python"

CLAIMED = {
    "C10": dict(
        text="Full machine-checked proof over the scheduler model: non-overlap, atomicity of transactions, drop reasons, final order, "
             "descending sequential splicing = simultaneous substitution, rollback on invalid result; for all rewrite sets, "
             "transaction/group assignments, yield orders, ignore predicates and validity predicates (14 theorems, no size bound; every drop "
             "is attributed to exactly one of: ignored, duplicate of an earlier-visited equal rewrite, overlap with an accepted rewrite, rolled-back transaction). "
             "The model is tied to processing.chain/fix/_schedule_rewrites by differential suites on every run.",
        design="4/C10",
        note="Trusted: Lean kernel, hand model Sched.lean tied by sched-random/sched-exhaustive/fixloop suites; _do_rewrite beyond the "
             "pure splice (indent repair, pass insertion, difflib minimisation) is a parameter.",
        technique="Lean 4 proof (induction over the accept loop and rule groups) + differential correspondence with the real scheduler",
    ),
    "C17": dict(
        text="Machine-checked proof: (1) the 216-entry pair table regenerated from the running simplify_boolean_expressions is sound for all "
             "integers (decide + lifting lemma) and rank-decreasing; (2) the n-ary bound analysis is value-preserving for every list of "
             "constraints, valuation and other operands, for any table passing the two checks (closure argument); (3) negation / De Morgan and "
             "negated-comparison flipping over the regenerated REVERSE_OPERATOR_MAPPING; (4) range-filter folding for literal bounds, any "
             "visiting order; (5) what the rule emits for sum(range(a, b)) with integer literals is the sum for ALL a, b (sumRange_sound; empty and reversed ranges give 0 since the "
             "repair 41b17e5; the bare closed form is not the sum - counterexample theorem). 16 theorems. Sums over stepped ranges and comprehensions have no model: a "
             "stepped-sums oracle enumerates literal bounds x steps x bodies and symbolic shapes (value equal, no exception).",
        design="4/C17",
        note="Trusted: Lean kernel; models BoolSimp/Cond/RangeFold/SumRange tied by the bounds, negate, rangefold, sumrange suites; sympy.simplify "
             "and sympy.Sum are external (their rewrites are only checked by truth table / by value); value-vs-truthiness of and/or operands belongs to C02; one recorded finding "
             "(sum(range(n)) with a symbolic bound becomes n*(n-1)/2).",
        technique="Lean 4 proof (decide over regenerated tables + lifting lemmas, induction) + differential correspondence + truth-table oracle",
    ),
    "C15": dict(
        text="Machine-checked proof on a stated expression fragment: a value reported by the literal_value model is the value of the expression "
             "in every environment (environment independence of name-free evaluation, mutual induction over expressions), raising expressions "
             "are unknown, known values involve no call outside the pure builtins, and/or have value semantics. The evaluator doubles as reference "
             "semantics validated against CPython eval (builtins in the fragment: len abs bool int min max sum any all tuple list). The consumer remove_redundant_boolop_values is modelled and proved to keep the VALUE of every and / or chain, also "
             "when repeated by processing.fix (exhaustive tie over all truth-value masks up to length 6). 8 theorems.",
        design="4/C15",
        note="Trusted: Lean kernel; Lit.lean tied to core.literal_value (suite lit) and to CPython eval (suite pyeval); floats, string methods, "
             "dict/set, repetition are outside the fragment (covered by the eval oracle only); builtin names are assumed to denote the builtins (a module that rebinds len: recorded finding).",
        technique="Lean 4 proof (mutual structural induction) + differential correspondence with literal_value and with CPython eval",
    ),
    "C16": dict(
        text="Machine-checked proof on the control skeleton: a statement that the is_blocking model reports blocking never completes normally "
             "(inside a loop: surely leaves the function) under every oracle = every valuation of unknown tests and iteration counts, every fuel; "
             "the skeleton has if/elif/else, while/for WITH else clauses, with, try/except/finally (handler none / catch-all / may match), return, raise, break, continue, assert; "
             "deleting what follows a blocking statement preserves outcome, consumed oracle stream and the trace of executed statements; a try statement is never reported blocking; "
             "and has_side_effect's model answers False only for "
             "expressions in which no position (comprehension element, condition, slice, f-string, keyword value, lambda default) holds a store, a control transfer, a "
             "call to a callee outside the whitelist or an unknown callable handed to a builtin that calls it (pure_sound); and the fixpoint of parsing.safe_callable_names (which user functions may be called "
             "without a side effect) admits only self-consistent names: every definition of an admitted name has no effect of its own and calls admitted names only, so a call never reaches an effect at any call depth; a builtin name the module "
             "binds itself is not taken for the builtin (safe_callables_consistent / _no_effect, any number of definitions, redefinitions, recursion). 9 theorems. The models equal core.is_blocking on all enumerated statement shapes and core.has_side_effect "
             "on every expression node of the corpus x 3 whitelists; the semantics equals CPython on instrumented functions.",
        design="4/C16",
        note="Trusted: Lean kernel; Flow.lean tied by suites blocking (exhaustive shapes) and exec (CPython); SafeCalls.lean tied by suite safecalls (per-definition summaries computed with the real has_side_effect / is_blocking and checked under random whitelists; admitted names vs parsing.safe_callable_names); SideEffect.lean tied by suite sideeffect "
             "(expressions, simple statements, for and if statements; def / class statements of has_side_effect are outside it); that whitelisted callees are themselves effect-free is "
             "an assumption (callables handed to builtins that call them - key=, map, filter - are in the model since the repair f067a1c); try-else, several handlers, async constructs and match statements are outside the skeleton; shapes with a jump in a finally block "
             "inside a loop are not executed against CPython (they swallow the step budget).",
        technique="Lean 4 proof (simultaneous induction on fuel for statements and statement lists) + exhaustive-shape correspondence + all-valuation execution oracle",
    ),
    "C20": dict(
        text="Machine-checked proof for the scheduler / pass / orchestration paths: skip-file text is returned unchanged; no scheduled rewrite has an "
             "ignored range; a source line all of whose overlapping ranges count as ignored occurs verbatim in the text a pass produces (through the "
             "rollback too); the line scan is characterised exactly. 5 theorems.",
        design="4/C20",
        note="Trusted: Lean kernel; Lines/Sched models tied by suites lines and sched-ignored; the direct editing path (alter_code) and raw-text stages "
             "are outside the theorems (annotate-a-line oracle incl. line separators above the annotated line, a per-rule direct-editing suite with a half-applied-edit check; the defects they found are repaired, the text preludes "
             "expandtabs / rmspace on annotated lines are a recorded finding).",
        technique="Lean 4 proof (splice algebra + scheduler invariant) + differential correspondence + annotate-every-line oracle",
    ),
    "C05": dict(
        text="Machine-checked proof of the memoisation protocol: under the purity hypothesis (no rule hands back a changed cached tree) the cache stays "
             "well-formed and faithful after every history and the output of a call is independent of the history (evictions included); a witness "
             "shows the hypothesis cannot be dropped. 4 theorems. The hypothesis is checked for every pipeline rule on each run: objects handed out by the caches (suite purity) and every mutable "
             "container bound at module or class level in a pyrefact module (suite module-state; a change starts a search for a history on which an output differs).",
        design="4/C05",
        note="Trusted: Lean kernel; Cache.lean tied to functools.lru_cache by suite lru; rule purity is a checked assumption (suite purity), not a theorem; "
             "Python aliasing is modelled as 'the tree left in the slot'.",
        technique="Lean 4 proof (invariant by induction over call histories) + LRU correspondence + purity monitor + fresh-process oracle",
    ),
    "C01": dict(
        text="Machine-checked composition theorem: if every stage preserves the observation of a program then format_code does, for every option "
             "combination, pass budget and rule order (also under permutation of the rule list). The orchestration model equals the real format_code "
             "on stub rule systems (output, full call sequence, pass counts). Per-stage preservation is a theorem only for modelled rules; all rules "
             "are examined by the execution sweep over a fixed corpus x option combinations. 4 theorems.",
        design="4/C01",
        note="Trusted: Lean kernel; Driver.lean tied by suite driver; CPython exec as program meaning; stub world for open snippets; corpus inputs "
             "on which the reference tree already fails are baseline-excluded (corpus/baseline_C01.json) with witnesses in KNOWN_FINDINGS.txt.",
        technique="Lean 4 proof (composition by induction over loops and rule lists) + orchestration correspondence + curated execution sweep",
    ),
    "C03": dict(
        text="Machine-checked proof of the guards: a scheduler pass, every fix/chain iteration, hence every @fix rule and sub/subn, returns valid text for "
             "valid input whatever the rewrites; format_file never replaces a valid file by an invalid one nor rewrites an unchanged one; format_code is "
             "valid-preserving if the unguarded stages are (hypotheses named). 5 theorems.",
        design="4/C03",
        note="Trusted: Lean kernel; Sched/Driver models tied by suites sched-rollback, formatfile, driver; validity preservation of unguarded stages is a "
             "hypothesis examined by the format sweep and the per-rule validity sweep.",
        technique="Lean 4 proof (guard invariants) + differential correspondence + validity sweep",
    ),
    "C04": dict(
        text="Machine-checked proof of the termination budgets: at most 2*MAX_FILE_PASSES invocations of the multi-run pipeline per call (constant "
             "regenerated from the code), at most max_iter passes per fix/chain, early returns for skip-file / blank / invalid input. 3 theorems. Absence of "
             "exceptions is examined by the format sweep in isolated workers with a wall-clock limit over ~10000 corpus cases.",
        design="4/C04",
        note="Trusted: Lean kernel; Driver model tied by suite driver (incl. cyclic stub systems); 'no exception anywhere in the rule code' is not a theorem.",
        technique="Lean 4 proof (loop budgets) + orchestration correspondence + crash/timeout sweep in isolated processes",
    ),
    "C09": dict(
        text="Machine-checked proof of the orchestration facts: the convergence loop exits only on a repeated text or a spent budget; a text on which every "
             "stage is the identity is a fixed point of format_code and of all its iterates; on a cycle the loop returns a member of the cycle (witness); "
             "fix remembers only the initial text; the orientation heuristic of swap_if_else (_orelse_preferred_as_body) never prefers both orders of two branches that are not both pass-only and hold no dead code behind a leading jump, so one if is not swapped back and forth (both hypotheses are needed: witnesses). 7 theorems. Convergence of the rule set is examined by the 7-fold iteration sweep (corpus x options, and a line-limit family: long statements at nesting depths 0-12 x limits 60 / 80 / 100).",
        design="4/C09",
        note="Trusted: Lean kernel; Driver model tied by suite driver; Orient.lean tied by suite orient (every ordered pair of 27 branches, summaries measured with the real is_blocking / _count_branches); confluence/termination of the ~95 heuristic rules is not a theorem.",
        technique="Lean 4 proof (loop invariants) + orchestration correspondence + iteration sweep",
    ),
    "C12": dict(
        text="Machine-checked proof: (1) the repetition vectors tried for a quantified list are exactly the position-wise admissible vectors summing to the "
             "length (regular-expression reading), for all quantifier lists and lengths; (2) soundness of the matcher w.r.t. an inductive declarative "
             "semantics with one canonical text per wildcard name, for all trees, templates, class hierarchies and fuels; bindings are functional. "
             "(3) every tree matches itself: a tree read as a template is accepted with no bindings, for every tree with distinct field names and every fuel from an explicit bound on. "
             "Completeness is false in general (nested-list backtracking): counterexample evaluated on the model and replayed on the code (known finding). "
             "(4) the statement windows walk_sequence tries (zip of k shifted slices, Python's negative-stop rule included) are exactly the contiguous windows of k statements, each once, in order, for every body and k >= 1; (5) walk_wildcard reports exactly the nodes whose type fits one of the alternative templates and that the template matches, each once, for every scope, subclass relation and matcher. 7 theorems. "
             "Statement-sequence search as a whole is checked against a reference computed from the ast (every window in body / else blocks, with multiplicity).",
        design="4/C12",
        note="Trusted: Lean kernel; Quant/Match models tied by suites perms (exhaustive small scope) and match (templates harvested from the running pipeline + "
             "compiled patterns x corpus nodes, via an exporter of ast trees / compiled templates); walk order and compile_template preprocessing are covered by the oracle only.",
        technique="Lean 4 proof (simultaneous induction on fuel over five mutually recursive matcher functions) + differential correspondence + brute-force reference matcher",
    ),
    "C13": dict(
        text="Machine-checked proof of the offset algebra: every reported offset lies inside the source (any text, line-break set, line, byte column); byte "
             "columns convert exactly at character boundaries for any script and are the identity on ASCII; the reported (line, column) of a match addresses "
             "its span start on the line containing it; physical lines partition the text; get_charnos in full (blank trimming, decorator look-behind, keep_first_indent): the range lies inside the text, "
             "trimming cuts blanks only and stops at the first / last non-blank character, the look-behind moves by one character onto an '@', keep_first_indent extends over blanks only. 8 theorems.",
        design="4/C13",
        note="Trusted: Lean kernel; Offsets/Lines models tied by suite offsets on non-ASCII / CRLF / form-feed / U+2028 sources; Charnos.lean tied by suite charnos (every positioned node x keep_first_indent against core.get_charnos); that CPython positions delimit the "
             "node text is the oracle's definition.",
        technique="Lean 4 proof (list/arith induction) + differential correspondence + span-vs-ast.get_source_segment oracle",
    ),
    "C06": dict(
        text="Machine-checked proof of order independence: the scheduled list depends only on the set of accepted rewrites (the final sort key is a total order, "
             "ties are identical rewrites); the tasks of a format_files pass may be executed in any order with the same resulting files; format_files gives the "
             "same result for every order of the file list. 4 theorems + model-evaluated witnesses that overlapping default-numbered yields ARE order dependent.",
        design="4/C06",
        note="Trusted: Lean kernel; Sched/FormatFiles models tied by the scheduler suites and suite formatfiles (real pool, n_cores 1-16, shuffled lists); starmap "
             "result order and one-writer-per-file are assumptions; hash-seed / address-layout independence of the rules is examined by fresh-process oracles only.",
        technique="Lean 4 proof (sorted permutations are equal; disjoint-task commutation) + differential correspondence + PYTHONHASHSEED / worker-count oracles",
    ),
    "C14": dict(
        text="Machine-checked composition of the C10/C20 theorems for sub/subn = fix(max_iter=1) over the match stream: no yields -> the source unchanged; the result is "
             "the source or the simultaneous replacement of the scheduled non-overlapping matches with every untouched stretch verbatim in order; count bounds the "
             "yielded matches; ignored lines occur verbatim; the result is valid for valid input. 6 theorems.",
        design="4/C14",
        note="Trusted: Lean kernel; scheduler/splice models tied by suite sub (the real match stream of find_replace scheduled and spliced by the model vs the real "
             "subn); template instantiation is taken from the real code; 'tree = source tree with nodes replaced' is decided by the AST oracles only (sub-ast-reference: the node at each matched range replaced by the parsed replacement, 15 expression patterns x syntactic positions).",
        technique="Lean 4 proof (composition) + differential correspondence on the real match stream + AST-level reference substitution oracle",
    ),
    "C19": dict(
        text="Machine-checked proof, two parts. (1) Capture-freedom against Python's scoping rules (model C19/Scope.lean: occurrences, scope chains that skip class scopes, "
             "global / nonlocal declarations): a renaming whose new name is fresh, whose names are not declared global / nonlocal and whose set of renamed occurrences is closed "
             "under 'refers to the same variable' keeps every occurrence in its variable's scope and preserves 'same variable' between any two occurrences - no capture, split "
             "or merge (rename_capture_free, rename_scope_kept), for every program, nesting and occurrence set; the hypotheses are decidable (rename_check_sound) and both are "
             "needed (merge_counterexample, split_counterexample). (2) The constructed name: a public rename never starts with an underscore, a private one always does; 'the new "
             "name is a valid identifier' is FALSE of the code (counterexample theorem, replayed, known finding). 8 theorems. Ties: the scoping model equals CPython's symtable on "
             "every corpus program (suite scope-model); every pure renaming the 7 renaming rules perform on the corpus and on a fixed corpus of 4800 random scope trees over "
             "convention-colliding names is checked against checkHyps (then the theorem applies) or CPython's symbol tables of both texts (translation validation), and executed.",
        design="4/C19 and 10.9",
        note="Trusted: Lean kernel; harness/scoping.py (extraction of occurrences / scopes from the ast; compared with symtable by suite scope-model; comprehension variables follow "
             "PEP 709 where symtable no longer lists them); Style.lean tied by suite style. Which occurrences a rule selects (_get_uses_of) is code, not model: it is validated per "
             "output, not proved for all inputs. Renamings that also change the tree (203 of ~960 outputs in the quick tier) are covered by the execution oracle only. Variables "
             "that are only written after the renaming (throwaway '_') are left out of the static comparison.",
        technique="Lean 4 proof (scoping model, induction over scope chains; scanner model) + translation validation of every pure renaming against the theorem's decidable "
                  "hypotheses and CPython's symtable + differential correspondence + execution oracle",
    ),
    "C07": dict(
        text="Machine-checked proof over the guard logic: the safe-mode set contains every top-level def/class, every collected top-level assignment target, every "
             "Class.method and Class.attribute pair and the caller's names; a guarded rule touches no name of the set, and a rule that renames or moves class members "
             "(it looks up the bare name and Class.member) touches no member of a top-level class (safe_class_member_ok); a lookup by the bare name alone would miss them "
             "(witness theorem - the defect repaired by 00fac0d); the `_` guard of delete_pointless_statements keeps a member named _ of a top-level class and a top-level _ "
             "(safe_underscore_member_kept, safe_underscore_toplevel_kept; without the Class._ lookup the member is lost - witness theorem, the defect repaired by 995e49d). 7 theorems.",
        design="4/C07",
        note="Trusted: Lean kernel; Preserve.lean tied by suites safeset (the set really handed to the rules, captured from the harness) and underscore-guard (the real delete_pointless_statements on 384 body / tail / preserve-set combinations); that every rule consults "
             "preserve is examined by the surface oracle on library-like modules and the corpus.",
        technique="Lean 4 proof (set membership / guard) + differential correspondence of the captured preserve set + surface-name oracle",
    ),
    "C08": dict(
        text="Machine-checked proof of the guard and of the preserve-set plumbing: a guarded rule touches no preserved name; a name used by a preserved file of another "
             "namespace (referenced import, any attribute, the name behind an import alias, a name imported only to be re-exported and - behind a star import - every name the file mentions) is in the set handed to the library file; "
             "only the file's own namespace is excluded. 5 theorems.",
        design="4/C08",
        note="Trusted: Lean kernel; Preserve.lean tied by suites usednames (_used_names_in_file) and filepreserve (set captured per target file through the real "
             "format_files / pool); the unused-analyses are not modelled; oracles: preserved names still defined, CLI --preserve keeps clients working.",
        technique="Lean 4 proof (membership) + differential correspondence through the real format_files + client-execution oracle",
    ),
    "C02": dict(
        text="Machine-checked behaviour preservation (19 theorems). (1) Control-flow rules: a proved validator - C16.validate l l' = true implies that under every valuation of "
             "the unknown tests and every iteration count l and l' terminate with the same outcome, oracle position and trace of executed statements and evaluated tests, or both "
             "diverge (flow_rewrite_sound, via a normaliser proved sound against a big-step semantics with loop else-clauses and try/except/finally); every rewrite the REAL "
             "remove_dead_ifs, delete_unreachable_code, remove_redundant_else, swap_if_else, early_continue, breakout_common_code_in_ifs make on labelled skeleton programs is "
             "checked by it (translation validation), a rejected rewrite is executed under all valuations for the replay. (2) Decision cores: constant-condition folding, negation, "
             "replace_negated_numeric_comparison, simplify_boolean_expressions' bound analysis, simplify_constrained_range (corollaries of C15/C17), remove_redundant_boolop_values (value of the "
             "chain), remove_duplicate_set_elts, remove_duplicate_dict_keys (lookups preserved; the item order is NOT - counterexample theorem, recorded finding). The other ~75 rules have NO Lean "
             "model: each public rule function is applied in isolation to the fixed corpus by the rule sweep, and to the texts that arise inside format_code by the pipeline-steps suite "
             "(format_code traced, every text-changing step executed before and after) - support, reported separately; the evidence lists how often each fired. unused_zip_args: "
             "sound iff the dropped argument is at least as long (theorem + counterexample, recorded finding).",
        design="4/C01-C02",
        note="Trusted: Lean kernel; models tied as in C15/C16/C17; for unmodelled rules the claim is NOT shown by proof - only the execution sweep looks at them; corpus inputs "
             "on which the reference tree already fails are baseline-excluded (corpus/baseline_C02.json); the skeleton abstracts expressions, assignments and return values; reader / renderer "
             "of the skeleton language (harness/flowrules.py) are trusted; two recorded findings of breakout_common_code_in_ifs are recognised structurally.",
        technique="Lean 4 proof (verified translation validator for the control-flow rules; corollaries for decision cores) + per-rule execution sweep over a fixed corpus and over the pipeline's intermediate texts for all rules",
    ),
    "C11": dict(
        text="Machine-checked proof of the whitespace algebra: tab expansion and trailing-blank removal keep the sequence of non-whitespace characters, no tab is left after "
             "expansion, any whitespace-for-whitespace replacement (blank-line regexes, diff minimisation) keeps it too; the statement that literal values are preserved is FALSE "
             "of the text-level stages and carries a counterexample theorem (replayed, known findings). fix_too_many_blank_lines is modelled character by character (its three regular-expression "
             "substitutions): every line with a non-whitespace character survives verbatim, indentation included, and in order, for every text and any order of the substitutions; the final whitespace "
             "diff minimisation is modelled over an arbitrary diff script: the rebuilt text has exactly the non-whitespace characters of the formatted text. 9 theorems.",
        design="4/C11",
        note="Trusted: Lean kernel; Layout.lean tied by suite layout (str.expandtabs(4), rmspace.format_str byte for byte), BlankLines.lean by suite blanklines (the real function and each of its re.sub calls, "
             "byte for byte, exhaustive small scope + random), Minimize.lean by suite minimize (difflib's script handed to the model); difflib is a parameter; that whitespace changes outside literals keep the AST "
             "is Python's lexical grammar (AST oracle); black / compactify are external.",
        technique="Lean 4 proof (list induction, decide) + differential correspondence + ast.dump oracle per layout stage and line width",
    ),
    "C18": dict(
        text="Machine-checked proof on import lists: with pairwise distinct bound names every permutation (sorting, merging, moving) of the import statements gives the same "
             "environment and every name resolves to its own statement's object; the side condition is necessary (alias-collision counterexample theorem); removing any selection of statements keeps every binding none of them makes, a shadowed statement can go; "
             "and a decidable validator of import rewrites is sound (accepted => every used name is bound to the same object before and after); the star-import expansion (StarImport.expand: the decision and the explicit list of fix_starred_imports) lists every referenced name the module provides, "
             "nothing it does not provide, and leaves no undefined name without a provider (star_expansion_keeps_bindings; the list of the undefined names alone drops a provided builtin-shadowing name - witness theorem, repaired by f6f2dbe / d8acabf). 8 theorems. The model's "
             "environment equals what CPython binds for stdlib import blocks; every changed output of the real import rules on generated import headers is put to the validator, a rejected rewrite is executed.",
        design="4/C18",
        note="Trusted: Lean kernel; Imports.lean tied by suites binding and import-validate-model (the validator's verdict vs the identity of the objects CPython binds); StarImport.lean tied by suite star-expansion (the real fix_starred_imports on generated clients of the package tree, fed with the names Python itself star-imports); importlib resolution, re-export tracing, __all__ inference are outside the model: execution oracle on a "
             "generated package tree (fresh interpreter per client and rule) and a two-checkout history oracle.",
        technique="Lean 4 proof (permutation invariance under a nodup side condition, removal lemmas, sound rewrite validator, completeness of the star expansion) + CPython binding correspondence + star-expansion correspondence + translation validation of the import rules + package-tree execution oracle",
    ),
}

NOT_YET = {}


def main():
    props = [json.loads(l)["id"] for l in (V / "properties.jsonl").read_text().splitlines() if l.strip()]
    reasons = json.loads((V / "tools" / "not_applicable.json").read_text())
    checks = []
    for pid in props:
        if pid not in CLAIMED:
            continue
        c = CLAIMED[pid]
        checks.append({
            "property_id": pid,
            "quick_cmd": f"{PY} harness/vcheck.py check {pid} --tier quick",
            "thorough_cmd": f"{PY} harness/vcheck.py check {pid} --tier thorough",
            "evidence_file": f"evidence/{pid}.json",
            "replay_cmd_template": f"{PY} harness/vcheck.py replay {{path}}",
            "engine": "lean-proof+correspondence",
            "level_claimed": {"category": "proof", "text": c["text"], "design_ref": c["design"]},
            "level_note": c["note"],
            "technique": c["technique"],
        })
    man = {
        "version": 1,
        "setup_cmd": f"{PY} harness/vcheck.py setup",
        "hooks": {
            "guard": "PYREFACT_VERIF",
            "enable": "no source hooks are needed: the harness imports /repo's working tree and monkey-patches from its own process; PYREFACT_VERIF=1 is exported by the harness for future hooks",
            "baseline_off_cmd": "cd /repo && env -u PYREFACT_VERIF /venv/bin/python -m pytest -ra -q -p no:cacheprovider --timeout=900",
            "source_commits": [],
            "add_only": True,
        },
        "engines": [{
            "name": "lean-proof+correspondence",
            "path": "harness/vcheck.py",
            "serves_properties": [c["property_id"] for c in checks],
            "kind_free_text": "Lean 4 models + theorems (lean/), regenerated tables, compiled JSON line-protocol driver, differential correspondence against the imported /repo modules, failing-input search on break",
        }],
        "checks": checks,
        "notes": "See DESIGN.md. Known findings / repaired defects: KNOWN_FINDINGS.txt. Seeded changes used to test the checks: seeded/.",
        "not_applicable": [{"property_id": p, "reason": reasons.get(p, "model not built yet in this session; see DESIGN.md section 9")}
                           for p in props if p not in CLAIMED],
    }
    (V / "MANIFEST.json").write_text(json.dumps(man, indent=1) + "\n")
    print("claimed:", [c["property_id"] for c in checks])


if __name__ == "__main__":
    main()
