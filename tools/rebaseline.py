#!/venv/bin/python
"""Recompute corpus/baseline_<prop>.json on the current (reference) tree: the corpus inputs on which the unchanged tree already
fails the sweep oracles.  Run by hand, thorough tier, never by a check."""
import json
import sys
from pathlib import Path

sys.path.insert(0, str(Path(__file__).resolve().parent.parent / "harness"))
import common  # noqa: E402
import sweep  # noqa: E402
import vcheck  # noqa: E402


def main():
    props = sys.argv[1:] or ["C01", "C02", "C03", "C04", "C09", "C05"]
    common.import_pyrefact()
    for prop in props:
        p = common.CORPUS / f"baseline_{prop}.json"
        if p.exists():
            p.unlink()
        ctx = vcheck.Ctx(prop, "thorough", 0)
        out = {}
        if prop == "C01":
            s = sweep.behaviour_suite(ctx, prop)
            for d in s.disagreements:
                out[sweep.key(d["sha"], d["opts"])] = d["what"][:120]
        elif prop == "C02":
            s = sweep.rules_suite(ctx)
            for d in s.disagreements:
                out[sweep.key(d["sha"], {}, d["rule"])] = d["what"][:120]
            p.write_text(json.dumps(out, indent=0, sort_keys=True) + "\n")  # the step suite skips what the rule sweep lists
            for d in sweep.pipeline_steps_suite(ctx).disagreements:
                out[sweep.key(d["sha"], {}, d["rule"])] = d["what"][:160]
        elif prop in ("C03", "C04"):
            s = sweep.total_suite(ctx, prop)
            for d in s.disagreements:
                out[sweep.key(d["sha"], d["opts"])] = d["what"][:160]
            if prop == "C03":
                from props import c03
                for d in c03.rule_valid_suite(ctx).disagreements:
                    out[sweep.key(d["sha"], {}, d["rule"])] = d["what"][:160]
        elif prop == "C09":
            s = sweep.converge_suite(ctx)
            for d in s.disagreements:
                out[sweep.key(d["sha"], d["opts"])] = d["what"][:120]
        elif prop == "C05":
            from props import c05
            for d in c05.purity_suite(ctx)[0].disagreements:
                out[sweep.key(d["sha"], {}, d["rule"])] = d["what"][:120]
            for d in c05.history_suite(ctx).disagreements:
                out[sweep.key(d["sha"], d["opts"], "history")] = d["what"][:120]
        elif prop == "C07":
            from props import c07
            s = c07.surface_suite(ctx)
            for d in s.disagreements:
                for m in d["missing"]:
                    out[sweep.key(d["sha"], {}, m)] = d["what"][:120]
        elif prop == "C08":
            from props import c08
            s = c08.preserved_oracle(ctx)
            for d in s.disagreements:
                for m in d["missing"]:
                    out[sweep.key(d["sha"], {}, m)] = d["what"][:120]
        elif prop == "C11":
            from props import c11
            s = c11.stages_oracle(ctx)
            for d in s.disagreements:
                out[sweep.key(d["sha"], {}, d["stage"])] = d["what"][:120]
        elif prop == "C06":
            from props import c06
            s = c06.hashseed_suite(ctx)
            for d in s.disagreements:
                out[d["sha"]] = d["what"][:120]
        elif prop == "C19":
            from props import c19
            s = c19.alpha_suite(ctx)
            for d in s.disagreements:
                out[sweep.key(d["sha"], {}, d["rule"])] = d["what"][:160]
        elif prop == "C20":
            from props import c20
            s = c20.annotate_suite(ctx)
            for d in s.disagreements:
                out[sweep.key(d["sha"], {}, f"line{d['line_no']}")] = d["what"][:120]
        p.write_text(json.dumps(out, indent=0, sort_keys=True) + "\n")
        print(prop, "baseline entries:", len(out), "cases:", s.cases if prop != "C05" else "-")


if __name__ == "__main__":
    main()
