#!/bin/bash
# usage: try_seed_wt.sh <seed id> <prop...>  -- applies seeded/<id>/patch.diff in a scratch worktree (never /repo) and runs the quick checks against it
id=$1; shift
wt=/tmp/wt/try_$id
git -C /repo worktree remove --force $wt >/dev/null 2>&1
git -C /repo worktree add -q --detach $wt HEAD || exit 2
( cd $wt && git apply /verif/seeded/$id/patch.diff ) || { echo "$id: patch does not apply"; git -C /repo worktree remove --force $wt; exit 3; }
demo=$(cd $wt && PYTHONPATH=$wt timeout 300 /venv/bin/python /verif/seeded/$id/demo.py >/dev/null 2>&1; echo $?)
for p in "$@"; do
  out=$(cd /verif && PYREFACT_REPO=$wt VERIF_SEED=0 timeout 3600 /venv/bin/python harness/vcheck.py check $p --tier quick 2>/dev/null); rc=$?
  echo "$id demo=$demo $p rc=$rc $(echo "$out" | grep '^VIOLATION' | head -2 | cut -c1-200 | tr '\n' ' ')"
done
git -C /repo worktree remove --force $wt
