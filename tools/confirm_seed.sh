#!/bin/bash
# usage: confirm_seed.sh <id> <worktree with the change applied and SEED/{patch.diff,demo.py,notes.md}> <prop...>
# Confirms a seeded change in its scratch worktree (never /repo): pinned tests pass with it, the demonstration fails with it and
# passes without it; then runs the quick checks of the given properties against that worktree (evidence / replays redirected).
id=$1; wt=$2; shift 2
cd $wt || exit 2
git diff -- pyrefact > /tmp/confirm_$id.diff
cmp -s /tmp/confirm_$id.diff SEED/patch.diff || echo "$id: note: worktree diff differs from SEED/patch.diff"
tests=$(PYTHONPATH=$wt timeout 900 /venv/bin/python -m pytest -q -p no:cacheprovider --timeout=900 tests/unit tests/integration 2>&1 | tail -1)
PYTHONPATH=$wt timeout 600 /venv/bin/python SEED/demo.py >/dev/null 2>&1; with=$?
git apply -R /tmp/confirm_$id.diff || { echo "$id: cannot reverse"; exit 3; }
PYTHONPATH=$wt timeout 600 /venv/bin/python SEED/demo.py >/dev/null 2>&1; without=$?
git apply /tmp/confirm_$id.diff
echo "$id tests='$tests' demo_with=$with demo_without=$without"
mkdir -p /tmp/seedev/$id
for p in "$@"; do
  s=$(date +%s)
  out=$(cd /verif && PYREFACT_REPO=$wt VERIF_EVIDENCE_DIR=/tmp/seedev/$id VERIF_REPLAYS_DIR=/tmp/seedev/$id/replays VERIF_SEED=0 timeout 3600 /venv/bin/python harness/vcheck.py check $p --tier quick 2>/tmp/seedev/$id/$p.err); rc=$?
  echo "$out" > /tmp/seedev/$id/$p.out
  echo "$id $p rc=$rc $(( $(date +%s) - s ))s $(echo "$out" | grep -c '^VIOLATION') violation lines; $(echo "$out" | grep '^VIOLATION' | head -2 | cut -c1-160 | tr '\n' ' ')"
done
rm -f /tmp/confirm_$id.diff
