#!/bin/bash
# usage: try_seed2.sh <seed dir> <prop>... -- applies the patch to /repo, runs pytest + demo + the quick checks named, reverts
d=$1; shift
cd /repo || exit 2
if ! git diff --quiet; then echo "/repo dirty"; exit 2; fi
git apply "$d/patch.diff" || { echo "patch does not apply"; exit 2; }
trap 'git -C /repo checkout -- . ; git -C /repo clean -fdq' EXIT
t=$(/venv/bin/python -m pytest -q -p no:cacheprovider 2>&1 | tail -1)
cp "$d/demo.py" /repo/_demo_tmp.py; (cd /repo && timeout 600 /venv/bin/python _demo_tmp.py >/tmp/demo.out 2>&1; echo "demo rc=$?" > /tmp/demo.rc); rm -f /repo/_demo_tmp.py
res=""
for prop in "$@"; do
  out=$(cd /verif && timeout 3000 /venv/bin/python harness/vcheck.py check $prop --tier quick 2>/dev/null); rc=$?
  res="$res $prop:rc=$rc:$(echo "$out" | grep -c '^VIOLATION')v"
done
echo "$(basename $d) | $t | $(cat /tmp/demo.rc) |$res"
