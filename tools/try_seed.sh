#!/bin/bash
# usage: try_seed.sh <dir with patch.diff, demo.py> <prop> [tier]   -- applies to /repo, runs demo + check, reverts
d=$1; prop=$2; tier=${3:-quick}
cd /repo || exit 2
if ! git diff --quiet; then echo "/repo dirty"; exit 2; fi
git apply "$d/patch.diff" || { echo "patch does not apply"; exit 2; }
trap 'git -C /repo checkout -- . ' EXIT
if [ -z "$SKIP_TESTS" ]; then /venv/bin/python -m pytest -q -p no:cacheprovider 2>&1 | tail -1; fi
if [ -f "$d/demo.py" ]; then (cd /repo && timeout 300 /venv/bin/python "$d/demo.py" >/tmp/demo.out 2>&1; echo "demo rc=$? (expect 1)"; tail -2 /tmp/demo.out); fi
cd /verif && timeout 3000 /venv/bin/python harness/vcheck.py check $prop --tier $tier 2>/tmp/check.err | tail -4; echo "check rc=${PIPESTATUS[0]}"
