#!/bin/bash
# usage: run_all.sh [tier] [seed...]   -- every claimed check on /repo as it stands; prints one line per check
tier=${1:-quick}; shift
seeds=${@:-0}
cd /verif || exit 2
for seed in $seeds; do
  for i in 01 02 03 04 05 06 07 08 09 10 11 12 13 14 15 16 17 18 19 20; do
    s=$(date +%s)
    out=$(VERIF_SEED=$seed timeout 7200 /venv/bin/python harness/vcheck.py check C$i --tier $tier 2>/dev/null); rc=$?
    echo "seed=$seed C$i rc=$rc $(( $(date +%s) - s ))s $(echo "$out" | grep -c '^KNOWN-FINDING') known; $(echo "$out" | grep '^VIOLATION' | head -2 | tr '\n' ' ')"
  done
done
