#!/venv/bin/python
"""Apply every seeded change to /repo in turn, run the pinned tests, its demonstration and the quick checks of its property (plus the
other properties listed in EXTRA), undo it, and write seeded/<id>/meta.json.  /repo must be clean; nothing is committed there."""
import json
import subprocess
import sys
from pathlib import Path

VERIF = Path(__file__).resolve().parent.parent
REPO = Path("/repo")
EXTRA = {"C01c": ["C17"], "C01d": ["C10", "C20"], "C14c": ["C20"], "C06c": ["C05"], "C02a": ["C17"], "C14a": ["C20"], "C14b": ["C10"], "C01b": ["C19"], "C10d": ["C20"]}


def sh(cmd, cwd=None, timeout=3600):
    p = subprocess.run(cmd, cwd=cwd, shell=True, capture_output=True, text=True, timeout=timeout)
    return p.returncode, p.stdout + p.stderr


def main():
    only = sys.argv[1:]
    rows = []
    for d in sorted((VERIF / "seeded").iterdir()):
        if not (d / "patch.diff").exists() or (only and d.name not in only):
            continue
        if sh("git diff --quiet", REPO)[0] != 0:
            print("/repo is dirty")
            return 2
        meta = {"id": d.name, "breaks_property": d.name[:3]}
        rc, out = sh(f"git apply {d / 'patch.diff'}", REPO)
        if rc != 0:
            meta["applies"] = False
            meta["note"] = "the patch no longer applies to the repaired tree (the code it changed was repaired, see DESIGN 10.3)"
            (d / "meta.json").write_text(json.dumps(meta, indent=1) + "\n")
            print(d.name, "does not apply")
            continue
        try:
            meta["applies"] = True
            meta["pinned_tests_with_change"] = sh("/venv/bin/python -m pytest -q -p no:cacheprovider", REPO)[1].strip().splitlines()[-1]
            sh(f"cp {d / 'demo.py'} {REPO / '_demo_tmp.py'}")
            meta["demo_exit_with_change"] = sh("timeout 900 /venv/bin/python _demo_tmp.py", REPO)[0]
            (REPO / "_demo_tmp.py").unlink(missing_ok=True)
            checks = {}
            for prop in [d.name[:3]] + EXTRA.get(d.name, []):
                rc, out = sh(f"/venv/bin/python harness/vcheck.py check {prop} --tier quick", VERIF)
                lines = [l for l in out.splitlines() if l.startswith("VIOLATION")]
                checks[prop] = {"exit": rc, "violation_lines": len(lines), "no_failing_input_found": any(l.endswith("no-failing-input-found") for l in lines)}
            meta["quick_checks"] = checks
        finally:
            sh("git checkout -- . && git clean -fdq", REPO)
        meta["reported_by_own_property_check"] = meta["quick_checks"][d.name[:3]]["exit"] == 1
        (d / "meta.json").write_text(json.dumps(meta, indent=1) + "\n")
        print(d.name, meta["pinned_tests_with_change"], "demo", meta["demo_exit_with_change"], {k: v["exit"] for k, v in meta["quick_checks"].items()}, flush=True)
    return 0


if __name__ == "__main__":
    sys.exit(main())
