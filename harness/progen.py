"""Generator of closed, deterministic, terminating programs (C01's class): a typed statement/expression grammar plus
parametric per-rule families.  Every program prints what it computes; no undefined names, no introspection."""
from __future__ import annotations

CMP = ["<", "<=", ">", ">=", "==", "!="]


def expr_int(r, vars_, depth=0):
    x = r.random()
    if depth >= 2 or x < 0.35:
        return r.choice(vars_) if vars_ and r.random() < 0.7 else str(r.randint(-3, 9))
    if x < 0.75:
        op = r.choice(["+", "-", "*", "%", "//"])
        right = expr_int(r, vars_, depth + 1)
        if op in ("%", "//"):
            right = str(r.randint(1, 5))
        return f"({expr_int(r, vars_, depth + 1)} {op} {right})"
    if x < 0.85:
        return f"abs({expr_int(r, vars_, depth + 1)})"
    if x < 0.93:
        return f"max({expr_int(r, vars_, depth + 1)}, {expr_int(r, vars_, depth + 1)})"
    return f"len([{', '.join(expr_int(r, vars_, depth + 1) for _ in range(r.randint(0, 3)))}])"


def cond(r, vars_, depth=0):
    x = r.random()
    if depth >= 2 or x < 0.5:
        return f"{expr_int(r, vars_, 1)} {r.choice(CMP)} {r.randint(-2, 6)}"
    if x < 0.62:
        return f"not {cond(r, vars_, depth + 1)}"
    if x < 0.7:
        return r.choice(["True", "False", "1", "0", "[]", "[0]", '""', "None", "1 > 2", "3 == 3", "not 1"])
    op = r.choice(["and", "or"])
    return f"({cond(r, vars_, depth + 1)} {op} {cond(r, vars_, depth + 1)})"


def block(r, vars_, depth, in_loop, in_func, indent):
    """a statement block; returns list of lines"""
    pad = "    " * indent
    lines = []
    for _ in range(r.randint(1, 3)):
        x = r.random()
        if x < 0.22:
            v = r.choice(["a", "b", "c", "t"])
            lines.append(f"{pad}{v} = {expr_int(r, vars_)}")
            if v not in vars_:
                vars_ = vars_ + [v]
        elif x < 0.36:
            lines.append(f"{pad}print({expr_int(r, vars_)})")
        elif x < 0.62 and depth < 3:
            lines.append(f"{pad}if {cond(r, vars_)}:")
            lines += block(r, vars_, depth + 1, in_loop, in_func, indent + 1)
            y = r.random()
            if y < 0.3:
                lines.append(f"{pad}elif {cond(r, vars_)}:")
                lines += block(r, vars_, depth + 1, in_loop, in_func, indent + 1)
            if y < 0.65:
                lines.append(f"{pad}else:")
                lines += block(r, vars_, depth + 1, in_loop, in_func, indent + 1)
        elif x < 0.72 and depth < 2:
            it = r.choice([f"range({r.randint(0, 4)})", f"range({r.randint(0, 2)}, {r.randint(2, 5)})", "[1, 2, 3]", "(4, 5)", "[]"])
            lv = r.choice(["i", "j", "k"])
            lines.append(f"{pad}for {lv} in {it}:")
            lines += block(r, vars_ + [lv], depth + 1, True, in_func, indent + 1)
            if r.random() < 0.15:
                lines.append(f"{pad}else:")
                lines += block(r, vars_, depth + 1, in_loop, in_func, indent + 1)
        elif x < 0.77 and depth < 2:
            cv = r.choice(["n", "m"])
            lines.append(f"{pad}{cv} = {r.randint(0, 3)}")
            lines.append(f"{pad}while {cv} > 0:")
            lines.append(f"{pad}    {cv} = {cv} - 1")
            lines += block(r, vars_ + [cv], depth + 1, True, in_func, indent + 1)
        elif x < 0.84 and in_func:
            lines.append(f"{pad}return {expr_int(r, vars_)}")
            if r.random() < 0.3:
                lines.append(f"{pad}print({r.randint(100, 999)})")
        elif x < 0.9 and in_loop:
            lines.append(f"{pad}{r.choice(['break', 'continue'])}")
        elif x < 0.94:
            lines.append(f"{pad}{r.choice(['pass', '0', 'a_const', '[1, 2]', expr_int(r, vars_)]).replace('a_const', '42')}")
        elif x < 0.97 and in_func:
            lines.append(f"{pad}raise ValueError({r.randint(0, 9)})" if r.random() < 0.3 else f"{pad}assert {cond(r, vars_)}")
        else:
            lines.append(f"{pad}print({cond(r, vars_)})")
    return lines


def grammar_program(r):
    lines = []
    nf = r.randint(1, 2)
    for f in range(nf):
        lines.append(f"def fn{f}(x, y):")
        lines += block(r, ["x", "y"], 0, False, True, 1)
        lines.append(f"    return x + {f}")
        lines.append("")
    lines.append("for p in range(-1, 4):")
    lines.append("    for q in (0, 2, 5):")
    for f in range(nf):
        lines.append("        try:")
        lines.append(f"            print('fn{f}', p, q, fn{f}(p, q))")
        lines.append("        except (ValueError, AssertionError, ZeroDivisionError) as e:")
        lines.append(f"            print('fn{f}', p, q, type(e).__name__)")
    return "\n".join(lines) + "\n"


# ------------------------------------------------------------------------------------------- families

def fam_if_return(r):
    c = cond(r, ["x", "y"])
    a, b = r.choice([("True", "False"), ("False", "True"), ("1", "0"), ("x", "y")])
    return f"def f(x, y):\n    if {c}:\n        return {a}\n    else:\n        return {b}\n"


def fam_early_return(r):
    c = cond(r, ["x", "y"])
    return (f"def f(x, y):\n    if {c}:\n        z = x + {r.randint(1, 4)}\n        print(z)\n        return z * 2\n"
            f"    return y - {r.randint(0, 3)}\n")


def fam_for_append(r):
    c = cond(r, ["i", "x"])
    e = expr_int(r, ["i", "x"])
    return f"def f(x, y):\n    out = []\n    for i in range({r.randint(0, 6)}):\n        if {c}:\n            out.append({e})\n    return out\n"


def fam_for_dict(r):
    return f"def f(x, y):\n    d = {{}}\n    for i in range({r.randint(0, 5)}):\n        d[i] = {expr_int(r, ['i', 'x'])}\n    return sorted(d.items())\n"


def fam_range_filter(r):
    op = r.choice(["<", "<=", ">", ">=", "=="])
    return (f"def f(x, y):\n    return [i for i in range({r.randint(-2, 3)}, {r.randint(3, 9)}) if i {op} {r.randint(0, 8)}"
            f"{' and i ' + r.choice(CMP) + ' ' + str(r.randint(0, 8)) if r.random() < 0.5 else ''}]\n")


def fam_bool_bounds(r):
    conn = r.choice(["and", "or"])
    parts = [f"x {r.choice(CMP)} {r.randint(0, 3)}" for _ in range(r.randint(2, 3))]
    return f"def f(x, y):\n    if {f' {conn} '.join(parts)}:\n        return 1\n    return 2\n"


def fam_dead_code(r):
    c = r.choice(["True", "False", "0", "1", "()", "1 > 2", "None", "not 0", "2 == 2"])
    return (f"def f(x, y):\n    if {c}:\n        print('a', x)\n    else:\n        print('b', y)\n    while {r.choice(['False', '0', 'x < 0'])}:\n"
            f"        print('never')\n    return x\n    print('unreachable')\n")


def fam_loop_flow(r):
    kw = r.choice(["break", "continue", "return i"])
    return (f"def f(x, y):\n    total = 0\n    for i in [1, 2, 3, 4]:\n        if i {r.choice(CMP)} {r.randint(1, 4)}:\n            {kw}\n"
            f"        total += i * x\n    else:\n        total += 100\n    return total\n")


def fam_while_flow(r):
    return (f"def f(x, y):\n    n = 0\n    while {r.choice(['True', 'n < 5', 'x > n'])}:\n        n += 1\n        if n > {r.randint(1, 4)}:\n"
            f"            {r.choice(['break', 'return n'])}\n        if {cond(r, ['n', 'x'])}:\n            continue\n        print('it', n)\n    return n + y\n")


def fam_sum_comp(r):
    return f"def f(x, y):\n    return sum([{expr_int(r, ['i'])} for i in range({r.randint(0, 6)})]) + sum(range({r.randint(0, 4)}, {r.randint(4, 8)}))\n"


def fam_redundant_else(r):
    return (f"def f(x, y):\n    if {cond(r, ['x', 'y'])}:\n        return {expr_int(r, ['x'])}\n    elif {cond(r, ['x', 'y'])}:\n        raise ValueError(x)\n"
            f"    else:\n        y = y + 1\n    return y\n")


def fam_common_code(r):
    tail = f"print('tail', x + {r.randint(0, 3)})"
    return (f"def f(x, y):\n    if {cond(r, ['x', 'y'])}:\n        print('one')\n        {tail}\n    else:\n        print('two', y)\n        {tail}\n    return x\n")


def fam_nested_if(r):
    return (f"def f(x, y):\n    if {cond(r, ['x'])}:\n        if {cond(r, ['y'])}:\n            return 1\n    return 0\n")


def fam_set_dict_literals(r):
    return (f"def f(x, y):\n    s = set()\n    s.add(x)\n    s.add({r.randint(0, 3)})\n    d = dict()\n    d['k'] = y\n    l = list()\n    l.append(x)\n"
            f"    l.extend([y, {r.randint(0, 3)}])\n    return sorted(s), sorted(d.items()), l\n")


def fam_boolop_values(r):
    vals = [r.choice(["x", "y", "0", "1", "[]", "'s'", "None", "True", "False", "x > 1"]) for _ in range(r.randint(2, 3))]
    return f"def f(x, y):\n    return {f' {r.choice(['and', 'or'])} '.join(vals)}\n"


def fam_negation(r):
    return f"def f(x, y):\n    if not x {r.choice(CMP)} {r.randint(0, 3)}:\n        return 'a'\n    if not (x > 1 and y < 4):\n        return 'b'\n    return 'c'\n"


def fam_map_filter(r):
    return (f"def f(x, y):\n    a = list(map(lambda v: v * {r.randint(1, 3)}, range({r.randint(0, 5)})))\n"
            f"    b = list(filter(lambda v: v % 2 == {r.randint(0, 1)}, a))\n    return a, b, list(sorted(list(b)))\n")


def fam_enumerate_zip(r):
    return (f"def f(x, y):\n    out = []\n    for i, v in enumerate([5, 6, 7]):\n        out.append(v)\n    for a, _ in zip([1, 2], [3, 4]):\n        out.append(a + x)\n    return out\n")


def fam_inline_math(r):
    return (f"def f(x, y):\n    vals = [v * {r.randint(1, 3)} for v in range({r.randint(1, 5)})]\n    {r.choice(['pass', 'print(x)', 'y = y + 1'])}\n    return sum(vals)\n")


def fam_chained(r):
    return f"def f(x, y):\n    return sorted(list(set([3, 1, 2, x]))), list(reversed(sorted([y, 2, 9]))), sorted(reversed([x, 5, 1]))\n"


def fam_try(r):
    return (f"def f(x, y):\n    try:\n        z = 10 // (x - {r.randint(0, 2)})\n    except ZeroDivisionError:\n        z = -1\n    finally:\n        print('fin')\n    return z\n")


def fam_module_loop(r):
    return ("def f(x, y):\n    return x + y\n\n" + f"count = 0\nwhile count < {r.randint(1, 4)}:\n    count = count + 1\n    print('c', count)\n")


def fam_dup_funcs(r):
    return ("def helper_one(v):\n    w = v + 1\n    return w * 2\n\n\ndef helper_two(q):\n    z = q + 1\n    return z * 2\n\n\n"
            "def f(x, y):\n    return helper_one(x) + helper_two(y)\n")


def fam_class(r):
    return ("class Acc:\n    def __init__(self, start):\n        self.total = start\n\n    def add(self, v):\n        self.total += v\n        return self\n\n"
            "    def unused_self(self, v):\n        return v * 2\n\n    @staticmethod\n    def twice(v):\n        return v + v\n\n\n"
            "def f(x, y):\n    a = Acc(x).add(y)\n    return a.total, a.unused_self(3), Acc.twice(y)\n")


FAMILIES = [fam_if_return, fam_early_return, fam_for_append, fam_for_dict, fam_range_filter, fam_bool_bounds, fam_dead_code,
            fam_loop_flow, fam_while_flow, fam_sum_comp, fam_redundant_else, fam_common_code, fam_nested_if, fam_set_dict_literals,
            fam_boolop_values, fam_negation, fam_map_filter, fam_enumerate_zip, fam_inline_math, fam_chained, fam_try,
            fam_module_loop, fam_dup_funcs, fam_class]

HARNESS = """
for p in range(-1, 5):
    for q in (0, 2, 5):
        try:
            print(p, q, f(p, q))
        except Exception as e:
            print(p, q, type(e).__name__)
"""


def family_program(r, fam=None):
    fam = fam or r.choice(FAMILIES)
    return fam(r) + HARNESS, fam.__name__


def program(r):
    if r.random() < 0.35:
        return grammar_program(r), "grammar"
    return family_program(r)


# ------------------------------------------------------------------------------------------- second wave of families
# (kept in a separate list with separate corpus seeds so that the first corpus stays byte-identical)

def fam_shadow(r):
    name = r.choice(["limit", "total", "maxRetries", "cfg_val", "Mixed_name"])
    return (f"{name} = {r.randint(5, 12)}\n\n\ndef f(x, y):\n    {name} = {r.randint(0, 4)}\n    out = [v for v in range(x + 2) if v < {name}]\n"
            f"    return out, {name}\n\n\ndef g(z):\n    return z + {name}\n\n\nprint({name}, g(1))\n")


def fam_handover(r):
    k = r.randint(2, 9)
    names = [f"v{i}" for i in range(k)]
    lines = [f"    {names[0]} = x * {r.randint(2, 5)} + y"] + [f"    {names[i]} = {names[i - 1]}" for i in range(1, k)]
    return "def f(x, y):\n" + "\n".join(lines) + f"\n    return {names[-1]}\n"


def fam_kwonly_shadow(r):
    name = r.choice(["maxRetries", "timeOut", "someVal"])
    return (f"{name} = 5\n\n\ndef connect(host, *, {name}=3):\n    return f'{{host}}:{{{name}}}'\n\n\ndef f(x, y):\n    return connect('a'), connect('b', {name}=x), {name} + y\n")


def fam_global_nonlocal(r):
    return ("counterVal = 0\n\n\ndef bump(n):\n    global counterVal\n    counterVal = counterVal + n\n    return counterVal\n\n\n"
            "def f(x, y):\n    def inner():\n        nonlocal y\n        y = y + 1\n        return y\n    return bump(x), inner(), inner()\n")


def fam_if_else_exit(r):
    return (f"def f(x, y):\n    if {cond(r, ['x', 'y'])}:\n        a = x + 1\n        b = a * 2\n        print(a, b)\n        return {r.randint(0, 1)}\n    else:\n"
            f"        with open_ctx():\n            if {cond(r, ['y'])}:\n                return {r.randint(0, 1)}\n            return 2\n").replace(
                "with open_ctx():", "for _ in [0]:")


def fam_star_import(r):
    return ("from string import *\nfrom math import *\n\n\ndef f(x, y):\n    return ascii_lowercase[x % 5], floor(sqrt(abs(y) + 1)), digits[:2]\n")


def fam_collection_literal(r):
    return (f"def f(x, y):\n    vals = [x, {r.randint(0, 3)}]\n    vals.append(y)\n    vals.extend([{r.randint(4, 6)}, x])\n    s = {{1, x}}\n    s.add(y)\n    s.update((7, 8))\n    return vals, sorted(s)\n")


def fam_inline_mutation(r):
    mut = r.choice(["queue.append(100)", "queue[0] = 50", "del queue[0]", "queue.pop()", "queue.clear()", "queue.extend([7])", "pass"])
    return (f"def f(x, y):\n    queue = [1, 2, 3, x]\n    doubled = [v * 2 for v in queue]\n    {mut}\n    return sum(doubled), len(queue)\n")


def fam_duplicate_preserved(r):
    return ("def area_tile(w, h):\n    size = w * h\n    return size + 1\n\n\ndef areaTile(a, b):\n    total = a * b\n    return total + 1\n\n\n"
            "def f(x, y):\n    return area_tile(x, y), areaTile(y, x)\n")


def fam_overused_constant(r):
    c1 = "'" + "a-long-literal-number-one-" + str(r.randint(0, 9)) + "'"
    c2 = str(10 ** 21 + r.randint(0, 99))
    body = "\n".join(f"    out.append(({c1}, {c2} % {i + 2}))" for i in range(6))
    return f"def f(x, y):\n    out = []\n{body}\n    return out[x % 6]\n"


def fam_elif_named(r):
    return ("elif_hits = {'a': 1}\nelif_hits['b'] = 2\n\n\ndef f(x, y):\n    return sorted(elif_hits), x\n")


def fam_fstring_units(r):
    unit = r.choice(["ms", "kb", "x"])
    return (f"unit = '{unit}'\n\n\ndef f(x, y):\n    label = 'parse'\n    return f\"{{label}}: {{x}}{unit}\", unit, \"it's\"\n")


FAMILIES2 = [fam_shadow, fam_handover, fam_kwonly_shadow, fam_global_nonlocal, fam_if_else_exit, fam_star_import, fam_collection_literal,
             fam_inline_mutation, fam_duplicate_preserved, fam_overused_constant, fam_elif_named, fam_fstring_units]


def program2(r):
    fam = r.choice(FAMILIES2)
    return fam(r) + HARNESS, fam.__name__


# ------------------------------------------------------------------------------------------- third wave (own seeds again)

def fam_existing_generated_name(r):
    old = 10 ** 21 + r.randint(100, 199)
    new = 3 * 10 ** 22 + r.randint(0, 99)
    if r.random() < 0.5:
        body = "\n".join(f"    out.append(({new} % {i + 2}, PYREFACT_OVERUSED_CONSTANT_0 % {i + 3}))" for i in range(6))
        return f"PYREFACT_OVERUSED_CONSTANT_0 = {old}\n\n\ndef f(x, y):\n    out = []\n{body}\n    return out[x % 6]\n"
    body = "\n".join(f"print('{chr(97 + i)}', {new} % {i + 2}, PYREFACT_OVERUSED_CONSTANT_0 % {i + 3})" for i in range(6))
    return f"PYREFACT_OVERUSED_CONSTANT_0 = {old}\n{body}\n\n\ndef f(x, y):\n    return x + y\n"


def fam_existing_var_names(r):
    return ("var_1 = 5\n\n\ndef f(x, y):\n    if x > 1:\n        print('a', x + 1, var_1)\n        return x * 2 + y\n    else:\n        print('a', y + 1, var_1)\n        return y * 2 + x\n")


FAMILIES3 = [fam_existing_generated_name, fam_existing_var_names]


def program3(r):
    fam = r.choice(FAMILIES3)
    return fam(r) + HARNESS, fam.__name__


# ------------------------------------------------------------------------------------------- fourth wave: round-robin families

TQ = '"' * 3


def fam_guard_compound(r):
    """a long guard that returns, followed by a compound statement that cannot be passed and is branchier than the guard;
    0, 1 or 2 blank lines between the function and what follows"""
    n = r.randint(3, 5)
    pool = ['print("already claimed")', "print(x)", "print(y)", "print('g', x)", "print(x, y)", "print(x + 1)", 'print("busy")']
    guard = "".join(f"        {st}\n" for st in (r.sample(pool, n) if r.random() < 0.7 else [f"print('g{i}', x)" for i in range(n)]))
    inner = "".join(f"        if y == {i}:\n            return {i + 10}\n" for i in range(r.randint(1, 3)))
    head = r.choice(["    with contextlib.nullcontext():\n", "    while True:\n", "    for _ in iter(int, 1):\n"])
    tail = r.choice(["        return x + y\n", "        return 1\n", "        print(y)\n        return 1\n", "        return -1\n"])
    blanks = "\n" * r.choice([0, 0, 1, 2])
    return f"import contextlib\n\n\ndef f(x, y):\n    if x > {r.randint(0, 3)}:\n{guard}        return 0\n{head}{inner}{tail}{blanks}"


def fam_local_import_multiline(r):
    """a function-local import directly followed by a statement whose multi-line string continues at column 0"""
    mod = r.choice(["textwrap", "json", "os.path", "collections"])
    pre = r.choice(["", "    # help text\n", "\n"])
    return (f"def f(x, y):\n    import {mod}\n{pre}    text = {TQ}\nUsage: {{}} [options]\n    -h  show this help {r.randint(0, 9)}\n{TQ}.format(x)\n"
            f"    return len(text) + y, {mod}.__name__\n")


def fam_multiline_blocks(r):
    """multi-line strings with column-0 content inside nested blocks, next to statements rules like to move or delete"""
    k = r.randint(0, 9)
    return (f"def f(x, y):\n    out = []\n    for i in range(3):\n        if i == x:\n            s = {TQ}\nrow {k}\n  indented\n{TQ}\n            out.append(s)\n"
            f"        else:\n            out.append('a' + {TQ}a\nb{TQ})\n    if False:\n        out.append({TQ}\ndead\n{TQ})\n    return ''.join(out), y\n")


def fam_long_pipeline(r):
    """a value handed through many single-use names with a little work at each step"""
    k = r.randint(6, 11)
    ops = ["+ 1", "* 2", "- y", "", "", ""]
    lines = ["    v0 = x + y"] + [f"    v{i} = v{i - 1} {r.choice(ops)}".rstrip() for i in range(1, k)]
    return "def f(x, y):\n" + "\n".join(lines) + f"\n    return v{k - 1}\n"


def fam_comp_then_mutate(r):
    """a comprehension (or generator) bound to a name, its input mutated in place or only read, then one aggregate use"""
    mut = r.choice(["src.append(100)", "src[0] = 50", "del src[0]", "src.sort(reverse=True)", "src.insert(0, 9)", "print(len(src))", "other = src", "src += [4]", "src = src + [4]"])
    agg = r.choice(["sum", "len", "max", "sorted", "list", "any", "all"])
    comp = r.choice(["[v * 2 for v in src]", "[v for v in src if v % 2]", "{v + 1 for v in src}", "(v * 3 for v in src)"])
    return f"def f(x, y):\n    src = [3, 1, 2, x]\n    held = {comp}\n    {mut}\n    return {agg}(held), len(src), y\n"


def fam_next_iter(r):
    """conditions that evaluate builtins which raise: the formatter must leave them alone, and the program keeps its except path"""
    e = r.choice(["next(iter(()))", "next(zip())", "'a'.split(sep='')", "int('x')", "max([])", "' '.split(sep=' ')", "'a b'.split(maxsplit=0)", "(255).to_bytes(length=2, byteorder='big')"])
    return (f"def f(x, y):\n    try:\n        if {e}:\n            return 'T'\n        return 'F'\n    except (StopIteration, ValueError, RuntimeError) as e:\n        return type(e).__name__\n")


FAMILIES4 = [fam_guard_compound, fam_local_import_multiline, fam_multiline_blocks, fam_long_pipeline, fam_comp_then_mutate, fam_next_iter]


def corpus4(per_family=12):
    import random

    out = []
    for fam in FAMILIES4:
        r = random.Random("4:" + fam.__name__)
        for _ in range(per_family):
            out.append((fam(r) + HARNESS, fam.__name__))
    return out


def module_twin(src):
    """the same computation at module level: `def f(x, y): body; return E` + harness becomes `x = 3; y = 2; body; print(E)`
    (rules treat module scope and function scope differently).  None when f has other returns or the text does not dedent."""
    import ast
    import textwrap

    head = src.split(HARNESS)[0] if HARNESS in src else None
    if head is None:
        return None
    try:
        tree = ast.parse(head)
    except SyntaxError:
        return None
    fs = [n for n in tree.body if isinstance(n, ast.FunctionDef) and n.name == "f"]
    if len(fs) != 1 or tree.body[-1] is not fs[0]:
        return None
    f = fs[0]
    if not isinstance(f.body[-1], ast.Return) or f.body[-1].value is None or len(f.body) < 2:
        return None
    inner = [n for n in ast.walk(f) if isinstance(n, (ast.Return, ast.Yield, ast.YieldFrom, ast.Global, ast.Nonlocal, ast.FunctionDef, ast.Lambda))]
    if len(inner) != 2:  # f itself and its final return
        return None
    lines = head.splitlines(keepends=True)
    pre = "".join(lines[: f.lineno - 1 - len(f.decorator_list)])
    body = textwrap.dedent("".join(lines[f.body[0].lineno - 1: f.body[-1].lineno - 1]))
    out = pre + "x = 3\ny = 2\n" + body + "print(" + ast.unparse(f.body[-1].value) + ")\n"
    try:
        ast.parse(out)
    except SyntaxError:
        return None
    return out


# ------------------------------------------------------------------------------------------- fifth wave: surface features

def fam_ignore_comment(r):
    """`# pyrefact: ignore` on one line of a statement group that rules rewrite together"""
    mark = "  # pyrefact: ignore"
    k = r.randrange(6)
    m = [mark if k == i else "" for i in range(6)]
    v = r.choice(["loop", "dict", "rename", "set"])
    if v == "loop":
        return (f"def f(x, y):\n    out = []{m[0]}\n    for i in range(4):{m[1]}\n        out.append(i * i + x){m[2]}\n    total = 0{m[3]}\n"
                f"    for v in out:{m[4]}\n        total += v{m[5]}\n    return out, total + y\n")
    if v == "dict":
        return (f"def f(x, y):\n    d = {{}}{m[0]}\n    d['a'] = x{m[1]}\n    d['b'] = y{m[2]}\n    e = {{'k': 1}}{m[3]}\n    e.update({{'m': x}}){m[4]}\n"
                f"    return sorted(d.items()), sorted(e.items()){m[5]}\n")
    if v == "set":
        return (f"def f(x, y):\n    s = set(){m[0]}\n    for i in range(3):{m[1]}\n        s.add(i + x){m[2]}\n    t = [1, 2]{m[3]}\n    t.append(y){m[4]}\n"
                f"    return sorted(s), t{m[5]}\n")
    return (f"def helperFn(a):{m[0]}\n    return a + 1{m[1]}\n\n\ndef f(x, y):\n    someVal = helperFn(x){m[2]}\n    otherVal = helperFn(y){m[3]}\n"
            f"    return someVal + otherVal{m[4]}\n")


def fam_chained_comp_guard(r):
    """an inner filter that protects the outer condition (or the element expression)"""
    v = r.randrange(6)
    n = r.choice(["v", "x", "item"])
    if v == 0:
        return f"def f(x, y):\n    data = [0, 1, 2, x, y]\n    return [{n} for {n} in [{n} for {n} in data if {n} != 0] if 20 // {n} > 2]\n"
    if v == 1:
        return f"def f(x, y):\n    table = [10, 20, 30]\n    idx = [x, y, 1, 7, -9]\n    return [{n} for {n} in ({n} for {n} in idx if 0 <= {n} < 3) if table[{n}] > 10]\n"
    if v == 2:
        return (f"def noisy(v):\n    print('check', v)\n    return v % 2 == 0\n\n\ndef f(x, y):\n    data = [1, 2, 3, x, y]\n"
                f"    return [{n} for {n} in [{n} for {n} in data if {n} > 1] if noisy({n})]\n")
    if v == 3:
        return f"def f(x, y):\n    data = [0, 5, x, y]\n    return sum(100 // {n} for {n} in [{n} for {n} in data if {n}])\n"
    if v == 4:
        return f"def f(x, y):\n    data = [0, 1, 2, x, y]\n    return {{{n} for {n} in {{{n} for {n} in data if {n} != 0}} if 20 % {n} == 0}}\n"
    return f"def f(x, y):\n    data = [[], [1], [x, y]]\n    return [{n}[0] for {n} in [{n} for {n} in data if {n}] if {n}[0] > 0]\n"


def fam_missing_import_decorated(r):
    """a module that uses a well-known module without importing it; what follows the header is a decorated definition"""
    head = r.choice(["", '"""Module docstring."""\n', "from __future__ import annotations\n", '"""Doc."""\nfrom __future__ import annotations\n', "# comment\n"])
    v = r.randrange(3)
    if v == 0:
        body = "@functools.lru_cache(maxsize=None)\ndef fib(n):\n    return n if n < 2 else fib(n - 1) + fib(n - 2)\n\n\ndef f(x, y):\n    return fib(abs(x) + 3) + y\n"
    elif v == 1:
        body = "@dataclasses.dataclass\nclass Point:\n    a: int\n    b: int\n\n\ndef f(x, y):\n    p = Point(x, y)\n    return p.a + p.b\n"
    else:
        body = "@functools.wraps(print)\ndef show(*a):\n    return len(a)\n\n\ndef f(x, y):\n    return show(x, y), math.floor(2.5)\n"
    return head + body


def fam_commented_code(r):
    """commented-out code, also with very long lines"""
    n = r.choice([10, 80, 300, 600, 5000])
    long_list = ", ".join(str(i % 10) for i in range(n // 3))
    block = r.choice([f"# weights = [{long_list}]\n", f"    # vals = [{long_list}]\n    # print(vals)\n", "# import os\n# os.remove('/tmp/x')\n",
                      f"# {'x' * n}\n", f"# path/{'a' * n}/file.py\n", "# for i in range(3):\n#     print(i)\n"])
    if block.startswith("    "):
        return f"def f(x, y):\n    z = x + y\n{block}    return z\n"
    return f"{block}def f(x, y):\n    return x - y\n"


def fam_nonascii(r):
    """non-ASCII characters in strings, comments and identifiers"""
    s = r.choice(["é", "ü", "→", "日本語", "😀", "ß", "π"])
    v = r.randrange(4)
    if v == 0:
        return f"def f(x, y):\n    label = '{s}' * 2  # {s}\n    unused = 1\n    return label + str(x + y)\n"
    if v == 1:
        return f"# {s}{s} author\nimport os\n\n\ndef f(x, y):\n    if x > 1:\n        return '{s}'\n    else:\n        return '{s}{s}' + str(y)\n"
    if v == 2:
        return f"def f(x, y):\n    out = []\n    for ch in '{s}a{s}':\n        out.append(ch)\n    return out, len('{s}'), x, y\n"
    return f"def f(x, y):\n    größe = x + 1\n    return f'{{größe}} {s} {{y}}'\n"


def fam_equal_bounds(r):
    """range conditions whose bounds coincide or touch"""
    c = r.randint(-1, 4)
    e = r.choice([f"x >= {c} and x <= {c}", f"x > {c} or x < {c}", f"x >= {c} and x < {c}", f"x <= {c} or x >= {c}", f"x >= {c} and x <= {c + 1}", f"{c} <= x and x <= {c}",
                  f"x > {c} and x >= {c}", f"x < {c} or x <= {c}", f"x >= {c} and y >= {c} and x <= {c}"])
    return f"def f(x, y):\n    if {e}:\n        return 'in'\n    return 'out'\n"


FAMILIES5 = [fam_ignore_comment, fam_chained_comp_guard, fam_missing_import_decorated, fam_commented_code, fam_nonascii, fam_equal_bounds]


def corpus5(per_family=30):
    import random

    out = []
    for fam in FAMILIES5:
        r = random.Random("5:" + fam.__name__)
        for _ in range(per_family):
            out.append((fam(r) + HARNESS, fam.__name__))
    return out


# ------------------------------------------------------------------------------------------- sixth wave: naming

def fam_static_self_ref(r):
    """static methods that call each other (or themselves) through the class"""
    c = r.choice(["MathBox", "util", "Helper_cls"])
    m1, m2 = r.choice([("fact", "twice"), ("Fact", "twiceOf"), ("_fact", "_twice")])  # (no __names: they are mangled inside the class)
    return (f"class {c}:\n    @staticmethod\n    def {m1}(n):\n        return 1 if n < 2 else n * {c}.{m1}(n - 1)\n\n    @staticmethod\n    def {m2}(n):\n        return {c}.{m1}(n) * 2\n\n\n"
            f"def f(x, y):\n    return {c}.{m1}(abs(x) + 1), {c}.{m2}(abs(y) % 4)\n")


def fam_local_global_clash(r):
    """a local whose conventional name is the current name of a module-level variable that is itself due for renaming"""
    g = r.choice(["ax", "maxVal", "cfg"])
    loc = r.choice(["_" + g, g.upper() + "_", "__" + g])
    ign = r.choice(["", "", "  # pyrefact: ignore"])
    return (f"{g} = 10\n\n\ndef helperFn(v):\n    return {g} + v{ign}\n\n\ndef bar(v):\n    {loc} = v * 2\n    return {loc} + {g}\n\n\ndef f(x, y):\n    return bar(x), helperFn(y), {g}\n")


def fam_shadowed_def(r):
    """a function whose name is also bound locally (loop / with / walrus target, parameter) to something else"""
    how = r.choice(["for emit in (str,):\n        out = emit(x)", "with contextlib.nullcontext(str) as emit:\n        out = emit(x)", "if (emit := str):\n        out = emit(x)",
                    "emit = str\n    out = emit(x)", "out = [emit(x) for emit in (str,)][0]", "out = (lambda emit: emit(x))(str)"])
    return (f"import contextlib\n\n\ndef emit(v):\n    return ('module-level', v)\n\n\ndef f(x, y):\n    {how}\n    return out, emit(y)\n")


FAMILIES6 = [fam_static_self_ref, fam_local_global_clash, fam_shadowed_def]


def corpus6(per_family=24):
    import random

    out = []
    for fam in FAMILIES6:
        r = random.Random("6:" + fam.__name__)
        for _ in range(per_family):
            out.append((fam(r) + HARNESS, fam.__name__))
    return out


# ------------------------------------------------------------------------------------------- seventh wave: found by observing the repository's own examples

def fam_genexp_argument(r):
    """a generator expression as the only argument of a call, in shapes rules like to replace"""
    fn = r.choice(["sum", "sorted", "list", "max", "any", "tuple", "len_of"])
    g = r.choice(["v for v in range(x % 4 + 1)", "v for v in range(4) if ()", "v for v in (w for w in range(3))", "v * 2 for v in range(3) if 1", "v for v in [y, x, 3]",
                  "v for v in range(3) if v for w in () if False"])
    return f"def len_of(it):\n    return len(list(it))\n\n\ndef f(x, y):\n    return {fn}({g}), {fn}(({g}))\n"


def fam_multi_clause_comp(r):
    """comprehensions with several clauses, one of which has a constant condition"""
    c = r.choice(["False", "0", "()", "True", "1", "not []"])
    v = r.randrange(4)
    if v == 0:
        return f"def f(x, y):\n    return [a for a in (1, 2) for b in (3,) if {c}]\n"
    if v == 1:
        return f"def f(x, y):\n    return [(a, b) for a in (1, x) if {c} for b in (3, y)]\n"
    if v == 2:
        return f"def f(x, y):\n    return {{a: b for a in (1, 2) if a for b in (x, y) if {c}}}\n"
    return f"def f(x, y):\n    return sorted({{a + b for a in (x, 2) if {c} for b in (3, y) if b}})\n"


def fam_extend_loop(r):
    """loops that extend a container; in some the container depends on the loop variable"""
    recv = r.choice(["d[k]", "d[k % 2]", "acc", "d[0]", "box.items", "d.setdefault(k, [])"])
    return (f"class Box:\n    def __init__(self):\n        self.items = []\n\n\ndef f(x, y):\n    d = {{0: [], 1: [], 2: []}}\n    acc = []\n    box = Box()\n    for k in range(3):\n"
            f"        {recv}.extend([k, x])\n    return d, acc, box.items\n")


def fam_zip_unused(r):
    """zip over iterables of different lengths where some positions are unused"""
    a, b = r.choice([("'abc'", "'x'"), ("range(3)", "range(1, 3)"), ("[1, 2]", "[x, y, 3]"), ("(x, y)", "()")])
    v = r.randrange(3)
    if v == 0:
        return f"def f(x, y):\n    out = []\n    for p, _ in zip({a}, {b}):\n        out.append(p)\n    return out\n"
    if v == 1:
        return f"def f(x, y):\n    return [1 for _, _ in zip({a}, {b})], [q for _, q in zip({a}, {b})]\n"
    return f"def f(x, y):\n    n = 0\n    for _, _ in zip({a}, {b}):\n        n += 1\n    return n\n"


def fam_dup_dict_keys(r):
    """dict displays with duplicated constant keys"""
    d = r.choice(["{'k': 1, 'j': x, 'k': 3}", "{1: 'a', True: 'b'}", "{1: x, 2: y, 1.0: 'z'}", "{'a': 1, 'a': 2}", "{x: 1, 'k': 2, 'k': 3, y: 4}"])
    return f"def f(x, y):\n    d = {d}\n    return list(d.items())\n"


FAMILIES7 = [fam_genexp_argument, fam_multi_clause_comp, fam_extend_loop, fam_zip_unused, fam_dup_dict_keys]


def corpus7(per_family=24):
    import random

    out = []
    for fam in FAMILIES7:
        r = random.Random("7:" + fam.__name__)
        for _ in range(per_family):
            out.append((fam(r) + HARNESS, fam.__name__))
    return out


# ------------------------------------------------------------------------------------------- eighth wave: receivers

RECEIVERS = ["Parser", "Parser()", "p", "self.parser", "make_parser()", "PARSERS[0]", "Pipeline().parser", "(p or Parser())"]


def fam_member_receivers(r):
    """members (static method, method that does not use self, class attribute) reached through every kind of receiver: the class,
    an instance in a variable, an attribute chain, a call result, a subscript"""
    m = r.choice(["normalize", "Normalize", "cleanUp"])
    plain = r.choice(["plain", "plainOne"])
    attr = r.choice(["sep", "SEP", "sepChar"])
    r1, r3 = r.choice(RECEIVERS), r.choice(RECEIVERS)
    r2 = r.choice(RECEIVERS[1:])  # not through the class: Parser.plain(y) passes y as self (recorded finding explicit-self-call)
    inner = [x for x in (r1, r2, r3) if x.startswith("self.")]
    outer = [x if not x.startswith("self.") else "Pipeline().parser" for x in (r1, r2, r3)]
    run_body = ", ".join([f"self.parser.{m}(v)"] + [f"{inner[0]}.{plain}(v)" if inner else f"self.parser.{attr}"])
    return (f"class Parser:\n    {attr} = '-'\n\n    @staticmethod\n    def {m}(token):\n        return str(token) + '!'\n\n    def {plain}(self, v):\n        return v * 2\n\n\n"
            f"def make_parser():\n    return Parser()\n\n\nPARSERS = [Parser()]\n\n\n"
            f"class Pipeline:\n    def __init__(self):\n        self.parser = Parser()\n\n    def run(self, v):\n        return {run_body}\n\n\n"
            f"def f(x, y):\n    p = Parser()\n    return {outer[0]}.{m}(x), {outer[1]}.{plain}(y), {outer[2]}.{attr}, Pipeline().run(x)\n")


def fam_set_dedup(r):
    """a set (literal, call or comprehension) whose only job is to drop duplicates, consumed by a comprehension / sum / sorted / len"""
    inner = r.choice(["{w for w in words if w}", "set(words)", "{w % 3 for w in words}", "frozenset(words)"])
    outer = r.choice(["[w for w in INNER if w > 0]", "sum(w for w in INNER)", "sorted(w for w in INNER if w != 1)", "len([w for w in INNER])", "list(INNER)", "[w for w in sorted(INNER)]"])
    return (f"def f(x, y):\n    words = [x, y, x, 2, 2, y, 5]\n    return {outer.replace('INNER', inner)}\n")


FAMILIES8 = [fam_member_receivers, fam_set_dedup]


def corpus8(per_family=36):
    import random

    out = []
    for fam in FAMILIES8:
        r = random.Random("8:" + fam.__name__)
        for _ in range(per_family):
            out.append((fam(r) + HARNESS, fam.__name__))
    return out
