"""Identifier occurrences and scopes of a Python module, in the shape of lean/PyrefactModel/C19/Scope.lean.

`analyse(tree)`       -> Analysis: occurrences (name, scope id, enclosing scopes searched by Python, binding?), global / nonlocal
                         declarations, and the scope tree.  Scope 0 is the module.
`symtable_vars(src, an)` -> for every occurrence the scope that owns its variable ACCORDING TO CPYTHON (module `symtable`),
                         or None when the scope tree cannot be aligned with the symbol tables (then nothing is claimed).
`pure_renaming(a, b)` -> the renaming steps when two sources have the same syntax tree up to identifier spelling, else None.

Nothing here decides a property by itself: `analyse` + the Lean `var` are compared with CPython's own symbol table (suite
`scope-model`), and the renaming check of C19 uses the symbol tables of both texts."""
from __future__ import annotations

import ast
import symtable


class Unsupported(Exception):
    pass


class Scope:
    def __init__(self, sid, kind, parent, node, name):
        self.id, self.kind, self.parent, self.node, self.name = sid, kind, parent, node, name
        self.children = []

    def outer(self):
        out, p = [], self.parent
        while p is not None:
            if p.kind != "class":
                out.append(p.id)
            p = p.parent
        return out


class Occ:
    __slots__ = ("name", "scope", "binding", "node", "field")

    def __init__(self, name, scope, binding, node, field):
        self.name, self.scope, self.binding, self.node, self.field = name, scope, binding, node, field


COMP_NAMES = {ast.ListComp: "listcomp", ast.SetComp: "setcomp", ast.DictComp: "dictcomp", ast.GeneratorExp: "genexpr"}


class Analysis(ast.NodeVisitor):
    def __init__(self, tree):
        self.scopes = [Scope(0, "module", None, tree, "top")]
        self.occs = []
        self.decls = []
        self.cur = self.scopes[0]
        self.visit(tree)

    # -- helpers
    def new_scope(self, kind, node, name):
        s = Scope(len(self.scopes), kind, self.cur, node, name)
        self.cur.children.append(s)
        self.scopes.append(s)
        return s

    def occ(self, name, binding, node, field, scope=None):
        self.occs.append(Occ(name, scope or self.cur, binding, node, field))

    def within(self, scope, nodes):
        saved, self.cur = self.cur, scope
        for n in nodes:
            if n is not None:
                self.visit(n)
        self.cur = saved

    # -- occurrences
    def visit_Name(self, node):
        self.occ(node.id, isinstance(node.ctx, (ast.Store, ast.Del)), node, "id")

    def visit_NamedExpr(self, node):
        s = self.cur
        while s.kind == "comp":
            s = s.parent
        self.occ(node.target.id, True, node.target, "id", scope=s)
        self.visit(node.value)

    def visit_Global(self, node):
        for n in node.names:
            self.decls.append((self.cur.id, n, "g"))

    def visit_Nonlocal(self, node):
        for n in node.names:
            self.decls.append((self.cur.id, n, "n"))

    def visit_alias(self, node):
        if node.name == "*":
            return
        if node.asname:
            self.occ(node.asname, True, node, "asname")
        elif "." not in node.name:
            self.occ(node.name, True, node, "name")
        else:
            self.occ(node.name.split(".")[0], True, node, None)

    def visit_ExceptHandler(self, node):
        if node.type is not None:
            self.visit(node.type)
        if node.name:
            self.occ(node.name, True, node, "name")
        for st in node.body:
            self.visit(st)

    def visit_MatchAs(self, node):
        if node.pattern is not None:
            self.visit(node.pattern)
        if node.name:
            self.occ(node.name, True, node, "name")

    def visit_MatchStar(self, node):
        if node.name:
            self.occ(node.name, True, node, "name")

    def visit_MatchMapping(self, node):
        for k in node.keys:
            self.visit(k)
        for p in node.patterns:
            self.visit(p)
        if node.rest:
            self.occ(node.rest, True, node, "rest")

    def _args(self, args):
        for a in args.posonlyargs + args.args + ([args.vararg] if args.vararg else []) + args.kwonlyargs + ([args.kwarg] if args.kwarg else []):
            self.occ(a.arg, True, a, "arg")

    def _function(self, node):
        if getattr(node, "type_params", None):
            raise Unsupported("type parameters")
        for d in node.decorator_list:
            self.visit(d)
        a = node.args
        for d in a.defaults + [d for d in a.kw_defaults if d is not None]:
            self.visit(d)
        for x in a.posonlyargs + a.args + ([a.vararg] if a.vararg else []) + a.kwonlyargs + ([a.kwarg] if a.kwarg else []):
            if x.annotation is not None:
                self.visit(x.annotation)
        if node.returns is not None:
            self.visit(node.returns)
        self.occ(node.name, True, node, "name")
        s = self.new_scope("function", node, node.name)
        saved, self.cur = self.cur, s
        self._args(a)
        for st in node.body:
            self.visit(st)
        self.cur = saved

    visit_FunctionDef = _function
    visit_AsyncFunctionDef = _function

    def visit_Lambda(self, node):
        a = node.args
        for d in a.defaults + [d for d in a.kw_defaults if d is not None]:
            self.visit(d)
        s = self.new_scope("function", node, "lambda")
        saved, self.cur = self.cur, s
        self._args(a)
        self.visit(node.body)
        self.cur = saved

    def visit_ClassDef(self, node):
        if getattr(node, "type_params", None):
            raise Unsupported("type parameters")
        for d in node.decorator_list:
            self.visit(d)
        for b in node.bases:
            self.visit(b)
        for k in node.keywords:
            self.visit(k.value)
        self.occ(node.name, True, node, "name")
        s = self.new_scope("class", node, node.name)
        self.within(s, node.body)

    def _comp(self, node):
        gens = node.generators
        self.visit(gens[0].iter)
        s = self.new_scope("comp", node, COMP_NAMES[type(node)])
        saved, self.cur = self.cur, s
        self.visit(gens[0].target)
        for c in gens[0].ifs:
            self.visit(c)
        for g in gens[1:]:
            self.visit(g.iter)
            self.visit(g.target)
            for c in g.ifs:
                self.visit(c)
        if isinstance(node, ast.DictComp):
            self.visit(node.key)
            self.visit(node.value)
        else:
            self.visit(node.elt)
        self.cur = saved

    visit_ListComp = visit_SetComp = visit_DictComp = visit_GeneratorExp = _comp

    def visit_TypeAlias(self, node):  # pragma: no cover - python 3.12 syntax, not in the class
        raise Unsupported("type alias")

    # -- the request for the Lean driver
    def request(self, steps=()):
        return {"suite": "scope",
                "occs": [[o.name, o.scope.id, o.scope.outer(), bool(o.binding)] for o in self.occs],
                "decls": [list(d) for d in self.decls],
                "steps": [list(s) for s in steps]}


def analyse(tree):
    try:
        return Analysis(tree)
    except (Unsupported, RecursionError, AttributeError):
        return None


# ---------------------------------------------------------------------------------------------------------------------
# CPython's view

def _real_children(scope):
    """child scopes that have a symbol table of their own: CPython 3.12 inlines comprehensions (PEP 709) and `symtable`
    no longer lists them, their lambdas / nested comprehensions hang under the enclosing table"""
    for c in scope.children:
        if c.kind == "comp":
            yield from _real_children(c)
        else:
            yield c


def _comp_children(scope):
    for c in scope.children:
        if c.kind == "comp":
            yield c
            yield from _comp_children(c)


def _align(scope, table, mapping):
    mapping[scope.id] = table
    for c in _comp_children(scope):
        mapping[c.id] = table
    kids = {}
    for t in table.get_children():
        ty = t.get_type()
        if ty not in ("function", "class"):
            raise Unsupported("symbol table of type " + str(ty))
        if t.get_name() == "top":
            # Lib/symtable.py decides "module scope" by the table's NAME being "top": for a function or class called top its
            # Symbol.is_global() / is_local() answer as if the names were module-level.  Nothing is claimed for such a program.
            raise Unsupported("a scope called 'top' (symtable quirk)")
        kids.setdefault((ty, t.get_name(), t.get_lineno()), []).append(t)
    want = {}
    for c in _real_children(scope):
        k = ("class" if c.kind == "class" else "function", c.name, c.node.lineno)
        want.setdefault(k, []).append(c)
    if {k: len(v) for k, v in kids.items()} != {k: len(v) for k, v in want.items()}:
        raise Unsupported("scope tree and symbol tables differ")
    for k, cs in want.items():
        for c, t in zip(cs, kids[k]):
            _align(c, t, mapping)


def symtable_vars(src, an):
    """[(owner scope id, name)] per occurrence according to CPython, or None.  A name bound by an enclosing comprehension of
    the occurrence belongs to that comprehension (the symbol tables of 3.12 do not list comprehensions any more); every
    other name is looked up in the symbol table of the nearest scope that has one."""
    try:
        top = symtable.symtable(src, "<scoping>", "exec")
        mapping = {}
        _align(an.scopes[0], top, mapping)
    except (Unsupported, SyntaxError, ValueError, RecursionError):
        return None
    comp_bound, direct = {}, {}
    for o in an.occs:
        if o.binding and o.scope.kind == "comp":
            comp_bound.setdefault(o.scope.id, set()).add(o.name)
        elif o.binding:
            direct.setdefault(o.scope.id, set()).add(o.name)

    def owns(p, name):
        """the table of function p lists `name` as local - and not only because an inlined comprehension of p binds it
        (PEP 709 merges those into p's table; functions nested in p still do not see them)"""
        try:
            ps = mapping[p.id].lookup(name)
        except KeyError:
            return None
        if ps.is_local():
            return name in direct.get(p.id, ()) or None
        return False if ps.is_global() else None
    out = []
    for o in an.occs:
        s = o.scope
        owner = None
        while s.kind == "comp":
            if o.name in comp_bound.get(s.id, ()):
                owner = s.id
                break
            s = s.parent
        if owner is not None:
            out.append((owner, o.name))
            continue
        t = mapping[s.id]
        if s.kind == "class" and o.scope.kind == "comp":
            # the body of a comprehension in a class body does not see the class variables (unchanged by PEP 709)
            p = s.parent
            while p is not None and owner is None:
                if p.kind == "comp" and o.name in comp_bound.get(p.id, ()):
                    owner = p.id
                elif p.kind == "function":
                    w = owns(p, o.name)
                    if w:
                        owner = p.id
                    elif w is False:
                        break
                p = p.parent
            out.append((owner or 0, o.name))
            continue
        try:
            sym = t.lookup(o.name)
        except KeyError:
            return None  # mangled private name, or an analyser / interpreter difference: claim nothing
        if s.kind == "module" or sym.is_global():
            out.append((0, o.name))
        elif sym.is_local():
            out.append((s.id, o.name))
        elif sym.is_free():
            p = s.parent
            while p is not None:
                if p.kind == "comp" and o.name in comp_bound.get(p.id, ()):
                    owner = p.id  # a lambda in a comprehension reads the comprehension's variable
                    break
                if p.kind == "function" and owns(p, o.name):
                    owner = p.id
                    break
                p = p.parent
            if owner is None:
                return None
            out.append((owner, o.name))
        else:
            return None
    return out


# ---------------------------------------------------------------------------------------------------------------------
# renamings

def _masked_dump(tree, an):
    for o in an.occs:
        if o.field is not None:
            setattr(o.node, o.field, "_")
    return ast.dump(tree)


def pure_renaming(src_a, src_b):
    """(analysis of a, analysis of b, steps) when b is a with identifiers respelled and nothing else, else None.
    steps = [(old, new, [occurrence indices])]"""
    try:
        ta, tb = ast.parse(src_a), ast.parse(src_b)
    except (SyntaxError, ValueError, RecursionError):
        return None
    an_a, an_b = analyse(ta), analyse(tb)
    if an_a is None or an_b is None or len(an_a.occs) != len(an_b.occs):
        return None
    names_a = [o.name for o in an_a.occs]
    names_b = [o.name for o in an_b.occs]
    if names_a == names_b:
        return None
    shape_a = [(o.scope.id, o.binding, o.field) for o in an_a.occs]
    shape_b = [(o.scope.id, o.binding, o.field) for o in an_b.occs]
    if shape_a != shape_b or an_a.decls != an_b.decls:
        return None
    ta2, tb2 = ast.parse(src_a), ast.parse(src_b)
    if _masked_dump(ta2, Analysis(ta2)) != _masked_dump(tb2, Analysis(tb2)):
        return None
    groups = {}
    for i, (x, y) in enumerate(zip(names_a, names_b)):
        if x != y:
            groups.setdefault((x, y), []).append(i)
    steps = [(old, new, idx) for (old, new), idx in sorted(groups.items())]
    return an_a, an_b, steps


def partition_preserved(vars_a, vars_b, binding=None):
    """two occurrences refer to one variable afterwards iff they did before, and its owner scope is the same.
    `binding` (flags per occurrence): variables that are only written afterwards - throwaway names like `_` - are left out:
    merging two of them, or splitting a dead write off a variable, changes no reference (whether the write was dead is the
    business of the execution oracle)"""
    keep = range(len(vars_a))
    if binding is not None:
        read = {vb for vb, b in zip(vars_b, binding) if not b}
        keep = [i for i in keep if vars_b[i] in read]
    fwd, bwd = {}, {}
    for i in keep:
        va, vb = vars_a[i], vars_b[i]
        if va[0] != vb[0]:
            return False, i
        if fwd.setdefault(va, vb) != vb or bwd.setdefault(vb, va) != va:
            return False, i
    return True, None
