"""Shared machinery of the pyrefact proof checks: Lean build / audit, driver process, evidence, replays,
known findings.  Every check is `vcheck.py check Cxx --tier quick|thorough`."""
from __future__ import annotations

import contextlib
import fcntl
import hashlib
import json
import os
import random
import re
import subprocess
import sys
import time
from pathlib import Path

VERIF = Path(__file__).resolve().parent.parent
LEAN = VERIF / "lean"
EVIDENCE = Path(os.environ.get("VERIF_EVIDENCE_DIR", VERIF / "evidence"))  # redirected only by tools/confirm_seed.sh (trial runs against a scratch worktree)
REPLAYS = Path(os.environ.get("VERIF_REPLAYS_DIR", VERIF / "replays"))
CORPUS = VERIF / "corpus"
REPO = Path(os.environ.get("PYREFACT_REPO", "/repo"))
KNOWN = VERIF / "KNOWN_FINDINGS.txt"
ALLOWED_AXIOMS = {"propext", "Classical.choice", "Quot.sound"}
FORBIDDEN = re.compile(
    r"\bsorry\b|\badmit\b|^\s*axiom\s|native_decide|bv_decide|implemented_by|\bunsafe\s|maxHeartbeats\s+0\b"
)

os.environ.setdefault("PYREFACT_VERIF", "1")


def import_pyrefact():
    """Import pyrefact from /repo's working tree (asserted) with logging silenced."""
    sys.path.insert(0, str(REPO))
    import warnings

    warnings.simplefilter("ignore")
    import pyrefact
    from pyrefact import logs

    assert Path(pyrefact.__file__).resolve().is_relative_to(REPO.resolve()), pyrefact.__file__
    logs.set_level(100)
    return pyrefact


@contextlib.contextmanager
def lean_lock():
    LEAN.mkdir(exist_ok=True)
    with open(LEAN / ".build.lock", "w") as fh:
        fcntl.flock(fh, fcntl.LOCK_EX)
        try:
            yield
        finally:
            fcntl.flock(fh, fcntl.LOCK_UN)


def run(cmd, cwd=None, timeout=1800, env=None, input=None):
    t0 = time.time()
    try:
        p = subprocess.run(
            cmd, cwd=cwd, capture_output=True, text=True, timeout=timeout, env=env, input=input
        )
        return p.returncode, p.stdout + p.stderr, time.time() - t0
    except subprocess.TimeoutExpired as ex:
        return 124, f"TIMEOUT after {timeout}s: {cmd}\n{ex.stdout or ''}", time.time() - t0


def write_if_changed(path: Path, content: str) -> bool:
    path.parent.mkdir(parents=True, exist_ok=True)
    if path.exists() and path.read_text() == content:
        return False
    tmp = path.with_suffix(path.suffix + ".tmp%d" % os.getpid())
    tmp.write_text(content)
    os.replace(tmp, path)
    return True


def lake_build(targets, timeout=1500):
    """Build lake targets (module names as `Props.C10`, or `driver`).  Returns (ok, output)."""
    args = ["lake", "build"] + [("+" + t) if "." in t else t for t in targets]
    with lean_lock():
        rc, out, wall = run(args, cwd=LEAN, timeout=timeout)
    out = "\n".join(l for l in out.splitlines() if "toolchain not updated" not in l)
    return rc == 0, out, wall


def failing_decls(build_output: str):
    """Names of the Lean source locations that failed, parsed from lake's error lines."""
    locs = []
    for m in re.finditer(r"error: ([\w/\.]+\.lean):(\d+):(\d+)", build_output):
        locs.append((m.group(1), int(m.group(2))))
    names = []
    for f, line in locs:
        p = LEAN / f
        if not p.exists():
            continue
        src = p.read_text().splitlines()
        name = None
        for i in range(min(line, len(src)) - 1, -1, -1):
            mm = re.match(r"\s*(?:@\[[^\]]*\]\s*)?(?:private\s+|protected\s+)?(theorem|lemma|def|example|instance|abbrev)\s+([\w\.']+)?", src[i])
            if mm:
                name = f"{f}:{mm.group(2) or mm.group(1)}"
                break
        names.append(name or f"{f}:{line}")
    return list(dict.fromkeys(names))


def audit(prop: str, timeout=900):
    """Run Audit/<prop>.lean (`#print axioms` for every property theorem).  Returns
    (theorems: {name: [axioms]}, bad: {name: reason}, raw output)."""
    with lean_lock():
        rc, out, _ = run(["lake", "env", "lean", f"Audit/{prop}.lean"], cwd=LEAN, timeout=timeout)
    wanted = re.findall(r"#print axioms\s+([\w\.']+)", (LEAN / "Audit" / f"{prop}.lean").read_text())
    found = {}
    for m in re.finditer(r"'([\w\.']+)' depends on axioms: \[([^\]]*)\]", out, re.S):
        found[m.group(1)] = [a.strip() for a in m.group(2).replace("\n", " ").split(",") if a.strip()]
    for m in re.finditer(r"'([\w\.']+)' does not depend on any axioms", out):
        found[m.group(1)] = []
    bad = {}
    for w in wanted:
        if w not in found:
            bad[w] = "missing (does not compile or does not exist)"
        else:
            extra = [a for a in found[w] if a not in ALLOWED_AXIOMS]
            if extra:
                bad[w] = "inadmissible axioms: " + ", ".join(extra)
    return {w: found.get(w) for w in wanted}, bad, out


def grep_forbidden():
    hits = []
    for p in sorted(LEAN.rglob("*.lean")):
        if ".lake" in p.parts:
            continue
        in_block = 0
        for i, line in enumerate(p.read_text().splitlines(), 1):
            # strip comments (block comments tracked coarsely, line comments exactly)
            code = line
            if in_block:
                if "-/" in code:
                    code = code.split("-/", 1)[1]
                    in_block = 0
                else:
                    continue
            while "/-" in code:
                pre, post = code.split("/-", 1)
                if "-/" in post:
                    code = pre + post.split("-/", 1)[1]
                else:
                    code = pre
                    in_block = 1
            code = code.split("--", 1)[0]
            if FORBIDDEN.search(code):
                hits.append(f"{p.relative_to(LEAN)}:{i}: {line.strip()}")
    return hits


class Driver:
    """The compiled Lean line-protocol driver (lean/.lake/build/bin/driver)."""

    def __init__(self):
        self.exe = LEAN / ".lake" / "build" / "bin" / "driver"

    def ask(self, requests, timeout=1200):
        if not requests:
            return []
        data = "".join(json.dumps(r, ensure_ascii=True) + "\n" for r in requests)
        p = subprocess.run([str(self.exe)], input=data, capture_output=True, text=True, timeout=timeout)
        lines = p.stdout.split("\n")  # not splitlines(): the driver writes U+2028 / NEL inside strings unescaped
        if lines and lines[-1] == "":
            lines.pop()
        if len(lines) != len(requests):
            raise RuntimeError(
                f"driver answered {len(lines)} lines for {len(requests)} requests; rc={p.returncode} stderr={p.stderr[-2000:]}"
            )
        return [json.loads(l) for l in lines]


def seed_from_env() -> int:
    try:
        return int(os.environ.get("VERIF_SEED", "0"))
    except ValueError:
        return 0


def rng_for(seed: int, label: str) -> random.Random:
    h = hashlib.sha256(f"{seed}:{label}".encode()).digest()
    return random.Random(int.from_bytes(h[:8], "big"))


def load_known(prop: str):
    """Entries of KNOWN_FINDINGS.txt for one property: list of dicts(kind, id, witness, theorem, what)."""
    out = []
    if not KNOWN.exists():
        return out
    for line in KNOWN.read_text().splitlines():
        line = line.strip()
        if not line or line.startswith("#"):
            continue
        m = re.match(r"(finding|fixed):\s+property=(C\d+)\s+(.*)$", line)
        if not m or m.group(2) != prop:
            continue
        kind, rest = m.group(1), m.group(3)
        ent = {"kind": kind, "raw": rest}
        if kind == "finding":
            mm = re.match(r"id=(\S+)\s+witness=(.*?)\s+theorem=(\S+)\s+what=(.*)$", rest)
            if mm:
                ent.update(id=mm.group(1), witness=json.loads(mm.group(2)), theorem=mm.group(3), what=mm.group(4))
        out.append(ent)
    return out


def write_replay(prop: str, name: str, payload: dict) -> Path:
    REPLAYS.mkdir(exist_ok=True)
    p = REPLAYS / f"{prop}_{name}.json"
    p.write_text(json.dumps(payload, indent=1, ensure_ascii=True, default=repr))
    return p


class Suite:
    """Result of one correspondence / oracle suite."""

    def __init__(self, name, kind="correspondence"):
        self.name = name
        self.kind = kind  # correspondence | oracle | table
        self.cases = 0
        self.nontrivial = set()
        self.hist = {}
        self.disagreements = []  # dicts with the concrete input
        self.samples = []
        self.note = ""

    def count(self, key):
        self.hist[key] = self.hist.get(key, 0) + 1

    def nt(self, obj):
        self.nontrivial.add(hashlib.md5(json.dumps(obj, sort_keys=True, default=repr).encode()).hexdigest())

    def summary(self):
        return {
            "suite": self.name,
            "kind": self.kind,
            "cases": self.cases,
            "distinct_nontrivial": len(self.nontrivial),
            "histogram": dict(sorted(self.hist.items())),
            "disagreements": len(self.disagreements),
            "note": self.note,
        }
