"""Curated execution sweeps (DESIGN 3.4): the property's oracle evaluated on the real code over a FIXED corpus -
programs regenerated deterministically from committed generator seeds plus the repository's own example snippets.
The inputs on which the reference tree already fails the oracle are listed (by content hash) in corpus/baseline_<prop>.json,
written by tools/rebaseline.py and never at check time; they are excluded from the curated set, and one witness per root
cause is listed in KNOWN_FINDINGS.txt.  A failure on any other input is a violation with that input as the replay."""
from __future__ import annotations

import itertools
import json
import random

import common
import oracles
import progen
from common import Suite

CORPUS_SEEDS = list(range(1000, 1012))  # fixed: independent of VERIF_SEED
PER_SEED = 120


def generated_corpus():
    out = []
    for s in CORPUS_SEEDS:
        r = random.Random(s)
        for _ in range(PER_SEED):
            src, fam = progen.program(r)
            out.append((oracles.sha(src), src, fam))
    return out


CORPUS2_SEEDS = list(range(2000, 2004))
PER_SEED2 = 60


def generated_corpus2():
    out = []
    for s in CORPUS2_SEEDS:
        r = random.Random(s)
        for _ in range(PER_SEED2):
            src, fam = progen.program2(r)
            out.append((oracles.sha(src), src, fam))
    return out


def generated_corpus3():
    out = []
    r = random.Random(3000)
    for _ in range(24):
        src, fam = progen.program3(r)
        out.append((oracles.sha(src), src, fam))
    return out


def generated_corpus4():
    return [(oracles.sha(src), src, fam) for (src, fam) in progen.corpus4()]


def generated_corpus5():
    seen, out = set(), []
    for (src, fam) in progen.corpus5() + progen.corpus6() + progen.corpus7() + progen.corpus8():
        if src not in seen:
            seen.add(src)
            out.append((oracles.sha(src), src, fam))
    return out


_TWINS = None


def twin_corpus():
    """module-level twins of every eligible program of the generated corpora (first 240 of the first one)"""
    global _TWINS
    if _TWINS is None:
        out, seen = [], set()
        for (_sha, src, fam) in generated_corpus()[:240] + generated_corpus2() + generated_corpus3() + generated_corpus4() + generated_corpus5():
            t = progen.module_twin(src)
            if t and t not in seen:
                seen.add(t)
                out.append((oracles.sha(t), t, "twin:" + fam))
        _TWINS = out
    return _TWINS


def example_corpus():
    return [(oracles.sha(s), s, "repo-example") for s in oracles.repo_examples() if oracles.runnable(s)]


def baseline(prop):
    p = common.CORPUS / f"baseline_{prop}.json"
    return json.loads(p.read_text()) if p.exists() else {}


def pick(items, ctx, quick_n):
    """thorough: everything; quick: a slice chosen by VERIF_SEED"""
    if ctx.thorough or len(items) <= quick_n:
        return items
    r = ctx.rng("slice")
    return r.sample(items, quick_n)


_EVERYDAY = None


def everyday_corpus():
    global _EVERYDAY
    if _EVERYDAY is None:
        import everyday
        _EVERYDAY = [(oracles.sha(p), p, "everyday") for p in everyday.EVERYDAY]
    return _EVERYDAY


_IDIOMS = None


def idiom_corpus():
    global _IDIOMS
    if _IDIOMS is None:
        import everyday
        _IDIOMS = [(oracles.sha(p), p, "idiom") for p in everyday.idiom_programs()]
    return _IDIOMS


_EMBEDDED = None


def embedded_corpus():
    """every repository example (the unit-test inputs of the rules) placed where a rewrite has to respect its surroundings: in a function body between two
    statements, in a method, in an if block after a statement.  For C03 / C04 only (valid in -> valid out by compile(), no crash): the examples are open
    snippets.  The shape matters: a multi-line replacement inside an indented block with an earlier statement was placed at column 0 (repair 4c4fbbe)."""
    global _EMBEDDED
    if _EMBEDDED is None:
        import ast
        import textwrap

        out = []
        for src in oracles.repo_examples():
            try:
                tree = ast.parse(src)
            except (SyntaxError, ValueError, RecursionError):
                continue
            if not src.strip() or any(isinstance(n, (ast.Import, ast.ImportFrom, ast.Global, ast.Nonlocal, ast.Return, ast.Yield, ast.YieldFrom, ast.Await)) for n in ast.walk(tree)):
                continue
            b1 = textwrap.indent(src.strip("\n"), "    ")
            b2 = textwrap.indent(src.strip("\n"), "        ")
            for text in (f"def wrapper_fn():\n    first_stmt = 1\n{b1}\n    return first_stmt\n\n\nprint(wrapper_fn())\n",
                         f"class Holder:\n    def run(self):\n        first_stmt = 1\n{b2}\n        return first_stmt\n\n\nprint(Holder().run())\n",
                         f"first_stmt = 1\nif first_stmt:\n    second_stmt = 2\n{b1}\n    print(second_stmt)\n"):
                try:
                    compile(text, "<embedded>", "exec")
                except (SyntaxError, ValueError):
                    continue
                out.append((oracles.sha(text), text, "embedded-example"))
        _EMBEDDED = out
    return _EMBEDDED


def targeted():
    """the family-targeted corpora (12 + 2 + 6 + 6 + 3 + 5 families, and the module-level twins): run in full in both tiers, so that no family depends on the slice"""
    return generated_corpus2() + generated_corpus3() + generated_corpus4() + generated_corpus5() + twin_corpus() + everyday_corpus()


OPTION_COMBOS = [
    {},
    {"safe": True},
    {"keep_imports": True},
    {"safe": True, "keep_imports": True, "max_line_length": 60},
    {"preserve": ["f", "fn0", "fn1", "count", "Acc"]},
    {"max_line_length": 140},
]


def key(sha, opts, extra=""):
    return sha + "|" + json.dumps(opts, sort_keys=True) + extra


# ------------------------------------------------------------------------------------------------ C01

def behaviour_cases(ctx, quick_n):
    gen = generated_corpus()
    ex = example_corpus()
    items = pick(gen, ctx, quick_n) + targeted() + pick(ex, ctx, quick_n // 3) + pick(observed_examples(), ctx, quick_n)
    cases = []
    r = ctx.rng("opts")
    tsha = {t[0] for t in targeted()}
    for (sha, src, fam) in items:
        combos = OPTION_COMBOS if (ctx.thorough or sha in tsha) else [OPTION_COMBOS[0], r.choice(OPTION_COMBOS[1:])]
        for o in combos:
            cases.append((sha, src, fam, o))
    for (sha, src, fam) in pick(idiom_corpus(), ctx, quick_n * 4):
        cases.append((sha, src, fam, OPTION_COMBOS[0]))
    return cases


def judge_behaviour(res):
    """None = holds / not in the class; else description"""
    if res["status"] != "ok":
        return None  # crash / timeout is C04's business
    b, a = res["before"], res["after"]
    if b[0] != "ok":
        return None  # the original does not terminate normally: outside C01's class
    if a[0] != b[0]:
        return f"original terminates normally, refactored program ends with {a[0]}"
    if a[1] != b[1]:
        return "standard output differs"
    if a[2] != b[2]:
        return "calls / stores on undefined names differ"
    return None


def behaviour_suite(ctx, prop, quick_n=150):
    s = Suite(f"{prop}-behaviour-sweep", kind="oracle")
    base = baseline("C01")
    cases = behaviour_cases(ctx, quick_n)
    todo = [c for c in cases if key(c[0], c[3]) not in base]
    results = oracles.pmap(oracles.task_behaviour, [(src, dict(o), "format", fam == "repo-example") for (_sha, src, fam, o) in todo])
    for (sha, src, fam, o), res in zip(todo, results):
        s.cases += 1
        s.count(fam)
        why = judge_behaviour(res)
        if res["status"] == "ok" and res["before"][0] == "ok" and res["out"] != src:
            s.nt([sha, o])
        if why:
            s.disagreements.append({"sha": sha, "src": src, "opts": o, "out": res.get("out"), "family": fam,
                                    "what": f"format_code(opts={o}) changes behaviour: {why}"})
        elif len(s.samples) < 2 and res["status"] == "ok" and res.get("out") != src:
            s.samples.append({"suite": s.name, "src": src[:400], "opts": o, "out": res["out"][:400], "stdout": res["before"][1][:120]})
    s.note = (f"fixed corpus: {len(CORPUS_SEEDS) * PER_SEED} generated closed programs (grammar + {len(progen.FAMILIES)} rule families) and the "
              f"runnable repository examples (stub world), x option combinations; {len(cases) - len(todo)} baseline-excluded cases in this slice; "
              "oracle: same termination status and stdout before/after format_code; non-trivial = original runs and the text changed")
    return s


# ------------------------------------------------------------------------------------------------ C02

def rule_names():
    import tablegen

    names = []
    for (m, n, _p) in tablegen.multi_run_rules():
        full = f"{m}.{n}"
        if full not in names:
            names.append(full)
    for extra in ["fixes.simplify_assign_immediate_return", "abstractions.overused_constant", "fixes.align_variable_names_with_convention",
                  "fixes.remove_unused_imports", "fixes.sort_imports", "fixes.deinterpolate_logging_args", "fixes.invalid_escape_sequence",
                  "fixes.add_missing_imports", "fixes.fix_line_lengths", "fixes.fix_import_spacing", "abstractions.create_abstractions"]:  # formatting.* are wrappers of black / compactify, not rules
        if extra not in names:
            names.append(extra)
    return names


def task_rules(args):
    """apply every rule separately to one program; returns list of (rule, status, out, after-observation) for rules
    that changed the text"""
    src, rules, stub_world = args
    before = oracles.observe(src, stub_world)
    out = []
    for rule in rules:
        st, new = oracles.task_format((src, {}, "rule:" + rule))
        if st != "ok":
            out.append((rule, st, new, None))
        elif new != src:
            out.append((rule, "ok", new, oracles.observe(new, stub_world) if before[0] == "ok" else None))
    return {"status": "ok", "before": before, "rules": out}


def rules_suite(ctx, quick_n=120):
    s = Suite("C02-rule-sweep", kind="oracle")
    base = baseline("C02")
    rules = rule_names()
    items = pick(generated_corpus(), ctx, quick_n) + targeted() + pick(example_corpus(), ctx, quick_n // 2) + observed_examples() + pick(idiom_corpus(), ctx, quick_n * 3)
    results = oracles.pmap(task_rules, [(src, rules, fam == "repo-example") for (_sha, src, fam) in items])
    fired = {}
    for (sha, src, fam), res in zip(items, results):
        s.cases += 1
        if res.get("status") != "ok":
            continue
        b = res["before"]
        for (rule, st, new, after) in res["rules"]:
            if st != "ok":
                continue  # crashes belong to C04
            fired[rule] = fired.get(rule, 0) + 1
            if b[0] != "ok" or after is None:
                continue
            s.nt([sha, rule])
            if key(sha, {}, rule) in base:
                continue
            if after[0] != b[0] or after[1] != b[1] or after[2] != b[2]:
                what = (f"ends with {after[0]}" if after[0] != b[0] else "stdout differs" if after[1] != b[1] else "call log differs")
                s.disagreements.append({"sha": sha, "src": src, "rule": rule, "out": new, "family": fam,
                                        "what": f"rule {rule} changes behaviour: {what}"})
    s.hist = {k: v for k, v in sorted(fired.items())}
    s.samples.append({"suite": s.name, "rules_that_fired": len(fired), "rules_total": len(rules)})
    s.note = (f"every pipeline rule ({len(rules)}) applied in isolation to the fixed corpus; histogram = how often each rule changed the text; "
              "oracle: same status/stdout; non-trivial = (program, rule) pairs where the rule fired on a normally terminating program")
    return s


# ------------------------------------------------------------------------------------------------ C03 / C04

ADVERSARIAL = [
    "x = 1/0\n", "if 1/0:\n    pass\n", "y = 1 + 'a'\n", "if None < 1:\n    print(1)\n", "x = (1,) * 3 + [1]\n", "z = -'a'\n",
    "if 2 ** 100000 > 1:\n    pass\n", "x = 1 if 1/0 else 2\n", "while 1 % 0:\n    pass\n", "a = [][0]\n", "b = {}['k']\n",
    "def f():\n    return 1\n    return 2\n", "if x:\n    a = 1\nelse:\n    a = 1", "if x:\n    print(1)\n    y = 2\nelse:\n    print(2)\n    y = 2",
    "import os, os\nimport os  # pyrefact: ignore\n", "", "\n\n\n", "    x = 1\n    y = 2\n", "def f(:\n", "x = = 1\n", "\tif x:\n\t\ty = 1\n",
    "class A:\n    pass\n" * 3, "lambda: (yield)\n", "async def f():\n    async with a as b:\n        await c\n    async for i in d:\n        pass\n",
    "match x:\n    case [1, *rest]:\n        pass\n    case {'k': v}:\n        pass\n    case _:\n        pass\n",
    "type X = int\n", "def f[T](x: T) -> T:\n    return x\n", "x: int = 1\n", "x = f'{a!r:>{w}}'\n", "try:\n    pass\nexcept* ValueError:\n    pass\n",
    "with (a as b, c as d):\n    pass\n", "global g\ng = 1\n", "def f():\n    nonlocal_ = 1\n    del nonlocal_\n", "x = [*a, *b]\nd = {**a}\n",
    "print(*args, sep='')\n", "@dec\nclass A(B, metaclass=M):\n    x: int\n", "assert x, 'm'\n", "raise E from None\n", "x = a if b else c\n",
    "x = (y := 1)\n", "for i in range(3):\n    pass\nelse:\n    pass\n", "while True:\n    break\nelse:\n    pass\n", "x = 1;y = 2;\n",
    "if True:\n    x = 1\n# comment at end", "def f(a, /, b, *, c):\n    pass\n", "x = ...\n", "x = 1_000 + 0x10 + 1e3 + 1j\n", 'x = b"a" + rb"\\n"\n',
    "from . import x\n", "from __future__ import annotations\n", "import a.b.c as d\n", "x = not not not y\n", "x = a < b < c\n",
    "def f():\n    yield from g()\n", "x[1:2, ::3] = y\n", "del x[0], y.z\n", "x = {1, 2} | {3}\n", "x @= y\n", "print(sum(range(5, 2)))\n",
    "l = [x for x in range(n, 6) if x > -1]\n", "y = sum([len([]) for i in range(3)])\n",
]


def whitespace_inputs():
    """valid modules with odd layout: tab / mixed indentation (kept only if CPython accepts them), long runs of blank lines,
    trailing blanks, imports inside functions followed by multi-line strings, CR / CRLF line ends, form feeds"""
    out = []
    indents = ["\t", "\t\t", "  \t", " \t", "    \t", "\t  ", "        ", "  \t\t\t"]
    for a in indents:
        for b in indents:
            out.append(f"def f(x):\n{a}if x:\n{b}return 1\n{a}return 2\n\n\nprint(f(0), f(1))\n")
            out.append(f"if True:\n{a}y = 1\n{a}for i in range(2):\n{b}y += i\n{a}print(y)\n")
    for n in (3, 10, 26, 40, 120):
        out.append("x = 1\nprint(x)" + "\n" * n)
        out.append("x = 1" + "\n" * n + "print(x)\n")
        out.append("def f():\n    return 1" + "\n    " * n + "\nprint(f())\n")
        out.append("x = 1" + " " * n + "\nprint(x)" + "\t" * n + "\n")
        out.append("x = [" + ", ".join(str(i) for i in range(n)) + "]\nprint(len(x))\n")
    out.append('def usage():\n    import textwrap\n    text = """\nusage: prog [options]\n  -h  help\n"""\n    return textwrap.dedent(text)\n\n\nprint(usage())\n')
    out.append('def main():\n    import mypkg_not_installed.templates as t\n    banner = """\nBANNER\nline two\n"""\n    return banner\n')
    out.append("x = 1\r\ny = 2\r\nprint(x + y)\r\n")
    out.append("x = 1\ry = 2\rprint(x + y)\r")
    out.append("def a():\n    return 1\n\x0c\ndef b():\n    return 2\n\n\nprint(a() + b())\n")
    keep = []
    for s_ in out:
        try:
            compile(s_, "<ws>", "exec")
            keep.append(s_)
        except (SyntaxError, ValueError):
            pass
    return keep


def total_cases(ctx, quick_n=150):
    gen = pick(generated_corpus(), ctx, quick_n) + targeted() + [(oracles.sha(x), x, "whitespace") for x in whitespace_inputs()]
    ex_all = [(oracles.sha(s), s, "repo-example") for s in oracles.repo_examples()]
    ex = pick(ex_all, ctx, quick_n)
    adv = [(oracles.sha(s), s, "adversarial") for s in ADVERSARIAL]
    cases = []
    r = ctx.rng("total-opts")
    tsha = {t[0] for t in targeted()}
    for (sha, src, fam) in gen + ex + adv:
        combos = [{}, {"safe": True}, {"keep_imports": True}, {"preserve": ["f"]}] if (ctx.thorough or fam == "adversarial" or sha in tsha) else [r.choice([{}, {"safe": True}, {"keep_imports": True}])]
        for o in combos:
            cases.append((sha, src, fam, o))
    for (sha, src, fam) in pick(idiom_corpus(), ctx, quick_n * 4) + pick(embedded_corpus(), ctx, quick_n * 3):
        cases.append((sha, src, fam, {}))
    return cases


def task_total(args):
    src, opts = args
    st, out = oracles.task_format((src, dict(opts), "format"))
    valid_in = _valid(src)
    return {"status": st, "detail": out if st != "ok" else None, "out": out if st == "ok" else None,
            "valid_in": valid_in, "valid_out": _valid(out) if st == "ok" else None}


def _valid(s):
    """valid Python = the compiler accepts it (ast.parse alone lets `return` outside a function through)"""
    try:
        compile(s, "<text>", "exec", dont_inherit=True)
        return True
    except (SyntaxError, ValueError):
        return False
    except RecursionError:
        return True


def total_suite(ctx, prop, quick_n=150):
    """C04: no exception, no timeout.  C03: valid in -> valid out."""
    s = Suite(f"{prop}-format-sweep", kind="oracle")
    base = baseline(prop)
    cases = [c for c in total_cases(ctx, quick_n) if key(c[0], c[3]) not in base]
    results = oracles.pmap(task_total, [(src, o) for (_sha, src, _fam, o) in cases])
    for (sha, src, fam, o), res in zip(cases, results):
        s.cases += 1
        s.count(fam)
        if res["status"] == "ok" and res["out"] != src:
            s.nt([sha, o])
        if prop == "C04" and res["status"] != "ok":
            s.disagreements.append({"sha": sha, "src": src, "opts": o, "family": fam,
                                    "what": f"format_code(opts={o}) did not return: {res['status']} {str(res.get('detail'))[-160:]}"})
        if prop == "C03" and res["status"] == "ok" and res["valid_in"] and not res["valid_out"]:
            s.disagreements.append({"sha": sha, "src": src, "opts": o, "out": res["out"], "family": fam,
                                    "what": f"format_code(opts={o}) returned text that does not parse for valid input"})
    s.samples.append({"suite": s.name, "input": ADVERSARIAL[1], "note": "one of the adversarial inputs"})
    s.note = ("fixed corpus (generated programs, ALL repository examples incl. open ones, adversarial snippets: one per Python 3.12 construct, "
              "ill-typed/raising constant expressions, end-of-file statements, invalid and indented input) x option combinations; "
              "C04 oracle: returns within the limit without raising; C03 oracle: valid input gives valid output; non-trivial = text changed")
    return s


# ------------------------------------------------------------------------------------------------ C09

def converge_suite(ctx, quick_n=100):
    s = Suite("C09-iteration-sweep", kind="oracle")
    base = baseline("C09")
    items = pick(generated_corpus(), ctx, quick_n) + targeted() + pick([(oracles.sha(x), x, "repo-example") for x in oracles.repo_examples()], ctx, quick_n)
    r = ctx.rng("c09-opts")
    cases = []
    tsha = {t[0] for t in targeted()}
    for (sha, src, fam) in items:
        for o in ([{}, {"safe": True}, {"keep_imports": True}] if ctx.thorough else [{}, {"safe": True}] if sha in tsha else [r.choice([{}, {"safe": True}])]):
            if key(sha, o) not in base:
                cases.append((sha, src, fam, o))
    results = oracles.pmap(oracles.task_iterate, [(src, dict(o), 7) for (_sha, src, _fam, o) in cases])
    for (sha, src, fam, o), res in zip(cases, results):
        s.cases += 1
        if res[0] != "ok":
            continue  # C04
        texts = res[1]
        first_fixed = next((i for i in range(1, len(texts)) if texts[i] == texts[i - 1]), None)
        s.count(f"fixed_after={first_fixed}")
        if first_fixed is not None and first_fixed > 1:
            s.nt([sha, o])
        # texts[k] = f^k(src): the fixed point must be reached within 5 applications (f^5 = f^6) and stay
        if texts[5] != texts[6] or texts[6] != texts[7]:
            cyc = len(set(texts[4:])) < len(texts[4:])
            s.disagreements.append({"sha": sha, "src": src, "opts": o, "family": fam, "texts": texts[4:],
                                    "what": f"format_code(opts={o}) is not a fixed point after 5 applications" + (" (cycles)" if cyc else "")})
    s.samples.append({"suite": s.name, "applications": 7})
    s.note = ("x, f(x), ..., f^7(x) on the fixed corpus; oracle: f^5(x) = f^6(x) = f^7(x) byte for byte; non-trivial = more than one "
              "application needed")
    return s


def match_known_sha(d, known):
    for k in known:
        if k["kind"] == "finding" and k.get("witness", {}).get("sha") == d.get("sha") and (
                "opts" not in k["witness"] or k["witness"]["opts"] == d.get("opts")) and (
                "rule" not in k["witness"] or k["witness"]["rule"] == d.get("rule")):
            return k
    return None


# ------------------------------------------------------------------------------------------------ observed examples

# what a value "is" for the comparison: iterators and views by their elements, mappings by their items, callables by kind
SHOW = '''def _show(v, _d=0):
    t = type(v).__name__
    if _d > 3:
        return t
    if callable(v) and not isinstance(v, type):
        return "<callable>"
    if hasattr(v, "__next__") or t in ("dict_keys", "dict_values", "dict_items", "range", "map", "filter", "zip", "reversed", "chain"):
        try:
            return ["iter"] + [_show(x, _d + 1) for _, x in zip(range(50), v)]
        except Exception as e:
            return "iter!" + type(e).__name__
    if isinstance(v, dict):
        return {"dict": [(_show(k, _d + 1), _show(x, _d + 1)) for k, x in v.items()]}
    if isinstance(v, (list, tuple)):
        return [t] + [_show(x, _d + 1) for x in v]
    if isinstance(v, (set, frozenset)):
        return [t] + sorted(repr(_show(x, _d + 1)) for x in v)
    return repr(v)


'''


def observe_transform(src):
    """make the values a snippet computes observable: every top-level expression statement becomes print(repr(...)), and the names
    assigned at the top level are printed at the end.  Returns None when the snippet does not lend itself to it."""
    import ast

    try:
        tree = ast.parse(src)
    except (SyntaxError, ValueError):
        return None
    if not tree.body:
        return None
    lines = src.splitlines()
    edits = []  # (lineno0, end_lineno0, col, end_col)
    names = []
    for i, st in enumerate(tree.body):
        if isinstance(st, ast.Expr):
            v = st.value
            if isinstance(v, ast.Constant) and isinstance(v.value, str) and i == 0:
                continue
            if isinstance(v, (ast.Yield, ast.YieldFrom, ast.Await)) or (isinstance(v, ast.Call) and isinstance(v.func, ast.Name) and v.func.id == "print"):
                continue
            edits.append((st.lineno - 1, st.end_lineno - 1, st.col_offset, st.end_col_offset))
        elif isinstance(st, ast.Assign) and len(st.targets) == 1 and isinstance(st.targets[0], ast.Name):
            if st.targets[0].id not in names:
                names.append(st.targets[0].id)
    if not edits and not names:
        return None
    if any(not l.isascii() for l in lines):
        return None  # byte columns
    for (l0, l1, c0, c1) in sorted(edits, reverse=True):
        lines[l1] = lines[l1][:c1] + "))" + lines[l1][c1:]
        lines[l0] = lines[l0][:c0] + "print(_show(" + lines[l0][c0:]
    out = "\n".join(lines) + "\n"
    for n in names[:6]:
        out += f"try:\n    print({n!r}, _show({n}))\nexcept NameError:\n    pass\n"
    out = SHOW + out
    try:
        ast.parse(out)
    except SyntaxError:
        return None
    return out


_OBSERVED = None


def observed_examples():
    """the repository's example snippets with their values made observable (stub world)"""
    global _OBSERVED
    if _OBSERVED is None:
        out, seen = [], set()
        for s in oracles.repo_examples():
            if not oracles.runnable(s):
                continue
            t = observe_transform(s)
            if t and t not in seen and len(t) < 4000:
                seen.add(t)
                out.append((oracles.sha(t), t, "repo-example"))
        _OBSERVED = out
    return _OBSERVED


# ------------------------------------------------------------------------------------------------ C02 on the pipeline's own intermediate texts

RULE_MODULES = ["fixes", "abstractions", "object_oriented", "performance", "performance_numpy", "performance_pandas", "symbolic_math", "tracing"]


def task_pipeline_steps(args):
    """format_code with every public text -> text function of the rule modules wrapped: every step that changed the text is
    executed before and after.  Returns the steps that changed the behaviour of a normally terminating text."""
    import functools
    import importlib
    import types

    src, opts, stub_world = args
    steps, originals = [], []
    for m in RULE_MODULES:
        mod = importlib.import_module("pyrefact." + m)
        for name in dir(mod):
            f = getattr(mod, name)
            if isinstance(f, types.FunctionType) and f.__module__ == mod.__name__ and not name.startswith("_"):
                def wrap(f=f, label=m + "." + name):
                    @functools.wraps(f)
                    def g(source, *a, **k):
                        out = f(source, *a, **k)
                        if isinstance(source, str) and isinstance(out, str) and out != source:
                            steps.append((label, source, out))
                        return out
                    return g
                originals.append((mod, name, f))
                setattr(mod, name, wrap())
    main = importlib.import_module("pyrefact.main")
    try:
        main.format_code(src, **opts)
    except Exception:  # noqa: BLE001  (C04's business)
        return {"status": "crash", "steps": len(steps), "bad": []}
    finally:
        for mod, name, f in originals:
            setattr(mod, name, f)
    cache = {}

    def obs(text):
        if text not in cache:
            cache[text] = oracles.observe(text, stub_world)
        return cache[text]
    bad = []
    for (label, before, after) in steps[:120]:
        b = obs(before)
        if b[0] != "ok":
            continue
        a = obs(after)
        if (a[0], a[1]) != (b[0], b[1]) or (stub_world and a[2] != b[2]):
            bad.append({"rule": label, "before": before, "after": after,
                        "diff": "ends with " + a[0] if a[0] != b[0] else "stdout differs" if a[1] != b[1] else "call log differs"})
    return {"status": "ok", "steps": len(steps), "bad": bad}


def pipeline_steps_suite(ctx, quick_n=60):
    s = Suite("C02-pipeline-steps", kind="oracle")
    base = baseline("C02")
    items = pick(generated_corpus(), ctx, quick_n) + pick(targeted(), ctx, quick_n * 3) + pick(example_corpus(), ctx, quick_n // 2)
    results = oracles.pmap(task_pipeline_steps, [(src, {}, fam == "repo-example") for (_sha, src, fam) in items])
    total = 0
    for (sha, src, fam), res in zip(items, results):
        s.cases += 1
        if not isinstance(res, dict) or res.get("status") != "ok":
            continue
        total += res["steps"]
        if res["steps"]:
            s.nt([sha])
        for d in res["bad"]:
            k = key(oracles.sha(d["before"]), {}, d["rule"])
            if k in base or key(sha, {}, d["rule"]) in base:
                continue
            s.disagreements.append({"sha": oracles.sha(d["before"]), "src": d["before"], "rule": d["rule"], "out": d["after"], "family": fam, "origin": sha,
                                    "what": f"rule {d['rule']} changes behaviour on a text that arises inside format_code ({d['diff']}; origin: {fam} program {sha})"})
    s.samples.append({"suite": s.name, "rule_steps_executed": total})
    s.note = ("format_code traced: every public text -> text function of the rule modules is wrapped, each step that changed the text is executed before and after (same "
              "oracle as the rule sweep).  Covers the rules on the programs that only arise after other rules have fired - the original-program sweep cannot see those "
              "(two repaired defects, f7bbc0b and 64fa3c3, were of that kind); non-trivial = programs with at least one step")
    return s
