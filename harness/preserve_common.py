"""Shared pieces of the C07 / C08 checks: module summaries, capture of the preserve sets the real code computes, generated library /
client modules, surface-name oracle."""
from __future__ import annotations

import ast
import importlib
import os
import shutil
import tempfile
from pathlib import Path

import common
import oracles
import sweep
from common import Suite


def summary(src):
    from pyrefact import parsing

    m = ast.parse(src)
    defs = [n.name for n in m.body if isinstance(n, (ast.FunctionDef, ast.AsyncFunctionDef, ast.ClassDef))]
    cms = [[n.name, f.name] for n in m.body if isinstance(n, ast.ClassDef) for f in n.body if isinstance(f, (ast.FunctionDef, ast.AsyncFunctionDef))]
    assigns = sorted({x.id for x in parsing.iter_assignments(m)})
    cas = sorted({(n.name, x.id) for n in m.body if isinstance(n, ast.ClassDef) for x in parsing.iter_assignments(n)})
    return defs, cms, assigns, [list(p) for p in cas]


def capture_safe_preserve(src, preserve=frozenset()):
    """the preserve set format_code(safe=True) hands to the rules (observed by replacing _multi_run_fixes from the harness)"""
    main = importlib.import_module("pyrefact.main")
    seen = []
    orig = main._multi_run_fixes

    def spy(source, preserve):
        seen.append(set(preserve))
        return source
    main._multi_run_fixes = spy
    try:
        main.format_code(src, safe=True, preserve=preserve)
    finally:
        main._multi_run_fixes = orig
    if seen and any(x != seen[0] for x in seen):
        return {"<calls of _multi_run_fixes within one format_code got different preserve sets>"} | set().union(*seen)
    return seen[0] if seen else None


def capture_all_preserve(src, preserve=frozenset(), safe=True):
    """the preserve argument of EVERY rule call that takes one during format_code(safe=...) (the rules run for real)"""
    import functools
    import types

    seen = []
    originals = []
    for m in ("fixes", "object_oriented", "abstractions"):
        mod = importlib.import_module("pyrefact." + m)
        for name in dir(mod):
            f = getattr(mod, name)
            if isinstance(f, types.FunctionType) and f.__module__ == mod.__name__ and not name.startswith("_"):
                code = getattr(getattr(f, "_fix_func", f), "__code__", None)
                if code is None or "preserve" not in code.co_varnames[: code.co_argcount + code.co_kwonlyargcount]:
                    continue

                def wrap(f=f, label=m + "." + name):
                    @functools.wraps(f)
                    def g(source, *a, **k):
                        p = k.get("preserve", a[0] if a else None)
                        if p is not None:
                            seen.append((label, frozenset(p)))
                        return f(source, *a, **k)
                    return g
                originals.append((mod, name, f))
                setattr(mod, name, wrap())
    main = importlib.import_module("pyrefact.main")
    try:
        main.format_code(src, safe=safe, preserve=preserve)
    finally:
        for mod, name, f in originals:
            setattr(mod, name, f)
    return seen


LIB_TEMPLATES = [
    "def helper(a):\n    return a + 1\n\n\ndef unusedHelper(b):\n    return b * 2\n\n\ndef renderText(t):\n    return str(t)\n\n\nsep = '-'\nmaxVal = 10\n_private_thing = 3\n",
    "class Greeter:\n    greeting = 'hi'\n    myVal = 2\n\n    def Meth(self, n):\n        return self.greeting + n\n\n    def helper(self):\n        return 1\n\n    @staticmethod\n    def build():\n        return Greeter()\n\n\ndef make():\n    return Greeter()\n",
    "import os\nimport json\n\n\ndef dumps(obj):\n    return json.dumps(obj)\n\n\ndef doThing(x):\n    y = x + 1\n    return y * 2\n\n\ndef do_thing(q):\n    z = q + 1\n    return z * 2\n\n\ntail = os.sep\n",
    "[a, b] = 1, 2\nfirst, *rest = [1, 2, 3]\nx = y = 0\n(p, q), r = (1, 2), 3\nTOTAL: int = 5\n\n\ndef f():\n    return a + b + first + x + p + r + TOTAL\n",
    "def area_tile(w, h):\n    size = w * h\n    return size + 1\n\n\ndef areaTile(a, b):\n    total = a * b\n    return total + 1\n\n\ncounter = 0\n\n\ndef bump():\n    global counter\n    counter += 1\n    return counter\n",
    "def wrapper(v):\n    result = compute(v)\n    return result\n\n\ndef compute(v):\n    tmp = v * 3\n    return tmp\n\n\nclass unusedClass:\n    def method_one(self):\n        return 1\n\n    def methodTwo(self):\n        return 2\n\n\nSOME_CONST = 7\nanotherVar = 8\n",
]


def module_scope(body):
    """statements executed in module scope: the module body and, recursively, the bodies of its if / try / with / for / while"""
    for n in body:
        yield n
        for field in ("body", "orelse", "finalbody"):
            if not isinstance(n, (ast.FunctionDef, ast.AsyncFunctionDef, ast.ClassDef)):
                yield from module_scope(getattr(n, field, []) or [])
        for h in getattr(n, "handlers", []) or []:
            yield from module_scope(h.body)


def surface(src, deep=False):
    """defs / classes and assignment targets at the top level of the module (every Name in the target, incl. list / starred /
    annotated), methods and attributes assigned in the body of those classes.  C07 speaks about the top level only; `deep=True`
    (used by C08, where the names are given by a preserve set) also looks under if / try / with / loops of module scope."""
    m = ast.parse(src)
    names = set()
    for n in (module_scope(m.body) if deep else m.body):
        if isinstance(n, (ast.FunctionDef, ast.AsyncFunctionDef, ast.ClassDef)):
            names.add(n.name)
        if isinstance(n, (ast.Assign, ast.AnnAssign, ast.AugAssign)):
            targets = n.targets if isinstance(n, ast.Assign) else [n.target]
            for t in targets:
                if isinstance(t, (ast.Attribute, ast.Subscript)):
                    continue
                for x in ast.walk(t):
                    if isinstance(x, ast.Name):
                        names.add(x.id)
        if isinstance(n, ast.ClassDef):
            for f in n.body:
                if isinstance(f, (ast.FunctionDef, ast.AsyncFunctionDef)):
                    names.add(f"{n.name}.{f.name}")
                if isinstance(f, (ast.Assign, ast.AnnAssign)):
                    targets = f.targets if isinstance(f, ast.Assign) else [f.target]
                    for t in targets:
                        for x in ast.walk(t):
                            if isinstance(x, ast.Name):
                                names.add(f"{n.name}.{x.id}")
    return names


LIB_TEMPLATES += [
    # class-body targets of every shape, read through self only
    "class Release:\n    first, *rest = [1, 2, 3]\n    [low, high] = (0, 9)\n    (a, b), c = (1, 2), 3\n    count: int = 0\n    total = 0\n    total += 1\n\n"
    "    def span(self):\n        return self.high - self.low + len(self.rest) + self.c\n\n\ndef make():\n    return Release().span()\n",
    # attributes attached after the class statement
    "class Settings:\n    def load(self, path):\n        return path + self.suffix\n\n    def dump(self):\n        return self.level\n\n\nSettings.suffix = '.cfg'\nSettings.level = 3\n\n\n"
    "def run():\n    return Settings().load('a'), Settings().dump()\n",
    # a class defined in both arms of a condition, with magic methods, never instantiated here
    "import sys\n\nif sys.platform == 'win32':\n    class PathInfo:\n        def __init__(self, raw):\n            self.parts = raw.split('\\\\')\n\n        def __len__(self):\n            return len(self.parts)\nelse:\n"
    "    class PathInfo:\n        def __init__(self, raw):\n            self.parts = raw.split('/')\n\n        def __len__(self):\n            return len(self.parts)\n",
    # properties, classmethods, nested helpers
    "class Box:\n    def __init__(self, w):\n        self._w = w\n\n    @property\n    def width(self):\n        return self._w\n\n    @classmethod\n    def unit(cls):\n        return cls(1)\n\n"
    "    @staticmethod\n    def describe():\n        return 'box'\n\n\ndef outer(v):\n    def inner(q):\n        return q + 1\n    return inner(v)\n",
    # __all__, optional imports, dunder names
    "__all__ = ['public_fn', 'PublicThing']\n__version__ = '1.0'\n\ntry:\n    import json as _json\nexcept ImportError:\n    _json = None\n\n\ndef public_fn(x):\n    return x\n\n\n"
    "def not_exported(y):\n    return y\n\n\nclass PublicThing:\n    pass\n",
    # annotated class attributes without values, enum-like constants, slots
    "class Point:\n    x: int\n    y: int = 0\n    __slots__ = ('x', 'y')\n\n\nclass Color:\n    RED = 1\n    GREEN = 2\n    blueish = 3\n\n\nORIGIN = None\n",
    # async / generator definitions, names bound by loops, with and walrus in module scope
    "import contextlib\n\n\nasync def fetchAll(n):\n    return n\n\n\ndef countUp(n):\n    for i in range(n):\n        yield i\n\n\nfor idx in range(3):\n    lastSeen = idx\n\n"
    "with contextlib.nullcontext(5) as handle:\n    doubled = handle * 2\n\nif (found := doubled) > 3:\n    flagged = True\n",
]

LIB_TEMPLATES += [
    # 13: the gettext alias, imported by clients under the name _
    "import gettext\n_ = gettext.gettext\n",
    # 14: an import that clients re-import from here
    "from os.path import join\nimport json as J\n",
    # 15: a class reached only through a factory; clients call a method of the instance
    "class Foo:\n    def __init__(self, x):\n        self.x = x\n\n    def stat(self):\n        return self.x * 5\n\n\ndef make(x):\n    return Foo(x)\n",
]
LIB_TEMPLATES += [
    # 16: state the library keeps in module variables that only its functions write (global) and only clients read
    "CACHE_dir = None\n\n\ndef init():\n    global CACHE_dir\n    CACHE_dir = '/tmp/x'\n\n\ndef bump():\n    global hitCount\n    hitCount = 1\n\n\nclass Conf:\n    def load(self):\n        global lastLoaded\n        lastLoaded = 'conf'\n        return self\n",
]

LIB_TEMPLATES += [
    # 17-19: class members named `_` (an attribute, a method, an annotated attribute): safe mode preserves them as `Class._`
    "class Marker:\n    _ = 3\n\n\ndef make():\n    return Marker()\n",
    "class Handler:\n    _ = 3\n    limit = 2\n\n    def _(self):\n        return 1\n\n    def run(self):\n        return self.limit\n",
    "class Slot:\n    _: int = 3\n    name = 'slot'\n\n    def label(self):\n        return self.name\n",
]
