"""Ninth wave of the fixed corpus: everyday Python.

EVERYDAY: 115 small, closed, runnable programs of the kind people actually write (defaults with `or`, accumulators, early returns, classes with properties /
dunder methods / super(), decorators, generators, context managers, closures, async, match, dataclasses, ...), each printing what it computes.
idiom_programs(): one-line idioms (sums, sorted / reversed / list chains, membership, any / all, boolean and arithmetic identities, comparisons, conversions)
over a grid of literal inputs, each printed under try / except.  Both were written near the end of the build as a last broad sweep through format_code; what
they found is in DESIGN 10.11 (seven repairs, three findings).  They stay as part of the fixed corpus: the everyday programs are part of `sweep.targeted()` (all
option combinations, both tiers), the idioms are sliced by VERIF_SEED in the quick tier and run in full in the thorough one."""

PROGS = [
'''
def connect(host, port=None, retries=0, name=None, tags=None):
    port = port or 8080
    name = name or host
    tags = tags or []
    retries = retries if retries else 3
    tags.append(name)
    return host, port, retries, name, tags
print(connect('h'), connect('h', 0, 5, '', ['x']))
''',
'''
import os
def read_config(path, default=None):
    if not os.path.exists(path):
        return default or {}
    with open(path) as fh:
        data = fh.read()
    return data
print(read_config('/nonexistent/file'), read_config('/nonexistent/file', {'a': 1}))
''',
'''
class Stack:
    def __init__(self):
        self._items = []
    def push(self, item):
        self._items.append(item)
        return self
    def pop(self):
        if not self._items:
            raise IndexError('empty')
        return self._items.pop()
    def __len__(self):
        return len(self._items)
    def __bool__(self):
        return True
s = Stack()
print(bool(s), len(s), s.push(1).push(2).pop(), len(s))
if s:
    print('truthy')
''',
'''
def parse(line):
    parts = line.split('=')
    if len(parts) != 2:
        return None
    key, value = parts
    key = key.strip()
    value = value.strip()
    if not key:
        return None
    return key, value
for l in ['a=1', 'b = 2 ', '=3', 'c', 'd=e=f']:
    print(parse(l))
''',
'''
def fib(n, memo={}):
    if n in memo:
        return memo[n]
    if n < 2:
        return n
    memo[n] = fib(n - 1) + fib(n - 2)
    return memo[n]
print([fib(i) for i in range(10)])
''',
'''
counter = 0
def tick():
    global counter
    counter += 1
    return counter
def reset():
    global counter
    old = counter
    counter = 0
    return old
print(tick(), tick(), reset(), tick(), counter)
''',
'''
def make_counter():
    count = 0
    def inc(step=1):
        nonlocal count
        count += step
        return count
    return inc
c = make_counter()
print(c(), c(2), c())
''',
'''
def safe_div(a, b):
    try:
        result = a / b
    except ZeroDivisionError:
        result = None
    except TypeError as e:
        result = str(type(e).__name__)
    else:
        result = round(result, 2)
    finally:
        print('done', a, b)
    return result
print(safe_div(1, 2), safe_div(1, 0), safe_div('a', 1))
''',
'''
def first_match(items, pred, default=None):
    for item in items:
        if pred(item):
            return item
    return default
print(first_match([1, 2, 3], lambda v: v > 1), first_match([], bool), first_match([0], bool, 'none'))
''',
'''
def group(words):
    groups = {}
    for w in words:
        key = w[0] if w else ''
        if key not in groups:
            groups[key] = []
        groups[key].append(w)
    return groups
print(group(['apple', 'avocado', 'banana', '', 'blueberry']))
''',
'''
import collections
def count(words):
    counts = collections.Counter()
    for w in words:
        counts[w] += 1
    most = counts.most_common(1)
    return most[0] if most else None
print(count(['a', 'b', 'a']), count([]))
''',
'''
def flatten(nested):
    result = []
    for sub in nested:
        if isinstance(sub, (list, tuple)):
            result.extend(flatten(sub))
        else:
            result.append(sub)
    return result
print(flatten([1, [2, [3, (4, 5)]], [], 6]))
''',
'''
def chunks(seq, size):
    for i in range(0, len(seq), size):
        yield seq[i:i + size]
print(list(chunks([1, 2, 3, 4, 5], 2)), list(chunks([], 3)))
''',
'''
def clamp(v, lo=0, hi=10):
    if v < lo:
        return lo
    elif v > hi:
        return hi
    else:
        return v
print([clamp(v) for v in (-1, 0, 5, 10, 11)])
''',
'''
def sign(v):
    if v > 0:
        result = 1
    elif v < 0:
        result = -1
    else:
        result = 0
    return result
print([sign(v) for v in (-2, 0, 3)])
''',
'''
def is_valid(user):
    if user is None:
        return False
    if not user.get('name'):
        return False
    if user.get('age', 0) < 18:
        return False
    return True
print(is_valid(None), is_valid({}), is_valid({'name': 'a'}), is_valid({'name': 'a', 'age': 20}))
''',
'''
class Temperature:
    def __init__(self, celsius=0.0):
        self._celsius = celsius
    @property
    def fahrenheit(self):
        return self._celsius * 9 / 5 + 32
    @fahrenheit.setter
    def fahrenheit(self, value):
        self._celsius = (value - 32) * 5 / 9
    @classmethod
    def from_f(cls, f):
        t = cls()
        t.fahrenheit = f
        return t
    @staticmethod
    def describe(c):
        return 'hot' if c > 30 else 'ok'
t = Temperature.from_f(212)
print(round(t._celsius), t.fahrenheit, Temperature.describe(t._celsius), t.describe(5))
''',
'''
import functools
def memoize(fn):
    cache = {}
    @functools.wraps(fn)
    def wrapper(*args):
        if args not in cache:
            cache[args] = fn(*args)
        return cache[args]
    wrapper.cache = cache
    return wrapper
@memoize
def square(v):
    print('computing', v)
    return v * v
print(square(3), square(3), len(square.cache))
''',
'''
import contextlib
@contextlib.contextmanager
def tag(name):
    print('<%s>' % name)
    try:
        yield name.upper()
    finally:
        print('</%s>' % name)
with tag('a') as t:
    print(t)
    with tag('b'):
        pass
''',
'''
def walk(tree, depth=0, out=None):
    if out is None:
        out = []
    out.append((depth, tree['name']))
    for child in tree.get('children', []):
        walk(child, depth + 1, out)
    return out
print(walk({'name': 'r', 'children': [{'name': 'a'}, {'name': 'b', 'children': [{'name': 'c'}]}]}))
''',
'''
def merge(a, b):
    result = dict(a)
    for k, v in b.items():
        if k in result and isinstance(result[k], dict) and isinstance(v, dict):
            result[k] = merge(result[k], v)
        else:
            result[k] = v
    return result
print(merge({'a': 1, 'b': {'c': 2}}, {'b': {'d': 3}, 'e': 4}))
''',
'''
def to_int(s, default=0):
    try:
        return int(s)
    except (ValueError, TypeError):
        return default
print(to_int('4'), to_int('x'), to_int(None, -1))
''',
'''
def pairs(xs):
    result = []
    for i in range(len(xs)):
        for j in range(i + 1, len(xs)):
            result.append((xs[i], xs[j]))
    return result
print(pairs([1, 2, 3]), pairs([]))
''',
'''
def running_total(xs):
    total = 0
    out = []
    for x in xs:
        total += x
        out.append(total)
    return out
print(running_total([1, 2, 3]), running_total([]))
''',
'''
def find_index(xs, target):
    index = -1
    for i, x in enumerate(xs):
        if x == target:
            index = i
            break
    return index
print(find_index([1, 2, 3], 2), find_index([], 1), find_index([2, 2], 2))
''',
'''
def last_positive(xs):
    last = None
    for x in xs:
        if x > 0:
            last = x
    return last
print(last_positive([1, -2, 3, -4]), last_positive([-1]))
''',
'''
def dedupe(xs):
    seen = set()
    out = []
    for x in xs:
        if x in seen:
            continue
        seen.add(x)
        out.append(x)
    return out
print(dedupe([3, 1, 3, 2, 1]))
''',
'''
def transpose(m):
    return [[row[i] for row in m] for i in range(len(m[0]))] if m else []
print(transpose([[1, 2, 3], [4, 5, 6]]), transpose([]))
''',
'''
def fmt(name, n, ratio):
    a = 'Hello %s, you have %d items (%.1f%%)' % (name, n, ratio * 100)
    b = 'Hello {}, you have {} items ({:.1%})'.format(name, n, ratio)
    c = f'Hello {name}, you have {n} items ({ratio:.1%})'
    d = 'Hello ' + name + ', you have ' + str(n) + ' items'
    return a, b, c, d
print(fmt('bob', 3, 0.256))
''',
'''
import re
def slug(title):
    s = title.lower().strip()
    s = re.sub(r'[^a-z0-9]+', '-', s)
    s = s.strip('-')
    return s or 'untitled'
print(slug(' Hello, World! '), slug('***'))
''',
'''
def main(argv):
    verbose = False
    files = []
    for arg in argv:
        if arg in ('-v', '--verbose'):
            verbose = True
        elif arg.startswith('-'):
            raise SystemExit('unknown option ' + arg)
        else:
            files.append(arg)
    if not files:
        print('usage')
        return 2
    if verbose:
        print('files:', files)
    return 0
print(main(['-v', 'a']), main([]))
if __name__ == '__main__':
    print('main guard')
''',
'''
class Node:
    def __init__(self, value, next=None):
        self.value = value
        self.next = next
    def __iter__(self):
        node = self
        while node is not None:
            yield node.value
            node = node.next
    def __repr__(self):
        return 'Node(%r)' % (self.value,)
    def __eq__(self, other):
        return isinstance(other, Node) and self.value == other.value
    def __hash__(self):
        return hash(self.value)
n = Node(1, Node(2, Node(3)))
print(list(n), n, n == Node(1), len({Node(1), Node(1)}))
''',
'''
import dataclasses
@dataclasses.dataclass
class Point:
    x: int = 0
    y: int = 0
    def dist2(self):
        return self.x ** 2 + self.y ** 2
p = Point(3, 4)
print(p.x, p.y, p.dist2(), Point() == Point(0, 0), dataclasses.asdict(p))
''',
'''
import enum
class Color(enum.Enum):
    RED = 1
    GREEN = 2
def name_of(c):
    if c == Color.RED:
        return 'red'
    elif c == Color.GREEN:
        return 'green'
    return 'unknown'
print(name_of(Color.RED), name_of(Color(2)), [c.name for c in Color])
''',
'''
def retry(fn, times=3):
    last_error = None
    for attempt in range(times):
        try:
            return fn(attempt)
        except ValueError as e:
            last_error = e
            continue
    raise RuntimeError('failed after %d' % times) from last_error
def flaky(n):
    if n < 2:
        raise ValueError(n)
    return 'ok%d' % n
print(retry(flaky))
try:
    retry(flaky, 2)
except RuntimeError as e:
    print(e, repr(e.__cause__))
''',
'''
def evens(limit):
    n = 0
    while True:
        if n >= limit:
            break
        if n % 2:
            n += 1
            continue
        yield n
        n += 1
print(list(evens(7)))
''',
'''
def matrix(n):
    rows = []
    for i in range(n):
        row = []
        for j in range(n):
            if i == j:
                row.append(1)
            else:
                row.append(0)
        rows.append(row)
    return rows
print(matrix(3))
''',
'''
def lookup(d, *keys, default=None):
    cur = d
    for k in keys:
        if not isinstance(cur, dict) or k not in cur:
            return default
        cur = cur[k]
    return cur
print(lookup({'a': {'b': 1}}, 'a', 'b'), lookup({}, 'a'), lookup({'a': 0}, 'a', default=5))
''',
'''
def stats(xs):
    if not xs:
        return None
    n = len(xs)
    mean = sum(xs) / n
    var = sum((x - mean) ** 2 for x in xs) / n
    lo, hi = min(xs), max(xs)
    return n, mean, round(var, 3), lo, hi
print(stats([1, 2, 3, 4]), stats([]))
''',
'''
x = 10
def shadow():
    x = 5
    def inner():
        return x
    return inner()
def reader():
    return x
print(shadow(), reader(), x)
''',
'''
def apply(fns, v):
    for f in fns:
        v = f(v)
    return v
double = lambda v: v * 2
fns = [double, lambda v: v + 1, str]
print(apply(fns, 3), [f(1) for f in [lambda v, k=k: v + k for k in range(3)]])
''',
'''
def yes_no(flag):
    if flag == True:
        return 'yes'
    if flag == False:
        return 'no'
    if flag is None:
        return 'unset'
    return 'other'
print(yes_no(True), yes_no(False), yes_no(None), yes_no(1), yes_no(0), yes_no(2))
''',
'''
def compare(a, b):
    if a == b:
        return 0
    if a < b:
        return -1
    return 1
def check(v):
    return v != None and v != '' and not v == 0
print(compare(1, 2), compare(2, 2), compare(3, 2), check(None), check(''), check(0), check(5))
''',
'''
import json
def roundtrip(obj):
    text = json.dumps(obj, sort_keys=True)
    back = json.loads(text)
    return text, back == obj
print(roundtrip({'b': [1, 2], 'a': None}))
''',
'''
import itertools
def windows(xs, n):
    its = itertools.tee(xs, n)
    for i, it in enumerate(its):
        for _ in range(i):
            next(it, None)
    return list(zip(*its))
print(windows([1, 2, 3, 4], 2), list(itertools.chain([1], [2, 3])), list(itertools.islice(itertools.count(), 3)))
''',
'''
def bucket(v):
    if v < 0:
        label = 'neg'
    else:
        if v == 0:
            label = 'zero'
        else:
            if v < 10:
                label = 'small'
            else:
                label = 'big'
    return label
print([bucket(v) for v in (-1, 0, 5, 50)])
''',
'''
def process(items):
    results = []
    errors = []
    for item in items:
        try:
            if item is None:
                continue
            results.append(10 // item)
        except ZeroDivisionError:
            errors.append(item)
        finally:
            if item == 5:
                break
    else:
        results.append('complete')
    return results, errors
print(process([1, None, 0, 2]), process([1, 5, 2]))
''',
'''
class Base:
    registry = []
    def __init_subclass__(cls, **kw):
        super().__init_subclass__(**kw)
        Base.registry.append(len(cls.__mro__))
    def greet(self):
        return 'base'
class Child(Base):
    def greet(self):
        return 'child+' + super().greet()
class Other(Base):
    pass
print(Base.registry, Child().greet(), Other().greet())
''',
'''
def swap_and_unpack(pair, *rest, **opts):
    a, b = pair
    a, b = b, a
    first, *middle, last = [a, b, *rest]
    return first, middle, last, sorted(opts.items())
print(swap_and_unpack((1, 2), 3, 4, z=1, y=2))
''',
'''
def search(grid, target):
    for r, row in enumerate(grid):
        for c, v in enumerate(row):
            if v == target:
                return r, c
    return None
def search_flag(grid, target):
    found = None
    for r, row in enumerate(grid):
        for c, v in enumerate(row):
            if v == target:
                found = (r, c)
                break
        if found:
            break
    return found
g = [[1, 2], [3, 4]]
print(search(g, 3), search(g, 9), search_flag(g, 4), search_flag(g, 1), search_flag(g, 9))
''',
]


PROGS2 = [
'''
import io
def count_lines(fh):
    n = 0
    blank = 0
    for line in fh:
        n += 1
        if not line.strip():
            blank += 1
    return n, blank
print(count_lines(io.StringIO("a\\n\\nb\\n  \\n")))
''',
'''
def top(scores, k=2):
    ranked = sorted(scores.items(), key=lambda kv: (-kv[1], kv[0]))
    return [name for name, _ in ranked[:k]]
print(top({'a': 3, 'b': 5, 'c': 5, 'd': 1}), top({}, 1))
''',
'''
def longest(words):
    best = ''
    for w in words:
        if len(w) > len(best):
            best = w
    return best
def longest2(words):
    return max(words, key=len, default='')
print(longest(['a', 'abc', 'ab', 'xyz']), longest2(['a', 'abc', 'xyz']), longest([]), longest2([]))
''',
'''
class ValidationError(Exception):
    def __init__(self, field, message='invalid'):
        super().__init__('%s: %s' % (field, message))
        self.field = field
def validate(d):
    for field in ('name', 'age'):
        if field not in d:
            raise ValidationError(field, 'missing')
    if d['age'] < 0:
        raise ValidationError('age')
    return True
for d in ({'name': 'a', 'age': 1}, {'name': 'a'}, {'name': 'a', 'age': -1}):
    try:
        print(validate(d))
    except ValidationError as e:
        print(e, e.field)
''',
'''
class Countdown:
    def __init__(self, start):
        self.current = start
    def __iter__(self):
        return self
    def __next__(self):
        if self.current <= 0:
            raise StopIteration
        self.current -= 1
        return self.current + 1
c = Countdown(3)
print(next(c), list(c), list(c))
''',
'''
def averager():
    total = 0
    count = 0
    avg = None
    while True:
        value = yield avg
        if value is None:
            break
        total += value
        count += 1
        avg = total / count
g = averager()
next(g)
print(g.send(10), g.send(20))
try:
    g.send(None)
except StopIteration:
    print('stopped')
''',
'''
import asyncio
async def fetch(n):
    await asyncio.sleep(0)
    return n * 2
async def main():
    results = await asyncio.gather(*(fetch(i) for i in range(3)))
    total = 0
    for r in results:
        total += r
    return results, total
print(asyncio.run(main()))
''',
'''
def read_until(items, stop):
    out = []
    it = iter(items)
    while (item := next(it, None)) is not None:
        if item == stop:
            break
        out.append(item)
    else:
        out.append('exhausted')
    return out
print(read_until([1, 2, 3], 2), read_until([1, 2], 9))
''',
'''
def describe(v):
    match v:
        case 0:
            return 'zero'
        case int() | float() as n if n < 0:
            return 'negative'
        case [x, y]:
            return 'pair %s %s' % (x, y)
        case {'kind': k}:
            return 'kind ' + k
        case _:
            return 'other'
print([describe(v) for v in (0, -1.5, [1, 2], {'kind': 'a'}, 'x')])
''',
'''
from typing import Dict, List, Optional
def index(words: List[str]) -> Dict[str, List[int]]:
    result: Dict[str, List[int]] = {}
    for i, w in enumerate(words):
        result.setdefault(w, []).append(i)
    return result
def first(words: List[str]) -> Optional[str]:
    return words[0] if words else None
print(index(['a', 'b', 'a']), first([]), first(['z']))
''',
'''
MAX_SIZE = 3
DEFAULT_NAMES = ('a', 'b')
_cache = {}
def get(name):
    if name in _cache:
        return _cache[name]
    if len(_cache) >= MAX_SIZE:
        _cache.clear()
    _cache[name] = name.upper()
    return _cache[name]
print([get(n) for n in DEFAULT_NAMES + ('c', 'd', 'a')], len(_cache))
''',
'''
class Vec:
    __slots__ = ('x', 'y')
    def __init__(self, x, y):
        self.x = x
        self.y = y
    def __add__(self, other):
        return Vec(self.x + other.x, self.y + other.y)
    def __mul__(self, k):
        return Vec(self.x * k, self.y * k)
    __rmul__ = __mul__
    def __eq__(self, other):
        return (self.x, self.y) == (other.x, other.y)
    def __repr__(self):
        return 'Vec(%r, %r)' % (self.x, self.y)
    def __getitem__(self, i):
        return (self.x, self.y)[i]
v = Vec(1, 2) + Vec(3, 4)
print(v, 2 * v, v * 2 == Vec(8, 12), v[0], list(v))
''',
'''
def log_call(fn):
    def wrapper(*args, **kwargs):
        print('call', args, sorted(kwargs.items()))
        return fn(*args, **kwargs)
    return wrapper
@log_call
def add(a, b=1, *, c=0):
    return a + b + c
print(add(1), add(1, 2, c=3))
''',
'''
import functools
@functools.lru_cache(maxsize=None)
def paths(r, c):
    if r == 0 or c == 0:
        return 1
    return paths(r - 1, c) + paths(r, c - 1)
inc = functools.partial(lambda a, b: a + b, 1)
print(paths(3, 3), inc(4), functools.reduce(lambda a, b: a * b, [1, 2, 3, 4], 1))
''',
'''
people = [('bob', 30), ('alice', 25), ('carol', 30)]
by_age = sorted(people, key=lambda p: p[1])
by_age_desc = sorted(people, key=lambda p: p[1], reverse=True)
oldest = max(people, key=lambda p: p[1])
youngest = min(people, key=lambda p: p[1])
names = [n for n, _ in sorted(people)]
print(by_age, by_age_desc, oldest, youngest, names)
''',
'''
def has_negative(xs):
    return any(x < 0 for x in xs)
def all_even(xs):
    return all(x % 2 == 0 for x in xs)
def none_empty(xs):
    for x in xs:
        if not x:
            return False
    return True
def some_big(xs):
    for x in xs:
        if x > 100:
            return True
    return False
print(has_negative([1, -1]), all_even([]), none_empty(['a', '']), some_big([1, 200]), some_big([]))
''',
'''
def invert(d):
    out = {}
    for k, v in d.items():
        out.setdefault(v, []).append(k)
    return out
def invert_unique(d):
    return {v: k for k, v in d.items()}
a = {1, 2, 3}
b = {2, 3, 4}
print(invert({'a': 1, 'b': 1, 'c': 2}), invert_unique({'a': 1, 'b': 2}), sorted(a & b), sorted(a | b), sorted(a - b), sorted(a ^ b), a <= b)
''',
'''
def tokens(text):
    parts = text.split(',')
    cleaned = [p.strip() for p in parts]
    nonempty = [p for p in cleaned if p]
    return ';'.join(nonempty), len(parts), text[::-1], text[1:-1], text[:3], text[-3:]
print(tokens(' a, b ,,c '))
''',
'''
def collatz(n):
    steps = 0
    while n != 1:
        if n % 2 == 0:
            n = n // 2
        else:
            n = 3 * n + 1
        steps += 1
        if steps > 100:
            break
    else:
        return steps
    return -1
print([collatz(n) for n in (1, 6, 27)])
''',
'''
def parse_all(items):
    good = []
    bad = []
    for item in items:
        try:
            try:
                value = int(item)
            except ValueError:
                value = float(item)
        except (ValueError, TypeError) as e:
            bad.append((item, type(e).__name__))
            continue
        good.append(value)
    return good, bad
print(parse_all(['1', '2.5', 'x', None]))
''',
'''
def check(xs):
    assert xs, 'empty'
    assert all(isinstance(x, int) for x in xs)
    d = {x: x * x for x in xs}
    del d[xs[0]]
    first, *rest = xs
    del first
    return d, rest
print(check([1, 2, 3]))
try:
    check([])
except AssertionError as e:
    print('assert', e)
''',
'''
def classify(age, member):
    price = 10 if age >= 18 else 5
    price = price - 2 if member else price
    label = 'adult' if age >= 18 else 'teen' if age >= 13 else 'child'
    in_range = 0 < age <= 120
    return price, label, in_range
print(classify(20, True), classify(15, False), classify(5, True), classify(0, False))
''',
'''
def bits(n):
    flags = 0
    flags |= 1 << 2
    flags &= ~1
    flags ^= n
    return flags, n >> 1, n & 3, n | 8, -7 // 2, -7 % 3, 7 // -2, divmod(-7, 2), 2 ** -1, 7 / 2, int(-3.7), round(2.5), round(3.5)
print(bits(5))
''',
'''
def fmt(v):
    return '%05.1f|%-6s|%+d|%x|%e' % (v, 'ab', 3, 255, 12345.678), '{:>8.2f}|{:<5}|{:^7}|{:,}'.format(v, 'l', 'mid', 1234567), f'{v:08.3f}|{v!r}|{"q"!s:>3}'
print(fmt(3.14159))
print(b'ab' + bytes([99]), bytearray(b'x') * 2, 'é'.encode('utf-8'), b'\\xc3\\xa9'.decode())
''',
'''
def forward(fn, *args, **kwargs):
    return fn(*args, **kwargs)
def target(a, b=2, *rest, key=None, **extra):
    return a, b, rest, key, sorted(extra)
print(forward(target, 1), forward(target, 1, 2, 3, 4, key='k', z=1))
''',
'''
import os.path
import sys
def module_info():
    here = os.path.basename(os.path.dirname(os.path.abspath('/tmp/x/y.py')))
    return here, os.path.splitext('a.tar.gz'), os.path.join('a', 'b'), sys.version_info[0] >= 3
print(module_info())
''',
'''
def accumulate(ops):
    stack = []
    for op in ops:
        if isinstance(op, int):
            stack.append(op)
        elif op == '+':
            b = stack.pop()
            a = stack.pop()
            stack.append(a + b)
        elif op == '*':
            b, a = stack.pop(), stack.pop()
            stack.append(a * b)
        elif op == 'dup':
            stack.append(stack[-1])
        else:
            raise ValueError(op)
    return stack
print(accumulate([2, 3, '+', 'dup', '*']))
''',
'''
class Account:
    interest = 0.02
    def __init__(self, owner, balance=0):
        self.owner = owner
        self.balance = balance
        self.history = []
    def deposit(self, amount):
        if amount <= 0:
            raise ValueError('amount')
        self.balance += amount
        self.history.append(('deposit', amount))
        return self.balance
    def withdraw(self, amount):
        if amount > self.balance:
            return False
        self.balance -= amount
        self.history.append(('withdraw', amount))
        return True
    def add_interest(self):
        self.balance = round(self.balance * (1 + self.interest), 2)
    def __str__(self):
        return '%s: %.2f' % (self.owner, self.balance)
a = Account('bob', 100)
a.deposit(50)
print(a.withdraw(500), a.withdraw(20))
a.add_interest()
print(a, a.history, Account.interest)
''',
'''
def bfs(graph, start):
    seen = {start}
    queue = [start]
    order = []
    while queue:
        node = queue.pop(0)
        order.append(node)
        for nxt in graph.get(node, []):
            if nxt not in seen:
                seen.add(nxt)
                queue.append(nxt)
    return order
print(bfs({'a': ['b', 'c'], 'b': ['d'], 'c': ['d'], 'd': []}, 'a'))
''',
'''
def binary_search(xs, target):
    lo, hi = 0, len(xs) - 1
    while lo <= hi:
        mid = (lo + hi) // 2
        if xs[mid] == target:
            return mid
        elif xs[mid] < target:
            lo = mid + 1
        else:
            hi = mid - 1
    return -1
print(binary_search([1, 3, 5, 7], 5), binary_search([1, 3, 5, 7], 4), binary_search([], 1))
''',
'''
def bubble(xs):
    xs = list(xs)
    n = len(xs)
    for i in range(n):
        swapped = False
        for j in range(0, n - i - 1):
            if xs[j] > xs[j + 1]:
                xs[j], xs[j + 1] = xs[j + 1], xs[j]
                swapped = True
        if not swapped:
            break
    return xs
print(bubble([3, 1, 2]), bubble([]))
''',
'''
def primes(n):
    sieve = [True] * (n + 1)
    sieve[0:2] = [False, False]
    for i in range(2, int(n ** 0.5) + 1):
        if sieve[i]:
            for j in range(i * i, n + 1, i):
                sieve[j] = False
    return [i for i, is_p in enumerate(sieve) if is_p]
print(primes(30))
''',
'''
def wordfreq(text):
    freq = {}
    for word in text.lower().split():
        word = word.strip('.,!')
        if not word:
            continue
        freq[word] = freq.get(word, 0) + 1
    items = list(freq.items())
    items.sort(key=lambda kv: (-kv[1], kv[0]))
    return items
print(wordfreq('The cat. The dog! the end ,'))
''',
'''
import datetime
def age_on(birth, today):
    years = today.year - birth.year
    if (today.month, today.day) < (birth.month, birth.day):
        years -= 1
    return years
d = datetime.date(2000, 6, 15)
print(age_on(d, datetime.date(2020, 6, 14)), age_on(d, datetime.date(2020, 6, 15)), (datetime.date(2020, 1, 1) - d).days)
''',
'''
import random
random.seed(7)
def sample(n):
    values = [random.randint(0, 9) for _ in range(n)]
    random.shuffle(values)
    pick = random.choice(values) if values else None
    return values, pick
print(sample(4), sample(0))
''',
'''
def process(queue):
    done = []
    while queue:
        job = queue.pop()
        if job < 0:
            continue
        if job == 0:
            break
        done.append(job)
        if job % 2 == 0:
            queue.append(job // 2 - 1)
    return done, queue
print(process([3, -1, 8, 5]), process([1, 0, 2]))
''',
'''
TABLE = {
    'add': lambda a, b: a + b,
    'sub': lambda a, b: a - b,
}
def calc(op, a, b):
    fn = TABLE.get(op)
    if fn is None:
        return 'unknown ' + op
    return fn(a, b)
print(calc('add', 1, 2), calc('sub', 1, 2), calc('mul', 1, 2))
''',
'''
class Registry:
    _instance = None
    def __new__(cls):
        if cls._instance is None:
            cls._instance = super().__new__(cls)
            cls._instance.items = {}
        return cls._instance
    def register(self, name):
        def deco(fn):
            self.items[name] = fn
            return fn
        return deco
reg = Registry()
@reg.register('hello')
def hello():
    return 'hi'
print(Registry() is reg, sorted(reg.items), reg.items['hello'](), hello())
''',
'''
def outer(n):
    total = 0
    def add(k):
        nonlocal total
        total += k
    for i in range(n):
        add(i)
    squares = [lambda i=i: i * i for i in range(n)]
    return total, [f() for f in squares]
print(outer(4))
''',
'''
import sys
def emit(msg, stream=None):
    stream = stream or sys.stdout
    stream.write(msg + '\\n')
    return len(msg)
def emit_all(msgs):
    n = 0
    for m in msgs:
        n += emit(m)
    return n
print(emit_all(['a', 'bc']))
''',
]


PROGS3 = [
'''
import sys
args = ['prog', '-n', '3', 'x']
count = 1
names = []
i = 1
while i < len(args):
    arg = args[i]
    if arg == '-n':
        i += 1
        count = int(args[i])
    else:
        names.append(arg)
    i += 1
for name in names:
    for _ in range(count):
        print(name)
print(count, names, i)
''',
'''
total = 0
maxSeen = None
for value in [3, 9, 2]:
    total += value
    if maxSeen is None or value > maxSeen:
        maxSeen = value
average = total / 3
print(total, maxSeen, round(average, 2))
''',
'''
data = {'b': 2, 'a': 1}
for key in sorted(data):
    print(key, data[key])
for key, value in data.items():
    print('%s=%s' % (key, value))
keys = list(data.keys())
values = list(data.values())
print(keys, values, 'a' in data, 'z' in data.keys(), len(data))
''',
'''
lines = ['x=1', 'y=2', '# comment', '', 'z=3']
config = {}
for line in lines:
    line = line.strip()
    if not line or line.startswith('#'):
        continue
    k, v = line.split('=')
    config[k] = int(v)
print(config)
result = []
for k in config:
    if config[k] > 1:
        result.append(k)
print(result)
''',
'''
matrix = [[1, 2], [3, 4]]
flat = []
for row in matrix:
    for cell in row:
        flat.append(cell)
squares = []
for v in flat:
    squares.append(v * v)
evens = []
for v in squares:
    if v % 2 == 0:
        evens.append(v)
lookup = {}
for v in flat:
    lookup[v] = v * 10
print(flat, squares, evens, lookup)
''',
'''
import os
base = '/tmp/project'
paths = []
for name in ['a.py', 'b.txt', 'c.py']:
    if name.endswith('.py'):
        paths.append(os.path.join(base, name))
print(paths)
exts = set()
for name in ['a.py', 'b.txt', 'c.py']:
    exts.add(os.path.splitext(name)[1])
print(sorted(exts))
''',
'''
x = 5
if x > 3:
    label = 'big'
else:
    label = 'small'
if x % 2 == 0:
    parity = 'even'
elif x % 2 == 1:
    parity = 'odd'
if x:
    print(label, parity)
if not x == 5:
    print('never')
if x > 1 and x > 2:
    print('gt')
if x == 5 or x == 6 or x == 5:
    print('five')
''',
'''
found = None
for n in range(2, 50):
    for d in range(2, n):
        if n % d == 0:
            break
    else:
        if n > 40:
            found = n
            break
print(found)
''',
'''
values = [4, 8, 15, 16, 23, 42]
first_big = None
for v in values:
    if v > 10:
        first_big = v
        break
has_odd = False
for v in values:
    if v % 2:
        has_odd = True
        break
all_pos = True
for v in values:
    if v <= 0:
        all_pos = False
        break
count_even = 0
for v in values:
    if v % 2 == 0:
        count_even += 1
print(first_big, has_odd, all_pos, count_even)
''',
'''
text = "the quick brown fox"
words = text.split()
caps = []
for w in words:
    caps.append(w.capitalize())
joined = ' '.join(caps)
lengths = {}
for w in words:
    lengths[w] = len(w)
longest = ''
for w in words:
    if len(w) >= len(longest):
        longest = w
print(joined, lengths, longest, text.title(), text.upper().lower() == text)
''',
'''
stack = []
for ch in '(()())':
    if ch == '(':
        stack.append(ch)
    elif stack:
        stack.pop()
    else:
        print('unbalanced')
        break
else:
    print('balanced' if not stack else 'open')
''',
'''
inventory = {'apple': 3, 'pear': 0}
def restock(item, n=1):
    inventory[item] = inventory.get(item, 0) + n
def sell(item):
    if inventory.get(item, 0) <= 0:
        return False
    inventory[item] -= 1
    return True
restock('pear', 2)
print(sell('apple'), sell('kiwi'), sell('pear'), sorted(inventory.items()))
''',
'''
import math
radius = 2.0
area = math.pi * radius ** 2
circ = 2 * math.pi * radius
print(round(area, 3), round(circ, 3), math.sqrt(16), math.floor(-2.5), math.ceil(2.1), abs(-3), pow(2, 5), 7 % 3, -7 % 3, 2 ** 0.5 > 1.4)
''',
'''
try:
    value = int('12x')
except ValueError:
    value = -1
finally:
    print('parsed')
try:
    ratio = 10 / value
except ZeroDivisionError:
    ratio = 0
else:
    ratio = round(ratio, 1)
print(value, ratio)
''',
'''
pairs = [(1, 'one'), (2, 'two'), (3, 'three')]
numbers = []
names = []
for number, name in pairs:
    numbers.append(number)
    names.append(name)
zipped = list(zip(numbers, names))
mapping = dict(pairs)
swapped = {}
for k, v in mapping.items():
    swapped[v] = k
indexed = []
for i, (number, name) in enumerate(pairs):
    indexed.append((i, name))
print(numbers, names, zipped == pairs, swapped, indexed)
''',
'''
CONSTANT = 10
_private = 3
camelCase = 4
def useAll():
    localVar = CONSTANT + _private + camelCase
    return localVar
class myClass:
    classAttr = 1
    def myMethod(self):
        return self.classAttr + 1
print(useAll(), myClass().myMethod(), myClass.classAttr)
''',
'''
items = [5, 3, 8]
items.sort()
items.reverse()
items.append(1)
items.extend([2, 2])
items.insert(0, 9)
items.remove(2)
last = items.pop()
idx = items.index(8)
cnt = items.count(2)
copy = items[:]
copy.clear()
print(items, last, idx, cnt, copy, sorted(items), list(reversed(items)), sum(items), min(items), max(items))
''',
'''
s = set()
s.add(1)
s.add(2)
s.add(1)
s.discard(5)
s.update([3, 4])
t = {x for x in s if x % 2}
u = frozenset(s)
d = {}
d['a'] = 1
d.update(b=2)
d.setdefault('c', 3)
d.setdefault('a', 9)
popped = d.pop('b')
missing = d.pop('zz', None)
print(sorted(s), sorted(t), len(u), d, popped, missing, d.get('q', 'dflt'))
''',
'''
def gen():
    print('start')
    yield 1
    print('middle')
    yield 2
    print('end')
g = gen()
print(next(g))
for v in g:
    print('got', v)
print(list(gen()))
''',
'''
class Shape:
    def area(self):
        raise NotImplementedError
    def describe(self):
        return '%s with area %.1f' % (type(self).__name__.lower()[:0] + 'shape', self.area())
class Square(Shape):
    def __init__(self, side):
        self.side = side
    def area(self):
        return self.side ** 2
class Circle(Shape):
    def __init__(self, r):
        self.r = r
    def area(self):
        return 3.14159 * self.r ** 2
shapes = [Square(2), Circle(1)]
for sh in shapes:
    print(sh.describe())
print(sum(sh.area() for sh in shapes) > 7, isinstance(shapes[0], Shape))
''',
'''
results = []
def record(v):
    results.append(v)
    return v
a = record(1) or record(2)
b = record(0) or record(3)
c = record(0) and record(4)
d = record(5) and record(6)
e = record(7) if record(0) else record(8)
print(a, b, c, d, e, results)
''',
'''
n = 0
def bump():
    global n
    n += 1
    return n
values = [bump() for _ in range(3)]
pairs = [(bump(), bump()) for _ in range(2)]
cond = bump() > 100 and bump() > 0
print(values, pairs, cond, n)
''',
'''
import string
alphabet = string.ascii_lowercase[:5]
shifted = ''
for ch in 'abcde':
    pos = alphabet.index(ch)
    shifted += alphabet[(pos + 2) % len(alphabet)]
table = {}
for i, ch in enumerate(alphabet):
    table[ch] = i
decoded = ''.join(alphabet[(table[ch] - 2) % 5] for ch in shifted)
print(shifted, decoded, table)
''',
'''
records = [{'name': 'a', 'score': 3}, {'name': 'b', 'score': 7}, {'name': 'c'}]
total = 0
named = []
for rec in records:
    score = rec.get('score')
    if score is None:
        continue
    total += score
    named.append(rec['name'])
best = None
for rec in records:
    if 'score' in rec and (best is None or rec['score'] > best['score']):
        best = rec
print(total, named, best)
''',
'''
def apply_discount(price, percent=0, *, minimum=1):
    discounted = price * (100 - percent) / 100
    if discounted < minimum:
        discounted = minimum
    return round(discounted, 2)
prices = [10, 0.5, 200]
out = []
for p in prices:
    out.append(apply_discount(p, 10))
out2 = [apply_discount(p, percent=50, minimum=5) for p in prices]
print(out, out2)
''',
]



# Tenth wave: the shapes behind the defects that round-4 seeding agents stumbled over on the unchanged tree (DESIGN 10.12)
PROGS4 = [
'items = ["a", "b"]\nout = list(map(lambda s: s + r"\\n", items))\nprint(out)\n',
'import re\nwords = ["a1", "b22", "c"]\nhits = list(filter(lambda w: re.search(r"\\d+$", w), words))\nprint(hits, r"\\t|\\d", br"\\x00")\n',
'paths = ["x", "y"]\nwin = []\nfor p in paths:\n    win.append(r"C:\\new" + "\\\\" + p)\nprint(win)\n',
'def f(x):\n    return x * 1.5\n\n\ndef g(x):\n    return x * 2.5\n\n\nprint(f(2), g(2))\n',
'def a(x):\n    return x or None\n\n\ndef b(x):\n    return x or ...\n\n\ndef c(x):\n    return x or b"x"\n\n\ndef d(x):\n    return x or b"y"\n\n\nprint(a(0), b(0), c(0), d(0))\n',
'def one(x):\n    return x + 1\n\n\ndef true(x):\n    return x + True\n\n\ndef cplx(x):\n    return x + 1j\n\n\nprint(one(1), true(1), cplx(1), type(one(1.0)))\n',
'def f():\n    _ = 5\n    print(_ + 1)\n\n\nf()\n',
'import gettext\n_ = gettext.gettext\nprint(_("hello"))\n',
'for _ in range(2):\n    print(_)\n_, b = 1, 2\nprint(_, b)\n',
'def _(x):\n    return x + 1\n\n\nprint(_(1))\n',
'def f():\n    return 1\n\n\ndef f():\n    print("x")\n    return 2\n\n\nf()\nprint("done")\n',
'class A:\n    def run(self):\n        return 1\n\n\nclass B:\n    def run(self):\n        print("B runs")\n\n\nA().run()\nB().run()\nprint("end")\n',
'def log(m):\n    return m\n\n\nif True:\n    def log(m):\n        print("log:", m)\n\nlog("a")\nprint("z")\n',
'"""Doc\nmore doc\n"""\nx = os.getcwd()\nprint(len(x) > 0)\n',
'"""Doc\nmore doc\n"""\nimport os\nx = os.getcwd()\nprint(len(x) > 0, len(sys.argv) > 0)\n',
'from __future__ import (\n    annotations,\n)\nx = os.getcwd()\nprint(len(x) > 0)\n',
"s = 'a\x0cb'\nx = os.getcwd()\nprint(len(s), len(x) > 0)\n",
"#!/usr/bin/env python\n# -*- coding: utf-8 -*-\n'''doc\n\nmore\n'''\n\nfrom __future__ import annotations\n\nprint(math.floor(2.5), os.sep in os.getcwd())\n",
'def f(n):\n    return f(n - 1) if n else 0\n\n\ndef longer_name(n):\n    return longer_name(n - 1) if n else 0\n\n\nprint(f(3), longer_name(4))\n',
'def use():\n    return longer_name(2)\n\n\ndef f(n):\n    return n + 1\n\n\ndef longer_name(n):\n    return n + 1\n\n\nprint(f(3), longer_name(4), use())\n',
'def first(xs):\n    return [x for x in xs if x]\n\n\ndef a_much_longer_second_name(ys):\n    return [y for y in ys if y]\n\n\ndef k(v):\n    return a_much_longer_second_name(v) + first(v) + a_much_longer_second_name(v)\n\n\nprint(k([0, 1]))\n',
'def build():\n    a = [100, 200, 300, 400, 500, 600]\n    b = [100, 200, 300, 400, 500, 600]\n    c = [100, 200, 300, 400, 500, 600]\n    d = [100, 200, 300, 400, 500, 600]\n    e = [100, 200, 300, 400, 500, 600]\n    a.append(1)\n    return a, b, c, d, e\n\n\nprint(build())\n',
'def format(x):\n    print("fmt", x)\n\n\nformat(1)\nprint("done")\n',
'def len(x):\n    print("len called")\n    return 0\n\n\nlen([1])\nprint("done")\n',
'registry = []\n\n\ndef id(x):\n    registry.append(x)\n    return x\n\n\nid("a")\nid("b")\nprint(registry)\n',
'import collections.abc, collections.abc\n\nprint(collections.abc is not None)\n',
'def trace(fn):\n    def wrapper(*a):\n        print("called")\n        return fn(*a)\n    return wrapper\n\n\n@trace\ndef f():\n    return 1\n\n\nf()\nprint("end")\n',
'class Base:\n    def __init__(self):\n        print("hi")\n\n\nclass A(Base):\n    pass\n\n\nA()\nprint("end")\n',
'import sys  # pyrefact: ignore\nimport os\nprint(sys.platform != "", os.sep != "")\n',
'import functools\n\n\n@functools.lru_cache(maxsize=None)\ndef sq(x):\n    print("computing", x)\n    return x * x\n\n\nsq(2)\nsq(2)\nprint("end")\n',
'_helper = 5\n\n\nclass A:\n    @staticmethod\n    def helper(x):\n        return x + 1\n\n    def m(self):\n        return self.helper(1) + _helper\n\n\nprint(A().m())\n',
"import gettext\n_ = gettext.gettext\n\n\ndef f(items):\n    for unused in items:\n        print(_('hello'))\n\n\nf([1, 2])\n",
'fooBar = 1\n\n\ndef f():\n    try:\n        raise ValueError(3)\n    except ValueError as fooBar:\n        print(fooBar)\n\n\nf()\nprint(fooBar)\n',
'def f(x):\n    return x + 1\n\n\ndef g(y):\n    return y + 1\n\n\ndef h(g):\n    return g * 2\n\n\nprint(f(1), g(2), h(3))\n',
'def f(x):\n    return print(x)\n\n\ndef g(x):\n    return len(x)\n\n\nprint(f([1]), g([1]))\n',
"CONFIGURATION_SETTINGS_KEY = 3\n\n\ndef f(d):\n    a = d.get('configuration settings key')\n    b = d.get('configuration settings key')\n    c = d.get('configuration settings key')\n    e = d.get('configuration settings key')\n    g = d.get('configuration settings key')\n    return a, b, c, e, g, CONFIGURATION_SETTINGS_KEY\n\n\nprint(f({'configuration settings key': 1}))\n",
'class A:\n    @staticmethod\n    def helper(x):\n        return x + 1\n\n    def m(self):\n        return self.helper(1)  # pyrefact: ignore\n\n\nprint(A().m())\n',
]

EVERYDAY = [p.lstrip("\n") for p in PROGS + PROGS2 + PROGS3 + PROGS4]

DATA = ["[]", "[3]", "[2, 1, 2]", "[5, -1, 4, 4, 0]", "(1, 2, 3)", "range(4)", "range(2, 9, 3)", "'abca'", "{2, 7}", "{'b': 1, 'a': 2}"]
EXPRS = [
 "sum(XS)", "sum(x for x in XS)", "sum([x * 2 for x in XS])", "sum(1 for x in XS)", "sum(x for x in XS if x)", "len([x for x in XS])", "len(list(XS))", "len([x for x in XS if x])",
 "sorted(XS)[0]", "sorted(XS)[-1]", "sorted(XS)[:2]", "sorted(XS)[-2:]", "sorted(XS, reverse=True)[0]", "sorted(XS)[1]", "list(sorted(XS))", "sorted(list(XS))", "sorted(set(XS))", "list(reversed(sorted(XS)))",
 "sorted(XS, reverse=True)[:2]", "list(reversed(list(XS)))", "list(reversed(XS))", "tuple(sorted(XS))", "set(sorted(XS))", "min(sorted(XS))", "max(list(XS))",
 "any([x for x in XS])", "all([x for x in XS])", "any(x == 2 for x in XS)", "all(x != 2 for x in XS)", "any(True for x in XS)", "all(False for x in XS)", "[x for x in XS][0]", "list(XS)[0]", "list(XS)[-1]",
 "next(iter(XS))", "next(iter(sorted(XS)))", "[x for x in XS if x in [2, 4]]", "[x for x in XS if x == 2 or x == 4]", "2 in list(XS)", "2 in [x for x in XS]", "2 in sorted(XS)",
 "list(x for x in XS)", "tuple(x for x in XS)", "set(x for x in XS)", "dict((x, 1) for x in XS)", "list(map(lambda x: x, XS))", "list(filter(lambda x: x, XS))", "list(filter(None, XS))",
 "[x for x in list(XS)]", "[x for x in iter(XS)]", "list(zip(XS, XS))", "list(enumerate(XS))", "[i for i, x in enumerate(XS)]", "[x for i, x in enumerate(XS)]", "[(i, XS_L[i]) for i in range(len(XS_L))]",
 "[XS_L[i] for i in range(len(XS_L))]", "{x: 1 for x in XS}", "{x for x in XS}", "len(set(XS)) == len(list(XS))", "sum(XS) / max(len(list(XS)), 1)", "max(XS, default=None)", "min(x for x in XS)",
 "list(dict.fromkeys(XS))", "list(set(XS))[:0]", "''.join(str(x) for x in XS)", "''.join([str(x) for x in XS])", "str(list(XS))", "bool(list(XS))", "not list(XS)", "len(list(XS)) == 0", "len(list(XS)) > 0", "not len(list(XS))",
]
EXPRS = [
 "sum(XS)", "sum(x for x in XS)", "sum([x * 2 for x in XS])", "sum(1 for x in XS)", "sum(x for x in XS if x)", "len([x for x in XS])", "len(list(XS))", "len([x for x in XS if x])",
 "sorted(XS)[0]", "sorted(XS)[-1]", "sorted(XS)[:2]", "sorted(XS)[-2:]", "sorted(XS, reverse=True)[0]", "sorted(XS)[1]", "list(sorted(XS))", "sorted(list(XS))", "sorted(set(XS))", "list(reversed(sorted(XS)))",
 "sorted(XS, reverse=True)[:2]", "list(reversed(list(XS)))", "list(reversed(XS))", "tuple(sorted(XS))", "set(sorted(XS))", "min(sorted(XS))", "max(list(XS))",
 "any([x for x in XS])", "all([x for x in XS])", "any(x == 2 for x in XS)", "all(x != 2 for x in XS)", "any(True for x in XS)", "all(False for x in XS)", "[x for x in XS][0]", "list(XS)[0]", "list(XS)[-1]",
 "next(iter(XS))", "next(iter(sorted(XS)))", "[x for x in XS if x in [2, 4]]", "[x for x in XS if x == 2 or x == 4]", "2 in list(XS)", "2 in [x for x in XS]", "2 in sorted(XS)",
 "list(x for x in XS)", "tuple(x for x in XS)", "set(x for x in XS)", "dict((x, 1) for x in XS)", "list(map(lambda x: x, XS))", "list(filter(lambda x: x, XS))", "list(filter(None, XS))",
 "[x for x in list(XS)]", "[x for x in iter(XS)]", "list(zip(XS, XS))", "list(enumerate(XS))", "[i for i, x in enumerate(XS)]", "[x for i, x in enumerate(XS)]", "[(i, XS_L[i]) for i in range(len(XS_L))]",
 "[XS_L[i] for i in range(len(XS_L))]", "{x: 1 for x in XS}", "{x for x in XS}", "len(set(XS)) == len(list(XS))", "sum(XS) / max(len(list(XS)), 1)", "max(XS, default=None)", "min(x for x in XS)",
 "list(dict.fromkeys(XS))", "list(set(XS))[:0]", "''.join(str(x) for x in XS)", "''.join([str(x) for x in XS])", "str(list(XS))", "bool(list(XS))", "not list(XS)", "len(list(XS)) == 0", "len(list(XS)) > 0", "not len(list(XS))",
]
STM = [
 "out = []\nfor x in XS:\n    out.append(x)\nprint(out)\n", "out = []\nfor x in XS:\n    if x:\n        out.append(x * 2)\nprint(out)\n", "out = set()\nfor x in XS:\n    out.add(x)\nprint(sorted(out, key=str))\n",
 "out = {}\nfor x in XS:\n    out[x] = 1\nprint(out)\n", "total = 0\nfor x in XS:\n    total += x\nprint(total)\n", "total = 0\nfor x in XS:\n    total = total + x\nprint(total)\n", "n = 0\nfor x in XS:\n    n += 1\nprint(n)\n",
 "found = False\nfor x in XS:\n    if x == 2:\n        found = True\n        break\nprint(found)\n", "found = False\nfor x in XS:\n    if x == 2:\n        found = True\nprint(found)\n",
 "res = None\nfor x in XS:\n    if x:\n        res = x\n        break\nprint(res)\n", "res = None\nfor x in XS:\n    if x:\n        res = x\nprint(res)\n",
 "out = []\nfor x in XS:\n    for y in XS:\n        out.append((x, y))\nprint(len(out))\n", "out = []\nfor i in range(len(list(XS))):\n    out.append(i)\nprint(out)\n",
 "d = {}\nfor x in XS:\n    if x in d:\n        d[x] += 1\n    else:\n        d[x] = 1\nprint(d)\n", "d = {}\nfor x in XS:\n    if x not in d:\n        d[x] = []\n    d[x].append(1)\nprint(d)\n",
 "d = {}\nfor x in XS:\n    d.setdefault(x, []).append(1)\nprint(d)\n", "m = None\nfor x in XS:\n    if m is None or x > m:\n        m = x\nprint(m)\n", "first = True\nfor x in XS:\n    if first:\n        first = False\n        continue\n    print(x)\n",
 "it = iter(XS)\nfor x in it:\n    print(x)\n    break\nprint(list(it))\n", "xs = list(XS)\nwhile xs:\n    print(xs.pop())\n", "xs = list(XS)\nif len(xs) == 0:\n    print('empty')\nelse:\n    print('full')\n",
 "xs = list(XS)\nif xs == []:\n    print('empty')\n", "xs = list(XS)\nprint(xs[len(xs) - 1] if xs else None)\n", "xs = list(XS)\nfor i in range(len(xs)):\n    print(i, xs[i])\n", "xs = list(XS)\nfor i in range(0, len(xs)):\n    print(xs[i])\n",
]
VALS = ["0", "1", "-2", "2.5", "None", "True", "False", "''", "'ab'", "[]", "[0]", "[1, 2]", "()", "{}", "{'a': 1}", "float('nan')"]

E1 = ["not not X", "bool(X)", "X == True", "X == False", "X is True", "X != None", "X == None", "not X == 0", "X if X else 0", "X or 0", "X and 1", "1 if X else 0", "True if X else False", "False if X else True",
      "not (X and True)", "X or not X", "X and not X", "(X or 1) and 2", "X == X", "X != X", "not X is None", "X in (None,)", "X in [None, 0]", "X is not None and X", "len(X) == 0 if hasattr(X, '__len__') else None",
      "str(X) + ''", "'%s' % (X,)", "'{}'.format(X)", "f'{X}'", "f'{X!r}'", "str(str(X))", "int(X) if isinstance(X, (int, bool)) else X", "isinstance(X, int) or isinstance(X, float)", "isinstance(X, int) and isinstance(X, bool)",
      "type(X) == int", "type(X) is int", "X.__class__.__name__", "abs(X) if isinstance(X, (int, float)) else X", "max(X, 0) if isinstance(X, (int, float)) else X", "[X][0]", "(X,)[0]", "{'k': X}['k']", "[X, X][1:]", "list((X,))",
      "X if True else 1", "X if False else 1", "(lambda v: v)(X)", "(lambda: X)()", "[v for v in [X]][0]", "next(v for v in [X])", "any([X])", "all([X])", "any([X, 1])", "all([X, 0])", "sum([1 for _ in [X]])"]

E2 = ["X + Y", "X - Y", "X * Y", "X / Y", "X // Y", "X % Y", "X ** 2", "-X + Y", "X + -Y", "X - -Y", "X * 1", "X * 0", "X + 0", "0 + X", "X / 1", "X // 1", "X ** 1", "X ** 0", "1 * X * 1", "X - X", "X / X", "(X + Y) - Y", "X * 2 / 2",
      "X < Y", "not X < Y", "not X <= Y", "not X == Y", "not (X > Y)", "X < Y or X == Y", "X < Y and X < Y", "X < Y < 3", "X <= Y and Y <= X", "X > 1 and X > 2", "X > 1 or X > 2", "X >= 1 and X < 1", "X == 1 or X == 2 or X == 1",
      "X > Y and not X > Y", "min(X, Y) if X < Y else max(X, Y)", "X if X > Y else Y", "X if X < Y else Y", "max(X, Y)", "abs(X - Y)", "(X > Y) - (X < Y)", "divmod(X, Y or 1)", "round(X / (Y or 1), 2)", "int(X / (Y or 1))", "X * Y == Y * X",
      "X and Y", "X or Y", "not (X or Y)", "not (X and Y)", "not X and not Y", "not X or not Y", "(X and Y) or (X and not Y)", "X or (X and Y)", "X and (X or Y)", "bool(X) == bool(Y)", "bool(X) != bool(Y)", "X == Y == 1", "X != Y != 1"]

NUMS = ["0", "1", "-2", "3", "2.5", "True"]



DATA2 = ["[]", "[3]", "[2, 1, 2]", "[5, -1, 4, 4, 0]", "'abca'", "range(4)"]
STM2 = [
 "out = []\nfor x in XS:\n    if x not in out:\n        out.append(x)\nprint(out)\n",
 "out = [0]\nfor x in XS:\n    out.append(x)\nprint(out)\n",
 "out = []\nother = out\nfor x in XS:\n    out.append(x)\nprint(out, other)\n",
 "out = []\nfor x in XS:\n    if x:\n        continue\n    out.append(x)\nprint(out)\n",
 "out = []\nfor x in XS:\n    if x == 4:\n        break\n    out.append(x)\nprint(out)\n",
 "out = []\nfor x in XS:\n    out.append(x)\nelse:\n    out.append('end')\nprint(out)\n",
 "out = []\nfor x in XS:\n    out.append(x)\n    out.append(x)\nprint(out)\n",
 "out = []\nfor x in XS:\n    out.append(x if x else None)\nprint(out)\n",
 "out = []\nfor x in XS:\n    if x:\n        out.append(x)\n    else:\n        out.append(0)\nprint(out)\n",
 "out = []\nfor x in XS:\n    if x:\n        if x != 2:\n            out.append(x)\nprint(out)\n",
 "out = []\nfor x in XS:\n    y = x\n    out.append(y)\nprint(out)\n",
 "out = []\nfor x in XS:\n    out.append(len(out))\nprint(out)\n",
 "out = []\nfor x in XS:\n    out.insert(0, x)\nprint(out)\n",
 "out = []\nfor x in XS:\n    out += [x]\nprint(out)\n",
 "out = []\nfor x in XS:\n    out = out + [x]\nprint(out)\n",
 "out = ''\nfor x in XS:\n    out += str(x)\nprint(out)\n",
 "out = {}\nfor i, x in enumerate(XS):\n    out[x] = i\nprint(out)\n",
 "out = {}\nfor x in XS:\n    out[x] = out.get(x, 0) + 1\nprint(out)\n",
 "out = {}\nfor x in XS:\n    if x:\n        out[x] = 1\nprint(out)\n",
 "out = {'k': 0}\nfor x in XS:\n    out[x] = 1\nprint(out)\n",
 "out = set()\nfor x in XS:\n    if x:\n        out.add(x)\nprint(sorted(out, key=str))\n",
 "out = []\nfor x in XS:\n    for y in XS:\n        if x == y:\n            out.append((x, y))\nprint(len(out))\n",
 "out = []\nfor x in XS:\n    for y in [x, x]:\n        out.append(y)\nprint(out)\n",
 "out = []\nfor x in XS:\n    inner = []\n    for y in XS:\n        inner.append(y)\n    out.append(inner)\nprint(out)\n",
 "xs = list(XS)\nout = []\nfor x in xs:\n    out.append(x)\n    xs = []\nprint(out)\n",
 "xs = list(XS)\nfor x in xs:\n    if x == 2:\n        xs.remove(x)\nprint(xs)\n",
 "xs = list(XS)\nfor x in list(xs):\n    if x == 2:\n        xs.remove(x)\nprint(xs)\n",
 "xs = list(XS)\nfor x in xs[:]:\n    xs.append(x)\nprint(xs)\n",
 "xs = list(XS)\nys = [x for x in xs]\nys.append(9)\nprint(xs, ys)\n",
 "xs = list(XS)\nys = list(xs)\nys.append(9)\nprint(xs, ys)\n",
 "xs = list(XS)\nys = xs[:]\nys.append(9)\nprint(xs, ys)\n",
 "xs = list(XS)\nys = sorted(xs)\nxs.append(0)\nprint(xs, ys)\n",
 "total = 0\nfor x in XS:\n    if isinstance(x, int):\n        total += x\nprint(total)\n",
 "total = 1\nfor x in XS:\n    if isinstance(x, int) and x:\n        total *= x\nprint(total)\n",
 "count = 0\nfor x in XS:\n    if x == 2:\n        count += 1\nprint(count)\n",
 "count = 0\nfor x in XS:\n    count = count + 1 if x else count\nprint(count)\n",
 "best = None\nfor x in XS:\n    if best is None or str(x) > str(best):\n        best = x\nprint(best)\n",
 "flag = True\nfor x in XS:\n    if not x:\n        flag = False\nprint(flag)\n",
 "flag = False\nfor x in XS:\n    flag = flag or bool(x)\nprint(flag)\n",
 "res = []\nfor i in range(len(list(XS))):\n    res.append(list(XS)[i])\nprint(res)\n",
 "xs = list(XS)\nres = []\nfor i in range(len(xs)):\n    res.append((i, xs[i]))\nprint(res)\n",
 "xs = list(XS)\nres = []\nfor i in range(len(xs)):\n    if i > 0:\n        res.append(xs[i - 1])\nprint(res)\n",
 "xs = list(XS)\nres = []\nfor i in range(len(xs) - 1):\n    res.append((xs[i], xs[i + 1]))\nprint(res)\n",
 "xs = list(XS)\nres = []\nfor i in range(1, len(xs)):\n    res.append(xs[i])\nprint(res)\n",
 "xs = list(XS)\nres = []\nfor i in range(len(xs) - 1, -1, -1):\n    res.append(xs[i])\nprint(res)\n",
 "xs = list(XS)\ni = 0\nwhile i < len(xs):\n    print(xs[i])\n    i += 1\n",
 "xs = list(XS)\ni = 0\nres = []\nwhile i < len(xs):\n    res.append(xs[i])\n    i += 2\nprint(res)\n",
 "it = iter(XS)\nres = []\nwhile True:\n    try:\n        res.append(next(it))\n    except StopIteration:\n        break\nprint(res)\n",
 "d = dict.fromkeys(XS, 0)\nfor k in d:\n    d[k] += 1\nprint(d)\n",
 "d = dict.fromkeys(XS, 0)\nfor k in list(d):\n    if k:\n        del d[k]\nprint(d)\n",
 "d = dict.fromkeys(XS, 0)\nres = []\nfor k in d.keys():\n    res.append(k)\nprint(res)\n",
 "d = dict.fromkeys(XS, 0)\nres = []\nfor k, v in d.items():\n    res.append((v, k))\nprint(res)\n",
 "d = dict.fromkeys(XS, 0)\nres = [d[k] for k in d]\nprint(res, [k for k, _ in d.items()], [v for _, v in d.items()], [k for k in d.keys()])\n",
 "res = list(map(lambda x: x * 2, XS))\nres2 = list(filter(lambda x: x != 2, XS))\nres3 = [y for y in map(str, XS)]\nprint(res, res2, res3)\n",
 "res = sorted(XS, key=lambda x: str(x))\nres2 = sorted(XS, key=str, reverse=True)\nres3 = sorted(set(XS), key=str)\nprint(res, res2, res3)\n",
 "a = [x for x in XS if x]\nb = [x for x in a if x != 2]\nc = [x * 2 for x in b]\nprint(a, b, c)\n",
 "a = [x for x in XS]\nb = [x for x in a]\nprint(a is b, a == b)\n",
 "a = tuple(x for x in XS)\nb = set(x for x in XS)\nc = list(x for x in XS)\nd = dict((x, x) for x in XS)\nprint(a, sorted(b, key=str), c, d)\n",
 "a = [[x, y] for x in XS for y in XS if x != y]\nb = [p for p in a if p[0]]\nprint(len(a), len(b))\n",
 "gen = (x for x in XS)\nfirst = next(gen, None)\nrest = list(gen)\nprint(first, rest)\n",
 "gen = (x for x in XS)\nprint(list(gen), list(gen))\n",
 "xs = list(XS)\nprint(xs[0] if xs else None, xs[-1] if len(xs) > 0 else None, xs[0:1], xs[1:], xs[::2], xs[::-1])\n",
 "xs = list(XS)\na, *b = xs or [None]\nprint(a, b)\n",
 "xs = list(XS)\nif len(xs) > 0 and xs[0] == 2:\n    print('two first')\nelif len(xs) == 0:\n    print('empty')\nelse:\n    print('other')\n",
]


def _wrap(e):
    return f"try:\n    print(repr({e}))\nexcept Exception as ex:\n    print(type(ex).__name__)\n"


def _fwrap(e, args, vals):
    return f"def f({args}):\n    return {e}\n\n\ntry:\n    print(repr(f({vals})))\nexcept Exception as ex:\n    print(type(ex).__name__)\n"


_IDIOMS = []


def idiom_programs():
    if _IDIOMS:
        return _IDIOMS
    progs = []
    for d in DATA:
        for e in EXPRS:
            expr = e.replace("XS_L", "\0").replace("XS", d).replace("\0", "XS_L")
            progs.append(f"XS_L = list({d})\ntry:\n    print({expr})\nexcept Exception as ex:\n    print(type(ex).__name__)\n")
        for st in STM:
            progs.append("try:\n" + "".join("    " + l + "\n" for l in st.replace("XS", d).splitlines()) + "except Exception as ex:\n    print(type(ex).__name__)\n")
    for d in DATA2:
        for st in STM2:
            body = "".join("    " + l + "\n" for l in st.replace("XS", d).splitlines())
            progs.append("try:\n" + body + "except Exception as ex:\n    print(type(ex).__name__)\n")
            progs.append("def f():\n" + body + "\n\ntry:\n    f()\nexcept Exception as ex:\n    print(type(ex).__name__)\n")
    for e in E1:
        for v in VALS:
            progs.append(_wrap(e.replace("X", v)))
        progs.append("".join(_fwrap(e.replace("X", "x"), "x", v) for v in VALS[:8]))
    for e in E2:
        for a in NUMS:
            for b in NUMS[:4]:
                progs.append(_wrap(e.replace("X", a).replace("Y", b)))
        progs.append("def f(x, y):\n    return " + e.replace("X", "x").replace("Y", "y") + "\n\n\nfor a in (0, 1, -2, 3, 2.5):\n    for b in (0, 1, -2, 3):\n        try:\n"
                     "            print(repr(f(a, b)))\n        except Exception as ex:\n            print(type(ex).__name__)\n")
    seen = set()
    for p in progs:
        if p in seen:
            continue
        seen.add(p)
        try:
            compile(p, "<idiom>", "exec")
        except SyntaxError:
            continue
        _IDIOMS.append(p)
    return _IDIOMS
