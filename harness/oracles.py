"""Execution oracles, always on the real code: run programs (closed, or in a deterministic stub world), run the
formatter / a rule in isolated worker processes with a wall-clock limit, compare observations."""
from __future__ import annotations

import ast
import builtins
import contextlib
import io
import multiprocessing as mp
import os
import re
import signal
import sys
import textwrap
import traceback

import common


class Budget(BaseException):
    pass


_ADDR = re.compile(r" at 0x[0-9a-fA-F]+")  # object addresses in reprs differ from run to run


class World:
    def __init__(self):
        self.log = []
        self.steps = 0

    def tick(self):
        self.steps += 1
        if self.steps > 4000:
            raise Budget()


class Stub:
    """A deterministic recording stand-in for an undefined name: callable, iterable (two elements), indexable, context
    manager, ordered, truthy.  Calls and stores are logged; pure operators are not."""
    __slots__ = ("_w", "_n")

    def __init__(self, w, n):
        object.__setattr__(self, "_w", w)
        object.__setattr__(self, "_n", n)

    def _rec(self, op, *a):
        self._w.tick()
        if op not in ("call", "setattr", "setitem", "enter", "exit"):
            return
        self._w.log.append((self._n, op, tuple(_ADDR.sub(" at 0x", repr(x))[:40] if not isinstance(x, Stub) else x._n for x in a)))

    def __call__(self, *a, **k):
        self._rec("call", *a, *sorted(k.items(), key=str))
        return Stub(self._w, self._n + "()")

    def __getattr__(self, k):
        if k.startswith("__") and k.endswith("__"):
            raise AttributeError(k)
        return Stub(self._w, self._n + "." + k)

    def __setattr__(self, k, v):
        self._rec("setattr", k, v)

    def __getitem__(self, k):
        self._rec("getitem", k)
        return Stub(self._w, self._n + "[]")

    def __setitem__(self, k, v):
        self._rec("setitem", k, v)

    def __iter__(self):
        self._rec("iter")
        return iter([Stub(self._w, self._n + "#0"), Stub(self._w, self._n + "#1")])

    def __len__(self):
        self._rec("len")
        return 2

    def __bool__(self):
        self._rec("bool")
        return True

    def __repr__(self):
        return f"<{self._n}>"

    def __hash__(self):
        return hash(self._n)

    def __eq__(self, o):
        self._rec("eq", o)
        return isinstance(o, Stub) and o._n == self._n

    def __enter__(self):
        self._rec("enter")
        return Stub(self._w, self._n + "@")

    def __exit__(self, *a):
        self._rec("exit")
        return False

    def __contains__(self, x):
        self._rec("contains", x)
        return False


def _bin(name):
    def f(self, o):
        self._rec(name, o)
        return Stub(self._w, f"({self._n}{name}{getattr(o, '_n', repr(o)[:20])})")
    return f


for _nm in ["add", "sub", "mul", "truediv", "floordiv", "mod", "pow", "and", "or", "xor", "matmul", "lshift", "rshift",
            "radd", "rsub", "rmul", "rtruediv"]:
    setattr(Stub, f"__{_nm}__", _bin(_nm))


def _cmp(name, val):
    def f(self, o):
        self._rec(name, o)
        return val
    return f


for _nm, _v in [("lt", True), ("le", True), ("gt", False), ("ge", False), ("ne", True)]:
    setattr(Stub, f"__{_nm}__", _cmp(_nm, _v))
Stub.__neg__ = lambda self: (self._rec("neg"), Stub(self._w, "-" + self._n))[1]
Stub.__index__ = lambda self: (self._rec("index"), 2)[1]
Stub.__int__ = lambda self: (self._rec("int"), 2)[1]
Stub.__float__ = lambda self: (self._rec("float"), 2.0)[1]


SAFE_MODULES = {"itertools", "collections", "heapq", "functools", "math", "operator", "string", "re", "json", "copy", "bisect", "statistics", "dataclasses", "enum",
                "typing", "abc", "contextlib", "numbers", "fractions", "decimal", "textwrap", "datetime"}


class Env(dict):
    def __init__(self, w):
        super().__init__()
        self.w = w

    def __missing__(self, k):
        if hasattr(builtins, k):
            return getattr(builtins, k)
        if k in SAFE_MODULES:  # snippets use these without importing them (and add_missing_imports supplies them)
            import importlib

            return importlib.import_module(k)
        return Stub(self.w, k)


def _alarm(_s, _f):
    raise Budget()


def observe(src, stub_world=False, seconds=3):
    """(status, stdout, log) of executing `src`; status = ok | budget | exc:<Class>"""
    w = World()
    env = Env(w) if stub_world else {}
    env["__name__"] = "__main__"
    out = io.StringIO()
    signal.signal(signal.SIGALRM, _alarm)
    signal.setitimer(signal.ITIMER_REAL, seconds, 0.5)
    try:
        with contextlib.redirect_stdout(out), contextlib.redirect_stderr(io.StringIO()):
            exec(compile(src, "<program>", "exec"), env)
        res = "ok"
    except Budget:
        res = "budget"
    except BaseException as e:  # noqa: BLE001
        res = "exc:" + type(e).__name__
    finally:
        signal.setitimer(signal.ITIMER_REAL, 0)
    return res, _ADDR.sub(" at 0x", out.getvalue()), list(w.log)


# ------------------------------------------------------------------------------------------------ workers

def _init_worker():
    common.import_pyrefact()
    sys.setrecursionlimit(3000)


def _guarded(fn, seconds):
    signal.signal(signal.SIGALRM, _alarm)
    signal.setitimer(signal.ITIMER_REAL, seconds, 0.5)
    try:
        return ("ok", fn())
    except Budget:
        return ("timeout", None)
    except BaseException as e:  # noqa: BLE001
        return ("exc:" + type(e).__name__, "".join(traceback.format_exception_only(type(e), e))[-300:])
    finally:
        signal.setitimer(signal.ITIMER_REAL, 0)


def resolve_rule(name):
    import importlib

    mod, fn = name.rsplit(".", 1)
    return getattr(importlib.import_module("pyrefact." + mod), fn)


def task_format(args):
    """args = (src, opts dict, mode) with mode in {'format', 'rule:<module.fn>'}; returns (status, output)"""
    src, opts, mode = args
    import pyrefact

    if "preserve" in opts:
        opts = dict(opts, preserve=frozenset(opts["preserve"]))

    if mode == "format":
        return _guarded(lambda: pyrefact.format_code(src, **opts), opts.pop("_seconds", 60) if "_seconds" in opts else 60)
    rule = resolve_rule(mode[5:])
    kw = {}
    if "preserve" in opts and "preserve" in getattr(getattr(rule, "_fix_func", rule), "__code__").co_varnames:
        kw["preserve"] = opts["preserve"]
    import inspect

    try:
        params = inspect.signature(rule).parameters
        if "root_is_static" in params:
            kw["root_is_static"] = True
        if "preserve" in params and "preserve" not in kw and params["preserve"].default is inspect.Parameter.empty:
            kw["preserve"] = frozenset()  # rules that take the preserve set without a default
    except (TypeError, ValueError):
        pass
    return _guarded(lambda: rule(src, **kw), 30)


def task_behaviour(args):
    """format (or apply one rule) and compare behaviour before/after.  Returns dict(status, out, before, after)."""
    src, opts, mode, stub_world = args
    before = observe(src, stub_world)
    st, out = task_format((src, dict(opts), mode))
    if st != "ok":
        return {"status": st, "detail": out, "before": before}
    after = observe(out, stub_world) if out != src else before
    return {"status": "ok", "out": out, "before": before, "after": after}


def task_iterate(args):
    """apply format_code repeatedly; returns the list of texts (stops early at a repeat) or a status"""
    src, opts, times = args
    import pyrefact

    def run():
        texts = [src]
        for _ in range(times):
            texts.append(pyrefact.format_code(texts[-1], **opts))
        return texts
    return _guarded(run, 120)


HARD_LIMIT = 150  # seconds per task before the worker process is killed (a hang that ignores signals)


def _isolated(task, item):
    """run task(item) in a forked child of this worker: the task starts from the state of a process that has imported
    pyrefact and done nothing else (exact histories)"""
    import pickle

    r, w = os.pipe()
    pid = os.fork()
    if pid == 0:
        try:
            os.close(r)
            try:
                res = task(item)
            except BaseException as e:  # noqa: BLE001
                res = {"status": "exc:" + type(e).__name__, "detail": repr(e)[:300]}
            with os.fdopen(w, "wb") as fh:
                pickle.dump(res, fh)
        finally:
            os._exit(0)
    os.close(w)
    with os.fdopen(r, "rb") as fh:
        data = fh.read()
    os.waitpid(pid, 0)
    return pickle.loads(data) if data else {"status": "crash", "detail": "isolated child died"}


def _worker_main(task, items, indices, conn, isolate=False):
    try:
        _init_worker()
        for i in indices:
            conn.send((i, "start", None))
            try:
                res = _isolated(task, items[i]) if isolate else task(items[i])
            except BaseException as e:  # noqa: BLE001
                res = {"status": "exc:" + type(e).__name__, "detail": repr(e)[:300]}
            conn.send((i, "done", res))
        conn.send((-1, "end", None))
    finally:
        conn.close()


def pmap(task, items, chunksize=None, workers=None, hard_limit=HARD_LIMIT, isolate=True):
    """Run task(item) for every item in forked worker processes.  A task that exceeds `hard_limit` seconds has its
    worker killed and the result {'status': 'hang'}; the remaining items of that worker are re-dispatched."""
    import time
    from multiprocessing.connection import wait

    n = len(items)
    if n == 0:
        return []
    ctx = mp.get_context("fork")
    workers = workers or min(16, os.cpu_count() or 4, n)
    results = [None] * n
    pending = [list(range(k, n, workers)) for k in range(workers)]
    live = {}  # conn -> dict(proc, todo, current, since)

    def spawn(indices):
        if not indices:
            return
        r, w = ctx.Pipe(duplex=False)
        p = ctx.Process(target=_worker_main, args=(task, items, indices, w, isolate), daemon=True)
        p.start()
        w.close()
        live[r] = {"proc": p, "todo": list(indices), "current": None, "since": time.time()}

    for idxs in pending:
        spawn(idxs)
    while live:
        ready = wait(list(live), timeout=1.0)
        now = time.time()
        for conn in ready:
            st = live[conn]
            try:
                i, kind, res = conn.recv()
            except (EOFError, OSError):
                # worker died: mark the current task, re-dispatch the rest
                cur = st["current"]
                if cur is not None and results[cur] is None:
                    results[cur] = {"status": "crash", "detail": "worker process died"}
                    st["todo"].remove(cur)
                rest = [j for j in st["todo"] if results[j] is None]
                st["proc"].join(1)
                del live[conn]
                conn.close()
                spawn(rest)
                continue
            if kind == "start":
                st["current"], st["since"] = i, now
            elif kind == "done":
                results[i] = res
                st["todo"].remove(i)
                st["current"] = None
            elif kind == "end":
                st["proc"].join(1)
                del live[conn]
                conn.close()
        for conn, st in list(live.items()):
            if st["current"] is not None and now - st["since"] > hard_limit:
                cur = st["current"]
                st["proc"].kill()
                st["proc"].join(1)
                results[cur] = {"status": "hang", "detail": f"no answer within {hard_limit}s; worker killed"}
                rest = [j for j in st["todo"] if j != cur and results[j] is None]
                del live[conn]
                conn.close()
                spawn(rest)
    return results


def close():
    pass


# ------------------------------------------------------------------------------------------------ corpus

_EXAMPLES = None
BANNED = ("numpy", "pandas", "requests", "tensorflow", "sklearn", "scipy", "matplotlib", "flask", "keras", "random", "time",
          "open(", "input(", "sys.", "os.", "subprocess", "exit(", "quit(", "__file__", "socket", "threading", "shutil")


def repo_examples():
    """Every multi-line string constant in /repo/tests that parses (after dedent): the repository's own example inputs
    and expected outputs, extracted at run time."""
    global _EXAMPLES
    if _EXAMPLES is not None:
        return _EXAMPLES
    out = set()
    for fn in sorted((common.REPO / "tests").rglob("*.py")):
        try:
            tree = ast.parse(fn.read_text())
        except Exception:  # noqa: BLE001
            continue
        for n in ast.walk(tree):
            if isinstance(n, ast.Constant) and isinstance(n.value, str) and "\n" in n.value:
                s = textwrap.dedent(n.value)
                try:
                    ast.parse(s)
                except (SyntaxError, ValueError):
                    continue
                if s.strip():
                    out.add(s)
    _EXAMPLES = sorted(out)
    return _EXAMPLES


def runnable(src):
    return not any(b in src for b in BANNED)


def sha(s):
    import hashlib

    return hashlib.sha1(s.encode()).hexdigest()[:12]
