"""Orchestration correspondence: the real `format_code` with every rule replaced by a small deterministic stub
(a finite map over six texts) vs the Lean `formatCodeCount` over the same stubs.  Compared: output text, the complete
sequence of rule calls, the number of `_multi_run_fixes` invocations."""
from __future__ import annotations

import importlib

import common
from common import Suite

STATES = [f"print({i})\n" for i in range(6)]
TAIL = ["overused_constant", "simplify_assign_immediate_return", "align_variable_names_with_convention", "sort_imports",
        "fix_line_lengths", "add_missing_imports", "remove_unused_imports"]
TAIL_MODS = {"overused_constant": "abstractions"}


def run_real(src_i, stubs, keep, multi_names):
    """stubs: name -> {from: to} over state numbers. Returns (out state or text, trace, multi calls)"""
    import tablegen

    mods = tablegen.rule_modules()
    main = importlib.import_module("pyrefact.main")
    trace, saved = [], []
    counter = {"multi": 0}
    names = {(m, n) for (m, n, _p) in multi_names} | {(TAIL_MODS.get(n, "fixes"), n) for n in TAIL}
    for (m, n) in names:
        mod = mods[m]
        saved.append((mod, n, getattr(mod, n)))

        def mk(n):
            def stub(source, *a, **kw):
                trace.append(n)
                tbl = stubs.get(n)
                if tbl and source in STATES and STATES.index(source) in tbl:
                    return STATES[tbl[STATES.index(source)]]
                return source
            return stub
        setattr(mod, n, mk(n))
    orig_multi = main._multi_run_fixes

    def counting(source, preserve):
        counter["multi"] += 1
        return orig_multi(source, preserve=preserve)
    main._multi_run_fixes = counting
    try:
        out = main.format_code(STATES[src_i], keep_imports=keep)
    finally:
        main._multi_run_fixes = orig_multi
        for mod, n, obj in saved:
            setattr(mod, n, obj)
    return (STATES.index(out) if out in STATES else out), trace, counter["multi"]


def gen_stub_system(r, multi_names):
    names = [n for (_m, n, _p) in multi_names]
    stubs = {}
    kind = r.random()
    chosen = r.sample(names, r.randint(1, 4)) + r.sample(TAIL[:5], r.randint(0, 2))
    for a in chosen:
        if kind < 0.25:  # a cycle through the states
            k = r.randint(2, 4)
            cyc = r.sample(range(6), k)
            stubs[a] = {cyc[i]: cyc[(i + 1) % k] for i in range(k)}
        else:
            stubs[a] = {s: r.randrange(6) for s in r.sample(range(6), r.randint(1, 4))}
    return stubs


def driver_suite(ctx, n_quick=150, n_thorough=2500):
    import tablegen

    common.import_pyrefact()
    main = importlib.import_module("pyrefact.main")
    multi_names = tablegen.multi_run_rules()
    s = Suite("driver")
    r = ctx.rng("driver")
    cases = []
    for _ in range(ctx.n(n_quick, n_thorough)):
        cases.append((r.randrange(6), gen_stub_system(r, multi_names), r.random() < 0.5))
    reqs = [{"suite": "driver", "src": src, "keep": keep, "maxp": int(main.MAX_FILE_PASSES),
             "stubs": {k: [[a, b] for a, b in v.items()] for k, v in stubs.items()}} for (src, stubs, keep) in cases]
    answers = ctx.driver.ask(reqs)
    for (src, stubs, keep), ans in zip(cases, answers):
        s.cases += 1
        try:
            out, trace, nmulti = run_real(src, stubs, keep, multi_names)
        except Exception as ex:
            s.disagreements.append({"src": src, "stubs": stubs, "keep": keep, "what": f"format_code raised {ex!r} on a stub system"})
            continue
        if "out" not in ans:
            s.disagreements.append({"src": src, "stubs": stubs, "what": "driver refused", "model": ans})
            continue
        s.count(f"multi_calls={min(nmulti, 9)}")
        if ans["out"] != out or ans["trace"] != trace or ans["multi_calls"] != nmulti:
            first = next((i for i, (a, b) in enumerate(zip(ans["trace"], trace)) if a != b), min(len(trace), len(ans["trace"])))
            s.disagreements.append({"src": src, "stubs": stubs, "keep": keep, "model_out": ans["out"], "real_out": out,
                                    "model_calls": len(ans["trace"]), "real_calls": len(trace), "first_trace_diff": first,
                                    "model_multi": ans["multi_calls"], "real_multi": nmulti,
                                    "what": "orchestration differs (output / call sequence / number of passes)"})
        if nmulti >= 3:
            s.nt([src, sorted(stubs.items()), keep])
        if len(s.samples) < 1 and nmulti >= 3:
            s.samples.append({"suite": "driver", "src": STATES[src], "stubs": {k: v for k, v in stubs.items()}, "keep_imports": keep,
                              "out": out, "rule_calls": len(trace), "multi_run_invocations": nmulti})
    s.note = ("random stub systems: 1-4 pipeline rules (+0-2 tail stages) replaced by random or cyclic maps over six texts, all other "
              "rules identity; real format_code vs Lean formatCodeCount: output, full call sequence (150-2000 calls), number of "
              "_multi_run_fixes invocations; non-trivial = at least 3 invocations")
    return s
