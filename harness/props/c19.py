"""C19 - renaming is consistent and capture-free.
Proof: construction of the new name (Props/C19.lean; the 'valid identifier' statement is false of the code and carries a
counterexample theorem).  Tie: suite `style`: style._list_words / rename_variable vs the explicit-scanner model on adversarial
identifiers.  Oracle: the renaming rules applied in isolation to programs with adversarial names (shadowing, kw-only parameters,
global / nonlocal, case variants), executed before and after; symtable-free."""
from __future__ import annotations

import common
import oracles
import sweep
from common import Suite

TRUSTED = ["C19: use-site discovery (_get_uses_of) against Python's scoping rules is explored by the execution oracle only (RenameCaptureFree is not proved)"]
ASSUMPTIONS = ["ASCII identifiers in the style model"]

ALPHA = "aAbBzZ_09xY"
RENAMING_RULES = ["fixes.align_variable_names_with_convention", "fixes.undefine_unused_variables", "fixes.remove_duplicate_functions",
                  "object_oriented.move_staticmethod_static_scope", "object_oriented.remove_unused_self_cls", "abstractions.overused_constant",
                  "fixes.delete_unused_functions_and_classes"]


def style_suite(ctx):
    from pyrefact import style

    s = Suite("style")
    r = ctx.rng("style")
    names = ["fooBar", "foo_bar", "FOO_BAR", "HTTPServerError2x", "_99_YbzA", "__init__", "_", "__x", "x__", "A", "aB", "ABc", "ABC", "a1B2", "_A_", "camelCaseVar", "X_y", "myVal",
             "__", "___", "a__b", "Ab9Cd", "zZ9", "_private", "maxRetries", "ID", "userID2", "__dunder__x"]
    while len(names) < ctx.n(3000, 60000):
        n = "".join(r.choice(ALPHA) for _ in range(r.randint(1, 9)))
        if not n[0].isdigit():
            names.append(n)
    reqs, metas = [], []
    for n in names:
        for st in (False, True):
            for pr in (False, True):
                reqs.append({"suite": "style", "name": n, "static": st, "private": pr})
                metas.append((n, st, pr))
    answers = ctx.driver.ask(reqs)
    for (n, st, pr), ans in zip(metas, answers):
        s.cases += 1
        try:
            real = style.rename_variable(n, static=st, private=pr)
        except Exception:  # noqa: BLE001
            real = None
        words = list(style._list_words(n))
        if ans.get("words") != words:
            s.disagreements.append({"name": n, "model": ans.get("words"), "real": words, "what": "_list_words differs from the scanner model"})
        elif ans.get("name") != real:
            s.disagreements.append({"name": n, "static": st, "private": pr, "model": ans.get("name"), "real": real, "what": "rename_variable differs from the model"})
        if real is not None and real != n:
            s.nt([n, st, pr])
    s.samples.append({"suite": "style", "name": "HTTPServerError2x", "static": True, "private": True, "renamed": "_HTTP_SERVER_ERROR2_X"})
    s.note = "28 hand-picked + random identifiers over the alphabet 'aAbBzZ_09xY' (length 1-9) x static x private: _list_words and rename_variable vs the scanner model; non-trivial = the name changes"
    return s


def rename_oracle(ctx):
    s = Suite("rename-behaviour", kind="oracle")
    base = sweep.baseline("C02")
    items = sweep.targeted() + sweep.pick(sweep.generated_corpus(), ctx, 40)
    results = oracles.pmap(sweep.task_rules, [(src, RENAMING_RULES, False) for (_sha, src, _fam) in items])
    for (sha, src, fam), res in zip(items, results):
        s.cases += 1
        if res.get("status") != "ok":
            continue
        b = res["before"]
        for (rule, st, new, after) in res["rules"]:
            if st != "ok" or b[0] != "ok" or after is None:
                continue
            s.nt([sha, rule])
            if sweep.key(sha, {}, rule) in base:
                continue
            if (after[0], after[1]) != (b[0], b[1]):
                s.disagreements.append({"sha": sha, "src": src, "rule": rule, "out": new, "family": fam,
                                        "what": f"{rule} changes behaviour ({'ends with ' + after[0] if after[0] != b[0] else 'stdout differs'}) on a {fam} program"})
    s.note = "the 7 renaming / name-generating rules applied in isolation to the whole targeted corpus (static methods calling each other through the class, locals clashing with globals due for renaming, shadowed definitions, shadowing locals, kw-only parameters, global/nonlocal, duplicate functions, overused constants, case variants) and a slice of the first; executed before and after"
    return s


def suites(ctx):
    common.import_pyrefact()
    return [style_suite(ctx), rename_oracle(ctx)]


def match_known(d, known):
    return sweep.match_known_sha(d, known)


def replay_witness(ctx, kf):
    common.import_pyrefact()
    w = kf["witness"]
    if "name" in w:
        from pyrefact import style
        return style.rename_variable(w["name"], static=w["static"], private=w["private"]) == w["renamed"]
    if "src" in w and "rule" in w:
        res = sweep.task_rules((w["src"], [w["rule"]], False))
        b = res["before"]
        return any(st == "ok" and after is not None and (after[0], after[1]) != (b[0], b[1]) for (_r, st, _n, after) in res["rules"])
    return None


def search(ctx, breaks):
    common.import_pyrefact()
    return rename_oracle(ctx).disagreements[:5]


def replay(ctx, inp):
    common.import_pyrefact()
    res = sweep.task_rules((inp["src"], [inp["rule"]], False))
    b = res["before"]
    return any(st == "ok" and after is not None and (after[0], after[1]) != (b[0], b[1]) for (_r, st, _n, after) in res["rules"])
