"""C19 - renaming is consistent and capture-free.
Proof: construction of the new name (Props/C19.lean; the 'valid identifier' statement is false of the code and carries a
counterexample theorem).  Tie: suite `style`: style._list_words / rename_variable vs the explicit-scanner model on adversarial
identifiers.  Oracle: the renaming rules applied in isolation to programs with adversarial names (shadowing, kw-only parameters,
global / nonlocal, case variants), executed before and after; symtable-free."""
from __future__ import annotations

import ast

import common
import oracles
import scoping
import sweep
from common import Suite

TRUSTED = ["C19: which occurrences a rule selects for renaming (_get_uses_of) is code, not model: every pure renaming a rule performs on the corpus is checked against the hypotheses of C19.rename_capture_free (Lean checkHyps) and against CPython's symbol tables, and executed",
           "C19: harness/scoping.py (extraction of occurrences and scopes from the ast) - compared with CPython's symtable by suite scope-model"]
ASSUMPTIONS = ["ASCII identifiers in the style model"]

ALPHA = "aAbBzZ_09xY"
RENAMING_RULES = ["fixes.align_variable_names_with_convention", "fixes.undefine_unused_variables", "fixes.remove_duplicate_functions",
                  "object_oriented.move_staticmethod_static_scope", "object_oriented.remove_unused_self_cls", "abstractions.overused_constant",
                  "fixes.delete_unused_functions_and_classes"]


def style_suite(ctx):
    from pyrefact import style

    s = Suite("style")
    r = ctx.rng("style")
    names = ["fooBar", "foo_bar", "FOO_BAR", "HTTPServerError2x", "_99_YbzA", "__init__", "_", "__x", "x__", "A", "aB", "ABc", "ABC", "a1B2", "_A_", "camelCaseVar", "X_y", "myVal",
             "__", "___", "a__b", "Ab9Cd", "zZ9", "_private", "maxRetries", "ID", "userID2", "__dunder__x"]
    while len(names) < ctx.n(3000, 60000):
        n = "".join(r.choice(ALPHA) for _ in range(r.randint(1, 9)))
        if not n[0].isdigit():
            names.append(n)
    reqs, metas = [], []
    for n in names:
        for st in (False, True):
            for pr in (False, True):
                reqs.append({"suite": "style", "name": n, "static": st, "private": pr})
                metas.append((n, st, pr))
    answers = ctx.driver.ask(reqs)
    for (n, st, pr), ans in zip(metas, answers):
        s.cases += 1
        try:
            real = style.rename_variable(n, static=st, private=pr)
        except Exception:  # noqa: BLE001
            real = None
        words = list(style._list_words(n))
        if ans.get("words") != words:
            s.disagreements.append({"name": n, "model": ans.get("words"), "real": words, "what": "_list_words differs from the scanner model"})
        elif ans.get("name") != real:
            s.disagreements.append({"name": n, "static": st, "private": pr, "model": ans.get("name"), "real": real, "what": "rename_variable differs from the model"})
        if real is not None and real != n:
            s.nt([n, st, pr])
    s.samples.append({"suite": "style", "name": "HTTPServerError2x", "static": True, "private": True, "renamed": "_HTTP_SERVER_ERROR2_X"})
    s.note = "28 hand-picked + random identifiers over the alphabet 'aAbBzZ_09xY' (length 1-9) x static x private: _list_words and rename_variable vs the scanner model; non-trivial = the name changes"
    return s


def scope_suite(ctx):
    """the Lean scoping model (C19.var over the occurrences harness/scoping.py extracts) against CPython's symbol tables"""
    s = Suite("scope-model")
    items = sweep.targeted() + sweep.pick(sweep.generated_corpus(), ctx, ctx.n(150, 1500)) + sweep.pick(sweep.example_corpus(), ctx, ctx.n(150, 1500))
    items = items + [("scoping-extra-%d" % i, src, "scoping-extra") for i, src in enumerate(SCOPING_EXTRA)]
    reqs, metas = [], []
    skipped = {"no-analysis": 0, "no-symtable-alignment": 0, "too-large": 0}
    for (sha, src, fam) in items:
        try:
            tree = ast.parse(src)
        except (SyntaxError, ValueError, RecursionError):
            continue
        an = scoping.analyse(tree)
        if an is None:
            skipped["no-analysis"] += 1
            continue
        if len(an.occs) > 600:
            skipped["too-large"] += 1
            continue
        exp = scoping.symtable_vars(src, an)
        if exp is None:
            skipped["no-symtable-alignment"] += 1
            continue
        reqs.append(an.request())
        metas.append((sha, src, fam, an, exp))
    answers = ctx.driver.ask(reqs)
    kinds = {}
    for (sha, src, fam, an, exp), ans in zip(metas, answers):
        s.cases += 1
        got = [tuple(v) for v in ans.get("vars", [])]
        if len(got) != len(exp):
            s.disagreements.append({"sha": sha, "src": src, "what": "the model driver did not answer the scope request"})
            continue
        nontrivial = False
        for o, e, m in zip(an.occs, exp, got):
            if o.scope.id != 0 and e[0] != o.scope.id:
                nontrivial = True
            k = "own-scope" if e[0] == o.scope.id else "module" if e[0] == 0 else "enclosing-function"
            kinds[k] = kinds.get(k, 0) + 1
            if tuple(e) != m:
                s.disagreements.append({"sha": sha, "src": src, "name": o.name, "line": getattr(o.node, "lineno", 0), "scope": o.scope.name, "cpython": list(e), "model": list(m),
                                        "what": f"the scoping model resolves {o.name!r} (line {getattr(o.node, 'lineno', 0)}, scope {o.scope.name}) to scope {m[0]}, CPython's symbol table to scope {e[0]}"})
                break
        if nontrivial:
            s.nt([sha])
    s.hist = dict(sorted(kinds.items()))
    s.samples.append({"suite": s.name, "skipped": skipped})
    s.note = ("C19.var on the occurrences / scopes / declarations that harness/scoping.py extracts, against the owner scope CPython's symtable reports for the same occurrence "
              "(comprehension variables: PEP 709 tables no longer list comprehensions, the comprehension owns the names it binds); targeted + generated + repo-example programs + 15 scoping "
              "programs (class bodies, global / nonlocal chains, walrus in comprehensions, lambdas in defaults, match captures); non-trivial = some name resolves outside its own scope; "
              "histogram = occurrences by where their variable lives")
    return s


SCOPING_EXTRA = [
    "x = 1\ndef f():\n    x = 2\n    def g():\n        return x\n    return g\nprint(f()())\n",
    "x = 1\ndef h():\n    x = 2\n    def f():\n        global x\n        def g():\n            return x\n        return g\n    return f\nprint(h()()())\n",
    "def h():\n    x = 2\n    def f():\n        nonlocal x\n        x = 3\n        def g():\n            return x\n        return g\n    return f\nprint(h()()())\n",
    "z = 0\nclass K:\n    z = 1\n    a = [z for _ in range(z)]\n    def m(self):\n        return z\nprint(K.a, K().m())\n",
    "def f(a, b=[i for i in range(3)], *c, d=lambda q: q, **e):\n    return [(m := j) for j in b], m\nprint(f(1))\n",
    "import os.path as p, sys\nfrom json import dumps as d, loads\ndef f():\n    import re\n    return re, p, d, loads, sys\nprint(len(f()))\n",
    "def f(v):\n    match v:\n        case [a, *rest]:\n            return a, rest\n        case {'k': w, **more}:\n            return w, more\n        case str() as s:\n            return s\nprint(f([1, 2]))\n",
    "def f():\n    try:\n        pass\n    except ValueError as e:\n        print(e)\n    for i, (j, k) in []:\n        pass\n    with open('x') as (a, b):\n        pass\n    del i\n",
    "class A:\n    x = 1\n    class B:\n        y = x if False else 2\n        def m(self):\n            return x\nx = 5\nprint(A.B().m())\n",
    "def f():\n    x = 1\n    class C:\n        x = x + 1 if False else 3\n        def m(self):\n            return x\n    return C().m()\nprint(f())\n",
    "g = 1\ndef f():\n    return [g for g in range(3)], g\nprint(f())\n",
    "def f():\n    r = [lambda: i for i in range(3)]\n    s = {k: v for k, v in zip(range(2), range(2)) if k or v}\n    return [q() for q in r], s\nprint(f())\n",
    "def deco(fn):\n    return fn\n@deco\ndef f(x: int = 3) -> int:\n    y: int = x\n    return y\nprint(f())\n",
    "def f():\n    total = 0\n    def add(n):\n        nonlocal total\n        total += n\n    [add(i) for i in range(4)]\n    return total\nprint(f())\n",
    "import asyncio\nasync def outer(xs):\n    async def inner(v):\n        async with lock:\n            return v + base\n    lock = asyncio.Lock()\n    base = 1\n    return [await inner(x) async for x in agen(xs)]\nasync def agen(xs):\n    for x in xs:\n        yield x\nprint(asyncio.run(outer([1, 2])))\n",
]


def alpha_check(ctx, records):
    """records: [(sha, src, rule, new)] where the rule changed the text.  For those that are pure renamings (same tree up to
    identifier spelling): the hypotheses of C19.rename_capture_free, decided by the Lean model, and CPython's own view of both
    texts.  Returns (validated, by_cpython_only, not_pure, disagreements)."""
    reqs, metas = [], []
    not_pure = 0
    for (sha, src, rule, new) in records:
        pr = scoping.pure_renaming(src, new)
        if pr is None:
            not_pure += 1
            continue
        an_a, an_b, steps = pr
        if len(an_a.occs) > 600:
            not_pure += 1
            continue
        reqs.append(an_a.request(steps))
        metas.append((sha, src, rule, new, an_a, an_b, steps))
    answers = ctx.driver.ask(reqs) if reqs else []
    validated = cpython_only = 0
    out = []
    for (sha, src, rule, new, an_a, an_b, steps), ans in zip(metas, answers):
        names_b = [o.name for o in an_b.occs]
        va, vb = scoping.symtable_vars(src, an_a), scoping.symtable_vars(new, an_b)
        bound_ok = True
        if va is not None:
            owned = {v for o, v in zip(an_a.occs, va) if o.binding}
            bound_ok = all(va[i] in owned for (_o, _n, idx) in steps for i in idx)
        if ans.get("ok") and all(ans["ok"]) and ans.get("names") == names_b and bound_ok:
            validated += 1
            if va is not None and vb is not None and not scoping.partition_preserved(va, vb, [o.binding for o in an_a.occs])[0]:
                out.append({"sha": sha, "src": src, "rule": rule, "out": new, "steps": [list(st[:2]) for st in steps],
                            "what": f"{rule}: the renaming meets the hypotheses of rename_capture_free in the model but CPython's symbol tables show a different binding structure (model / analyser disagreement)"})
            continue
        if va is None or vb is None:
            continue  # nothing claimed; the execution oracle still looks at it
        ok, i = scoping.partition_preserved(va, vb, [o.binding for o in an_a.occs])
        if ok and bound_ok:
            cpython_only += 1
            continue
        o = an_a.occs[i] if i is not None else None
        what = (f"{rule} renames {[f'{a}->{b}' for (a, b, _i) in steps]}: " +
                (f"after it {an_b.occs[i].name!r} (line {getattr(o.node, 'lineno', 0)}) refers to another variable than {o.name!r} did before (capture, split or merge of bindings, by CPython's symbol tables)"
                 if not ok else "a name that the program does not bind (a builtin or an undefined global) is renamed"))
        out.append({"sha": sha, "src": src, "rule": rule, "out": new, "steps": [list(st[:2]) for st in steps], "what": what})
    return validated, cpython_only, not_pure, out


STRESS_NAMES = ["fooBar", "FooBar", "foo_bar", "FOO_BAR", "x", "X", "emit", "Emit", "myVal", "my_val", "tmpVal", "Node", "node", "i", "I", "countUp", "count_up", "aB", "a_b", "Ab"]


def stress_program(r, rich=False):
    """a random scope tree over a small pool of names that the conventions map onto each other (fooBar / FooBar / foo_bar /
    FOO_BAR ...): assignments, defs, classes, loops, comprehensions, lambdas, global / nonlocal, reads before and after
    rebinding.  Valid Python; not meant to be executed."""
    pool = r.sample(STRESS_NAMES, r.randint(3, 6))

    def name():
        return r.choice(pool)

    def expr(depth):
        k = r.randint(0, 10 if rich else 7)
        if k == 8:   # several generators: only the first iterable belongs to the enclosing scope
            return f"[{name()} for {name()} in {name()} for {name()} in {name()}]"
        if k == 9:
            return f"{{{name()}: {name()} for {name()} in {name()} if {name()} for {name()} in {name()}}}"
        if k == 10:
            return f"sum({name()} for {name()} in [{name()}] for {name()} in {name()} if {name()})"
        # (a comprehension nested in the element AND in the first iterable of another one was tried and dropped: CPython 3.12 inlines comprehensions, the
        #  inner target becomes a hidden local of the function and the element's read of the same-named global raises UnboundLocalError - such a program
        #  is outside the class the property speaks about, and a renaming that "repairs" it is reported as a change of binding structure)
        if k <= 2:
            return name()
        if k == 3:
            return f"{name()} + {r.randint(0, 9)}"
        if k == 4:
            return f"[{name()} for {name()} in range({name()})]"
        if k == 5:
            return f"(lambda {name()}: {name()} + {name()})({r.randint(0, 9)})"
        if k == 6:
            return f"{name()}({name()})"
        return str(r.randint(0, 9))

    def block(depth, kind, ind):
        out = []
        pad = "    " * ind
        if kind == "function" and depth > 0 and r.random() < 0.25:
            out.append(f"{pad}{r.choice(['global', 'nonlocal'] if depth > 1 else ['global'])} {name()}")
        for _ in range(r.randint(2, 5)):
            k = r.randint(0, 9)
            if k <= 2:
                out.append(f"{pad}{name()} = {expr(depth)}")
            elif k == 3:
                out.append(f"{pad}print({name()}, {expr(depth)})")
            elif k == 4 and depth < 3:
                args = ", ".join(dict.fromkeys(name() for _ in range(r.randint(0, 2))))
                out.append(f"{pad}{'async ' if r.random() < 0.2 else ''}def {name()}({args}):")
                out.extend(block(depth + 1, "function", ind + 1))
                out.append(f"{pad}    return {expr(depth)}")
            elif k == 5 and depth < 2:
                out.append(f"{pad}class {name()}:")
                out.extend(block(depth + 1, "class", ind + 1))
            elif k == 6:
                out.append(f"{pad}for {name()} in range({r.randint(1, 3)}):")
                out.append(f"{pad}    {name()} = {expr(depth)}")
            elif k == 7:
                out.append(f"{pad}{name()} += {r.randint(1, 3)}")
            elif k == 8:
                out.append(f"{pad}if {name()}:")
                out.append(f"{pad}    {name()} = {expr(depth)}")
            else:
                out.append(f"{pad}{name()} = {name()}")
        return out

    for _ in range(20):
        src = "\n".join(block(0, "module", 0)) + "\n"
        try:
            compile(src, "<stress>", "exec")
            if rich and " for " not in src:
                continue
            return src
        except SyntaxError:
            continue
    return "x = 1\n"


_STRESS = []


def stress_corpus():
    """fixed: independent of VERIF_SEED (which only selects the quick slice)"""
    if not _STRESS:
        import random
        for seed in range(7000, 7012):
            r = random.Random(seed)
            for _ in range(400):
                src = stress_program(r)
                _STRESS.append((oracles.sha(src), src, "rename-stress"))
    return _STRESS


_STRESS_RICH = []


def stress_corpus_rich():
    """a second fixed corpus: the same scope trees with comprehensions of several generators, dict / generator forms and nested comprehensions"""
    if not _STRESS_RICH:
        import random
        for seed in range(7100, 7103):
            r = random.Random(seed)
            for _ in range(200):
                src = stress_program(r, rich=True)
                _STRESS_RICH.append((oracles.sha(src), src, "rename-stress-rich"))
    return _STRESS_RICH


def task_apply(args):
    src, rules = args
    out = []
    for rule in rules:
        st, new = oracles.task_format((src, {}, "rule:" + rule))
        if st == "ok" and new is not None and new != src:
            out.append((rule, new))
    return out


def alpha_suite(ctx):
    """static only, no execution: the renaming rules on many more programs, every pure renaming checked as in alpha_check"""
    s = Suite("rename-static", kind="oracle")
    items = sweep.pick(stress_corpus(), ctx, ctx.n(500, len(stress_corpus()))) + stress_corpus_rich()
    items += sweep.pick(sweep.generated_corpus(), ctx, ctx.n(200, 3000)) + sweep.pick(sweep.example_corpus(), ctx, ctx.n(100, 1500))
    results = oracles.pmap(task_apply, [(src, RENAMING_RULES) for (_sha, src, _fam) in items])
    records = []
    for (sha, src, fam), res in zip(items, results):
        s.cases += 1
        if not isinstance(res, list):
            continue
        for (rule, new) in res:
            records.append((sha, src, rule, new))
            s.nt([sha, rule])
    validated, cpython_only, not_pure, static = alpha_check(ctx, records)
    known = set(sweep.baseline("C02")) | set(sweep.baseline("C19"))
    excluded = sum(1 for d in static if sweep.key(d["sha"], {}, d["rule"]) in known)
    s.disagreements.extend(d for d in static if sweep.key(d["sha"], {}, d["rule"]) not in known)
    s.samples.append({"suite": s.name, "baseline_excluded": excluded})
    s.samples.append({"suite": s.name, "rule_outputs": len(records), "pure_renamings_validated_by_theorem": validated, "pure_renamings_checked_by_symtable_only": cpython_only,
                      "outputs_not_a_pure_renaming": not_pure})
    s.note = ("the 7 renaming rules on random scope trees over names that the conventions map onto each other (fooBar / FooBar / foo_bar / FOO_BAR, defs and variables sharing a name, "
              "global / nonlocal, comprehensions, lambdas, class bodies) + generated + repo-example programs; no execution: every output that is the input with identifiers respelled must meet "
              "checkHyps (then C19.rename_capture_free applies) or keep the binding structure CPython's symbol tables report; non-trivial = a rule changed the text")
    return s

# the shapes behind the repairs recorded in KNOWN_FINDINGS.txt (2da34a4 ... ): run in both tiers, executed and checked statically
RENAME_WITNESSES = [
    "def f():\n    fooBar = 1\n    FooBar = 2\n    print(fooBar, FooBar)\nf()\n",
    "def emit(v):\n    return ('module-level', v)\n\n\nfirst = emit(1)\nemit = str\nout = emit(2)\nprint(first, out)\n",
    "def count_up(start, tmpVal):\n    tmpVal += 3\n    return start + tmpVal\nprint(count_up(1, 2))\n",
    "def count_up(start, tmpVal=None):\n    tmpVal = tmpVal or 3\n    return start + tmpVal\nprint(count_up(1), count_up(1, 5))\n",
    "fooBar = 5\ndef compute(val):\n    fooBar = val\n    return fooBar\nprint(compute(2), fooBar)\n",
    "FooBar = 3\ndef FOO_BAR(tmpVal):\n    FooBar = tmpVal\n    return FooBar\nprint(FOO_BAR(1), FooBar)\n",
    "myVal = 4\ndef outer():\n    def inner():\n        myVal = 1\n        return myVal\n    return inner() + myVal\nprint(outer(), myVal)\n",
    "def f():\n    out = []\n    for i in range(3):\n        if i:\n            out.append(lastVal)\n        lastVal = i\n    return out\nprint(f())\n",
    "maxSize = 10\nclass Config:\n    maxSize = 5\n    def get(self):\n        return maxSize\n    pick = lambda self: maxSize + 1\nprint(Config().get(), Config().pick(), Config.maxSize)\n",
    "topVal = 3\ndef f():\n    return [topVal for topVal in range(topVal)]\nprint(f(), topVal)\n",
    "from math import *\nmyTau = 1\ndef f():\n    return tau + myTau\nprint(f() > 6)\n",
    "class Base:\n    pass\nclass A(Base):\n    fooBar = 1\n    y = fooBar + 1\nprint(A.y)\n",
    "lastItem = 0\ndef f(items):\n    for lastItem in items:\n        pass\n    lastItem = (lastItem, 1)\n    return lastItem\nprint(f([1, 2]), lastItem)\n",
    "def outer():\n    curVal = 1\n    def bump():\n        nonlocal curVal\n        curVal += 1\n        return curVal\n    return bump() + curVal\nprint(outer())\n",
    # the same shapes in the other kinds of scope: coroutine, method, nested class
    "import asyncio\nasync def f():\n    out = []\n    for i in range(3):\n        if i:\n            out.append(lastVal)\n        lastVal = i\n    return out\nprint(asyncio.run(f()))\n",
    "import asyncio\ntopVal = 2\nasync def g(tmpVal):\n    tmpVal += topVal\n    async def h():\n        return tmpVal + innerVal\n    innerVal = 1\n    return await h()\nprint(asyncio.run(g(1)), topVal)\n",
    "class Box:\n    def total(self, startVal):\n        for i in range(2):\n            if i:\n                startVal += prevVal\n            prevVal = i + 1\n        return startVal\nprint(Box().total(1))\n",
]


def rename_oracle(ctx):
    s = Suite("rename-behaviour", kind="oracle")
    base = sweep.baseline("C02")
    items = [(oracles.sha(src), src, "rename-witness") for src in RENAME_WITNESSES] + sweep.targeted() + sweep.pick(sweep.generated_corpus(), ctx, 40)
    results = oracles.pmap(sweep.task_rules, [(src, RENAMING_RULES, False) for (_sha, src, _fam) in items])
    records = []
    for (sha, src, fam), res in zip(items, results):
        s.cases += 1
        if res.get("status") != "ok":
            continue
        b = res["before"]
        for (rule, st, new, after) in res["rules"]:
            if st == "ok" and new is not None and new != src and sweep.key(sha, {}, rule) not in base:
                records.append((sha, src, rule, new))
            if st != "ok" or b[0] != "ok" or after is None:
                continue
            s.nt([sha, rule])
            if sweep.key(sha, {}, rule) in base:
                continue
            if (after[0], after[1]) != (b[0], b[1]):
                s.disagreements.append({"sha": sha, "src": src, "rule": rule, "out": new, "family": fam,
                                        "what": f"{rule} changes behaviour ({'ends with ' + after[0] if after[0] != b[0] else 'stdout differs'}) on a {fam} program"})
    validated, cpython_only, not_pure, static = alpha_check(ctx, records)
    seen = {(d["sha"], d["rule"]) for d in s.disagreements}
    s.disagreements.extend(d for d in static if (d["sha"], d["rule"]) not in seen)
    s.samples.append({"suite": s.name, "pure_renamings_validated_by_theorem": validated, "pure_renamings_checked_by_symtable_only": cpython_only, "outputs_not_a_pure_renaming": not_pure})
    s.note = "(static part: every output that is the input with identifiers respelled is checked against checkHyps / CPython's symbol tables - capture, split, merge, renaming of unbound names) the 7 renaming / name-generating rules applied in isolation to the whole targeted corpus (static methods calling each other through the class, locals clashing with globals due for renaming, shadowed definitions, shadowing locals, kw-only parameters, global/nonlocal, duplicate functions, overused constants, case variants) and a slice of the first; executed before and after"
    return s


def suites(ctx):
    common.import_pyrefact()
    return [style_suite(ctx), scope_suite(ctx), rename_oracle(ctx), alpha_suite(ctx)]


def match_known(d, known):
    return sweep.match_known_sha(d, known)


def _breaks(ctx, src, rule):
    res = sweep.task_rules((src, [rule], False))
    b = res["before"]
    for (_r, st, new, after) in res["rules"]:
        if st == "ok" and after is not None and (after[0], after[1]) != (b[0], b[1]):
            return True
        if st == "ok" and new is not None and new != src and alpha_check(ctx, [("replay", src, rule, new)])[3]:
            return True
    return False


def replay_witness(ctx, kf):
    common.import_pyrefact()
    w = kf["witness"]
    if "name" in w:
        from pyrefact import style
        return style.rename_variable(w["name"], static=w["static"], private=w["private"]) == w["renamed"]
    if "src" in w and "rule" in w:
        return _breaks(ctx, w["src"], w["rule"])
    return None


def search(ctx, breaks):
    common.import_pyrefact()
    return rename_oracle(ctx).disagreements[:5]


def replay(ctx, inp):
    common.import_pyrefact()
    return _breaks(ctx, inp["src"], inp["rule"])
