"""C08 - preserved names survive, within a file and across files.
Proof: guard logic and preserve-set plumbing (Props/C08.lean).  Ties: suite `usednames` (main._used_names_in_file vs usedNames on the exported
client summary) and suite `filepreserve` (the preserve set format_files hands to each file - captured with a stub format_file installed
before the pool forks - vs filePreserve over the real used names).  Oracle: every preserved name is still defined after
format_code(lib, preserve=P), and the CLI run `pyrefact lib.py --preserve client.py` keeps the client working."""
from __future__ import annotations

import ast
import importlib
import json
import os
import shutil
import subprocess
import sys
import tempfile
from pathlib import Path

import common
import oracles
import preserve_common as pc
import sweep
from common import Suite

TRUSTED = ["C08: the dataflow inside undefine_unused_variables and the 'unused' analyses are not modelled; the surface oracle examines their guards"]
ASSUMPTIONS = []

CLIENTS = [
    "from lib import helper, renderText\nprint(helper(1), renderText(2))\n", "import lib\nprint(lib.helper(1), lib.sep, lib.maxVal)\n", "import lib as L\nprint(L.unusedHelper(2))\n",
    "from lib import *\nprint(helper(3))\n", "import lib\nobj = lib.make()\nprint(obj.Meth('x'), obj.myVal)\n", "from lib import Greeter\nprint(Greeter.build().helper())\n",
    "import lib\nprint(lib.doThing(1), lib.do_thing(2), lib.dumps([1]), lib.tail)\n", "import lib\nprint(lib.area_tile(2, 3), lib.areaTile(3, 2), lib.bump())\n",
    "from lib import wrapper, unusedClass, anotherVar\nprint(wrapper(2), unusedClass().methodTwo(), anotherVar)\n", "import lib\nprint(lib.a, lib.b, lib.rest, lib.TOTAL)\n",
    # names the client only writes, deletes or updates through the module
    "import lib\nlib.maxVal = 99\nlib.sep += '+'\ndel lib.unusedHelper\nprint(lib.maxVal, lib.sep, hasattr(lib, 'unusedHelper'))\n",
    "import lib\nlib.anotherVar = 1\nlib.SOME_CONST += 2\nfor lib.counterLike in range(2):\n    pass\nprint(lib.SOME_CONST, lib.counterLike)\n",
    "import lib\nprint(len(lib.PathInfo('a/b\\\\c')))\n",
    "from lib import Settings\nSettings.level = 9\nprint(Settings().dump(), Settings().load('p'))\n",
    "import lib\nr = lib.Release()\nprint(r.rest, r.low, r.high, r.span(), lib.make())\n",
    "import lib\nprint(lib.Color.RED, lib.Color.GREEN, lib.Color.blueish, lib.Point.__slots__, lib.ORIGIN)\n",
    # imports under an alias, through a star import (the client uses a name the library defines), only to re-export
    "from lib import helper as h, renderText as rt\nprint(h(1), rt(2))\n", "from lib import *\nprint(helper(1), renderText(2), maxVal)\n",
    "from lib import unusedHelper, anotherVar\n__all__ = ['unusedHelper', 'anotherVar']\nprint('ok')\n",
    "from lib import _\nprint(_('x'))\n", "from lib import join, J\nprint(join('a', 'b'), J.dumps(1))\n", "import lib\nprint(lib.make(3).stat())\n",
    "import lib\nlib.init()\nlib.bump()\nlib.Conf().load()\nprint(lib.CACHE_dir, lib.hitCount, lib.lastLoaded)\n",
]


def client_summary(src):
    from pyrefact import tracing

    tree = ast.parse(src)
    imported = sorted(tracing.get_imported_names(tree))
    loads = [n.id for n in ast.walk(tree) if isinstance(n, ast.Name)]
    attrs = [[n.value.id if isinstance(n.value, ast.Name) else None, n.attr] for n in ast.walk(tree) if isinstance(n, ast.Attribute)]
    from_names = [a.name for n in ast.walk(tree) if isinstance(n, ast.ImportFrom) for a in n.names if a.name != "*"]
    star = any(a.name == "*" for n in ast.walk(tree) if isinstance(n, ast.ImportFrom) for a in n.names)
    return imported, loads, attrs, from_names, star


def usednames_suite(ctx):
    main = importlib.import_module("pyrefact.main")
    s = Suite("usednames")
    srcs = CLIENTS + [src for (_sha, src, _f) in sweep.pick(sweep.generated_corpus2(), ctx, 15) + sweep.pick(sweep.example_corpus(), ctx, 25)]
    tmp = Path(tempfile.mkdtemp(prefix="c08_"))
    try:
        reqs, metas = [], []
        for src in srcs:
            try:
                imported, loads, attrs, from_names, star = client_summary(src)
            except SyntaxError:
                continue
            reqs.append({"suite": "preserve", "defs": [], "class_methods": [], "assigns": [], "preserve": [], "used": [], "ns": "", "imported": imported, "loads": loads, "attrs": attrs,
                         "from_names": from_names, "star": star, "all_names": loads})
            metas.append(src)
        answers = ctx.driver.ask(reqs)
        for src, ans in zip(metas, answers):
            s.cases += 1
            p = tmp / "client.py"
            p.write_text(src)
            real = set(main._used_names_in_file(p))
            if set(ans.get("used_names", [])) != real:
                s.disagreements.append({"src": src, "model": sorted(set(ans.get("used_names", []))), "real": sorted(real), "what": "_used_names_in_file differs from the model"})
            if real:
                s.nt(src)
    finally:
        shutil.rmtree(tmp, ignore_errors=True)
    s.samples.append({"suite": "usednames", "client": CLIENTS[1], "used": ["helper", "lib", "maxVal", "sep"]})
    s.note = "10 client modules (from-import, module attribute, alias, star import, attribute access on objects) + corpus programs: _used_names_in_file vs usedNames of the exported summary"
    return s


def stub_format_file(filename, preserve=frozenset(), safe=False):
    p = Path(filename)
    with open(p.parent / "preserve_log.jsonl", "a") as fh:
        fh.write(json.dumps([p.name, sorted(preserve)]) + "\n")
    return 0


def filepreserve_suite(ctx):
    main = importlib.import_module("pyrefact.main")
    s = Suite("filepreserve")
    r = ctx.rng("filepreserve")
    orig = main.format_file
    main.format_file = stub_format_file
    try:
        fixed = [(2, 6), (0, 1), (1, 4), (5, 8), (4, 7), (3, 9)]  # (library template, client using it): the whole tree refactored AND preserved
        for k in range(len(fixed) + ctx.n(10, 80)):
            d = Path(tempfile.mkdtemp(prefix="c08f_"))
            try:
                names = ["lib.py", "client.py", "other.py", "pkgmod.py"]
                if k < len(fixed):
                    texts = {"lib.py": pc.LIB_TEMPLATES[fixed[k][0]], "client.py": CLIENTS[fixed[k][1]], "other.py": CLIENTS[0], "pkgmod.py": pc.LIB_TEMPLATES[0]}
                else:
                    texts = {"lib.py": r.choice(pc.LIB_TEMPLATES), "client.py": r.choice(CLIENTS), "other.py": r.choice(CLIENTS), "pkgmod.py": r.choice(pc.LIB_TEMPLATES)}
                for n in names:
                    (d / n).write_text(texts[n])
                targets = r.sample(names, r.randint(1, 3)) if k >= len(fixed) else list(names)
                preserved = r.sample(names, r.randint(0, 3)) if k >= len(fixed) else list(names)
                main.format_files([d / n for n in targets], preserved_filenames=[d / n for n in preserved], n_cores=r.choice([1, 3]), max_passes=1)
                log = {}
                lp = d / "preserve_log.jsonl"
                if lp.exists():
                    for line in lp.read_text().splitlines():
                        k, v = json.loads(line)
                        log[k] = v
                used = [[main._namespace_name(d / n), sorted(main._used_names_in_file(d / n))] for n in sorted(preserved)]
                reqs = [{"suite": "preserve", "defs": [], "class_methods": [], "assigns": [], "preserve": [], "used": used, "ns": main._namespace_name(d / n), "imported": [], "loads": [], "attrs": []}
                        for n in targets]
                for n, ans in zip(targets, ctx.driver.ask(reqs)):
                    s.cases += 1
                    if sorted(set(ans.get("file_preserve", []))) != log.get(n):
                        s.disagreements.append({"target": n, "targets": targets, "preserved": preserved, "texts": texts, "model": sorted(set(ans.get("file_preserve", []))), "real": log.get(n),
                                                "what": "the preserve set handed to format_file differs from the model"})
                    if n in preserved and len(preserved) > 1:
                        s.nt([n, targets, preserved, texts["lib.py"][:40]])
            finally:
                shutil.rmtree(d, ignore_errors=True)
    finally:
        main.format_file = orig
    s.samples.append({"suite": "filepreserve", "targets": ["lib.py"], "preserved": ["client.py"]})
    s.note = "4-file trees, random target and preserved subsets (overlapping), n_cores 1/3: the preserve set each target file receives (stub format_file, installed before the fork) vs filePreserve; non-trivial = the target is itself preserved together with others"
    return s


def task_preserved(args):
    lib, pres = args
    st, out = oracles.task_format((lib, {"preserve": pres}, "format"))
    if st != "ok":
        return {"status": st}
    try:
        after = pc.surface(out, deep=True)
        defined = {n.split(".")[-1] for n in after} | after
    except SyntaxError:
        return {"status": "invalid"}
    before = {n.split(".")[-1] for n in pc.surface(lib, deep=True)} | pc.surface(lib, deep=True)
    return {"status": "ok", "missing": sorted(n for n in pres if n in before and n not in defined), "out": out}


def preserved_oracle(ctx):
    s = Suite("preserved-survive", kind="oracle")
    r = ctx.rng("preserved")
    base = sweep.baseline("C08")
    cases = []
    for lib in pc.LIB_TEMPLATES:
        surf = sorted({n.split(".")[-1] for n in pc.surface(lib, deep=True)})
        cases.append((lib, surf))
        for _ in range(ctx.n(2, 8)):
            if surf:
                cases.append((lib, r.sample(surf, r.randint(1, len(surf)))))
    for (_sha, src, _fam) in sweep.pick(sweep.generated_corpus2(), ctx, 20):
        try:
            surf = sorted({n.split(".")[-1] for n in pc.surface(src)})
        except SyntaxError:
            continue
        if surf:
            cases.append((src, surf))
    results = oracles.pmap(task_preserved, cases)
    for (lib, pres), res in zip(cases, results):
        s.cases += 1
        if res["status"] != "ok":
            continue
        s.nt([lib, pres])
        missing = [m for m in res["missing"] if sweep.key(oracles.sha(lib), {}, m) not in base]
        if missing:
            s.disagreements.append({"sha": oracles.sha(lib), "src": lib, "preserve": pres, "missing": missing, "out": res["out"],
                                    "what": f"format_code(preserve={pres}) deleted or renamed the preserved name(s) {missing}"})
    s.note = "library templates x (their whole surface | random subsets) and second-wave corpus programs with their surface preserved: every preserved name is still defined"
    return s


def cli_oracle(ctx):
    s = Suite("cli-preserve", kind="oracle")
    pairs = [(0, 0), (0, 1), (0, 2), (1, 4), (1, 5), (2, 6), (4, 7), (5, 8), (3, 9), (0, 10), (5, 11), (8, 12), (7, 13), (6, 14), (11, 15), (0, 16), (0, 17), (5, 18), (13, 19), (14, 20), (15, 21), (16, 22)]
    for li, ci in pairs:
        d = Path(tempfile.mkdtemp(prefix="c08c_"))
        try:
            (d / "lib.py").write_text(pc.LIB_TEMPLATES[li])
            (d / "client.py").write_text(CLIENTS[ci])
            env = dict(os.environ, PYTHONPATH=str(common.REPO))
            before = subprocess.run([sys.executable, "client.py"], cwd=d, capture_output=True, text=True, timeout=60, env=env)
            if before.returncode != 0:
                continue
            s.cases += 1
            s.nt([li, ci])
            subprocess.run([sys.executable, "-m", "pyrefact", "lib.py", "--preserve", "client.py"], cwd=d, capture_output=True, text=True, timeout=300, env=env)
            after = subprocess.run([sys.executable, "client.py"], cwd=d, capture_output=True, text=True, timeout=60, env=env)
            if (after.returncode, after.stdout) != (before.returncode, before.stdout):
                s.disagreements.append({"sha": oracles.sha(pc.LIB_TEMPLATES[li]), "lib": pc.LIB_TEMPLATES[li], "client": CLIENTS[ci], "lib_after": (d / "lib.py").read_text(), "stderr": after.stderr[-300:],
                                        "what": "after `pyrefact lib.py --preserve client.py` the client no longer behaves the same"})
        finally:
            shutil.rmtree(d, ignore_errors=True)
    s.note = "22 (library, client) pairs in a temp dir: client output before vs after the CLI run `python -m pyrefact lib.py --preserve client.py`"
    return s


def suites(ctx):
    common.import_pyrefact()
    return [usednames_suite(ctx), filepreserve_suite(ctx), preserved_oracle(ctx), cli_oracle(ctx)]


def _members(src):
    """member name -> list of (class name, is static method)"""
    out = {}
    for n in ast.walk(ast.parse(src)):
        if isinstance(n, ast.ClassDef):
            for f in n.body:
                if isinstance(f, (ast.FunctionDef, ast.AsyncFunctionDef)):
                    static = any(isinstance(dec, ast.Name) and dec.id == "staticmethod" for dec in f.decorator_list)
                    out.setdefault(f.name, []).append((n.name, static))
                if isinstance(f, (ast.Assign, ast.AnnAssign, ast.AugAssign)):
                    for t in (f.targets if isinstance(f, ast.Assign) else [f.target]):
                        for x in ast.walk(t):
                            if isinstance(x, ast.Name):
                                out.setdefault(x.id, []).append((n.name, False))
    return out


def root_cause(d):
    """the recorded root cause that explains every missing preserved name of a preserved-survive disagreement, or None:
    'member-of-unpreserved-class' (the name is a member, its class is not in the preserve set and was deleted or renamed) /
    'preserved-static-method-moved' (a static method named in the preserve set by its bare name was moved to module level)"""
    try:
        members = _members(d["src"])
        top_after = {n.name for n in ast.parse(d["out"]).body if isinstance(n, (ast.FunctionDef, ast.AsyncFunctionDef))}
        top_before = {x.split(".")[0] for x in pc.surface(d["src"]) if "." not in x}
    except SyntaxError:
        return None
    pres = set(d.get("preserve", []))
    kinds = set()
    for m in d.get("missing", []):
        owners = members.get(m, [])
        if not owners or m in top_before:
            return None
        if any(static for (c, static) in owners):
            kinds.add("preserved-static-method-moved")
        elif all(c not in pres for (c, _s) in owners):
            kinds.add("member-of-unpreserved-class")
        else:
            return None
    return kinds


def match_known(d, known):
    if "preserve" in d and "out" in d and "client" not in d:
        kinds = root_cause(d)
        ids = {k.get("id"): k for k in known if k["kind"] == "finding"}
        if kinds and all(kd in ids for kd in kinds):
            return ids[sorted(kinds)[0]]
    for k in known:
        w = k.get("witness", {}) if k["kind"] == "finding" else {}
        if w and "client" in w and w.get("sha") == d.get("sha") and w.get("client") == d.get("client"):
            return k
        if w and "client" not in w and "client" not in d and w.get("sha") == d.get("sha") and set(d.get("missing", [])) <= set(w.get("missing", [])):
            return k
    return None


def tree_scenario(texts, targets, preserved):
    """run the real format_files on a tree with the given target / preserved subsets; does client.py still behave the same?"""
    main = importlib.import_module("pyrefact.main")
    d = Path(tempfile.mkdtemp(prefix="c08s_"))
    try:
        for n, t in texts.items():
            (d / n).write_text(t)
        env = dict(os.environ, PYTHONPATH=str(common.REPO))
        before = subprocess.run([sys.executable, "client.py"], cwd=d, capture_output=True, text=True, timeout=60, env=env)
        if before.returncode != 0:
            return None
        cwd = os.getcwd()
        os.chdir(d)
        try:
            main.format_files([d / n for n in targets], preserved_filenames=[d / n for n in preserved], n_cores=1, max_passes=2)
        finally:
            os.chdir(cwd)
        after = subprocess.run([sys.executable, "client.py"], cwd=d, capture_output=True, text=True, timeout=60, env=env)
        if (after.returncode, after.stdout) != (before.returncode, before.stdout):
            return {"texts": texts, "targets": targets, "preserved": preserved, "lib_after": (d / "lib.py").read_text(), "stderr": after.stderr[-300:],
                    "what": f"format_files(targets={targets}, preserved={preserved}): client.py no longer behaves the same ({after.stderr.strip().splitlines()[-1][:100] if after.stderr.strip() else 'output differs'})"}
        return None
    finally:
        shutil.rmtree(d, ignore_errors=True)


def search(ctx, breaks):
    common.import_pyrefact()
    found = []
    for b in breaks:
        for d in b.get("inputs", []):
            if "texts" in d and "targets" in d:
                f = tree_scenario(d["texts"], d["targets"], d["preserved"])
                if f:
                    found.append(f)
                    break
    return (found + preserved_oracle(ctx).disagreements + cli_oracle(ctx).disagreements)[:5]


def replay(ctx, inp):
    common.import_pyrefact()
    if "texts" in inp:
        return tree_scenario(inp["texts"], inp["targets"], inp["preserved"]) is not None
    if "preserve" in inp:
        res = task_preserved((inp["src"], inp["preserve"]))
        print(res.get("missing"))
        return bool(res.get("missing"))
    return True
