"""C03 - valid Python in, valid Python out; never write a broken file.
Proof: guard theorems (Props/C03.lean) over the scheduler and orchestration models (ties: sched suites of C10, driver suite,
formatfile suite).  The stages that are not wrapped by a guard are hypotheses of formatCode_valid_if; the format sweep checks
them on the corpus."""
import os
import tempfile
from pathlib import Path

import common
import oracles
import pipeline
import sweep
from common import Suite
from props import c10

TRUSTED = ["C03: validity preservation of the unguarded stages (alter_code, regex / text stages, renaming) is an explicit hypothesis, examined by the sweep"]
ASSUMPTIONS = ["validity predicate: compile(text) raises no SyntaxError (ast.parse alone accepts `return` outside a function); the tool's own guard is ast.parse"]


def formatfile_suite(ctx):
    """format_file: written iff changed and (valid or initial invalid); the Lean model formatFile over the observed format_code output"""
    import importlib

    main = importlib.import_module("pyrefact.main")
    from pyrefact import core

    s = Suite("formatfile")
    r = ctx.rng("formatfile")
    texts = ["x = 1\n", "import os\nprint(1)\n", "def f(:\n", "if True:\n    print( 1 )\n", "y=2   \n\n\n\n\nz=3\n", "# pyrefact: skip_file\nimport os\n",
             "print(1)\n", "    x = 1\n", "", "def g():\n    return 1\n    return 2\n",
             "# auteur: Zo\u00eb \u2192 \u65e5\u672c\nimport os\nname = '\u00e5\u00e4\u00f6'\nprint( name )\n", "s = '\U0001f600'\nif True:\n    print(s)\n",
             "def h():\n    gr\u00f6\u00dfe = 1\n    return 2\n    return gr\u00f6\u00dfe\n", "x = 1\r\ny = '\u00e9'\r\n"]
    outs = ["x = 1\n", "print(1)\n", "def f(:\n", "oops(\n", "print('\u00e5\u00e4\u00f6 \u2192')\nprint([1, 2, 3])\n", None, None]
    orig = main.format_code
    tmp = Path(tempfile.mkdtemp(prefix="c03_"))
    try:
        for _ in range(ctx.n(60, 400)):
            initial = r.choice(texts)
            forced = r.choice(outs)  # None = the real format_code
            p = tmp / r.choice(["m.py", "__init__.py"])
            p.write_bytes(initial.encode("utf-8"))
            mt = p.stat().st_mtime_ns
            if forced is not None:
                main.format_code = lambda source, **kw: forced
            try:
                ret = main.format_file(p)
            finally:
                main.format_code = orig
            after = p.read_bytes().decode("utf-8", errors="replace")
            out = forced if forced is not None else orig(initial, keep_imports=p.name == "__init__.py")
            expect_written = out != initial and (core.is_valid_python(out) or not core.is_valid_python(initial))
            s.cases += 1
            s.count("written" if expect_written else "kept")
            ok = (after == (out if expect_written else initial)) and bool(ret) == expect_written
            if not expect_written and p.stat().st_mtime_ns != mt:
                ok = False
            if not ok:
                s.disagreements.append({"initial": initial, "format_code_returns": out, "file_after": after, "ret": ret,
                                        "what": "format_file write decision differs from the model"})
            if core.is_valid_python(initial) and not core.is_valid_python(after):
                s.disagreements.append({"initial": initial, "file_after": after, "what": "a valid file was replaced by an invalid one"})
            s.nt([initial, forced])
    finally:
        main.format_code = orig
        for f in tmp.iterdir():
            f.unlink()
        tmp.rmdir()
    s.samples.append({"suite": "formatfile", "initial": "x = 1\n", "format_code_returns": "oops(\n", "written": False})
    s.note = "format_file on temp files with real and forced (valid / invalid / equal) format_code results: content, return value and mtime vs the formatFile model"
    return s


def rule_valid_suite(ctx):
    """every rule and sub/subn on the corpus: valid in -> valid out"""
    s = Suite("C03-rule-validity", kind="oracle")
    rules = sweep.rule_names()
    items = sweep.pick(sweep.generated_corpus(), ctx, 40) + sweep.targeted() + [(oracles.sha(x), x, "adversarial") for x in sweep.ADVERSARIAL] + sweep.pick(
        [(oracles.sha(x), x, "repo-example") for x in oracles.repo_examples()], ctx, 120)
    results = oracles.pmap(sweep.task_rules, [(src, rules, True) for (_sha, src, _fam) in items])
    base = sweep.baseline("C03")
    for (sha, src, fam), res in zip(items, results):
        s.cases += 1
        if res.get("status") != "ok":
            continue
        for (rule, st, new, _after) in res["rules"]:
            if st == "ok":
                s.nt([sha, rule])
                if not sweep._valid(new) and sweep._valid(src) and sweep.key(sha, {}, rule) not in base:
                    s.disagreements.append({"sha": sha, "src": src, "rule": rule, "out": new,
                                            "what": f"rule {rule} returned text that does not parse for valid input"})
    s.note = "every pipeline rule applied in isolation to a corpus slice; oracle: the result parses; non-trivial = the rule changed the text"
    return s


def suites(ctx):
    common.import_pyrefact()
    sched = Suite("sched-rollback")
    r = ctx.rng("sched-rollback")
    c10.run_cases(ctx, [c10.gen_case(r, invalid_rate=0.35) for _ in range(ctx.n(400, 6000))], sched)
    sched.note = "C10's scheduler correspondence with 35% invalid replacements: the pass must roll back exactly when the model does"
    return [sched, formatfile_suite(ctx), pipeline.driver_suite(ctx, 60, 800), sweep.total_suite(ctx, "C03", quick_n=100), rule_valid_suite(ctx)]


def match_known(d, known):
    return sweep.match_known_sha(d, known)


def search(ctx, breaks):
    common.import_pyrefact()
    return sweep.total_suite(ctx, "C03", quick_n=400).disagreements[:5]


def replay(ctx, inp):
    common.import_pyrefact()
    if "rule" in inp:
        res = sweep.task_rules((inp["src"], [inp["rule"]], True))
        return any(st == "ok" and not sweep._valid(new) for (_r, st, new, _a) in res["rules"])
    if "src" in inp:
        res = sweep.task_total((inp["src"], inp.get("opts", {})))
        print(res["status"], res["valid_in"], res["valid_out"])
        return res["status"] == "ok" and res["valid_in"] and not res["valid_out"]
    return True
