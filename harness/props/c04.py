"""C04 - the formatter is total.
Proof: pass budgets and early returns (Props/C04.lean) over the orchestration model (driver suite incl. cyclic and
non-converging stub systems).  'No Python exception anywhere' is not a theorem of any model: it is examined by the format
sweep in isolated worker processes with a wall-clock limit."""
import common
import pipeline
import sweep

TRUSTED = ["C04: absence of exceptions in ~11000 lines of rule code is examined by the sweep only"]
ASSUMPTIONS = ["wall-clock limit 60 s per format_code call, hard kill after 150 s"]


def suites(ctx):
    common.import_pyrefact()
    return [pipeline.driver_suite(ctx), sweep.total_suite(ctx, "C04", quick_n=130)]


def match_known(d, known):
    return sweep.match_known_sha(d, known)


def replay_witness(ctx, kf):
    common.import_pyrefact()
    w = kf["witness"]
    if "src" not in w:
        return None
    return sweep.task_total((w["src"], w.get("opts", {})))["status"] != "ok"


def search(ctx, breaks):
    common.import_pyrefact()
    return sweep.total_suite(ctx, "C04", quick_n=400).disagreements[:5]


def replay(ctx, inp):
    common.import_pyrefact()
    res = sweep.task_total((inp["src"], inp.get("opts", {})))
    print(res["status"], res.get("detail"))
    return res["status"] != "ok"
