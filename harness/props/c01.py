"""C01 - whole-pipeline refactoring preserves program behaviour.
Proof: composition (Props/C01.lean) over the orchestration model tied by the `driver` suite; the per-stage hypothesis is
carried by the C02/C15/C16/C17 theorems for the modelled rules and examined by the curated execution sweep for all rules."""
import common
import oracles
import pipeline
import sweep

TRUSTED = ["C01: CPython exec() as the meaning of programs; the stub world for open repository snippets",
           "C01: per-rule behaviour preservation is a theorem only for the modelled rules (see C02 evidence)"]
ASSUMPTIONS = ["programs are closed, deterministic, terminating (generated corpus) or run in the deterministic stub world (repository examples)"]


def suites(ctx):
    common.import_pyrefact()
    return [pipeline.driver_suite(ctx), sweep.behaviour_suite(ctx, "C01", quick_n=110)]


def match_known(d, known):
    return sweep.match_known_sha(d, known)


def replay_witness(ctx, kf):
    common.import_pyrefact()
    w = kf["witness"]
    if "src" not in w:
        return None
    res = oracles.task_behaviour((w["src"], dict(w.get("opts", {})), "format", False))
    return sweep.judge_behaviour(res) is not None


def search(ctx, breaks):
    """orchestration broke: look for a program whose behaviour changes (thorough slice of the sweep)"""
    common.import_pyrefact()
    ctx.thorough = False
    s = sweep.behaviour_suite(ctx, "C01", quick_n=300)
    return s.disagreements[:5]


def replay(ctx, inp):
    common.import_pyrefact()
    res = oracles.task_behaviour((inp["src"], dict(inp.get("opts", {})), "format", inp.get("family") == "repo-example"))
    why = sweep.judge_behaviour(res)
    print(why)
    return why is not None
