"""C09 - repeated formatting converges and never oscillates.
Proof: orchestration facts (Props/C09.lean): loop exit reasons, stable texts stay, the cycle cut returns a member of the
cycle, fix's history asymmetry.  Confluence / termination of ~95 heuristic rules is not a theorem: the iteration sweep
applies format_code seven times on the corpus."""
import common
import oracles
import pipeline
import sweep
from common import Suite

TRUSTED = ["C09: convergence of the rule set itself is examined by the iteration sweep only"]
ASSUMPTIONS = []


def width_programs():
    """statements whose joined length lies just beyond the line limit, at nesting depths where the limit handed to the code
    formatter for a nested statement (the limit minus the indentation, with its lower bound) differs from the enclosing one's"""
    out = []
    blocks = ["if flag:", "for item in items:", "while flag:", "with ctx() as c:", "try:"]
    for depth in (0, 1, 2, 5, 6, 10, 11, 12):
        indent = 4 * depth
        for width in (60, 80, 100):
            lengths = sorted({width + 1, width + 3, 60 + indent - 1, 60 + indent, 60 + indent + 2})
            for total in lengths:
                if total <= width or total - indent < 30:
                    continue
                for shape in range(2):
                    room = total - indent
                    if shape == 0:  # a call with several arguments
                        head, tail = "value = compute(", ")"
                        args, k = [], 0
                        while len(head + ", ".join(args) + tail) < room:
                            args.append(f"argument_{k}")
                            k += 1
                        stmt = head + ", ".join(args) + tail
                        stmt = (stmt[: room - 1].rstrip(" +,(_") + ")") if len(stmt) > room else stmt
                    else:  # a chain of additions
                        terms, k = ["total_0"], 1
                        while len("emit(" + " + ".join(terms) + ")") < room:
                            terms.append(f"term_{k}")
                            k += 1
                        stmt = "emit(" + " + ".join(terms) + ")"
                        stmt = (stmt[: room - 1].rstrip(" +,(_") + ")") if len(stmt) > room else stmt
                    lines, ind = ["def work(flag, items, ctx):"], 4
                    body_depth = max(depth - 1, 0)
                    for d in range(body_depth):
                        lines.append(" " * ind + blocks[d % len(blocks)])
                        ind += 4
                    if depth == 0:
                        lines = []
                        ind = 0
                    lines.append(" " * ind + stmt)
                    closing = []
                    j = ind
                    for d in reversed(range(body_depth)):
                        j -= 4
                        if blocks[d % len(blocks)] == "try:":
                            closing.append(" " * j + "except ValueError:")
                            closing.append(" " * (j + 4) + "raise")
                    prog = "\n".join(lines + closing) + "\n" + ("\n\nwork(True, [1], open)\n" if depth else "")
                    try:
                        compile(prog, "<w>", "exec")
                    except SyntaxError:
                        continue
                    out.append((prog, width))
    return list(dict.fromkeys(out))


def width_suite(ctx):
    s = Suite("C09-line-limit", kind="oracle")
    cases = []
    for (prog, width) in width_programs():
        for o in ({"max_line_length": width}, {"max_line_length": width, "safe": True}):
            cases.append((prog, o))
    results = oracles.pmap(oracles.task_iterate, [(src, dict(o), 7) for (src, o) in cases])
    for (src, o), res in zip(cases, results):
        s.cases += 1
        if res[0] != "ok":
            continue
        texts = res[1]
        if texts[1] != texts[0]:
            s.nt([src, o])
        s.count("width=%d" % o["max_line_length"])
        if texts[5] != texts[6] or texts[6] != texts[7]:
            s.disagreements.append({"sha": oracles.sha(src), "src": src, "opts": o, "family": "line-limit", "texts": texts[4:],
                                    "what": f"format_code(opts={o}) is not a fixed point after 5 applications (line limit family)"})
    s.note = ("one long statement (a call with many arguments / a chain of additions) whose joined length lies 1-3 columns beyond the line limit or around 60 + indentation, at nesting depths 0-12 inside "
              "if / for / while / with / try blocks, x line limits 60 / 80 / 100 x {default, safe}: x, f(x), ..., f^7(x); oracle f^5 = f^6 = f^7; non-trivial = the first application changes the text")
    return s


def branch_pool():
    """statement lists for one branch of an if: pass-only, plain, blocking (return / raise / continue), starting with a jump, with nested ifs, long"""
    simple = ["x = 1", "print(x)", "y = x + 1", "z = y * 2"]
    out = [["pass"], ["pass", "pass"], ["x = 1"], ["x = 1", "pass"], ["return x"], ["return"], ["continue"], ["break"], ["raise ValueError(x)"],
           ["x = 1", "return x"], ["print(x)", "y = 2", "z = 3", "w = 4"], ["print(x)", "y = 2", "z = 3", "w = 4", "return w"], ["print(x)", "y = 2", "z = 3", "return z"],
           ["if x:\n    y = 1", "z = 2"], ["if x:\n    return 1\nelse:\n    return 2"], ["if x:\n    y = 1\nif y:\n    z = 1\nif z:\n    w = 1", "return w"],
           ["if x:\n    if y:\n        return 1\n    return 2\nreturn 3"], ["return x", "print('dead')", "y = 2", "z = 3"], ["continue", "x = 1"], ["a = 1", "b = 2", "c = 3", "d = 4", "e = 5"],
           ["if x:\n    raise KeyError(x)", "if y:\n    raise ValueError(y)", "return x"], ["while x:\n    x -= 1", "return x"], ["for i in x:\n    return i"], ["with x:\n    return 1"]]
    return out + [simple[:k] for k in (2, 3, 4)]


def orient_suite(ctx):
    """fixes._orelse_preferred_as_body on every pair of branches of the pool vs Orient.preferOrelse on their summaries (computed with the real
    is_blocking / _count_branches); and the theorem's statement observed on the real function"""
    import ast
    import textwrap

    from pyrefact import core, fixes

    s = Suite("orient")
    pool = branch_pool()

    def parse_branch(stmts):
        src = "def f(x, y, z, w):\n    for _ in x:\n" + textwrap.indent("\n".join(stmts), "        ") + "\n"
        return ast.parse(src).body[0].body[0].body

    def summary(nodes):
        return [all(isinstance(n, ast.Pass) for n in nodes), any(core.is_blocking(n) for n in nodes), fixes._count_branches(nodes),
                isinstance(nodes[0], (ast.Return, ast.Continue, ast.Break)), len(nodes)]
    parsed = [parse_branch(b) for b in pool]
    sums = [summary(n) for n in parsed]
    reqs, metas = [], []
    for i in range(len(pool)):
        for j in range(len(pool)):
            reqs.append({"suite": "orient", "body": sums[i], "orelse": sums[j]})
            metas.append((i, j))
    answers = ctx.driver.ask(reqs)
    for (i, j), ans in zip(metas, answers):
        s.cases += 1
        real = bool(fixes._orelse_preferred_as_body(parsed[i], parsed[j]))
        back = bool(fixes._orelse_preferred_as_body(parsed[j], parsed[i]))
        if ans.get("prefer") != real:
            s.disagreements.append({"body": pool[i], "orelse": pool[j], "model": ans.get("prefer"), "real": real, "what": "_orelse_preferred_as_body differs from the model"})
        sane = all((not sm[3] or (sm[4] <= 1 and sm[2] == 1)) and sm[2] >= 1 for sm in (sums[i], sums[j])) and not (sums[i][0] and sums[j][0])
        s.count("prefers-else" if real else "keeps")
        if real:
            s.nt([i, j])
        if sane and real and back:
            s.disagreements.append({"body": pool[i], "orelse": pool[j], "what": "the heuristic prefers both orders of two sane branches (contradicts C09.orientation_antisymmetric on the real function)"})
    s.samples.append({"suite": "orient", "body": ["print(x)", "y = 2", "z = 3", "w = 4"], "orelse": ["return x"], "prefer_else_first": True})
    s.note = ("every ordered pair of 27 branches (pass-only, plain, blocking by return / raise / continue / loops, starting with a jump, with nested ifs, with dead code, of length 1-5): "
              "fixes._orelse_preferred_as_body(body, orelse) vs Orient.preferOrelse on the summaries (all-pass, blocking, branch count, leading jump, length - measured with the real is_blocking / _count_branches); "
              "and no pair of sane branches is preferred in both orders; non-trivial = the else branch is preferred")
    return s


def suites(ctx):
    common.import_pyrefact()
    return [pipeline.driver_suite(ctx), orient_suite(ctx), sweep.converge_suite(ctx, quick_n=70), width_suite(ctx)]


def match_known(d, known):
    return sweep.match_known_sha(d, known)


def search(ctx, breaks):
    common.import_pyrefact()
    return (width_suite(ctx).disagreements + sweep.converge_suite(ctx, quick_n=250).disagreements)[:5]


def replay(ctx, inp):
    import oracles

    common.import_pyrefact()
    res = oracles.task_iterate((inp["src"], dict(inp.get("opts", {})), 7))
    if res[0] != "ok":
        return False
    t = res[1]
    print([len(x) for x in t])
    return t[5] != t[6] or t[6] != t[7]
