"""C09 - repeated formatting converges and never oscillates.
Proof: orchestration facts (Props/C09.lean): loop exit reasons, stable texts stay, the cycle cut returns a member of the
cycle, fix's history asymmetry.  Confluence / termination of ~95 heuristic rules is not a theorem: the iteration sweep
applies format_code seven times on the corpus."""
import common
import pipeline
import sweep

TRUSTED = ["C09: convergence of the rule set itself is examined by the iteration sweep only"]
ASSUMPTIONS = []


def suites(ctx):
    common.import_pyrefact()
    return [pipeline.driver_suite(ctx), sweep.converge_suite(ctx, quick_n=70)]


def match_known(d, known):
    return sweep.match_known_sha(d, known)


def search(ctx, breaks):
    common.import_pyrefact()
    return sweep.converge_suite(ctx, quick_n=250).disagreements[:5]


def replay(ctx, inp):
    import oracles

    common.import_pyrefact()
    res = oracles.task_iterate((inp["src"], dict(inp.get("opts", {})), 7))
    if res[0] != "ok":
        return False
    t = res[1]
    print([len(x) for x in t])
    return t[5] != t[6] or t[6] != t[7]
