"""C09 - repeated formatting converges (placeholder while the shared driver suite is validated)."""
import common
import pipeline

TRUSTED = []
ASSUMPTIONS = []


def suites(ctx):
    return [pipeline.driver_suite(ctx)]
