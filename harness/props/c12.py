"""C12 - pattern matching agrees with its declarative semantics.

Ties: suite `perms` (core._iter_template_permutations vs C12.perms, exhaustive small scope), suite `match`
(core.match_template vs C12.matchT on exported generic trees: every template the rules pass to the matcher while formatting
a sample - harvested at run time by wrapping core.walk_wildcard from the harness - plus compiled pattern strings, against
nodes of corpus programs).  Oracle: an independent brute-force matcher for flat argument-list patterns (regular-expression
reading by exhaustive splitting), and 'every tree matches itself' / finditer = exactly the matching nodes."""
from __future__ import annotations

import ast
import itertools
import json
import re

import common
import oracles
import sweep
from common import Suite

TRUSTED = ["C12: compile_template's text preprocessing ({{...}} placeholders) is exercised only through the tie (compiled templates are exported from the real compiler)",
           "C12: Python `==` between a template literal and an atom is modelled as equality of `type:repr` (1 == True is outside the fragment)"]
ASSUMPTIONS = ["bindings are compared by canonical text (core.unparse), as merge_matches does"]

QS = ["one", "opt", "star", "plus"]


def perms_suite(ctx):
    from pyrefact import core

    s = Suite("perms")
    mk = {"one": lambda t: t, "opt": core.ZeroOrOne, "star": core.ZeroOrMany, "plus": core.OneOrMany}
    reqs, metas = [], []
    maxq, maxn = (4, 6) if ctx.thorough else (3, 5)
    for k in range(0, maxq + 1):
        for qs in itertools.product(QS, repeat=k):
            for n in range(0, maxn + 1):
                reqs.append({"suite": "perms", "qs": list(qs), "n": n})
                metas.append((qs, n))
    answers = ctx.driver.ask(reqs)
    for (qs, n), ans in zip(metas, answers):
        s.cases += 1
        tmpl = [mk[q](ast.Name(id=f"t{i}")) for i, q in enumerate(qs)]
        real = []
        for perm in core._iter_template_permutations(tmpl, n):
            # recover the counts from the expanded template list
            counts = [sum(1 for x in perm if x.id == f"t{i}") for i in range(len(qs))]
            real.append(counts)
        if ans.get("perms") != real:
            s.disagreements.append({"qs": qs, "n": n, "model": ans.get("perms"), "real": real, "what": "_iter_template_permutations differs (set or order)"})
        if len(real) > 1:
            s.nt([qs, n])
    s.samples.append({"suite": "perms", "qs": ["star", "one", "star"], "n": 3, "perms": [[0, 1, 2], [1, 1, 1], [2, 1, 0]]})
    s.note = f"all quantifier lists up to length {maxq} x all lengths 0..{maxn}: the repetition vectors tried, element for element and in order; non-trivial = more than one vector"
    return s


# ---------------------------------------------------------------------------------------------- export

def atom(v):
    return ["atom", f"{type(v).__name__}:{v!r}"]


def exp_val(v, ignore):
    from pyrefact import core

    if isinstance(v, ast.AST):
        fields = [[k, exp_val(x, ignore)] for k, x in vars(v).items() if k not in ignore]
        try:
            key = core.unparse(v)
        except Exception:  # noqa: BLE001
            key = f"<{type(v).__name__}@{id(v)}>"
        fields.append(["__key__", ["atom", key]])
        return ["node", type(v).__name__, fields]
    if isinstance(v, list):
        return ["list", [exp_val(x, ignore) for x in v]]
    return atom(v)


class Unsupported(Exception):
    pass


def exp_tm(t, ignore):
    from pyrefact import core

    if isinstance(t, type):
        return ["ty", [t.__name__]]
    if isinstance(t, tuple):
        return ["alt", [exp_tm(x, ignore) for x in t]]
    if isinstance(t, (set, frozenset)):
        items = sorted((exp_tm(x, ignore) for x in t), key=json.dumps)
        if any("wild" in json.dumps(i) for i in items) and len(items) > 1:
            raise Unsupported("set of wildcard templates: iteration order of the set matters")
        return ["set", items]
    if isinstance(t, list):
        items = []
        for x in t:
            if isinstance(x, core.ZeroOrOne):
                items.append(["opt", exp_tm(x.template, ignore)])
            elif isinstance(x, core.ZeroOrMany):
                items.append(["star", exp_tm(x.template, ignore)])
            elif isinstance(x, core.OneOrMany):
                items.append(["plus", exp_tm(x.template, ignore)])
            else:
                items.append(["one", exp_tm(x, ignore)])
        return ["seq", items]
    if isinstance(t, core.Wildcard):
        if t.name == "Ellipsis_anything" and t.template is object:
            return ["anything"]
        if t.template is object:
            return ["wild", t.name, ["anything"]]
        return ["wild", t.name, exp_tm(t.template, ignore)]
    if isinstance(t, (core.ZeroOrOne, core.ZeroOrMany, core.OneOrMany)):
        raise Unsupported("quantifier outside a list")
    if isinstance(t, ast.AST):
        return ["node", type(t).__name__, [[k, exp_tm(x, ignore)] for k, x in vars(t).items() if k not in ignore]]
    if isinstance(t, (bool, type(None))) or isinstance(t, (int, float)) and not isinstance(t, bool) and t in (0, 1):
        if isinstance(t, (int, float)) and not isinstance(t, bool):
            raise Unsupported("numeric literal 0/1 compares equal to a bool")
    return ["lit", atom(t)[1]]


def hierarchy():
    h = {}
    for name in dir(ast):
        c = getattr(ast, name)
        if isinstance(c, type) and issubclass(c, ast.AST):
            h[name] = [b.__name__ for b in c.__mro__]
    for c in (int, str, bool, float, type(None), bytes, complex, type(Ellipsis), tuple, list, object):
        h[c.__name__] = [b.__name__ for b in c.__mro__]
    return h


def real_match(node, template, ignore):
    from pyrefact import core

    try:
        m = core.match_template(node, template, ignore=ignore)
    except Exception as ex:  # noqa: BLE001
        return "EXC:" + type(ex).__name__
    if not m:
        return None
    out = {}
    if hasattr(m, "_asdict"):
        for k, v in m._asdict().items():
            if k == "root":
                continue
            out[k] = core.unparse(v) if isinstance(v, ast.AST) else ("[" + ", ".join(core.unparse(x) if isinstance(x, ast.AST) else atom(x)[1] for x in v) + "]" if isinstance(v, list) else atom(v)[1])
    return out


FOCUS = ("f(a, 'a')\nf(1, '1')\nf(None, 'None')\nf(a.b, 'a.b')\nf(-1, '-1')\nf('a', 'a')\nf(a, a)\nf(1, 1)\nf(1, 1.0)\nf(True, 1)\n[a, 'a']\n[b, b]\n(p, 'p', p)\n(p, q, p)\n"
         "a + 'a'\na + a\n'1' + 1\nf(x, k=x)\nf(x, k='x')\n")
PATTERNS = ["f({{x}}, {{x}})", "f({{x}}, k={{x}})", "{{x}}", "{{x}} + {{y}}", "{{x}} + {{x}}", "f({{x}})", "f({{x}}, {{y}})", "{{f}}({{x}})", "{{f}}({{...*}})", "f({{x*}})", "f({{x?}}, 1)", "f({{x+}})",
            "f({{...*}}, {{x}}, {{...*}})", "[{{...*}}, 0, {{...?}}]", "[{{x}}, {{x}}]", "({{x}}, {{y}}, {{x}})", "{{x}} = {{y}}", "x = {{value}}",
            "{{a}}.{{b}}", "{{a}}[{{i}}]", "not {{c}}", "{{x}} if {{c}} else {{y}}", "print({{...*}})", "{{a}} < {{b}} < {{c}}", "lambda: {{x}}",
            "return {{x}}", "for {{i}} in {{it}}:\n    {{...*}}", "if {{c}}:\n    {{body*}}", "if {{c}}:\n    {{...+}}\nelse:\n    {{...+}}", "{{x}}.append({{y}})",
            "sorted({{x}}, reverse={{r}})", "{{x}} and {{y}}", "[{{e}} for {{v}} in {{it}}]", "{{d}}[{{k}}] = {{v}}", "{{x}} += 1", "f({{x}}, k={{y}})"]


def harvest_templates(limit_sources=25):
    """every template handed to core.walk_wildcard while the pipeline formats a sample of the corpus"""
    from pyrefact import core
    import pyrefact

    calls = []
    orig = core.walk_wildcard

    def spy(scope, node_template, ignore=()):
        calls.append((node_template, tuple(ignore)))
        return orig(scope, node_template, ignore=ignore)
    core.walk_wildcard = spy
    try:
        for (_sha, src, _fam) in (sweep.generated_corpus()[:limit_sources] + sweep.example_corpus()[:limit_sources]):
            try:
                pyrefact.format_code(src)
            except Exception:  # noqa: BLE001
                pass
    finally:
        core.walk_wildcard = orig
    return calls


def match_suite(ctx):
    from pyrefact import core

    s = Suite("match")
    r = ctx.rng("match")
    hier = hierarchy()
    templates = []
    seen = set()
    skipped = 0
    for (t, ig) in harvest_templates(8 if not ctx.thorough else 40):
        ignore = set(core.DEFAULT_IGNORE) | set(ig) | {"ctx"} if False else set(core.DEFAULT_IGNORE) | set(ig)
        try:
            et = exp_tm(t, ignore)
        except Unsupported:
            skipped += 1
            continue
        k = json.dumps(et) + repr(sorted(ignore))
        if k not in seen:
            seen.add(k)
            templates.append((t, et, frozenset(ignore), "harvested"))
    for p in PATTERNS:
        try:
            t = core.compile_template(p)
        except Exception:  # noqa: BLE001
            continue
        if isinstance(t, list) and len(t) == 1:
            t = t[0]
        ignore = set(core.DEFAULT_IGNORE)
        try:
            et = exp_tm(t, ignore)
        except Unsupported:
            skipped += 1
            continue
        templates.append((t, et, frozenset(ignore), "pattern"))
    nodes = []
    srcs = [src for (_s, src, _f) in sweep.pick(sweep.generated_corpus(), ctx, 10) + sweep.pick(sweep.example_corpus(), ctx, 25)]
    srcs += ["f(1, 2)\nf(x)\ng([1, 2, 3], 2)\n[5, 6, 0]\n[a, a]\n(p, q, p)\nx = 1\ny = 2\na.b\na[0]\nnot z\nprint()\nprint(1, 2, 3)\nf(1, k=2)\nx += 1\nd[k] = v\n1 + 1\n1 + 2\nif c:\n    pass\n"]
    for src in srcs:
        try:
            nodes += list(ast.walk(ast.parse(src)))
        except SyntaxError:
            pass
    r.shuffle(nodes)
    nodes = nodes[: ctx.n(260, 1500)]
    # always present: repeated-wildcard candidates where one binding is a string whose text is the other binding's source
    focus = [n for n in ast.walk(ast.parse(FOCUS)) if isinstance(n, (ast.Call, ast.List, ast.Tuple, ast.BinOp))]
    nodes = focus + nodes
    exported = [None] * len(nodes)
    reqs, metas = [], []
    for (t, et, ignore, origin) in templates:
        for i, node in enumerate(list(range(len(focus))) + r.sample(range(len(focus), len(nodes)), min(len(nodes) - len(focus), ctx.n(60, 400)))):
            n = nodes[node]
            ev = exp_val(n, ignore)
            reqs.append({"suite": "match", "val": ev, "tmpl": et, "hier": hier})
            metas.append((t, et, ignore, origin, n))
    answers = ctx.driver.ask(reqs)
    for (t, et, ignore, origin, n), ans in zip(metas, answers):
        s.cases += 1
        real = real_match(n, t, ignore)
        if isinstance(real, str):
            continue
        if "m" not in ans:
            s.disagreements.append({"tmpl": et, "node": ast.dump(n)[:200], "what": "driver refused", "model": ans})
            continue
        model = {k: v for k, v in ans["b"]} if ans["m"] else None
        s.count(origin + (":match" if real is not None else ":no"))
        if (model is None) != (real is None) or (model is not None and model != real):
            s.disagreements.append({"tmpl": et, "node": ast.dump(n)[:300], "src": ast.unparse(n)[:200] if hasattr(n, "lineno") else "", "model": model, "real": real,
                                    "origin": origin, "what": "match_template differs from the model (match / bindings)"})
        if real is not None:
            s.nt([json.dumps(et)[:300], ast.dump(n)[:300]])
            if len(s.samples) < 2 and real:
                s.samples.append({"suite": "match", "template": json.dumps(et)[:300], "node": ast.unparse(n)[:120], "bindings": real})
    s.note = (f"{len(templates)} templates ({sum(1 for x in templates if x[3] == 'harvested')} harvested from the running pipeline, {skipped} skipped as outside the fragment, "
              f"{sum(1 for x in templates if x[3] == 'pattern')} compiled pattern strings) x sampled nodes of corpus programs: match / no match and bindings as canonical text; "
              "non-trivial = a match")
    return s


# ---------------------------------------------------------------------------------------------- oracle

def brute_force(items, elems):
    """regular-expression reading of a flat argument list pattern by exhaustive splitting.
    items: list of (quant, kind) with kind in {'any', ('name', n), ('lit', text)}; elems: list of texts.
    returns True iff some assignment of one text per name exists"""
    def go(i, j, env):
        if i == len(items):
            return j == len(elems)
        q, kind = items[i]
        lo, hi = {"one": (1, 1), "opt": (0, 1), "star": (0, len(elems)), "plus": (1, len(elems))}[q]
        for k in range(lo, min(hi, len(elems) - j) + 1):
            env2 = dict(env)
            ok = True
            for e in elems[j:j + k]:
                if kind == "any":
                    continue
                if kind[0] == "lit":
                    if e != kind[1]:
                        ok = False
                        break
                else:
                    # a quantified named wildcard binds the list; a plain one binds one text
                    pass
            if ok and kind != "any" and kind[0] == "name":
                val = tuple(elems[j:j + k]) if q != "one" else elems[j]
                if kind[1] in env2 and env2[kind[1]] != val:
                    ok = False
                env2[kind[1]] = val
            if ok and go(i + 1, j + k, env2):
                return True
        return False
    return go(0, 0, {})


def flat_oracle(ctx):
    from pyrefact import core, pattern_matching

    s = Suite("flat-list-oracle", kind="oracle")
    kinds = [("one", "any", "{{...}}"), ("opt", "any", "{{...?}}"), ("star", "any", "{{...*}}"), ("plus", "any", "{{...+}}"), ("one", ("name", "x"), "{{x}}"),
             ("one", ("name", "y"), "{{y}}"), ("one", ("lit", "0"), "0"), ("one", ("lit", "1"), "1")]
    alphabet = ["0", "1", "2"]
    maxk, maxn = (3, 4) if ctx.thorough else (3, 3)
    for k in range(1, maxk + 1):
        for combo in itertools.product(kinds, repeat=k):
            names = [c[1][1] for c in combo if c[1] != "any" and c[1][0] == "name"]
            pat = "g(" + ", ".join(c[2] for c in combo) + ")"
            try:
                core.compile_template(pat)
            except Exception:  # noqa: BLE001
                continue
            for n in range(0, maxn + 1):
                for elems in itertools.product(alphabet, repeat=n):
                    if not ctx.thorough and (hash((pat, elems)) % 7):
                        continue
                    src = "g(" + ", ".join(elems) + ")"
                    s.cases += 1
                    try:
                        real = bool(pattern_matching.findall(pat, src))
                    except Exception as ex:  # noqa: BLE001
                        s.disagreements.append({"pattern": pat, "source": src, "what": f"findall raised {ex!r}"})
                        continue
                    want = brute_force([(c[0], c[1]) for c in combo], list(elems))
                    if real:
                        s.nt([pat, src])
                    if real != want:
                        s.disagreements.append({"pattern": pat, "source": src, "real": real, "reference": want,
                                                "what": f"pattern {pat!r} on {src!r}: matcher says {real}, the regular-expression reading says {want}"})
    # every piece of code matches itself; finditer reports exactly the nodes match_template accepts
    for (_sha, src, _fam) in sweep.pick(sweep.example_corpus(), ctx, 30):
        try:
            tree = ast.parse(src)
        except SyntaxError:
            continue
        for node in list(ast.walk(tree))[:40]:
            if not isinstance(node, (ast.expr, ast.stmt)):
                continue
            s.cases += 1
            if not core.match_template(node, node):
                s.disagreements.append({"source": ast.unparse(node)[:200], "what": "a syntax tree does not match itself"})
    for pat, src in [(("x = {{value}}", "y = {{value}}"), "x = 1\ny = 2\ny = a + 1\nz = 3\n"), ("{{f}}({{x}})", "f(1).y = 3\ng(2)\nh(i(3))\n")]:
        s.cases += 1
        tmpl = tuple(core.compile_template(p) for p in pat) if isinstance(pat, tuple) else core.compile_template(pat)
        tree = ast.parse(src)
        want = sorted((n.lineno, n.col_offset) for n in ast.walk(tree) if hasattr(n, "lineno") and core.match_template(n, tmpl))
        got = sorted((m.groups[0].lineno, m.groups[0].col_offset) for m in pattern_matching.finditer(pat, src))
        if got != want:
            s.disagreements.append({"pattern": pat, "source": src, "real": got, "reference": want, "what": "finditer does not report exactly the nodes that match"})
    s.note = ("flat argument-list patterns of <= 3 items over 8 item kinds x all sources of <= 3-4 elements over a 3-letter alphabet against a brute-force "
              "regular-expression matcher; self-match of corpus nodes; finditer = the set of matching nodes for tuple patterns")
    return s


def self_suite(ctx):
    """tie of `match_self`: a syntax tree exported as a template is what the theorem calls asTm (atoms -> literals, lists -> single items,
    nodes -> node templates): the model accepts it against the tree itself with no bindings, and so does the real matcher"""
    from pyrefact import core

    s = Suite("self")
    r = ctx.rng("self")
    hier = hierarchy()
    ignore = set(core.DEFAULT_IGNORE)
    nodes = []
    for (_sha, src, _f) in sweep.pick(sweep.generated_corpus(), ctx, 6) + sweep.pick(sweep.example_corpus(), ctx, 20):
        try:
            nodes += [n for n in ast.walk(ast.parse(src)) if isinstance(n, (ast.expr, ast.stmt))]
        except SyntaxError:
            pass
    r.shuffle(nodes)
    nodes = [n for n in nodes if len(ast.dump(n)) < 3000][: ctx.n(400, 4000)]
    reqs, metas = [], []
    for n in nodes:
        try:
            reqs.append({"suite": "match", "val": exp_val(n, ignore), "tmpl": exp_tm(n, ignore), "hier": hier})
            metas.append(n)
        except Unsupported:
            continue
    for n, ans in zip(metas, ctx.driver.ask(reqs)):
        s.cases += 1
        s.nt(ast.dump(n)[:300])
        real = real_match(n, n, ignore)
        if isinstance(real, str):
            continue
        model = {k: v for k, v in ans["b"]} if ans.get("m") else None
        if model != {} or real != {}:
            s.disagreements.append({"src": ast.unparse(n)[:200], "model": model, "real": real, "what": "a syntax tree used as its own template: model / real matcher do not both accept it with no bindings"})
    s.note = "expression and statement nodes of corpus programs exported both as tree and as template: the model and core.match_template accept the pair with empty bindings"
    return s


# ---------------------------------------------------------------------------------------------- statement sequences

SEQ_ATOMS = ["t = 1", "t = 2", "u = 1", "u = 2", "z = 0", "t = 1", "t = 2", "w = u"]


def seq_block(r, depth, indent):
    pad = "    " * indent
    lines = []
    for _ in range(r.choice([1, 2, 2, 3, 3, 4])):
        x = r.random()
        if depth == 0 or x < 0.55:
            lines.append(pad + r.choice(SEQ_ATOMS))
            continue
        kind = r.choice(["if", "if", "for", "while", "with", "def", "class", "elif"])
        head = {"if": "if c:", "for": "for i in xs:", "while": "while c:", "with": "with o:", "def": "def g():", "class": "class K:", "elif": "if c:"}[kind]
        lines.append(pad + head)
        lines += seq_block(r, depth - 1, indent + 1)
        if kind == "elif":
            lines.append(pad + "elif d:")
            lines += seq_block(r, depth - 1, indent + 1)
        if kind in ("if", "for", "while", "elif") and r.random() < 0.6:
            lines.append(pad + "else:")
            lines += seq_block(r, depth - 1, indent + 1)
    return lines


def seq_reference(tree, pred):
    """line numbers of the first statement of every window of consecutive statements accepted by `pred`, over the body and
    else blocks of modules, definitions and if / for / while / with statements"""
    out = []
    for node in ast.walk(tree):
        if not isinstance(node, (ast.Module, ast.FunctionDef, ast.AsyncFunctionDef, ast.ClassDef, ast.If, ast.For, ast.While, ast.With)):
            continue
        for field in ("body", "orelse"):
            block = getattr(node, field, None) or []
            for i in range(len(block) - 1):
                if pred(block[i], block[i + 1]):
                    out.append(block[i].lineno)
    return sorted(out)


def _assign(st):
    if isinstance(st, ast.Assign) and len(st.targets) == 1 and isinstance(st.targets[0], ast.Name):
        return st.targets[0].id, ast.dump(st.value)
    return None


def sequence_oracle(ctx):
    from pyrefact import pattern_matching

    s = Suite("sequence-oracle", kind="oracle")
    r = ctx.rng("sequence")
    one, two = ast.dump(ast.Constant(1)), ast.dump(ast.Constant(2))
    pats = [("{{t}} = 1\n{{t}} = 2", lambda a, b: bool(_assign(a) and _assign(b) and _assign(a)[0] == _assign(b)[0] and _assign(a)[1] == one and _assign(b)[1] == two)),
            ("{{a}} = {{v}}\n{{b}} = {{v}}", lambda a, b: bool(_assign(a) and _assign(b) and _assign(a)[1] == _assign(b)[1]))]
    for _ in range(ctx.n(250, 3000)):
        src = "\n".join(seq_block(r, r.choice([1, 2, 2, 3]), 0)) + "\n"
        try:
            tree = ast.parse(src)
        except SyntaxError:
            continue
        for pat, pred in pats:
            s.cases += 1
            want = seq_reference(tree, pred)
            try:
                got = sorted(m.lineno for m in pattern_matching.finditer(pat, src))
            except Exception as ex:  # noqa: BLE001
                s.disagreements.append({"pattern": pat, "source": src, "what": f"finditer raised {ex!r}"})
                continue
            if want:
                s.nt([pat, src])
            if got != want:
                s.disagreements.append({"pattern": pat, "source": src, "real": got, "reference": want,
                                        "what": f"statement-sequence pattern {pat!r}: finditer reports lines {got}, the occurrences are at lines {want}"})
    s.note = ("random nestings (depth <= 3) of if/elif/else, for/else, while/else, with, def, class blocks over 8 assignment statements x 2 two-statement patterns "
              "(a repeated name wildcard; a repeated value wildcard): finditer's start lines == every window of consecutive statements in a body or else block that fits, "
              "with multiplicity (reference computed from the ast, independent of pyrefact)")
    return s


def windows_suite(ctx):
    """which statement windows core.walk_sequence tries: a module of n simple statements against k templates that match any
    statement, and the same statements inside if / else / for / while / with / def bodies, vs C12.windowsPy"""
    from pyrefact import core

    s = Suite("windows")
    cases = [(n, k) for n in range(0, ctx.n(9, 13)) for k in range(1, ctx.n(11, 15))]
    answers = ctx.driver.ask([{"suite": "windows", "n": n, "k": k} for (n, k) in cases])
    wrappers = [("module", "{body}"), ("if", "if c:\n{ind}"), ("else", "if c:\n    pass\nelse:\n{ind}"), ("for", "for i in r:\n{ind}"), ("while-else", "while c:\n    pass\nelse:\n{ind}"),
                ("with", "with c:\n{ind}"), ("def", "def f():\n{ind}")]
    for (n, k), ans in zip(cases, answers):
        want = ans.get("windows")
        if want is None:
            s.disagreements.append({"n": n, "k": k, "what": "driver refused"})
            continue
        for wname, shape in wrappers:
            if n == 0 and wname != "module":
                continue
            stmts = [f"s{i}" for i in range(n)]
            body = "\n".join(stmts) + ("\n" if stmts else "")
            ind = "".join("    " + st + "\n" for st in stmts)
            src = shape.format(body=body, ind=ind)
            tree = ast.parse(src)
            s.cases += 1
            try:
                res = list(core.walk_sequence(tree, *([ast.stmt] * k)))
            except Exception as ex:  # noqa: BLE001
                s.disagreements.append({"n": n, "k": k, "src": src, "what": f"walk_sequence raised {ex!r}"})
                continue
            got = []
            for tup in res:
                names = [ast.unparse(m[0] if isinstance(m, tuple) else m).strip() for m in tup]
                if all(nm in stmts for nm in names):  # windows of the statements under test (not the wrapper's own body)
                    got.append([stmts.index(nm) for nm in names])
            if got != want:
                s.disagreements.append({"n": n, "k": k, "src": src, "model": want, "real": got, "what": f"walk_sequence tries other statement windows than the model ({wname} body)"})
            if n >= k and k >= 2:
                s.nt([n, k, wname])
            s.count(wname)
    s.samples.append({"suite": "windows", "n": 4, "k": 2, "windows": [[0, 1], [1, 2], [2, 3]]})
    s.note = ("every body length n < 9 (thorough 13) x pattern length k < 11 (thorough 15), the n statements as module body and inside if / else / for / while-else / with / def bodies: the tuples of statements that core.walk_sequence "
              "reports for k templates matching any statement vs C12.windowsPy (indices, order); non-trivial = at least one window of two or more statements")
    return s


def walk_order_suite(ctx):
    """core.walk_wildcard with tuples of type templates (alternatives that overlap in the class hierarchy): reported nodes and their ORDER vs C12.WalkW.walk
    fed with the nodes of ast.walk, their class names and the class hierarchy"""
    from pyrefact import core

    s = Suite("walk")
    r = ctx.rng("walk")
    classes = [ast.Name, ast.expr, ast.Call, ast.stmt, ast.Constant, ast.BinOp, ast.AST, ast.Assign, ast.Attribute, ast.FunctionDef, ast.arg, ast.operator, ast.Load, ast.expr_context, ast.Return, ast.If]
    srcs = ["x = f(a, b.c) + 1\nprint(x)\n", "def g(p, q=2):\n    if p:\n        return q + p\n    return [i for i in q]\n", "a = b = c\n", ""]
    srcs += [src for (_sha, src, _f) in sweep.pick(sweep.generated_corpus(), ctx, 25) + sweep.pick(sweep.example_corpus(), ctx, 60)]
    reqs, metas = [], []
    for src in srcs:
        try:
            tree = ast.parse(src)
        except SyntaxError:
            continue
        nodes = list(ast.walk(tree))[:400]
        if len(nodes) < len(list(ast.walk(tree))):
            continue
        index = {}
        for i, n in enumerate(nodes):
            index.setdefault(id(n), i)  # ast.Load() and the operator singletons are ONE object met many times
        hier = {}
        for n in nodes:
            hier.setdefault(type(n).__name__, [c.__name__ for c in type(n).__mro__[1:] if c is not object])
        for _ in range(3):
            tms = r.sample(classes, r.randint(1, 3))
            reqs.append({"suite": "walkw", "nodes": [[type(n).__name__, index[id(n)]] for n in nodes], "hier": [[k, v] for k, v in hier.items()], "templates": [c.__name__ for c in tms]})
            metas.append((src, tree, tms, index))
    answers = ctx.driver.ask(reqs)
    for (src, tree, tms, index), ans in zip(metas, answers):
        s.cases += 1
        real = [index[id(m[0])] for m in core.walk_wildcard(tree, tuple(tms))]
        if ans.get("order") != real:
            s.disagreements.append({"src": src, "templates": [c.__name__ for c in tms], "model": ans.get("order"), "real": real,
                                    "what": "walk_wildcard reports other nodes, or in another order, than the model"})
        if len(tms) > 1 and real:
            s.nt([src, [c.__name__ for c in tms]])
        s.count("alternatives=%d" % len(tms))
    s.samples.append({"suite": "walk", "src": "x = f(a)\n", "templates": ["Name", "expr"], "order": "the Name nodes first (walk order), then the other expressions"})
    s.note = ("4 hand-written + corpus programs x 3 random tuples of 1-3 type templates out of 16 ast classes (overlapping in the hierarchy: Name / expr / AST, Load / expr_context): the nodes reported by core.walk_wildcard and their order "
              "vs C12.WalkW.walk on the ast.walk node list with class names and the class hierarchy; non-trivial = several alternatives with at least one hit")
    return s


def suites(ctx):
    common.import_pyrefact()
    return [perms_suite(ctx), match_suite(ctx), self_suite(ctx), windows_suite(ctx), walk_order_suite(ctx), flat_oracle(ctx), sequence_oracle(ctx)]


def match_known(d, known):
    for k in known:
        w = k.get("witness", {}) if k["kind"] == "finding" else {}
        if w and w.get("pattern") == d.get("pattern") and w.get("source") == d.get("source"):
            return k
    return None


def replay_witness(ctx, kf):
    common.import_pyrefact()
    from pyrefact import pattern_matching
    w = kf["witness"]
    return not pattern_matching.findall(w["pattern"], w["source"])


def search(ctx, breaks):
    common.import_pyrefact()
    ctx.thorough = True
    return flat_oracle(ctx).disagreements[:5]


def replay(ctx, inp):
    common.import_pyrefact()
    from pyrefact import pattern_matching
    real = bool(pattern_matching.findall(inp["pattern"], inp["source"]))
    print(real, inp.get("reference"))
    return real != inp.get("reference")
