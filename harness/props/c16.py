"""C16 - code is treated as unreachable or pointless only when it really is.

Ties: suite `blocking` (core.is_blocking vs C16.blocks on exhaustively enumerated statement shapes), suite `exec` (the
skeleton semantics C16.exec vs CPython on instrumented functions under all valuations - validates the semantics, not the
tool).  Oracles on the real tool: delete_unreachable_code / delete_pointless_statements on instrumented functions executed
under every valuation before and after; a call in every syntactic position for has_side_effect."""
from __future__ import annotations

import ast
import itertools

import common
from common import Suite

TRUSTED = ["C16: has_side_effect is modelled on expressions, simple statements, for and if statements (suite sideeffect); def / class statements are outside that model",
           "C16: loop else-clauses and try/except are outside the skeleton fragment (the exporter refuses them); they are covered by the execution oracle only",
           "C16: 'calls nothing user-defined' is read syntactically (Call nodes); attribute access / subscripting / operators may dispatch to user code"]
ASSUMPTIONS = ["skeleton abstraction: tests are constant-true / constant-false / unknown as judged by the real core.literal_value"]

CONDS = ["tt", "ff", "unk"]
ITERS = ["empty", "nonempty", "unk"]
LEAVES = [["simple"], ["ret"], ["raise"], ["brk"], ["cont"], ["assert", "ff"], ["assert", "unk"]]


def shapes(depth, in_loop):
    """all statements of nesting depth <= depth"""
    out = [l for l in LEAVES if in_loop or l[0] not in ("brk", "cont")]
    if depth == 0:
        return out
    bodies = bodies_of(depth - 1, in_loop)
    loop_bodies = bodies_of(depth - 1, True)
    for c in CONDS:
        for b in bodies:
            for o in [[]] + bodies[:6]:
                out.append(["if", c, b, o])
        for b in loop_bodies:
            out.append(["while", c, b])
    for it in ITERS:
        for b in loop_bodies:
            out.append(["for", it, b])
    for b in bodies[:8]:
        out.append(["with", b])
    # loop else-clauses and try blocks (the jumps of an else clause / of any part of a try belong to the enclosing loop)
    elses = [[["simple"]], [["ret"]], [["raise"]]] + ([[["brk"]], [["cont"]]] if in_loop else [])
    for e in elses:
        for b in loop_bodies[:10]:
            out.append(["while", "unk", b, e])
            out.append(["while", "tt", b, e])
            out.append(["for", "unk", b, e])
            out.append(["for", "nonempty", b, e])
    parts = [[["simple"]], [["ret"]], [["raise"]], [["if", "unk", [["ret"]], []]]] + ([[["brk"]], [["cont"]]] if in_loop else [])
    for b in parts:
        for hk in ("none", "all", "some"):
            for hb in ([[]] if hk == "none" else parts[:3] + parts[4:]):
                for f in [[]] + parts[:2] + parts[4:]:
                    if hk == "none" and not f:
                        continue
                    out.append(["try", b, hk, hb, f])
    return out


def bodies_of(depth, in_loop):
    sts = shapes(depth, in_loop)
    out = [[s] for s in sts]
    small = [s for s in sts if s[0] in ("simple", "ret", "brk", "cont", "raise", "if")][:7]
    for a, b in itertools.product(small, repeat=2):
        out.append([a, b])
    return out


def render(sts, indent, ctr):
    """python source of a statement list; unknown conditions are c(k), unknown iterables it(k) / it1(k)"""
    pad = "    " * indent
    lines = []
    for s in sts:
        k = s[0]
        if k == "simple":
            lines.append(f"{pad}tick()")
        elif k == "ret":
            lines.append(f"{pad}return 7")
        elif k == "raise":
            lines.append(f"{pad}raise ValueError()")
        elif k == "brk":
            lines.append(f"{pad}break")
        elif k == "cont":
            lines.append(f"{pad}continue")
        elif k == "assert":
            lines.append(f"{pad}assert {cond_text(s[1], ctr)}")
        elif k == "if":
            lines.append(f"{pad}if {cond_text(s[1], ctr)}:")
            lines += render(s[2], indent + 1, ctr)
            if s[3]:
                lines.append(f"{pad}else:")
                lines += render(s[3], indent + 1, ctr)
        elif k == "while":
            wc = {"tt": "tick() or True", "ff": "False", "unk": "c()"}[s[1]] if ctr != "static" else cond_text(s[1], ctr)
            lines.append(f"{pad}while {wc}:")
            lines += render(s[2], indent + 1, ctr)
            if len(s) > 3 and s[3]:
                lines.append(f"{pad}else:")
                lines += render(s[3], indent + 1, ctr)
        elif k == "for":
            it = {"empty": "[]", "nonempty": "it1()", "unk": "it()"}[s[1]]
            lines.append(f"{pad}for _ in {it}:")
            lines += render(s[2], indent + 1, ctr)
            if len(s) > 3 and s[3]:
                lines.append(f"{pad}else:")
                lines += render(s[3], indent + 1, ctr)
        elif k == "try":
            lines.append(f"{pad}try:")
            lines += render(s[1], indent + 1, ctr) or [f"{pad}    pass"]
            if s[2] != "none":
                lines.append(f"{pad}except {'Exception' if s[2] == 'all' else 'sel()'}:")
                lines += render(s[3], indent + 1, ctr) or [f"{pad}    pass"]
            if s[4] or s[2] == "none":
                lines.append(f"{pad}finally:")
                lines += render(s[4], indent + 1, ctr) or [f"{pad}    pass"]
        elif k == "with":
            lines.append(f"{pad}with ctx():")
            lines += render(s[1], indent + 1, ctr)
    return lines


def cond_text(c, ctr):
    return {"tt": "True", "ff": "False", "unk": "c()"}[c]


def static_render(sts, indent=1):
    """for is_blocking: constant iterables are literals"""
    src = "\n".join(render(sts, indent, "static")).replace("it1()", "[1, 2]").replace("it()", "xs")
    return src


def loop_jump_shapes():
    """loops whose body conditionally jumps before an unconditional exit (always included: depth 2, where the quick tier samples)"""
    out = []
    jumps = [["brk"], ["cont"], ["ret"], ["raise"]]
    leaves = [["ret"], ["raise"], ["simple"], ["brk"], ["cont"]]
    for c in CONDS:
        for j in jumps:
            for o in [[]] + [[j2] for j2 in jumps]:
                for leaf in leaves:
                    guarded = ["if", c, [j], o]
                    for body in ([guarded, leaf], [["with", [guarded]], leaf], [["try", [guarded], "all", [["simple"]], []], leaf], [["simple"], guarded, leaf]):
                        for it in ITERS:
                            out.append(["for", it, body])
                        for wc in CONDS:
                            out.append(["while", wc, body])
    return out


def blocking_suite(ctx):
    from pyrefact import core

    s = Suite("blocking")
    import json as _json
    base = shapes(1, False)
    seen = {_json.dumps(x) for x in base}
    sts = base + [x for x in shapes(1, True) if _json.dumps(x) not in seen]
    sts = sts + [x for x in loop_jump_shapes() if _json.dumps(x) not in seen]
    deep = shapes(2, False)
    if ctx.thorough:
        sts = sts + deep
    else:
        r = ctx.rng("blocking")
        sts = sts + r.sample(deep, min(len(deep), 2500))
    reqs, metas = [], []
    for st in sts:
        for parent in ("none", "loop"):
            reqs.append({"suite": "blocking", "stmt": st, "parent": parent})
            metas.append((st, parent))
    answers = ctx.driver.ask(reqs)
    for (st, parent), ans in zip(metas, answers):
        s.cases += 1
        wrap = "def f(xs):\n    for __ in xs:\n" + static_render([st], 2) + "\n"
        try:
            node = ast.parse(wrap).body[0].body[0].body[0]
            real = bool(core.is_blocking(node, ast.For if parent == "loop" else None))
        except Exception as ex:
            s.disagreements.append({"stmt": st, "parent": parent, "what": f"is_blocking raised {ex!r}"})
            continue
        if ans.get("b") != real:
            s.disagreements.append({"stmt": st, "parent": parent, "src": wrap, "model": ans.get("b"), "real": real,
                                    "what": "is_blocking differs from the model"})
        s.count(f"{st[0]}:{'blocking' if real else 'passable'}")
        if st[0] in ("if", "while", "for", "with"):
            s.nt([st, parent])
    s.samples.append({"suite": "blocking", "stmt": ["while", "tt", [["if", "unk", [["brk"]], []], ["ret"]]], "parent": "none", "blocking": False})
    s.note = ("statement shapes over {call, return, raise, break, continue, assert, if/else, while, for, with} x {true, false, unknown} tests x "
              "{empty, non-empty, unknown} iterables, exhaustive to nesting depth 1 (+ random sample of depth 2) in the quick tier and to depth 2 in the "
              "thorough tier, x parent in {function, loop}; compared: core.is_blocking on the parsed statement; non-trivial = compound statements")
    return s


EMPTY_SPELLINGS = ["[]", "()", "''", "range(0)", "enumerate([])", "zip()", "zip([1, 2], [])", "reversed(())", "iter(())", "{}", "set()", "list()", "tuple()", "dict()", "frozenset()", "sorted(())", "range(3, 3)"]
NONEMPTY_SPELLINGS = ["[1, 2]", "(1, 2)", "'ab'", "range(2)", "enumerate([7])", "zip([1], [2])", "reversed([1])", "{1: 2}", "sorted([2, 1])", "list((1,))", "iter([0])", "[None]", "[[]]", "(0,)"]


def iterable_spellings_suite(ctx):
    """constant iterables in every spelling literal_value can evaluate (displays, ranges, lazy iterators such as enumerate / zip / reversed /
    iter that are truthy even when they yield nothing): the model sees only 'empty' / 'non-empty'"""
    from pyrefact import core

    s = Suite("iterable-spellings")
    bodies = [[["ret"]], [["simple", 0], ["ret"]], [["if", "unk", [["ret"]], [["raise"]]]], [["simple", 0]], [["if", "unk", [["brk"]], []], ["ret"]]]
    reqs, metas = [], []
    for kind, spellings in (("empty", EMPTY_SPELLINGS), ("nonempty", NONEMPTY_SPELLINGS)):
        for sp in spellings:
            for body in bodies:
                for orelse in ([], [["ret"]]):
                    for parent in ("none", "loop"):
                        st = ["for", kind, body, orelse]
                        reqs.append({"suite": "blocking", "stmt": st, "parent": parent})
                        metas.append((st, parent, sp))
    answers = ctx.driver.ask(reqs)
    for (st, parent, sp), ans in zip(metas, answers):
        s.cases += 1
        wrap = "def f(xs):\n    for __ in xs:\n" + (static_render([st], 2).replace("[1, 2]", sp) if st[1] == "nonempty" else static_render([st], 2).replace("[]", sp, 1)) + "\n"
        try:
            node = ast.parse(wrap).body[0].body[0].body[0]
            assert isinstance(node, ast.For) and ast.unparse(node.iter) == ast.unparse(ast.parse(sp, mode="eval").body), wrap
            real = bool(core.is_blocking(node, ast.For if parent == "loop" else None))
        except Exception as ex:  # noqa: BLE001
            s.disagreements.append({"stmt": st, "parent": parent, "iter": sp, "what": f"is_blocking raised {ex!r}"})
            continue
        if ans.get("b") != real:
            s.disagreements.append({"stmt": st, "parent": parent, "iter": sp, "src": wrap, "model": ans.get("b"), "real": real,
                                    "what": f"is_blocking differs from the model for the constant iterable {sp}"})
        s.count(("lazy " if "(" in sp and not sp.startswith("(") else "display ") + st[1])
        s.nt([st, parent, sp])
    s.note = ("17 empty and 14 non-empty constant iterables (displays, strings, ranges, constructor calls, lazy iterators: enumerate, zip, reversed, iter, sorted) x 5 loop bodies x {no else, else: return} x parent in {function, loop}: "
              "core.is_blocking on the for statement vs the model, which knows only whether the first iteration is entered; non-trivial = every case")
    return s


PRELUDE = '''
class _B(BaseException): pass
class _Never(Exception): pass
def run(bits):
    st = {"pos": 0, "steps": 0}
    def tick():
        st["steps"] += 1
        if st["steps"] > 400: raise _B()
    def c():
        tick(); i = st["pos"]; st["pos"] += 1
        return bits[i] if i < len(bits) else False
    def it():
        while c(): yield 1
    def it1():
        yield 1
        while c(): yield 1
    def sel():
        i = st["pos"]; st["pos"] += 1
        return (ValueError, AssertionError) if (bits[i] if i < len(bits) else False) else _Never
    class ctx:
        def __enter__(self): return self
        def __exit__(self, *a): return False
    def f():
%s
    try:
        r = f()
        out = "ret" if r == 7 else "normal"
    except ValueError: out = "raise"
    except AssertionError: out = "raise"
    except _B: out = "fuel"
    return out, st["pos"], st["steps"]
'''


def run_py(body_src, bits_list):
    env = {}
    exec(PRELUDE % body_src, env)
    return [env["run"](list(b)) for b in bits_list]


def _walk(sts):
    for st in sts:
        yield st
        for part in st[1:]:
            if isinstance(part, list):
                yield from _walk([x for x in part if isinstance(x, list)])


def unsafe_to_run(body):
    """a jump in a `finally` block swallows the budget exception: such a shape is executed only when it has no loop"""
    has_loop = any(st[0] in ("while", "for") for st in _walk(body))
    jump_in_finally = any(st[0] == "try" and any(x[0] in ("ret", "brk", "cont", "raise") for x in _walk(st[4])) for st in _walk(body))
    return has_loop and jump_in_finally


def exec_suite(ctx):
    """the skeleton semantics against CPython, and delete_unreachable (model) preserving it"""
    s = Suite("exec")
    r = ctx.rng("exec")
    pool = [b for b in bodies_of(2, False) if not unsafe_to_run(b)]
    cases = r.sample(pool, min(len(pool), ctx.n(400, 4000)))
    special = [b for b in pool if any(st[0] == "try" or (st[0] in ("while", "for") and len(st) > 3) for st in _walk(b))]
    cases += r.sample(special, min(len(special), ctx.n(300, 3000)))
    nb = 4
    all_bits = list(itertools.product([False, True], repeat=nb))
    reqs = []
    for body in cases:
        for bits in all_bits:
            reqs.append({"suite": "exec", "stmts": body, "bits": list(bits), "fuel": 4000})
    answers = ctx.driver.ask(reqs)
    k = 0
    for body in cases:
        s.cases += 1
        src = "\n".join(render(body + [["simple"]], 2, None))
        try:
            pys = run_py(src, all_bits)
        except SyntaxError:
            k += len(all_bits)
            continue
        for bits, py in zip(all_bits, pys):
            ans = answers[k]
            k += 1
            # the model list is body + nothing; python adds a trailing tick (normal)
            if ans["out"] == "fuel" or py[0] == "fuel":
                continue
            if (ans["out"], ans["pos"]) != py[:2]:
                s.disagreements.append({"stmts": body, "bits": list(bits), "model": [ans["out"], ans["pos"]], "python": list(py[:2]), "src": src,
                                        "what": "skeleton semantics differs from CPython"})
                break
            if (ans["out_del"], ans["pos_del"]) != (ans["out"], ans["pos"]) or not ans.get("same_trace", True):
                s.disagreements.append({"stmts": body, "bits": list(bits), "what": "model: deleteUnreachable changed the outcome (contradicts the theorem)"})
                break
        s.nt(body)
    s.samples.append({"suite": "exec", "stmts": [["while", "unk", [["ret"]]]], "bits": [False], "outcome": ["normal", 1]})
    s.note = "statement lists of depth <= 2 compiled into instrumented Python functions (conditions and iteration counts read from a bit vector), all 16 valuations of 4 bits: outcome and number of bits consumed, model vs CPython"
    return s


def unreachable_oracle(ctx, only_bodies=None):
    """the real delete_unreachable_code on instrumented functions, executed under every valuation before/after"""
    from pyrefact import fixes

    s = Suite("unreachable-oracle", kind="oracle")
    r = ctx.rng("unreach")
    if only_bodies is not None:
        cases = [b for b in only_bodies if not unsafe_to_run(b)]
    else:
        pool = [b for b in bodies_of(2, False) if not unsafe_to_run(b)]
        cases = r.sample(pool, min(len(pool), ctx.n(250, 4000)))
        special = [b for b in pool if any(st[0] == "try" or (st[0] in ("while", "for") and len(st) > 3) for st in _walk(b))]
        cases += r.sample(special, min(len(special), ctx.n(150, 2000)))
        cases += [[st] for st in loop_jump_shapes()[:: 7]]
    # hand-written extras (try / else combinations beyond the generator)
    extra = [
        "        while c():\n            tick()\n        else:\n            return 7\n        tick()",
        "        for _ in it():\n            if c():\n                break\n        else:\n            return 7\n        tick()",
        "        try:\n            return 7\n        finally:\n            tick()\n        tick()",
        "        try:\n            raise ValueError()\n        except ValueError:\n            tick()\n        tick()",
        "        while True:\n            for _ in it():\n                tick()\n            else:\n                break\n        tick()",
        "        while True:\n            try:\n                break\n            finally:\n                tick()\n        tick()",
        "        for _ in it1():\n            if c():\n                continue\n            return 7\n        tick()",
    ]
    all_bits = list(itertools.product([False, True], repeat=4))
    srcs = ["\n".join(render(b + [["simple"]], 2, None)) for b in cases] + (extra if only_bodies is None else [])
    for body_src in srcs:
        s.cases += 1
        # the tool sees plain python: conditions are calls (unknown), iterables calls (unknown) or literals
        tool_src = "def f():\n" + body_src.replace("it1()", "[1, 2]").replace("tick() or True", "True") + "\n"
        tool_src = "\n".join(l[4:] if l.startswith("    ") else l for l in tool_src.split("\n")) if False else tool_src
        try:
            ast.parse(tool_src)
        except SyntaxError:
            continue
        try:
            out = fixes.delete_unreachable_code(tool_src)
        except Exception as ex:
            s.disagreements.append({"src": tool_src, "what": f"delete_unreachable_code raised {ex!r}"})
            continue
        if out == tool_src:
            continue
        s.nt(tool_src)
        new_body = "\n".join("    " + l for l in out.split("\n")[1:] if l.strip())
        # map the literal back to the instrumented non-empty iterable
        new_body = new_body.replace("[1, 2]", "it1()").replace("while True:", "while tick() or True:")
        try:
            before = run_py(body_src, all_bits)
            after = run_py(new_body, all_bits)
        except SyntaxError:
            continue
        for bits, b, a in zip(all_bits, before, after):
            if b[0] == "fuel" or a[0] == "fuel":
                continue
            if b != a:
                s.disagreements.append({"src": tool_src, "out": out, "bits": list(bits), "before": list(b), "after": list(a),
                                        "what": f"delete_unreachable_code changes behaviour under valuation {list(bits)}: {b} -> {a}"})
                break
    s.note = "statement lists of depth <= 2 plus loop-else / try shapes, each followed by an observable statement; delete_unreachable_code applied, both versions executed under all 16 valuations; non-trivial = the rule deleted something"
    return s


POSITIONS = ["[g(x) for x in (1, 2)]", "{g(x) for x in (1, 2)}", "(g(x) for x in (1, 2))", "{g(k): 1 for k in (1, 2)}", "{1: g(v) for v in (1, 2)}",
             "[x for x in g(1)]", "[x for x in (1, 2) if g(x)]", "a[::g(1)]", "a[g(1):]", "a[g(1)]", "1 if g(1) else 2", "2 if 1 else g(1)", "f'{g(1)}'",
             "f'{1:{g(2)}}'", "[z := g(1)]", "(lambda: 1)(*[g(1)])", "not g(1)", "-g(1)", "1 + g(1)", "1 < g(1)", "1 and g(1)", "(1, g(1))", "{1: g(1)}",
             "{g(1)}", "[*g(1)]", "print(g(1))", "len([g(1)])", "x.y(g(1))", "g(1).y", "sorted([1], key=g)", "[[g(x) for x in (1,)] for y in (1,)]",
             "list(v for v in (1, 2) if g(v))", "sum(g(v) for v in (1, 2))", "(yield)"]


def position_probe(ctx):
    """a call of an unknown function in every syntactic position must count as a side effect / must not be deleted"""
    from pyrefact import core, fixes

    s = Suite("sideeffect-positions", kind="oracle")
    for expr in POSITIONS:
        s.cases += 1
        s.nt(expr)
        try:
            node = ast.parse(expr, mode="eval").body
        except SyntaxError:
            continue
        try:
            pure = not core.has_side_effect(node, frozenset({"len", "sorted", "list", "sum", "print"} - {"print"}))
        except Exception as ex:
            s.disagreements.append({"expr": expr, "what": f"has_side_effect raised {ex!r}"})
            continue
        if pure:
            s.disagreements.append({"expr": expr, "what": f"has_side_effect reports {expr!r} free of side effects although it calls the unknown function g"})
            continue
        src = f"def g(v):\n    print('g', v)\n    return [v]\n\n\ndef h(a, x, f):\n    {expr}\n    return 1\n"
        try:
            out = fixes.delete_pointless_statements(src)
        except Exception as ex:
            s.disagreements.append({"expr": expr, "what": f"delete_pointless_statements raised {ex!r}"})
            continue
        marker = "yield" if "yield" in expr else ("key=g" if "key=g" in expr else "g(")
        if marker not in out.split("def h")[1]:
            s.disagreements.append({"expr": expr, "out": out, "what": f"delete_pointless_statements deleted the statement {expr!r}"})
    s.note = "a call of an unknown function g in 35 syntactic positions (comprehension element / key / value / iterable / condition, slice parts, conditional expression, f-string and format spec, walrus, operators, containers, arguments): has_side_effect must be True and delete_pointless_statements must keep the statement"
    return s


class Skip(Exception):
    pass


def ctx_name(c):
    return {"Load": "load", "Store": "store", "Del": "del"}[type(c).__name__]


def exp_e(n):
    """export an ast node into the model's expression language; node kinds the model does not have raise Skip
    (statements other than Expr / Pass / single-target assignments) or become 'other' (what the real function answers True for)"""
    if n is None:
        raise Skip()
    T = type(n).__name__
    if T in ("Constant", "Pass"):
        return ["const"]
    if T in ("Yield", "YieldFrom", "Return", "Raise", "Continue", "Break", "Assert", "Import", "ImportFrom", "Await", "Delete", "Global", "Nonlocal"):
        return ["other"]
    if T == "Name":
        return ["name", n.id, ctx_name(n.ctx)]
    if T in ("List", "Set", "Tuple"):
        return ["coll", [exp_e(x) for x in n.elts]]
    if T == "Dict":
        return ["coll", [exp_e(x) for x in list(n.keys) + list(n.values) if x is not None]]
    if T == "Expr":
        return exp_e(n.value)
    if T == "UnaryOp":
        return ["unary", exp_e(n.operand)]
    if T == "BinOp":
        return ["bin", exp_e(n.left), exp_e(n.right)]
    if T == "Compare":
        return ["nary", [exp_e(x) for x in [n.left] + n.comparators]]
    if T == "BoolOp":
        return ["nary", [exp_e(x) for x in n.values]]
    if T == "Attribute":
        return ["attribute", exp_e(n.value), n.attr, ctx_name(n.ctx)]
    if T == "Subscript":
        return ["subscript", exp_e(n.value), exp_e(n.slice), ctx_name(n.ctx)]
    if T == "Slice":
        return ["slice", [exp_e(x) for x in (n.lower, n.upper, n.step) if x is not None]]
    if T in ("ListComp", "SetComp", "GeneratorExp", "DictComp"):
        elts = [n.key, n.value] if T == "DictComp" else [n.elt]
        return ["comp", [exp_e(x) for x in elts], [[exp_e(g.target), exp_e(g.iter), [exp_e(i) for i in g.ifs]] for g in n.generators]]
    if T == "Call":
        for x in ast.walk(n.func):  # the model's `other` carries no names: a callee hiding some is outside the model
            if isinstance(x, (ast.Yield, ast.YieldFrom, ast.Await)) or (isinstance(x, ast.Lambda) and exp_e(x) == ["other"]):
                raise Skip()
        return ["call", exp_e(n.func), [exp_e(a) for a in n.args], [(["keyarg", exp_e(k.value)] if k.arg == "key" else exp_e(k.value)) for k in n.keywords]]
    if T == "Starred":
        return ["starred", exp_e(n.value)]
    if T == "IfExp":
        return ["ifexp", exp_e(n.test), exp_e(n.body), exp_e(n.orelse)]
    if T == "NamedExpr":
        return ["named", exp_e(n.target), exp_e(n.value)]
    if T in ("Assign", "AugAssign", "AnnAssign"):
        targets = n.targets if T == "Assign" else [n.target]
        if len(targets) != 1 or n.value is None:
            raise Skip()
        return ["named", exp_e(targets[0]), exp_e(n.value)]
    if T == "Lambda":
        a = n.args
        if a.posonlyargs or a.args or a.kwonlyargs or a.vararg or a.kwarg:
            return ["other"]  # ast.arg nodes are not handled by the real function: it answers True
        return ["lambda", [exp_e(x) for x in list(a.kw_defaults) + list(a.defaults) if x is not None], exp_e(n.body)]
    if T == "For":
        return ["for", exp_e(n.target), exp_e(n.iter), [exp_e(x) for x in n.body], [exp_e(x) for x in n.orelse]]
    if T == "If":
        return ["ifstmt", exp_e(n.test), [exp_e(x) for x in n.body], [exp_e(x) for x in n.orelse]]
    if T == "JoinedStr":
        return ["fstring", [exp_e(v) for v in n.values]]
    if T == "FormattedValue":
        return ["fstring", [exp_e(x) for x in (n.value, n.format_spec) if x is not None]]
    raise Skip()


SIDE_EXPRS = POSITIONS + ["''.join(join(x))", "', '.join(str(v) for v in xs)", "len(x) + abs(y)", "[v for v in xs if v]", "{k: v for k, v in pairs}", "a.b.c", "a.b(c)", "_ = f(x)", "_ = 3",
                          "x = 3", "a[0] = 1", "_[0] = 1", "a.b = 2", "(lambda: 1)()", "(lambda q: q)(1)", "lambda d=g(1): d", "f'{x!r:>{w}}'", "x if y else z", "(y := 5)", "print(x)", "sorted(xs)",
                          "[*xs, *ys]", "{**a}", "a[1:2:3]", "a[g(1):]", "not x", "x < y < z", "x and y or z", "str(x).upper()", "x.upper()", "' '.strip().upper()", "max(len(a), len(b))",
                          "sorted(xs, key=g)", "sorted(xs, key=len)", "max(xs, key=lambda v: v)", "map(g, xs)", "map(str, xs)", "filter(None, xs)", "filter(g, xs)", "list(map(len, xs))",
                          "for v in xs:\n    pass\nelse:\n    print(v)", "for _ in [1, 2]:\n    pass\nelse:\n    w = 1", "for _ in [1, 2]:\n    pass", "for v in g(x):\n    pass",
                          "for v in xs:\n    if v:\n        w = v", "for a.b in xs:\n    pass", "if x:\n    pass\nelse:\n    y = 1", "if f(x):\n    pass", "if x:\n    pass\nelif y:\n    _ = 1\nelse:\n    pass",
                          "for v in xs:\n    pass\nelse:\n    for w in ys:\n        pass\n    else:\n        print(1)"]


def sideeffect_suite(ctx):
    from pyrefact import constants, core

    s = Suite("sideeffect")
    nodes = []
    for expr in SIDE_EXPRS:
        try:
            tree = ast.parse(expr)
        except SyntaxError:
            continue
        nodes += [n for n in ast.walk(tree) if isinstance(n, (ast.expr, ast.stmt))]
    for (_sha, src, _f) in __import__("sweep").pick(__import__("sweep").generated_corpus(), ctx, 12) + __import__("sweep").pick(__import__("sweep").example_corpus(), ctx, 40):
        try:
            nodes += [n for n in ast.walk(ast.parse(src)) if isinstance(n, (ast.expr, ast.stmt))]
        except SyntaxError:
            pass
    r = ctx.rng("sideeffect")
    r.shuffle(nodes)
    nodes = nodes[: ctx.n(4000, 40000)]
    whitelists = [[], sorted(constants.SAFE_CALLABLES), ["print", "g", "join", "upper"]]
    reqs, metas = [], []
    for n in nodes:
        try:
            e = exp_e(n)
        except Skip:
            continue
        except Exception:  # noqa: BLE001
            continue
        for w in whitelists:
            reqs.append({"suite": "sideeffect", "e": e, "w": w})
            metas.append((n, w))
    answers = ctx.driver.ask(reqs)
    for (n, w), ans in zip(metas, answers):
        s.cases += 1
        try:
            real = bool(core.has_side_effect(n, frozenset(w)))
        except Exception:  # noqa: BLE001
            continue
        s.count(type(n).__name__)
        if ans.get("b") != real:
            s.disagreements.append({"src": ast.unparse(n)[:200], "node": type(n).__name__, "whitelist": w[:6], "model": ans.get("b"), "real": real, "what": "has_side_effect differs from the model"})
        if isinstance(n, (ast.Call, ast.ListComp, ast.SetComp, ast.GeneratorExp, ast.DictComp, ast.JoinedStr, ast.Subscript, ast.Lambda, ast.IfExp)):
            s.nt([ast.dump(n)[:300], len(w)])
    s.samples.append({"suite": "sideeffect", "expr": "[print(x) for x in (1, 2)]", "whitelist": [], "has_side_effect": True})
    s.note = ("every expression / simple-statement / for / if node of 84 hand-written snippets (a call in every position, stores, lambdas, f-strings, slices, callables handed to builtins, for-else and if-else statements) and of corpus programs x 3 whitelists "
              "(empty, constants.SAFE_CALLABLES, a small one): core.has_side_effect vs the model; non-trivial = calls, comprehensions, f-strings, subscripts, lambdas, conditional expressions")
    return s


def pointless_programs():
    """a side-effect free def whose name is bound to something effectful by anything but a plain module-level assignment, then
    called in a statement that has no other purpose (plus controls where deleting the statement is right)"""
    pure = "def emit(msg):\n    return None\n\n\n"
    calls = ["emit('direct')", "[emit(v) for v in (1, 2)]", "emit('yes') if emit else None", "(emit('a'), emit('b'))", "emit(emit('nested'))"]
    rebinds = [
        ("local assignment", "def run():\n    emit = print\n    {call}\n    return 1\n\n\nrun()\n"),
        ("for target", "def run():\n    for emit in (print,):\n        {call}\n    return 1\n\n\nrun()\n"),
        ("with target", "import contextlib\n\n\ndef run():\n    with contextlib.nullcontext(print) as emit:\n        {call}\n    return 1\n\n\nrun()\n"),
        ("walrus", "def run():\n    if (emit := print):\n        {call}\n    return 1\n\n\nrun()\n"),
        ("global rebinding", "def setup():\n    global emit\n    emit = print\n\n\nsetup()\n{call}\n"),
        ("tuple assignment in a function", "def run():\n    emit, other = print, 0\n    {call}\n    return other\n\n\nrun()\n"),
        ("module-level for target", "for emit in (print,):\n    {call}\n"),
        ("control: not rebound", "def run():\n    {call}\n    return 1\n\n\nrun()\nprint('done')\n"),
        ("control: module-level assignment", "emit = print\n\n\ndef run():\n    {call}\n    return 1\n\n\nrun()\n"),
    ]
    return [(f"{name} / {call}", pure + tmpl.format(call=call)) for (name, tmpl) in rebinds for call in calls]


def pointless_oracle(ctx):
    import oracles
    from pyrefact import fixes

    s = Suite("pointless-oracle", kind="oracle")
    for name, src in pointless_programs():
        s.cases += 1
        before = oracles.observe(src)
        for rule_name, rule in (("delete_pointless_statements", fixes.delete_pointless_statements),):  # format_code renames shadowed names (C19's business)
            if rule is None:
                import pyrefact
                st, out = oracles._guarded(lambda: pyrefact.format_code(src), 60)
            else:
                st, out = oracles._guarded(lambda: rule(src), 30)
            if st != "ok" or out == src:
                continue
            s.nt([name, rule_name])
            after = oracles.observe(out)
            if before[0] == "ok" and (after[0], after[1]) != (before[0], before[1]):
                s.disagreements.append({"case": name, "src": src, "out": out, "rule": rule_name,
                                        "what": f"{rule_name} deletes a statement that calls a re-bound name ({name}): stdout {before[1]!r} -> {after[1]!r}"})
    s.note = ("45 closed programs: a pure def whose name is re-bound (local / tuple assignment, for / with / walrus target, global) to print, called from a bare statement "
              "(directly, in a comprehension, conditional expression, tuple, nested), plus controls; delete_pointless_statements must keep stdout")
    return s


# ---------------------------------------------------------------------------- parsing.safe_callable_names: the fixpoint over function definitions

def gen_callgraph_module(r):
    """a module of small functions that call each other and builtins, with redefinitions, rebinding assignments, imports and classes"""
    names = ["f", "g", "h", "k", "m", "helper", "len", "format", "abs"]
    n = r.randint(1, 6)
    lines = []
    defs = [r.choice(names) for _ in range(n)]
    for name in defs:
        body = []
        for _ in range(r.randint(1, 3)):
            callee = r.choice(names + ["abs", "len", "print", "sorted", "undefined_fn"])
            k = r.random()
            if k < 0.35:
                body.append(f"return {callee}(x)")
            elif k < 0.5:
                body.append(f"{callee}(x)")
            elif k < 0.6:
                body.append(f"y = {callee}(x)")
            elif k < 0.7:
                body.append(f"if x:\n        return {callee}({r.choice(names)}(x))")
            elif k < 0.78:
                body.append(f"return sorted(x, key={callee})")
            elif k < 0.86:
                body.append("return x + 1")
            elif k < 0.93:
                body.append(f"return [{callee}(v) for v in x]")
            else:
                body.append(f"raise ValueError({callee}(x))")
        deco = "@wrap\n" if r.random() < 0.12 else ""
        lines.append(f"{deco}def {name}(x):\n" + "".join(f"    {b}\n" for b in body) + "\n")
    extra = r.random()
    if extra < 0.15:
        lines.append(f"{r.choice(defs)} = abs\n")
    elif extra < 0.3:
        lines.insert(0, f"from lib import {r.choice(names)}\n")
    elif extra < 0.4:
        lines.append(f"class {r.choice(['Box', 'len', 'format'])}:\n    pass\n")
    lines.append(f"{r.choice(defs)}(1)\nprint('end')\n")
    return "\n".join(lines)


def summarise_module(src):
    """the summary the model works on, computed with the real has_side_effect / is_blocking: per definition its name, whether the statements that count
    have an effect whatever the whitelist, and the names whose absence from the whitelist makes them effectful"""
    import builtins
    import itertools

    from pyrefact import constants, core

    tree = ast.parse(src)
    all_names = {n.id for n in ast.walk(tree) if isinstance(n, ast.Name)} | set(constants.SAFE_CALLABLES) | set(dir(builtins))
    defs = []
    checks = []
    for node in ast.walk(tree):  # core.walk order is what the real function uses
        pass
    function_defs = list(core.walk(tree, (ast.FunctionDef, ast.AsyncFunctionDef)))
    for node in function_defs:
        counted = []
        for child in node.body:
            if core.is_blocking(child):
                break
            counted.append(child)
        counted += [c.value for c in core.walk(node, ast.Return)]
        counted = [c for c in counted if c is not None]

        def effect(white, counted=counted):
            return any(core.has_side_effect(c, white) for c in counted)
        intrinsic = effect(frozenset(all_names))
        calls = [] if intrinsic else sorted(c for c in all_names if effect(frozenset(all_names - {c})))
        defs.append([node.name, bool(intrinsic), calls, bool(node.decorator_list)])
        checks.append((effect, intrinsic, calls))
    stores = sorted({n.id for n in core.walk(tree, ast.Name(ctx=ast.Store))})
    other = sorted({n.name for n in core.walk(tree, ast.ClassDef)} | {a.asname or a.name.split(".")[0] for n in core.walk(tree, (ast.Import, ast.ImportFrom)) for a in n.names})
    classes = {n.name for n in core.walk(tree, ast.ClassDef)}
    return tree, defs, stores, other, classes, all_names, checks


def safecalls_suite(ctx):
    from pyrefact import constants, parsing

    s = Suite("safecalls")
    r = ctx.rng("safecalls")
    srcs = ["def f(x):\n    return g(x)\n\n\ndef g(x):\n    return abs(x)\n\n\nf(1)\n", "def f():\n    return 1\n\n\ndef f():\n    print('x')\n    return 2\n\n\nf()\n",
            "def format(x):\n    print('fmt', x)\n\n\nformat(1)\n", "def a(x):\n    return b(x)\n\n\ndef b(x):\n    return a(x)\n\n\na(1)\n", "def f(x):\n    return x\n\n\nf = print\nf(1)\n",
            "from lib import sorted\n\n\ndef g(x):\n    return sorted(x)\n\n\ng([1])\n", "def p(x):\n    return [q(v) for v in x]\n\n\ndef q(v):\n    return v\n\n\ndef q(v):\n    return v + 1\n\n\np([1])\n"]
    while len(srcs) < ctx.n(500, 6000):
        srcs.append(gen_callgraph_module(r))
    reqs, metas = [], []
    base = sorted(constants.SAFE_CALLABLES)
    for src in srcs:
        try:
            tree, defs, stores, other, classes, all_names, checks = summarise_module(src)
        except SyntaxError:
            continue
        # the summary abstraction itself: under a random whitelist the real answer is "intrinsic, or a listed name is missing"
        for (effect, intrinsic, calls) in checks:
            for _ in range(3):
                white = frozenset(n for n in all_names if r.random() < 0.7)
                if effect(white) != (intrinsic or any(c not in white for c in calls)):
                    s.disagreements.append({"src": src, "what": "has_side_effect on the statements of a definition is not 'an effect of its own, or a call of a name outside the whitelist' (summary abstraction of the harness)"})
                    break
        reqs.append({"suite": "safecalls", "base": base, "defs": defs, "stores": stores, "other": other})
        metas.append((src, tree, classes, defs))
    answers = ctx.driver.ask(reqs)
    for (src, tree, classes, defs), ans in zip(metas, answers):
        s.cases += 1
        if "names" not in ans:
            s.disagreements.append({"src": src, "what": "driver refused", "model": ans})
            continue
        real = set(parsing.safe_callable_names(tree)) - classes
        model = set(ans["names"]) - classes
        if real != model:
            s.disagreements.append({"src": src, "only_real": sorted(real - model), "only_model": sorted(model - real), "what": "parsing.safe_callable_names differs from the model (names admitted as free of side effects)"})
        if ans.get("reaches_effect"):
            s.disagreements.append({"src": src, "names": ans["reaches_effect"], "what": "an admitted name reaches a definition with an effect of its own (contradicts C16.safe_callables_no_effect: model evaluation)"})
        admitted = {d[0] for d in defs} & model
        s.count("admitted=%d" % min(len(admitted), 3))
        if len({d[0] for d in defs}) < len(defs) or admitted:
            s.nt(src)
    s.samples.append({"suite": "safecalls", "defs": [["f", False, ["g"], False], ["g", False, [], False]], "names_beyond_builtins": ["f", "g"]})
    s.note = ("7 hand-written + random modules of 1-6 small functions over 9 names (three of them names of builtins) that call each other, builtins and unknown functions directly, nested, through key= and in comprehensions, "
              "with redefinitions, rebinding assignments, imports and classes: the per-definition summary is computed with the real has_side_effect / is_blocking (and checked under random whitelists), the fixpoint "
              "is the model's; admitted names vs parsing.safe_callable_names (class names aside); non-trivial = a name defined twice or a user function admitted")
    return s


def suites(ctx):
    common.import_pyrefact()
    return [blocking_suite(ctx), iterable_spellings_suite(ctx), exec_suite(ctx), sideeffect_suite(ctx), safecalls_suite(ctx), unreachable_oracle(ctx), position_probe(ctx), pointless_oracle(ctx)]


def match_known(d, known):
    for k in known:
        w = k.get("witness", {}) if k["kind"] == "finding" else {}
        if w and "expr" in w and w["expr"] == d.get("expr"):
            return k
    return None


def replay_witness(ctx, kf):
    common.import_pyrefact()
    w = kf["witness"]
    if "expr" in w:
        return bool([d for d in position_probe(ctx).disagreements if d["expr"] == w["expr"]])
    return None


def _run_closed(src):
    import contextlib
    import io

    buf = io.StringIO()
    try:
        with contextlib.redirect_stdout(buf):
            exec(compile(src, "<closed>", "exec"), {"__name__": "__main__"})
        return buf.getvalue(), None
    except Exception as ex:  # noqa: BLE001
        return buf.getvalue(), type(ex).__name__


def spelling_search(inputs):
    """is_blocking and the model disagree on a for loop over a constant iterable: put that loop in front of observable code and execute"""
    import pyrefact
    from pyrefact import fixes

    found = []
    templates = ["def f(log):\n    for i in {sp}:\n        return 'in'\n    log.append('after')\n    return 'end'\n\n\nL = []\nprint(f(L), L)\n",
                 "def helper(log):\n    for _ in {sp}:\n        return None\n    log.append('x')\n\n\nL = []\nhelper(L)\nprint(L)\n",
                 "def g(log):\n    for i in {sp}:\n        log.append(i)\n    else:\n        return 'else'\n    return 'after'\n\n\nL = []\nprint(g(L), len(L))\n"]
    for sp in dict.fromkeys(d.get("iter") for d in inputs if d.get("iter")):
        for tmpl in templates:
            src = tmpl.format(sp=sp)
            for name, rule in (("fixes.delete_unreachable_code", fixes.delete_unreachable_code), ("fixes.delete_pointless_statements", fixes.delete_pointless_statements), ("format_code", pyrefact.format_code)):
                try:
                    out = rule(src)
                except Exception:  # noqa: BLE001
                    continue
                if out != src and _run_closed(src) != _run_closed(out):
                    found.append({"src": src, "out": out, "rule": name, "iter": sp, "what": f"{name} changes what a program with 'for ... in {sp}' prints: {_run_closed(src)} -> {_run_closed(out)}"})
                    break
            if len(found) >= 3:
                return found
    return found


def search(ctx, breaks):
    common.import_pyrefact()
    ctx2 = ctx
    spelled = [d for b in breaks for d in b.get("inputs", []) if d.get("iter")]
    if spelled:
        hit = spelling_search(spelled)
        if hit:
            return hit
    # first the statements on which is_blocking and the model disagree, each followed by an observable statement, at function
    # level and inside a loop; then the general oracle
    bodies = []
    for b in breaks:
        for d in b.get("inputs", []):
            if "stmt" in d:
                bodies.append([d["stmt"]])
                bodies.append([["for", "unk", [d["stmt"], ["simple"]]]])
                bodies.append([["while", "unk", [d["stmt"], ["simple"]]]])
    found = unreachable_oracle(ctx2, only_bodies=bodies[:600]).disagreements[:3] if bodies else []
    found += unreachable_oracle(ctx2).disagreements[:3] + position_probe(ctx2).disagreements[:3]
    if not found:
        ctx2.thorough = True
        found = unreachable_oracle(ctx2).disagreements[:3]
    return found


def replay(ctx, inp):
    common.import_pyrefact()
    from pyrefact import fixes
    if "expr" in inp:
        return bool([d for d in position_probe(ctx).disagreements if d["expr"] == inp["expr"]])
    if "iter" in inp and "rule" in inp:
        return bool(spelling_search([inp]))
    out = fixes.delete_unreachable_code(inp["src"])
    print(out)
    return out == inp.get("out")
