"""C06 - results are deterministic across processes, hash seeds and worker schedules.
Proof: order-independence theorems (Props/C06.lean).  Ties: suite `formatfiles` (real format_files with a stub per-file formatter
installed before the pool forks, on generated directory trees, n_cores in {1,2,5,16}, shuffled file lists: final contents,
return value and the per-pass call log vs the model), the scheduler suites (C10).  Oracles on the real tool: the same inputs
formatted under different PYTHONHASHSEED values in fresh processes; real format_files with 1 vs many workers and shuffled lists."""
from __future__ import annotations

import importlib
import json
import os
import shutil
import subprocess
import sys
import tempfile
from pathlib import Path

import common
import oracles
import sweep
from common import Suite

TRUSTED = ["C06: multiprocessing.Pool.starmap returns results in submission order; each worker writes only its own file",
           "C06: address-space layout (id-based set order of AST nodes) is exercised only by process restarts / hash seeds"]
ASSUMPTIONS = ["per-file formatting is a pure function of the file (C05)"]


def stub_format_file(filename, preserve=frozenset(), safe=False):
    p = Path(filename)
    k = int(p.read_text())
    with open(p.parent.parent / "log.txt", "a") as fh:
        fh.write(p.parent.name + "/" + p.name + "\n")
    if k > 0:
        p.write_text(str(k - 1))
        return True
    return 0


def formatfiles_suite(ctx):
    main = importlib.import_module("pyrefact.main")
    s = Suite("formatfiles")
    r = ctx.rng("formatfiles")
    orig = main.format_file
    log_path = {"p": None}
    main.format_file = stub_format_file
    try:
        for _ in range(ctx.n(14, 120)):
            d = Path(tempfile.mkdtemp(prefix="c06_"))
            try:
                log_path["p"] = str(d / "log.txt")
                open(log_path["p"], "w").close()
                files = []
                fid = 0
                for fo in range(r.randint(1, 3)):
                    (d / f"pkg{fo}").mkdir()
                    for i in range(r.randint(1, 4)):
                        k = r.randint(0, 4)
                        (d / f"pkg{fo}" / f"m{i}.py").write_text(str(k))
                        files.append((fid, fo, k, d / f"pkg{fo}" / f"m{i}.py"))
                        fid += 1
                maxp = r.randint(1, 5)
                nc = r.choice([1, 2, 5, 16])
                order = list(files)
                r.shuffle(order)
                ret = main.format_files([f[3] for f in order], n_cores=nc, max_passes=maxp)
                final = [[f[0], int(f[3].read_text())] for f in files]
                calls = sorted(open(log_path["p"]).read().split())
                ans = ctx.driver.ask([{"suite": "formatfiles", "files": [[f[0], f[1], f[2]] for f in order], "max_passes": maxp}])[0]
                s.cases += 1
                s.count(f"n_cores={nc}")
                name = {f[0]: f"pkg{f[1]}/{f[3].name}" for f in files}
                model_calls = sorted(name[i] for p in ans.get("passes", []) for i in p)
                if sorted(ans.get("final", [])) != sorted(final) or bool(ret) != ans.get("changed") or calls != model_calls:
                    s.disagreements.append({"files": [[f[0], f[1], f[2]] for f in order], "max_passes": maxp, "n_cores": nc, "model": ans, "real_final": final, "real_ret": bool(ret),
                                            "real_calls": calls, "what": "format_files bookkeeping differs from the model (contents / return value / which files are formatted in which pass)"})
                if maxp >= 2 and len(files) >= 3:
                    s.nt([[f[0], f[1], f[2]] for f in order] + [maxp, nc])
            finally:
                shutil.rmtree(d, ignore_errors=True)
    finally:
        main.format_file = orig
    s.samples.append({"suite": "formatfiles", "files": [[0, 0, 2], [1, 0, 0], [2, 1, 1]], "max_passes": 3, "n_cores": 5})
    s.note = "directory trees of 1-3 folders x 1-4 files whose 'formatter' decrements a counter until 0; shuffled file lists, n_cores in {1,2,5,16}, max_passes 1-5; compared: final contents, return value, multiset of per-file calls; non-trivial = >= 2 passes and >= 3 files"
    return s


SEEDED = r"""
import sys, json
sys.path.insert(0, %r)
import warnings; warnings.simplefilter('ignore')
import pyrefact
from pyrefact import logs; logs.set_level(100)
out = []
for src, opts in json.load(sys.stdin):
    try:
        out.append(pyrefact.format_code(src, **opts))
    except Exception as e:
        out.append('EXC ' + type(e).__name__)
json.dump(out, sys.stdout)
"""


def run_seed(seed, pairs):
    env = dict(os.environ, PYTHONHASHSEED=str(seed))
    p = subprocess.run([sys.executable, "-c", SEEDED % str(common.REPO)], input=json.dumps(pairs), capture_output=True, text=True, timeout=900, env=env)
    try:
        return json.loads(p.stdout)
    except Exception:  # noqa: BLE001
        return None


def hashseed_suite(ctx):
    import concurrent.futures as cf

    s = Suite("hash-seeds", kind="oracle")
    base = sweep.baseline("C06")
    items = sweep.pick(sweep.generated_corpus(), ctx, 40) + sweep.pick(sweep.generated_corpus2(), ctx, 36) + sweep.pick(sweep.example_corpus(), ctx, 30)
    items = [it for it in items if it[0] not in base]
    seeds = list(range(8)) if ctx.thorough else [0, 1, 2, 3, 4, 5]
    pairs = [(src, {}) for (_sha, src, _fam) in items]
    # split into chunks so that each (seed, chunk) is one fresh process
    chunks = [list(range(i, len(pairs), 4)) for i in range(4)]
    jobs = [(seed, ci) for seed in seeds for ci in range(len(chunks))]
    with cf.ThreadPoolExecutor(16) as ex:
        outs = list(ex.map(lambda j: run_seed(j[0], [pairs[k] for k in chunks[j[1]]]), jobs))
    by = {}
    for (seed, ci), out in zip(jobs, outs):
        if out is None:
            continue
        for k, o in zip(chunks[ci], out):
            by.setdefault(k, {})[seed] = o
    for k, (sha, src, fam) in enumerate(items):
        s.cases += 1
        res = by.get(k, {})
        if len(res) < 2:
            continue
        s.nt(sha)
        vals = set(res.values())
        if len(vals) > 1:
            a, b = sorted(res.items())[0], next(x for x in sorted(res.items()) if x[1] != sorted(res.items())[0][1])
            s.disagreements.append({"sha": sha, "src": src, "family": fam, "seed_a": a[0], "seed_b": b[0], "out_a": a[1], "out_b": b[1],
                                    "what": f"format_code gives different output under PYTHONHASHSEED={a[0]} and {b[0]}"})
    s.samples.append({"suite": s.name, "seeds": seeds})
    s.note = f"corpus slice formatted in fresh interpreters under PYTHONHASHSEED in {seeds}; oracle: byte-identical output; non-trivial = every program"
    return s


def realfiles_suite(ctx):
    """the real format_files (real formatter) with 1 worker vs several and a shuffled list, on a tree of corpus files"""
    main = importlib.import_module("pyrefact.main")
    s = Suite("format-files-real", kind="oracle")
    r = ctx.rng("realfiles")
    progs = [src for (_sha, src, _fam) in sweep.pick(sweep.generated_corpus(), ctx, 6) + sweep.pick(sweep.generated_corpus2(), ctx, 4)]
    shim = "import os\nimport sys\nfrom string import digits\n"
    layout = {"pkg/__init__.py": shim, "pkg/compat.py": shim, "pkg/a.py": progs[0], "pkg/b.py": progs[1], "lib/__init__.py": "", "lib/c.py": progs[2],
              "lib/d.py": progs[3], "top.py": progs[4], "pkg/e.py": progs[0]}

    def run(nc, shuffle):
        d = Path(tempfile.mkdtemp(prefix="c06r_"))
        try:
            files = []
            for rel, text in layout.items():
                p = d / rel
                p.parent.mkdir(parents=True, exist_ok=True)
                p.write_text(text)
                files.append(p)
            if shuffle:
                r.shuffle(files)
            cwd = os.getcwd()
            os.chdir(d)
            try:
                ret = main.format_files(files, n_cores=nc, max_passes=2)
            finally:
                os.chdir(cwd)
            return bool(ret), {rel: (d / rel).read_text() for rel in layout}
        finally:
            shutil.rmtree(d, ignore_errors=True)

    ref = run(1, False)
    for nc, sh in [(1, True), (2, False), (4, True), (16, True)]:
        s.cases += 1
        s.nt([nc, sh])
        got = run(nc, sh)
        if got != ref:
            diff = [rel for rel in layout if got[1][rel] != ref[1][rel]]
            s.disagreements.append({"n_cores": nc, "shuffled": sh, "files_differing": diff, "ret_ref": ref[0], "ret": got[0], "layout": layout,
                                    "what": f"format_files with n_cores={nc}{' and a shuffled list' if sh else ''} differs from the sequential run (files {diff}, changed flag {ref[0]} vs {got[0]})"})
    s.note = "a 9-file tree (two packages with __init__.py, byte-identical files, corpus programs) formatted by the real format_files with n_cores 1/2/4/16 and shuffled lists; oracle: same files and change flag as the sequential run"
    return s


def suites(ctx):
    common.import_pyrefact()
    from props import c05

    # the per-file function must not depend on what the worker formatted before: the purity oracle of C05 (every object
    # held by a cache is unchanged after each rule call) is the hypothesis under which worker assignment cannot matter
    return [formatfiles_suite(ctx), hashseed_suite(ctx), realfiles_suite(ctx)] + c05.purity_suite(ctx)


def match_known(d, known):
    return sweep.match_known_sha(d, known)


def search(ctx, breaks):
    common.import_pyrefact()
    return (realfiles_suite(ctx).disagreements + hashseed_suite(ctx).disagreements)[:5]


def replay(ctx, inp):
    if "src" in inp:
        a = run_seed(inp["seed_a"], [(inp["src"], {})])
        b = run_seed(inp["seed_b"], [(inp["src"], {})])
        print(a == b)
        return a != b
    common.import_pyrefact()
    return bool(realfiles_suite(ctx).disagreements)
