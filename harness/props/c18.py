"""C18 - import normalisation keeps every referenced name bound to the same object.
Proof: binding semantics of import lists (Props/C18.lean): reordering is safe iff the bound names are distinct (theorem + counterexample).
Tie: suite `binding`: the model's (name -> module, attribute) environment vs what CPython really binds when the import block is executed
(stdlib modules).  Oracle: clients of generated package trees on disk (re-export chains, aliases, star imports, __all__, packages with
__init__) formatted by the import rules / format_code inside the tree; every referenced global must resolve to the same object."""
from __future__ import annotations

import ast
import json
import os
import shutil
import subprocess
import sys
import tempfile
from pathlib import Path

import common
import oracles
from common import Suite

TRUSTED = ["C18: importlib resolution, stdlib introspection and moving imports across statements with effects are outside the model (execution oracle only)"]
ASSUMPTIONS = []

STMTS = [("plain", "os", None), ("plain", "os.path", None), ("plain", "os.path", "p"), ("plain", "json", "js"), ("from", "os", "path", None), ("from", "os", "sep", "s"),
         ("from", "json", "dumps", None), ("from", "json", "loads", "dumps"), ("from", "os.path", "join", None), ("from", "os.path", "join", "j"), ("plain", "collections.abc", None),
         ("from", "collections", "abc", None), ("from", "math", "floor", "x"), ("from", "math", "ceil", "x"), ("plain", "math", "x")]


def stmt_text(st):
    if st[0] == "plain":
        return f"import {st[1]}" + (f" as {st[2]}" if st[2] else "")
    return f"from {st[1]} import {st[2]}" + (f" as {st[3]}" if st[3] else "")


def binding_suite(ctx):
    import importlib

    s = Suite("binding")
    r = ctx.rng("binding")
    cases = [r.sample(STMTS, r.randint(1, 5)) for _ in range(ctx.n(300, 4000))]
    answers = ctx.driver.ask([{"suite": "imports", "imports": [list(st) for st in c]} for c in cases])
    for c, ans in zip(cases, answers):
        s.cases += 1
        env = {}
        exec("\n".join(stmt_text(st) for st in c), env)
        ok = True
        for name, mod, attr in ans.get("env", []):
            want = importlib.import_module(mod) if attr is None else getattr(importlib.import_module(mod), attr)
            if env.get(name) is not want:
                ok = False
        if not ok or "env" not in ans:
            s.disagreements.append({"imports": [stmt_text(st) for st in c], "model": ans.get("env"), "what": "the model's environment is not what CPython binds"})
        if len({m[0] for m in ans.get("env", [])}) < len(c):
            s.nt([stmt_text(st) for st in c])
    s.samples.append({"suite": "binding", "imports": ["import os.path", "from math import floor as x", "import math as x"], "env": {"os": "os", "x": "math"}})
    s.note = "random lists of 1-5 import statements over 15 stdlib forms (dotted, aliased, from-imports, colliding aliases): model environment vs the objects CPython binds; non-trivial = some name bound twice"
    return s


TREE = {
    "pkg/__init__.py": "from pkg.core import parse, render\nfrom pkg.extra import *\n__all__ = ['parse', 'render', 'shout']\n",
    "pkg/core.py": "def parse(x):\n    return ('core.parse', x)\n\n\ndef render(x):\n    return ('core.render', x)\n\n\ndef hidden(x):\n    return ('core.hidden', x)\n",
    "pkg/extra.py": "__all__ = ['shout']\n\n\ndef shout(x):\n    return ('extra.shout', x)\n\n\ndef parse(x):\n    return ('extra.parse', x)\n",
    "legacy.py": "def parse(x):\n    return ('legacy.parse', x)\n\n\ndef load(x):\n    return ('legacy.load', x)\n",
    "modern.py": "__all__ = ['load']\n\n\ndef load(x):\n    return ('modern.load', x)\n\n\ndef parse(x):\n    return ('modern.parse', x)\n",
    "chain_a.py": "from chain_b import deep\n",
    "chain_b.py": "from chain_c import deep\n",
    "chain_c.py": "def deep(x):\n    return ('chain_c.deep', x)\n",
    # re-exports under another name: swapped, shadowing another export, chained, module aliases
    "swap.py": "from legacy import parse as load, load as parse\n",
    "compat.py": "from legacy import load as old_load, parse as load\n",
    "compat_rev.py": "from legacy import parse as load, load as old_load\n",
    "rename_chain.py": "from swap import load as fetch\nfrom compat import old_load as fetch_old\n",
    "modalias.py": "import legacy as backend\nimport modern as legacy_like\n",
    "relpkg/__init__.py": "from .inner import value as exported, other as value\n",
    "relpkg/inner.py": "def value(x):\n    return ('inner.value', x)\n\n\ndef other(x):\n    return ('inner.other', x)\n",
    # __all__ in its other spellings, and a re-imported name that the module goes on to change
    "alls.py": "y = ('alls', 1)\nw = ('alls', 2)\nz = ('alls', 3)\nv = ('alls', 4)\n__all__ = ['y']\n__all__ += ('w',)\n__all__.append('z')\n",
    "tuple_alls.py": "y = ('tuple_alls', 1)\nw = ('tuple_alls', 2)\n__all__ = ('y',)\n",
    "fallback.py": "y = ('fallback', 1)\nw = ('fallback', 2)\nz = ('fallback', 3)\nv = ('fallback', 4)\n",
    "counter_src.py": "count = 1\n",
    "counter.py": "from counter_src import count\ncount += 1\n",
    # a module that re-exports through a relative import, next to a top-level module of the same name; a module whose star import provides a stdlib-looking name
    "relpkg/viarel.py": "from .inner import value\n",
    "inner.py": "def value(x):\n    return ('top-level inner.value', x)\n",
    "stamps.py": "from datetime import datetime\nepoch = 0\n",
    # a module that provides a name which is also a builtin; a module that passes a star import on and binds a name no tracer sees
    "shadow.py": "def open():\n    return ('shadow.open',)\n\n\nrow = ('shadow.row',)\n",
    "passes_on.py": "from legacy import *\nglobals()['dyn'] = ('passes_on.dyn',)\n",
}
CLIENTS = {
    "star_two": "from legacy import *\nfrom modern import *\nprint(parse(1), load(2))\n",
    "star_pkg": "from pkg import *\nprint(parse(1), render(2), shout(3))\n",
    "reexport": "from pkg import parse, shout\nfrom chain_a import deep\nprint(parse(1), shout(2), deep(3))\n",
    "alias": "import pkg.core as pc\nfrom pkg.core import render as r\nimport legacy as lg\nprint(pc.parse(1), r(2), lg.load(3))\n",
    "dup_unused": "import os\nimport os\nimport sys\nimport json\nfrom legacy import parse\nfrom legacy import parse, load\nprint(parse(1), load(2), os.sep == '/')\n",
    "in_function": "def f():\n    import legacy\n    from modern import load\n    return legacy.parse(1), load(2)\n\n\nprint(f())\n",
    "dotted": "import os.path\nimport collections.abc\nprint(os.getcwd() != '', isinstance([], collections.abc.Sequence))\n",
    "same_alias": "from legacy import load as x\nfrom modern import load as y\nprint(x(1), y(2))\n",
    "missing": "print(os.sep == '/', json.dumps([1]))\n",
    "local_aliases": "def f():\n    import legacy as first\n    return first.parse(1)\n\n\ndef g():\n    import legacy as second\n    return second.load(2)\n\n\nprint(f(), g())\n",
    "local_from_aliases": "def f():\n    from os import path\n    return path.basename('/a/b')\n\n\ndef g():\n    from os import path as osp\n    return osp.dirname('/a/b')\n\n\nprint(f(), g())\n",
    "local_stdlib_aliases": ("def f():\n    import datetime as dt\n    return dt.date(2020, 1, 2).year\n\n\ndef g():\n    import datetime as dtm\n    return dtm.date(2020, 1, 2).month\n\n\n"
                             "def h():\n    import datetime\n    return datetime.date(2020, 1, 2).day\n\n\nprint(f(), g(), h())\n"),
    "guarded": ("try:\n    import json as serializer\nexcept ImportError:\n    serializer = None\nif serializer:\n    import os as operating\nelse:\n    operating = None\n"
                "print(serializer.dumps([1]), operating.sep == '/')\n"),
    "swap": "from swap import load, parse\nprint(load(1), parse(2))\n",
    "compat": "from compat import load, old_load\nprint(load(1), old_load(2))\n",
    "compat_rev": "from compat_rev import load, old_load\nprint(load(1), old_load(2))\n",
    "compat_one": "from compat import load\nprint(load(1))\n",
    "rename_chain": "from rename_chain import fetch, fetch_old\nprint(fetch(1), fetch_old(2))\n",
    "modalias": "from modalias import backend, legacy_like\nprint(backend.load(1), legacy_like.load(2))\n",
    "relpkg": "from relpkg import exported, value\nprint(exported(1), value(2))\n",
    "all_spellings": "from fallback import *\nfrom alls import *\nprint(y, w, z, v)\n",
    "all_tuple": "from fallback import *\nfrom tuple_alls import *\nprint(y, w)\n",
    "augmented": "from counter import count\nprint(count)\n",
    "relative_reexport": "from relpkg.viarel import value\nprint(value(1))\n",
    "stdlib_dotted_star": "from os import *\nfrom os.path import *\nprint(getcwd() != '', join('a', 'b'))\n",
    "star_hides_missing": "from stamps import *\nprint(datetime(2020, 1, 2).year, epoch)\n",
    "star_shadows_builtin": "from shadow import *\nprint(open(), row)\n",
    "star_and_inner_binding": "from shadow import *\nprint(row, [0 for row in []])\n",
    "star_partly_traced": "from passes_on import *\nprint(parse(1), dyn)\n",
    "rebinding_alias": "import legacy as lg\nprint(lg.load(1))\nimport modern as lg\nprint(lg.load(2))\n",
    "alias_of_alias": "from compat import load as ld\nfrom swap import parse as ps\nprint(ld(1), ps(2))\n",
    "toplevel_then_local": "import legacy\n\n\ndef f():\n    import legacy as lg\n    from legacy import load as ld\n    return lg.parse(1), ld(2), legacy.load(3)\n\n\nprint(f())\n",
}
RULES = ["format_code", "tracing.fix_starred_imports", "tracing.fix_reimported_names", "fixes.remove_unused_imports", "fixes.fix_duplicate_imports", "fixes.sort_imports",
         "fixes.move_imports_to_toplevel", "fixes.add_missing_imports"]

RUNNER = r"""
import sys, json, os
sys.path.insert(0, %r)
import warnings; warnings.simplefilter('ignore')
import pyrefact, importlib
from pyrefact import logs; logs.set_level(100)
rule, src = json.load(sys.stdin)
if rule == 'format_code':
    out = pyrefact.format_code(src, safe=True)
else:
    m, f = rule.rsplit('.', 1)
    out = getattr(importlib.import_module('pyrefact.' + m), f)(src)
json.dump(out, sys.stdout)
"""


def tree_oracle(ctx):
    s = Suite("package-tree", kind="oracle")
    known_bad = set()
    d = Path(tempfile.mkdtemp(prefix="c18_"))
    try:
        for rel, text in TREE.items():
            p = d / rel
            p.parent.mkdir(parents=True, exist_ok=True)
            p.write_text(text)
        env = dict(os.environ, PYTHONPATH=str(d))

        def run_client(src):
            (d / "client_run.py").write_text(src)
            p = subprocess.run([sys.executable, "client_run.py"], cwd=d, capture_output=True, text=True, timeout=60, env=env)
            return p.returncode, p.stdout

        import concurrent.futures as cf
        import itertools as _it

        counter = _it.count()

        def run_client_named(src):
            k = next(counter)
            name = f"client_run_{k}.py"
            (d / name).write_text(src)
            p = subprocess.run([sys.executable, name], cwd=d, capture_output=True, text=True, timeout=60, env=env)
            return p.returncode, p.stdout

        jobs = [(cname, csrc, rule) for cname, csrc in CLIENTS.items() for rule in RULES
                if not (cname == "missing" and rule not in ("format_code", "fixes.add_missing_imports"))]

        def one(job):
            cname, csrc, rule = job
            before = run_client_named(csrc)
            # each (client, rule) in a fresh interpreter started inside the tree (tracing caches are per process / cwd)
            p = subprocess.run([sys.executable, "-c", RUNNER % str(common.REPO)], input=json.dumps([rule, csrc]), cwd=d, capture_output=True, text=True, timeout=300, env=env)
            try:
                out = json.loads(p.stdout)
            except Exception:  # noqa: BLE001
                return None
            if out == csrc:
                return (cname, csrc, rule, out, before, None)
            return (cname, csrc, rule, out, before, run_client_named(out))

        with cf.ThreadPoolExecutor(12) as ex:
            results = list(ex.map(one, jobs))
        for res in results:
            s.cases += 1
            if res is None or res[5] is None:
                continue
            cname, csrc, rule, out, before, after = res
            s.nt([cname, rule])
            ok = (after[0] == 0) if cname == "missing" else (after == before)
            if not ok:
                s.disagreements.append({"client": cname, "rule": rule, "src": csrc, "out": out, "before": list(before), "after": list(after),
                                        "what": f"{rule} on client '{cname}': the client resolves names differently afterwards ({before[1].strip()[:80]!r} -> {after[1].strip()[:80]!r}, rc {after[0]})"})
    finally:
        shutil.rmtree(d, ignore_errors=True)
    s.note = ("an 8-module package tree on disk (package __init__ re-exporting with __all__, two modules defining the same name with and without __all__, a 3-step re-export chain) x 14 clients "
              "(two star imports, star from a package, re-exports, aliases, duplicates, imports inside a function - also under different aliases -, guarded imports, dotted stdlib, same alias, missing imports) x 8 import rules / format_code, "
              "each in a fresh interpreter inside the tree: client output before == after")
    return s


HISTORY_RUNNER = r"""
import sys, json, os
sys.path.insert(0, %r)
import warnings; warnings.simplefilter('ignore')
import pyrefact
from pyrefact import logs, tracing; logs.set_level(100)
steps = json.load(sys.stdin)
out = []
for cwd, src in steps:
    os.chdir(cwd)
    out.append(tracing.fix_reimported_names(tracing.fix_starred_imports(src)))
json.dump(out, sys.stdout)
"""


def history_oracle(ctx):
    """two checkouts in which the same module name resolves to different files; refactor a client in the first, then a (different) client
    in the second, in ONE process; the second result must equal what a fresh process gives"""
    s = Suite("tree-history", kind="oracle")
    base = Path(tempfile.mkdtemp(prefix="c18h_"))
    try:
        for k, origin in (("one", "legacy"), ("two", "modern")):
            d = base / k
            d.mkdir()
            for rel, text in TREE.items():
                p = d / rel
                p.parent.mkdir(parents=True, exist_ok=True)
                p.write_text(text)
            (d / "shim.py").write_text(f"from {origin} import load\nfrom {origin} import *\n")
        c1 = "from shim import load\nprint(load(1))\n"
        c2 = "from shim import load\nfrom shim import *\nprint(load(2))\n"
        env = dict(os.environ)

        def run(steps):
            # -P: no implicit current directory on sys.path (as under `python -m`, an installed console script or a worker of the pool): the resolver's own
            # handling of the working directory is then what decides which file a module name denotes
            p = subprocess.run([sys.executable, "-P", "-c", HISTORY_RUNNER % str(common.REPO)], input=json.dumps(steps), capture_output=True, text=True, timeout=300, env=env)
            try:
                return json.loads(p.stdout)
            except Exception:  # noqa: BLE001
                return None
        # first steps that make module resolution fail on the way (a dotted import whose parent package is missing, a missing module behind a star
        # import, a relative import outside a package): whatever the resolver does to the process on those paths must be undone
        failing = ["import missingpkg.sub\nfrom shim import load\nprint(load(1))\n", "from missingpkg.sub.deep import thing\nprint(thing)\n", "from nothere import *\nfrom shim import load\nprint(load(1))\n",
                   "from . import sibling\nfrom shim import *\nprint(load(1))\n", "import os.path.nothing\nfrom shim import *\nprint(load(1))\n"]
        pairs = [(("one", c1), ("two", c2)), (("two", c1), ("one", c2))]
        pairs += [(("one", f), ("two", c2)) for f in failing] + [(("two", failing[0]), ("one", c2))]
        for first, second in pairs:
            s.cases += 1
            s.nt([first[0], second[0]])
            both = run([[str(base / first[0]), first[1]], [str(base / second[0]), second[1]]])
            fresh = run([[str(base / second[0]), second[1]]])
            if both is None or fresh is None:
                continue
            if both[1] != fresh[0]:
                s.disagreements.append({"history": [list(first), list(second)], "after_history": both[1], "fresh": fresh[0],
                                        "what": f"re-export tracing of a client in checkout '{second[0]}' after another client in checkout '{first[0]}' (same process) differs from a fresh process: {both[1]!r} vs {fresh[0]!r}"})
    finally:
        shutil.rmtree(base, ignore_errors=True)
    s.note = ("two checkouts where `shim` re-exports `load` from different modules; client 1 traced in one - also clients whose imports cannot be resolved (missing parent package, missing module behind a star import, "
              "relative import outside a package) - then client 2 (different text) in the other, same process, vs a fresh process")
    return s


# ---------------------------------------------------------------------------- translation validation of the import rules on import headers

def import_list(src):
    """the module's top-level import statements as model statements, in order (None if a form is outside the model)"""
    out = []
    for node in ast.parse(src).body:
        if isinstance(node, ast.Import):
            for a in node.names:
                out.append(["plain", a.name, a.asname])
        elif isinstance(node, ast.ImportFrom):
            if node.level or any(a.name == "*" for a in node.names):
                return None
            for a in node.names:
                out.append(["from", node.module, a.name, a.asname])
    return out


def used_names(src):
    tree = ast.parse(src)
    names = []
    for node in tree.body:
        if isinstance(node, (ast.Import, ast.ImportFrom)):
            continue
        for n in ast.walk(node):
            if isinstance(n, ast.Name) and isinstance(n.ctx, ast.Load) and n.id not in names:
                names.append(n.id)
    return names


def bound_objects(src, names):
    """what CPython binds: the objects of `names` after executing the import statements of src"""
    env = {}
    header = "\n".join(ast.unparse(n) for n in ast.parse(src).body if isinstance(n, (ast.Import, ast.ImportFrom)))
    try:
        exec(header, env)
    except Exception as ex:  # noqa: BLE001
        return ("exc", type(ex).__name__)
    return tuple(id(env[n]) if n in env else None for n in names)


def import_root_cause(src, names):
    """'colliding-names' when every name that changed its object is bound by two import statements of the input to different things (the recorded
    finding: their order decides); anything else is a different violation"""
    targets = {}
    for st in import_list(src) or []:
        if st[0] == "plain":
            name, target = (st[2], st[1]) if st[2] else (st[1].split(".")[0], st[1].split(".")[0])
        else:
            name, target = (st[3] or st[2]), (st[1], st[2])
        targets.setdefault(name, set()).add(target)
    return "colliding-names" if names and all(len(targets.get(n, ())) > 1 for n in names) else "other"


VALIDATED_RULES = ["fixes.remove_unused_imports", "fixes.fix_duplicate_imports", "fixes.sort_imports", "fixes.fix_import_spacing", "fixes.move_imports_to_toplevel", "format_code"]


def import_validate_suite(ctx):
    """every output of the real import rules on generated import headers is validated by the model: the names the module uses are bound to the same
    objects before and after (C18.import_rewrite_check_sound); a rejected rewrite is executed to see what CPython binds"""
    import pyrefact

    s = Suite("import-validate", kind="oracle")
    corr = Suite("import-validate-model")
    r = ctx.rng("import-validate")
    progs = []
    uses = {"os": "os.sep", "p": "p.sep", "js": "js.dumps", "path": "path.sep", "s": "s", "dumps": "dumps", "join": "join", "j": "j", "collections": "collections.abc", "abc": "abc.Sized", "x": "x", "json": "json.dumps", "math": "math.pi"}
    for _ in range(ctx.n(260, 3000)):
        stmts = [r.choice(STMTS) for _ in range(r.randint(1, 6))]
        if r.random() < 0.3:
            stmts.append(r.choice(stmts))  # an exact duplicate
        if r.random() < 0.3:
            stmts.insert(0, ("plain", "json", None))
        if r.random() < 0.3:
            stmts.append(("plain", "math", None))
        bound = []
        for st in stmts:
            b = (st[2] or st[1].split(".")[0]) if st[0] == "plain" else (st[3] or st[2])
            if b not in bound:
                bound.append(b)
        used = [b for b in bound if r.random() < 0.6] or bound[:1]
        lines = [stmt_text(st) for st in stmts]
        if r.random() < 0.25:  # stacked spelling of neighbouring plain imports
            lines = [", ".join(lines[:2]).replace(", import ", ", ")] + lines[2:] if len(lines) > 1 and all(l.startswith("import ") for l in lines[:2]) else lines
        body = "".join(f"print({uses[u]} is not None)\n" for u in used)
        progs.append("\n".join(lines) + "\n\n" + body)
    progs = list(dict.fromkeys(progs))
    reqs, metas = [], []
    for src in progs:
        try:
            before = import_list(src)
            used = used_names(src)
        except SyntaxError:
            continue
        if before is None:
            continue
        for rule in VALIDATED_RULES:
            try:
                out = pyrefact.format_code(src) if rule == "format_code" else oracles.resolve_rule(rule)(src)
                after = import_list(out)
                used_after = used_names(out)
            except Exception:  # noqa: BLE001  (C03 / C04 look at these)
                continue
            if after is None or out == src:
                continue
            if used_after != used:
                continue  # the rule rewrote the uses as well: outside this validator
            reqs.append({"suite": "importcheck", "before": before, "after": after, "used": used})
            metas.append((src, rule, out, used))
    answers = ctx.driver.ask(reqs)
    for (src, rule, out, used), ans in zip(metas, answers):
        s.cases += 1
        corr.cases += 1
        s.count(rule)
        s.nt([src, rule])
        real_same = bound_objects(src, used) == bound_objects(out, used)
        if ans.get("agree") is True:
            s.count("validated by the theorem")
            if not real_same:
                corr.disagreements.append({"src": src, "rule": rule, "out": out, "what": "the model accepts an import rewrite after which CPython binds another object"})
            continue
        s.count("rejected by the validator")
        if real_same:
            corr.disagreements.append({"src": src, "rule": rule, "out": out, "differ": ans.get("differ"), "what": "the model rejects an import rewrite that CPython does not distinguish"})
        else:
            s.disagreements.append({"sha": oracles.sha(src), "src": src, "rule": rule, "out": out, "names": ans.get("differ"), "client": "import-validate", "root": import_root_cause(src, ans.get("differ") or []),
                                    "what": f"{rule}: after the rewrite of the import statements the used name(s) {ans.get('differ')} are bound to another object (or to none)"})
    s.samples.append({"suite": "import-validate", "before": ["import os", "import json"], "after": ["import os"], "used": ["os"], "agree": True})
    s.note = ("generated import headers (1-8 statements over 15 stdlib forms: dotted, aliased, from-imports, colliding aliases, exact duplicates, stacked spelling) followed by uses of a random subset of the bound names: "
              "every changed output of remove_unused_imports, fix_duplicate_imports, sort_imports, fix_import_spacing, move_imports_to_toplevel and format_code is handed to the model's validator (agreeOn: the used names are bound "
              "to the same objects before and after, C18.import_rewrite_check_sound); a rejected rewrite is executed: another object bound = violation; non-trivial = every validated rewrite")
    corr.note = "same rewrites: the validator's verdict vs what CPython binds for the used names (identity of the bound objects) - ties the verdicts of the model to the interpreter"
    return [s, corr]


STAR_MODULES = ["legacy", "modern", "shadow", "fallback", "alls", "tuple_alls", "stamps", "pkg", "chain_c"]
STAR_RUNNER = r"""
import sys, json, os
sys.path.insert(0, %r)
import warnings; warnings.simplefilter('ignore')
from pyrefact import logs, tracing; logs.set_level(100)
mods, clients = json.load(sys.stdin)
provided = {}
for m in mods:
    ns = {}
    exec('from ' + m + ' import *', ns)
    provided[m] = sorted(k for k in ns if k != '__builtins__')
outs = []
for src in clients:
    try:
        outs.append(tracing.fix_starred_imports(src))
    except Exception as e:
        outs.append({'error': type(e).__name__ + ': ' + str(e)})
json.dump([provided, outs], sys.stdout)
"""


def star_clients(rng, mod, provided):
    """clients with one star import of `mod`: loads of provided names, builtins, names bound in the client (module level, a
    comprehension, a function parameter - possibly names the module provides too), sometimes a name nobody provides"""
    import builtins as _b
    pool = list(provided) or ["nothing"]
    out = []
    for _ in range(6):
        loads = rng.sample(pool, rng.randint(0, min(3, len(pool))))
        lines = [f"from {mod} import *"]
        if rng.random() < 0.4:
            loads.append(rng.choice(["len", "open", "print", "sorted"]))
        if rng.random() < 0.35:
            v = rng.choice(pool + ["local_value"])
            lines.append(f"squares = [{v} for {v} in range(3)]")
            loads.append("squares")
        if rng.random() < 0.3:
            v = rng.choice(pool + ["param"])
            lines.append(f"def helper({v}):\n    return {v}")
            loads.append("helper")
        if rng.random() < 0.25:
            v = rng.choice(pool + ["setting"])
            lines.append(f"{v} = 3")
            loads.append(v)
        if rng.random() < 0.2:
            loads.append(rng.choice(["mystery_name", "__file__"]))
        lines.append("print(" + ", ".join(loads) + ")" if loads else "print(0)")
        out.append("\n".join(lines) + "\n")
    return out


def star_model_suite(ctx):
    """StarImport.expand against the real tracing.fix_starred_imports on generated clients of the package tree"""
    import ast
    import builtins as _b
    import random
    s = Suite("star-expansion")
    rng = random.Random(9100 + ctx.seed)
    d = Path(tempfile.mkdtemp(prefix="c18s_"))
    try:
        for rel, text in TREE.items():
            p = d / rel
            p.parent.mkdir(parents=True, exist_ok=True)
            p.write_text(text)
        env = dict(os.environ, PYTHONPATH=str(d))
        # the names each module really star-exports, from Python itself
        p0 = subprocess.run([sys.executable, "-c", STAR_RUNNER % str(common.REPO)], input=json.dumps([STAR_MODULES, []]), cwd=d, capture_output=True, text=True, timeout=300, env=env)
        if not p0.stdout.strip():
            raise RuntimeError(p0.stderr[-600:])
        provided = json.loads(p0.stdout)[0]
        fixed = [("shadow", "from shadow import *\nprint(open(), row)\n"), ("shadow", "from shadow import *\nprint(row, [0 for row in []])\n"),
                 ("legacy", "from legacy import *\nprint(parse(1), mystery_name)\n"), ("legacy", "from legacy import *\nprint(__file__, load(1))\n"),
                 ("legacy", "from legacy import *\nprint(1)\n")]
        clients = fixed + [(m, c) for m in STAR_MODULES for c in star_clients(rng, m, provided[m])]
        p1 = subprocess.run([sys.executable, "-c", STAR_RUNNER % str(common.REPO)], input=json.dumps([[], [c for _m, c in clients]]), cwd=d, capture_output=True, text=True, timeout=600, env=env)
        outs = json.loads(p1.stdout)[1]
    finally:
        shutil.rmtree(d, ignore_errors=True)
    builtin_names = {n for n in dir(_b) if n != "_"}
    reqs = []
    for (m, src) in clients:
        tree = ast.parse(src)
        referenced = sorted({n.id for n in ast.walk(tree) if isinstance(n, ast.Name) and isinstance(n.ctx, ast.Load)})
        bound = {n.id for n in ast.walk(tree) if isinstance(n, ast.Name) and isinstance(n.ctx, ast.Store)}
        bound |= {n.name for n in ast.walk(tree) if isinstance(n, (ast.FunctionDef, ast.ClassDef))}
        bound |= {a.arg for n in ast.walk(tree) if isinstance(n, ast.arguments) for a in n.args}
        undefined = [n for n in referenced if n not in bound and n not in builtin_names]
        reqs.append({"suite": "starimport", "referenced": referenced, "undefined": undefined, "provided": provided[m]})
    answers = ctx.driver.ask(reqs)
    for (m, src), out, req, ans in zip(clients, outs, reqs, answers):
        s.cases += 1
        if isinstance(out, dict):
            s.disagreements.append({"client": "star-model", "src": src, "what": f"fix_starred_imports raised {out['error']}"})
            continue
        otree = ast.parse(out)
        froms = [n for n in otree.body if isinstance(n, ast.ImportFrom) and n.module == m]
        if any(a.name == "*" for n in froms for a in n.names):
            real = None
        else:
            real = sorted({a.name for n in froms for a in n.names})
        model = ans.get("expand")
        model = None if model is None else sorted(set(model))
        s.count("kept" if real is None else ("deleted" if not real else f"{len(real)} names"))
        if model != real:
            s.disagreements.append({"client": "star-model", "module": m, "src": src, "out": out, "model": model, "real": real, "request": req,
                                    "what": f"fix_starred_imports on 'from {m} import *': explicit names {real} (None = star import kept), the model says {model}"})
        elif real and (set(real) & builtin_names or len(real) > 1):
            s.nt(src)
    s.samples.append({"suite": "star-expansion", "src": fixed[0][1], "expand": ["open", "row"]})
    s.note = ("5 fixed + 48 generated clients (per seed) holding one star import of 8 modules of the package tree (plain, __all__, __all__ built in steps, package __init__, re-exporting, "
              "a provided name that is a builtin): the explicit list the real fix_starred_imports writes (or that it keeps / deletes the star import) vs StarImport.expand, "
              "fed with the names Python itself star-imports from the module and with referenced / undefined names collected by the harness from the ast")
    return s


def suites(ctx):
    common.import_pyrefact()
    return [binding_suite(ctx), star_model_suite(ctx), tree_oracle(ctx), history_oracle(ctx)] + import_validate_suite(ctx)


def match_known(d, known):
    for k in known:
        w = k.get("witness", {}) if k["kind"] == "finding" else {}
        if k["kind"] == "finding" and k["id"] == "import-order-colliding-names" and d.get("client") == "import-validate" and d.get("root") == "colliding-names":
            return k
        if w and w.get("client") == d.get("client") and w.get("rule") == d.get("rule"):
            return k
    return None


def search(ctx, breaks):
    common.import_pyrefact()
    return (tree_oracle(ctx).disagreements + history_oracle(ctx).disagreements)[:5]


def replay_witness(ctx, kf):
    common.import_pyrefact()
    w = kf["witness"]
    if "src" not in w or "names" not in w:
        return None
    out = oracles.resolve_rule(w["rule"])(w["src"])
    return bound_objects(w["src"], w["names"]) != bound_objects(out, w["names"])


def replay(ctx, inp):
    common.import_pyrefact()
    if inp.get("client") == "import-validate":
        import pyrefact

        out = pyrefact.format_code(inp["src"]) if inp["rule"] == "format_code" else oracles.resolve_rule(inp["rule"])(inp["src"])
        names = inp.get("names") or used_names(inp["src"])
        print(out)
        return bound_objects(inp["src"], names) != bound_objects(out, names)
    ds = [d for d in tree_oracle(ctx).disagreements if d["client"] == inp.get("client") and d["rule"] == inp.get("rule")]
    print(ds[:1])
    return bool(ds)
